package server

import (
	"fmt"
	"net/http"
	"net/http/httptest"
	"strings"
	"testing"
	"time"

	"perkeep.org/internal/httputil"
	"perkeep.org/pkg/blob"
	"perkeep.org/pkg/blobserver"
	"perkeep.org/pkg/test"
)

// Only a share claim of the "haveref" auth type lets somebody who knows its
// blobref (and nothing else) fetch blobs. A claim of claimType "share" with
// any other (unknown, future, e.g. secret based) auth type is not something
// the unauthenticated share endpoint may honor.
func TestMut6C17ShareOfOtherAuthType(t *testing.T) {
	defer func(f func(time.Duration)) { timeSleep = f }(timeSleep)
	timeSleep = func(time.Duration) {}
	defer test.TLog(t)()

	sto := new(test.Fetcher)
	// Mounted as serverinit does: at /share/, without any auth wrapper.
	h := &httputil.PrefixHandler{Prefix: "/share/", Handler: &shareHandler{fetcher: sto}}
	put := func(data string) blob.Ref {
		ref := blob.RefFromString(data)
		if _, err := blobserver.Receive(ctxbg, sto, ref, strings.NewReader(data)); err != nil {
			t.Fatalf("storing %v: %v", ref, err)
		}
		return ref
	}
	get := func(target blob.Ref, via ...blob.Ref) int {
		u := "http://pk.example.com/share/" + target.String()
		if len(via) > 0 {
			var vs []string
			for _, v := range via {
				vs = append(vs, v.String())
			}
			u += "?via=" + strings.Join(vs, ",")
		}
		rr := httptest.NewRecorder()
		h.ServeHTTP(rr, httptest.NewRequest("GET", u, nil))
		return rr.Code
	}

	secret := put("the secret content")
	file := put(fmt.Sprintf(`{"camliVersion": 1,
  "camliType": "file",
  "fileName": "secret.txt",
  "parts": [{"blobRef": %q, "size": 18}]
}`, secret))
	signer := blob.RefFromString("some public key")
	share := func(authTypeField string) blob.Ref {
		return put(fmt.Sprintf(`{"camliVersion": 1,%s
  "camliSigner": %q,
  "camliType": "claim",
  "claimDate": "2023-05-06T07:08:09Z",
  "claimType": "share",
  "target": %q,
  "transitive": true
,"camliSig":"xxxx"}`, authTypeField, signer, file))
	}

	// Control: a regular share works, the whole chain down.
	ok := share(`
  "authType": "haveref",`)
	if got := get(ok); got != http.StatusOK {
		t.Fatalf("haveref share claim itself: status %d, want 200", got)
	}
	if got := get(secret, ok, file); got != http.StatusOK {
		t.Fatalf("content through haveref share: status %d, want 200", got)
	}

	for _, field := range []string{
		``, // no auth type at all
		`
  "authType": "password",`,
		`
  "authType": "HaveRef",`,
		`
  "authType": "none",`,
	} {
		sh := share(field)
		if got := get(sh); got != http.StatusUnauthorized {
			t.Errorf("share claim with %q, the claim itself: status %d, want 401", strings.TrimSpace(field), got)
		}
		if got := get(file, sh); got != http.StatusUnauthorized {
			t.Errorf("share claim with %q, its target: status %d, want 401", strings.TrimSpace(field), got)
		}
		if got := get(secret, sh, file); got != http.StatusUnauthorized {
			t.Errorf("share claim with %q, content of the target: status %d, want 401", strings.TrimSpace(field), got)
		}
	}
}
