package handlers_test

import (
	"bytes"
	"context"
	"io"
	"net/http"
	"net/http/httptest"
	"strings"
	"testing"

	"perkeep.org/pkg/blob"
	"perkeep.org/pkg/blobserver/handlers"
	"perkeep.org/pkg/blobserver/memory"
)

// TestMutC18PutStreamedBody uploads blobs with the single-blob PUT form of the
// upload protocol, once with a declared Content-Length and once with a
// streamed body (unknown length, so net/http uses chunked transfer encoding),
// and checks that the storage then holds exactly the uploaded bytes.
func TestMutC18PutStreamedBody(t *testing.T) {
	sto := new(memory.Storage)
	put := handlers.CreatePutUploadHandler(sto)
	ts := httptest.NewServer(http.HandlerFunc(func(rw http.ResponseWriter, req *http.Request) {
		if req.Method != "PUT" {
			http.Error(rw, "only PUT here", http.StatusMethodNotAllowed)
			return
		}
		put.ServeHTTP(rw, req)
	}))
	defer ts.Close()

	check := func(t *testing.T, data string) {
		t.Helper()
		br := blob.RefFromString(data)
		rc, size, err := sto.Fetch(context.Background(), br)
		if err != nil {
			t.Fatalf("Fetch(%v) after the PUT: %v", br, err)
		}
		defer rc.Close()
		got, _ := io.ReadAll(rc)
		if int(size) != len(data) || string(got) != data {
			t.Fatalf("stored blob %v = %d bytes %q; want %d bytes %q", br, size, got, len(data), data)
		}
	}

	t.Run("content-length", func(t *testing.T) {
		data := "a blob sent with a Content-Length"
		req, err := http.NewRequest("PUT", ts.URL+"/camli/"+blob.RefFromString(data).String(), strings.NewReader(data))
		if err != nil {
			t.Fatal(err)
		}
		res, err := http.DefaultClient.Do(req)
		if err != nil {
			t.Fatal(err)
		}
		body, _ := io.ReadAll(res.Body)
		res.Body.Close()
		if res.StatusCode != http.StatusNoContent {
			t.Fatalf("PUT status = %v, body %q; want 204", res.Status, body)
		}
		check(t, data)
	})

	for _, tc := range []struct{ name, data string }{
		{"chunked-small", "a blob streamed with chunked transfer encoding"},
		{"chunked-large", strings.Repeat("0123456789abcdef", 5000)},
	} {
		t.Run(tc.name, func(t *testing.T) {
			// Hiding the concrete reader type makes the length unknown to
			// net/http: ContentLength stays 0 with a non-nil body, i.e.
			// "unknown", and the request goes out chunked.
			body := struct{ io.Reader }{bytes.NewReader([]byte(tc.data))}
			req, err := http.NewRequest("PUT", ts.URL+"/camli/"+blob.RefFromString(tc.data).String(), body)
			if err != nil {
				t.Fatal(err)
			}
			res, err := http.DefaultClient.Do(req)
			if err != nil {
				t.Fatal(err)
			}
			resBody, _ := io.ReadAll(res.Body)
			res.Body.Close()
			if res.StatusCode != http.StatusNoContent {
				t.Fatalf("chunked PUT status = %v, body %q; want 204", res.Status, resBody)
			}
			check(t, tc.data)
		})
	}
}
