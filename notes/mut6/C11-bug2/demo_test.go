package encrypt

// Demonstration for seeded bug 2 (C11): every truncation of a stored meta
// blob -- including the truncation to zero bytes -- must be detected when
// the mapping is rebuilt from the wrapped stores.

import (
	"bytes"
	"context"
	"fmt"
	"io"
	"strings"
	"testing"

	"filippo.io/age"
	"perkeep.org/pkg/blob"
	"perkeep.org/pkg/blobserver"
	"perkeep.org/pkg/sorted"
	"perkeep.org/pkg/test"
)

// mut2TruncStore is the meta store as seen after somebody with access to
// the backend truncated one of its blobs to keep bytes.
type mut2TruncStore struct {
	*test.Fetcher
	victim blob.Ref
	keep   int
}

func (ts *mut2TruncStore) Fetch(ctx context.Context, br blob.Ref) (io.ReadCloser, uint32, error) {
	rc, size, err := ts.Fetcher.Fetch(ctx, br)
	if err != nil || br != ts.victim {
		return rc, size, err
	}
	defer rc.Close()
	all, err := io.ReadAll(rc)
	if err != nil {
		return nil, 0, err
	}
	all = all[:ts.keep]
	return io.NopCloser(bytes.NewReader(all)), uint32(len(all)), nil
}

func (ts *mut2TruncStore) EnumerateBlobs(ctx context.Context, dest chan<- blob.SizedRef, after string, limit int) error {
	mid := make(chan blob.SizedRef)
	errc := make(chan error, 1)
	go func() { errc <- ts.Fetcher.EnumerateBlobs(ctx, mid, after, limit) }()
	for sb := range mid {
		if sb.Ref == ts.victim {
			sb.Size = uint32(ts.keep)
		}
		dest <- sb
	}
	close(dest)
	return <-errc
}

func TestMut2TruncatedMetaIsDetected(t *testing.T) {
	id, err := age.GenerateX25519Identity()
	if err != nil {
		t.Fatal(err)
	}
	blobs, meta := new(test.Fetcher), new(test.Fetcher)
	newSto := func(metaSto blobserver.Storage) *storage {
		return &storage{
			index:     sorted.NewMemoryKeyValue(),
			smallMeta: &metaBlobHeap{},
			identity:  id,
			blobs:     blobs,
			meta:      metaSto,
		}
	}

	s0 := newSto(meta)
	contents := map[blob.Ref]string{}
	for i := 0; i < 3; i++ {
		c := fmt.Sprintf("some plaintext %d", i)
		br := blob.RefFromString(c)
		contents[br] = c
		if _, err := blobserver.Receive(context.Background(), s0, br, strings.NewReader(c)); err != nil {
			t.Fatal(err)
		}
	}
	metaRefs := meta.BlobrefStrings()
	if len(metaRefs) != 3 {
		t.Fatalf("%d meta blobs; want 3", len(metaRefs))
	}
	victim := blob.MustParse(metaRefs[1])
	full, _ := meta.BlobContents(victim)

	for _, keep := range []int{0, 1, len(full) / 2, len(full) - 1} {
		t.Run(fmt.Sprintf("keep=%d_of_%d", keep, len(full)), func(t *testing.T) {
			s := newSto(&mut2TruncStore{Fetcher: meta, victim: victim, keep: keep})
			err := s.readAllMetaBlobs()
			if err != nil {
				t.Logf("truncation detected at start-up: %v", err)
				return
			}
			// Not detected: then nothing may have been lost.
			for br, want := range contents {
				rc, _, err := s.Fetch(context.Background(), br)
				if err != nil {
					t.Errorf("meta blob %v truncated to %d bytes was accepted silently, and Fetch(%v) now says: %v", victim, keep, br, err)
					continue
				}
				got, _ := io.ReadAll(rc)
				rc.Close()
				if string(got) != want {
					t.Errorf("Fetch(%v) = %q; want %q", br, got, want)
				}
			}
		})
	}
}
