package client_test

import (
	"context"
	"fmt"
	"net/http"
	"net/http/httptest"
	"strings"
	"testing"

	"perkeep.org/pkg/blob"
	"perkeep.org/pkg/blobserver"
	"perkeep.org/pkg/blobserver/handlers"
	"perkeep.org/pkg/blobserver/memory"
	"perkeep.org/pkg/client"
)

func mutC18Enumerate(t *testing.T, e blobserver.BlobEnumerator, after string, limit int) []blob.SizedRef {
	t.Helper()
	ch := make(chan blob.SizedRef)
	errc := make(chan error, 1)
	go func() { errc <- e.EnumerateBlobs(context.Background(), ch, after, limit) }()
	var got []blob.SizedRef
	for sb := range ch {
		got = append(got, sb)
	}
	if err := <-errc; err != nil {
		t.Fatalf("EnumerateBlobs(after=%q, limit=%d): %v", after, limit, err)
	}
	return got
}

// TestMutC18ClientEnumerateLimit compares Client.EnumerateBlobs(after, limit),
// going through the HTTP enumerate protocol (which the client pages in
// batches of 1000), with the same call made directly on the storage, on a
// store that needs several protocol pages.
func TestMutC18ClientEnumerateLimit(t *testing.T) {
	ctx := context.Background()
	sto := new(memory.Storage)
	const nBlobs = 2300
	for i := 0; i < nBlobs; i++ {
		if _, err := blobserver.ReceiveString(ctx, sto, fmt.Sprintf("mut-c18 blob %d", i)); err != nil {
			t.Fatal(err)
		}
	}
	enum := handlers.CreateEnumerateHandler(sto)
	ts := httptest.NewServer(http.HandlerFunc(func(rw http.ResponseWriter, req *http.Request) {
		if req.Method == "GET" && strings.HasSuffix(req.URL.Path, "/camli/enumerate-blobs") {
			enum.ServeHTTP(rw, req)
			return
		}
		http.Error(rw, "unexpected request "+req.Method+" "+req.URL.Path, http.StatusBadRequest)
	}))
	defer ts.Close()

	cl, err := client.New(client.OptionServer(ts.URL+"/bs"), client.OptionNoExternalConfig())
	if err != nil {
		t.Fatal(err)
	}
	defer cl.Close()

	all := mutC18Enumerate(t, sto, "", nBlobs+1)
	if len(all) != nBlobs {
		t.Fatalf("storage has %d blobs; want %d", len(all), nBlobs)
	}

	for _, after := range []string{"", all[149].Ref.String()} {
		for _, limit := range []int{1, 7, 999, 1000, 1001, 1500, 2000, 2150, 5000} {
			want := mutC18Enumerate(t, sto, after, limit)
			got := mutC18Enumerate(t, cl, after, limit)
			if len(got) != len(want) {
				t.Errorf("after=%.14q limit=%d: client enumerated %d blobs over HTTP; direct storage access gives %d", after, limit, len(got), len(want))
				continue
			}
			for i := range want {
				if got[i] != want[i] {
					t.Errorf("after=%.14q limit=%d: blob #%d = %v over HTTP; want %v", after, limit, i, got[i], want[i])
					break
				}
			}
		}
	}
}
