package diskpacked

import (
	"context"
	"io"
	"os"
	"path/filepath"
	"strings"
	"testing"

	"perkeep.org/pkg/blob"
	"perkeep.org/pkg/blobserver"
	"perkeep.org/pkg/test"
)

// TestMut6C03Bug1ZeroFillFallback removes a blob on a "filesystem" that does
// not support hole punching (simulated by making punchHole report
// errNoPunch, which is what punchHoleLinux does for ENOSYS/EOPNOTSUPP, and
// what happens on every non-Linux platform where punchHole is nil). Then the
// process "restarts", the index is lost, and it must be possible to rebuild it
// from the pack files alone: exactly the acknowledged, non-removed blobs.
func TestMut6C03Bug1ZeroFillFallback(t *testing.T) {
	oldPunch := punchHole
	punchHole = func(*os.File, int64, int64) error { return errNoPunch }
	defer func() { punchHole = oldPunch }()

	for _, tc := range []struct {
		name    string
		removed string
	}{
		{"small", "tiny"}, // body shorter than its header
		{"large", strings.Repeat("a removed blob that is longer than its header. ", 40)},
	} {
		t.Run(tc.name, func(t *testing.T) {
			ctx := context.Background()
			dir := t.TempDir()
			s, err := newStorage(dir, 1<<20, nil)
			if err != nil {
				t.Fatal(err)
			}
			A := &test.Blob{Contents: "first blob, kept"}
			B := &test.Blob{Contents: tc.removed}
			C := &test.Blob{Contents: strings.Repeat("third blob, kept. ", 50)}
			for _, tb := range []*test.Blob{A, B, C} {
				if _, err := blobserver.Receive(ctx, s, tb.BlobRef(), tb.Reader()); err != nil {
					t.Fatalf("receive %v: %v", tb.BlobRef(), err)
				}
			}
			if err := s.RemoveBlobs(ctx, []blob.Ref{B.BlobRef()}); err != nil {
				t.Fatalf("RemoveBlobs: %v", err)
			}
			if err := s.Close(); err != nil {
				t.Fatal(err)
			}

			// Lose the index; keep only the pack files.
			matches, _ := filepath.Glob(filepath.Join(dir, "index.*"))
			for _, m := range matches {
				if err := os.RemoveAll(m); err != nil {
					t.Fatal(err)
				}
			}
			if err := Reindex(ctx, dir, true, nil); err != nil {
				t.Fatalf("Reindex from the pack files alone failed: %v", err)
			}

			s, err = newStorage(dir, 1<<20, nil)
			if err != nil {
				t.Fatal(err)
			}
			defer s.Close()

			// Enumerate: exactly A and C.
			want := map[blob.Ref]uint32{
				A.BlobRef(): uint32(len(A.Contents)),
				C.BlobRef(): uint32(len(C.Contents)),
			}
			dest := make(chan blob.SizedRef, 10)
			if err := s.EnumerateBlobs(ctx, dest, "", 10); err != nil {
				t.Fatalf("EnumerateBlobs: %v", err)
			}
			got := map[blob.Ref]uint32{}
			for sb := range dest {
				got[sb.Ref] = sb.Size
			}
			if len(got) != len(want) {
				t.Errorf("enumerate after reindex = %v; want %v", got, want)
			}
			for br, sz := range want {
				if got[br] != sz {
					t.Errorf("enumerate after reindex: %v has size %d, want %d", br, got[br], sz)
				}
			}
			// Fetch: A and C intact.
			for _, tb := range []*test.Blob{A, C} {
				rc, _, err := s.Fetch(ctx, tb.BlobRef())
				if err != nil {
					t.Errorf("fetch %v: %v", tb.BlobRef(), err)
					continue
				}
				data, err := io.ReadAll(rc)
				rc.Close()
				if err != nil || string(data) != tb.Contents {
					t.Errorf("fetch %v = %q, %v; want %q", tb.BlobRef(), data, err, tb.Contents)
				}
			}
			// Stream: exactly A and C, intact.
			ch := make(chan blobserver.BlobAndToken, 10)
			errc := make(chan error, 1)
			go func() { errc <- s.StreamBlobs(ctx, ch, "") }()
			var streamed []blob.Ref
			for bt := range ch {
				streamed = append(streamed, bt.Blob.Ref())
			}
			if err := <-errc; err != nil {
				t.Errorf("StreamBlobs: %v", err)
			}
			if len(streamed) != 2 || streamed[0] != A.BlobRef() || streamed[1] != C.BlobRef() {
				t.Errorf("streamed %v; want [%v %v]", streamed, A.BlobRef(), C.BlobRef())
			}
		})
	}
}
