package index_test

import (
	"testing"
	"time"

	"perkeep.org/pkg/blob"
	"perkeep.org/pkg/index"
	"perkeep.org/pkg/index/indextest"
	"perkeep.org/pkg/schema"
)

// C06: the answers of the running corpus must equal those of a corpus
// freshly loaded from the same rows.
//
// History: three permanodes.
//   - pnFuture gets exactly ONE claim, whose claimDate is ahead of the
//     server's clock (a client with a fast clock);
//   - pnPast gets exactly one claim, dated in the past (control);
//   - pnFuture2 gets two claims dated in the future (control).
//
// Then the index is "restarted": a new Index and Corpus are opened over the
// same sorted.KeyValue, and the attribute lookups of both are compared.
func TestMut6C06Bug1(t *testing.T) {
	index.SetVerboseCorpusLogging(false)
	defer index.SetVerboseCorpusLogging(true)

	idx := index.NewMemoryIndex()
	id := indextest.NewIndexDeps(idx)
	id.Fataler = t
	live, err := idx.KeepInMemory()
	if err != nil {
		t.Fatal(err)
	}

	future := time.Now().Add(72 * time.Hour).UTC().Truncate(time.Second)
	past := time.Date(2015, 6, 1, 12, 0, 0, 0, time.UTC)
	claim := func(pn blob.Ref, attr, val string, date time.Time) {
		m := schema.NewSetAttributeClaim(pn, attr, val)
		m.SetClaimDate(date)
		id.Upload(id.Sign(m))
	}

	pnFuture := id.NewPlannedPermanode("mut6-c06-bug1-future")
	claim(pnFuture, "title", "written by a client whose clock runs ahead", future)

	pnPast := id.NewPlannedPermanode("mut6-c06-bug1-past")
	claim(pnPast, "title", "an ordinary title", past)

	pnFuture2 := id.NewPlannedPermanode("mut6-c06-bug1-future2")
	claim(pnFuture2, "title", "first", future)
	claim(pnFuture2, "tag", "second", future.Add(time.Second))

	// "Restart": fresh index and corpus over the same persisted rows.
	idx2, err := index.New(idx.Storage())
	if err != nil {
		t.Fatal(err)
	}
	restarted, err := idx2.KeepInMemory()
	if err != nil {
		t.Fatal(err)
	}

	type answers struct {
		value  string
		values []string
		has    bool
		anyT   time.Time
		anyOK  bool
	}
	ask := func(x *index.Index, c *index.Corpus, pn blob.Ref, attr, val string) answers {
		x.RLock()
		defer x.RUnlock()
		var a answers
		a.value = c.PermanodeAttrValue(pn, attr, time.Time{}, "")
		a.values = c.AppendPermanodeAttrValues(nil, pn, attr, time.Time{}, "")
		a.has = c.PermanodeHasAttrValue(pn, time.Time{}, attr, val)
		a.anyT, a.anyOK = c.PermanodeAnyTime(pn)
		return a
	}
	for _, tt := range []struct {
		name      string
		pn        blob.Ref
		attr, val string
	}{
		{"lone future-dated claim", pnFuture, "title", "written by a client whose clock runs ahead"},
		{"lone past-dated claim", pnPast, "title", "an ordinary title"},
		{"two future-dated claims", pnFuture2, "title", "first"},
	} {
		l := ask(idx, live, tt.pn, tt.attr, tt.val)
		r := ask(idx2, restarted, tt.pn, tt.attr, tt.val)
		if l.value != tt.val {
			t.Errorf("%s: live PermanodeAttrValue = %q; want %q", tt.name, l.value, tt.val)
		}
		if l.value != r.value {
			t.Errorf("%s: PermanodeAttrValue: live %q, after restart %q", tt.name, l.value, r.value)
		}
		if len(l.values) != len(r.values) || (len(l.values) > 0 && l.values[0] != r.values[0]) {
			t.Errorf("%s: AppendPermanodeAttrValues: live %q, after restart %q", tt.name, l.values, r.values)
		}
		if l.has != r.has {
			t.Errorf("%s: PermanodeHasAttrValue: live %v, after restart %v", tt.name, l.has, r.has)
		}
		if l.anyOK != r.anyOK || !l.anyT.Equal(r.anyT) {
			t.Errorf("%s: PermanodeAnyTime: live (%v, %v), after restart (%v, %v)", tt.name, l.anyT, l.anyOK, r.anyT, r.anyOK)
		}
	}
}
