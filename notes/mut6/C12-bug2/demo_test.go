package replica

import (
	"bytes"
	"context"
	"fmt"
	"io"
	"net/http"
	"net/http/httptest"
	"os"
	"strings"
	"testing"

	"perkeep.org/pkg/blob"
	"perkeep.org/pkg/blobserver"
	"perkeep.org/pkg/blobserver/memory"
)

// ctxStreamStorage is a read replica whose Fetch hands out a stream that
// stays tied to the context Fetch was called with, as the readers of the
// network-backed stores do (an HTTP response body, a cloud storage object
// reader): once that context is done, reading the stream fails.
type ctxStreamStorage struct {
	*memory.Storage
}

type ctxReadCloser struct {
	ctx context.Context
	rc  io.ReadCloser
}

func (r ctxReadCloser) Read(p []byte) (int, error) {
	if err := r.ctx.Err(); err != nil {
		return 0, err
	}
	return r.rc.Read(p)
}

func (r ctxReadCloser) Close() error { return r.rc.Close() }

func (s ctxStreamStorage) Fetch(ctx context.Context, br blob.Ref) (io.ReadCloser, uint32, error) {
	rc, size, err := s.Storage.Fetch(ctx, br)
	if err != nil {
		return nil, 0, err
	}
	return ctxReadCloser{ctx, rc}, size, nil
}

// httpStorage is a read replica that fetches its blobs over HTTP, streaming
// the response body to the caller, the way the "remote" storage does.
type httpStorage struct {
	*memory.Storage // for everything but Fetch
	baseURL         string
}

func (s httpStorage) Fetch(ctx context.Context, br blob.Ref) (io.ReadCloser, uint32, error) {
	req, err := http.NewRequestWithContext(ctx, "GET", s.baseURL+"/"+br.String(), nil)
	if err != nil {
		return nil, 0, err
	}
	res, err := http.DefaultClient.Do(req)
	if err != nil {
		return nil, 0, err
	}
	if res.StatusCode == http.StatusNotFound {
		res.Body.Close()
		return nil, 0, os.ErrNotExist
	}
	if res.StatusCode != http.StatusOK {
		res.Body.Close()
		return nil, 0, fmt.Errorf("HTTP status %v", res.Status)
	}
	return res.Body, uint32(res.ContentLength), nil
}

func mutDemoStore(t *testing.T, sto blobserver.Storage, contents string) blob.Ref {
	br := blob.RefFromString(contents)
	if _, err := blobserver.Receive(context.Background(), sto, br, strings.NewReader(contents)); err != nil {
		t.Fatalf("Receive: %v", err)
	}
	return br
}

func mutDemoFetchAll(t *testing.T, sto blobserver.Storage, br blob.Ref, want string) {
	t.Helper()
	rc, size, err := sto.Fetch(context.Background(), br)
	if err != nil {
		t.Fatalf("Fetch of a blob held by a read replica: %v", err)
	}
	defer rc.Close()
	if int(size) != len(want) {
		t.Errorf("Fetch size = %d; want %d", size, len(want))
	}
	got, err := io.ReadAll(rc)
	if err != nil {
		t.Fatalf("reading the blob returned by Fetch: got %d of %d bytes, then error: %v", len(got), len(want), err)
	}
	if string(got) != want {
		t.Fatalf("Fetch returned %d bytes that differ from the %d bytes stored", len(got), len(want))
	}
}

// TestMutDemoFetchStreamUsable: a blob held by a read replica can be
// fetched, and the bytes read, whatever kind of store the replica is
// (here: stores whose streams are bound to the Fetch context), and also
// when an earlier replica doesn't have it.
func TestMutDemoFetchStreamUsable(t *testing.T) {
	t.Run("ctx-bound-stream", func(t *testing.T) {
		empty := &memory.Storage{}
		holder := ctxStreamStorage{&memory.Storage{}}
		br := mutDemoStore(t, holder, "a blob only the second replica has")
		sto := NewForTest([]blobserver.Storage{empty, holder})
		mutDemoFetchAll(t, sto, br, "a blob only the second replica has")
	})

	t.Run("http-backed-replica", func(t *testing.T) {
		backing := &memory.Storage{}
		// Big enough not to fit in the transport's and kernel's buffers.
		contents := string(bytes.Repeat([]byte("0123456789abcdef"), 8<<20/16))
		br := mutDemoStore(t, backing, contents)

		ts := httptest.NewServer(http.HandlerFunc(func(w http.ResponseWriter, r *http.Request) {
			ref, ok := blob.Parse(strings.TrimPrefix(r.URL.Path, "/"))
			if !ok {
				http.Error(w, "bad ref", http.StatusBadRequest)
				return
			}
			rc, size, err := backing.Fetch(r.Context(), ref)
			if err != nil {
				http.NotFound(w, r)
				return
			}
			defer rc.Close()
			w.Header().Set("Content-Length", fmt.Sprint(size))
			io.Copy(w, rc)
		}))
		defer ts.Close()

		empty := &memory.Storage{}
		sto := NewForTest([]blobserver.Storage{empty, httpStorage{&memory.Storage{}, ts.URL}})
		mutDemoFetchAll(t, sto, br, contents)
	})
}
