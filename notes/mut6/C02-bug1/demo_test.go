package encrypt

import (
	"bytes"
	"context"
	"errors"
	"testing"
	"time"

	"perkeep.org/pkg/blob"
	"perkeep.org/pkg/blobserver"
	"perkeep.org/pkg/test"
)

// enumSizes returns the sizes of all the blobs in sto.
func mut6EnumSizes(t *testing.T, sto blobserver.BlobEnumerator) map[blob.Ref]uint32 {
	t.Helper()
	got := map[blob.Ref]uint32{}
	err := blobserver.EnumerateAll(context.Background(), sto, func(sb blob.SizedRef) error {
		got[sb.Ref] = sb.Size
		return nil
	})
	if err != nil {
		t.Fatalf("enumerate: %v", err)
	}
	return got
}

// The 16 MiB limit holds for every blob handed to a backend, also for the
// ones a storage layer makes itself and writes with ReceiveNoHash.
func TestMut6C02NoHashSizeCap(t *testing.T) {
	ctx := context.Background()

	// 1. ReceiveNoHash itself: 16 MiB + 1 byte.
	{
		sto := new(test.Fetcher)
		hub := blobserver.GetHub(sto)
		notified := make(chan blob.Ref, 4)
		hub.RegisterListener(notified)
		defer hub.UnregisterListener(notified)

		data := bytes.Repeat([]byte{'x'}, blobserver.MaxBlobSize+1)
		br := blob.RefFromBytes(data)
		sb, err := blobserver.ReceiveNoHash(ctx, sto, br, bytes.NewReader(data))
		if err == nil {
			t.Errorf("ReceiveNoHash of %d bytes = %v, nil; want an error (blob over the limit)", len(data), sb)
		} else if !errors.Is(err, blobserver.ErrBlobTooLarge) {
			t.Errorf("ReceiveNoHash of %d bytes: error %v; want ErrBlobTooLarge", len(data), err)
		}
		if got := mut6EnumSizes(t, sto); len(got) != 0 {
			t.Errorf("oversized blob left a trace in the store: %v", got)
		}
		select {
		case got := <-notified:
			t.Errorf("observers were told about the oversized blob %v", got)
		case <-time.After(200 * time.Millisecond):
		}
	}

	// 2. The encrypt storage: a plaintext blob just under the limit, which
	// is over the limit once encrypted. It may be refused, but its
	// over-long ciphertext must never reach the backend.
	{
		ts := newTestStorage()
		data := bytes.Repeat([]byte{'y'}, blobserver.MaxBlobSize-64)
		br := blob.RefFromBytes(data)
		_, err := blobserver.Receive(ctx, ts.sto, br, bytes.NewReader(data))
		t.Logf("Receive(encrypt, %d bytes) = %v", len(data), err)
		for ref, size := range mut6EnumSizes(t, ts.blobs) {
			if size > blobserver.MaxBlobSize {
				t.Errorf("encrypt backend holds blob %v of %d bytes, over the %d limit", ref, size, blobserver.MaxBlobSize)
			}
		}
		if err != nil {
			// Refused: then nothing may be visible.
			if got := mut6EnumSizes(t, ts.sto); len(got) != 0 {
				t.Errorf("refused blob is enumerated: %v", got)
			}
			if _, serr := blobserver.StatBlob(ctx, ts.sto, br); serr == nil {
				t.Errorf("refused blob is stat-able")
			}
		}
	}
}
