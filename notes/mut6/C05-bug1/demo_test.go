package index_test

import (
	"context"
	"fmt"
	"io"
	"sort"
	"strings"
	"sync"
	"testing"

	"perkeep.org/pkg/blob"
	"perkeep.org/pkg/index"
	"perkeep.org/pkg/sorted"
	"perkeep.org/pkg/test"
)

// mut6c05Bug1Source is a blob source on which a test can make a dependency
// "arrive" exactly between the moment a blob being indexed fails to fetch it
// and the moment that blob records the dependency as missing.
type mut6c05Bug1Source struct {
	*test.Fetcher

	mu     sync.Mutex
	onMiss map[blob.Ref]func() // one-shot, run right after a failed fetch of the key
}

func (s *mut6c05Bug1Source) Fetch(ctx context.Context, br blob.Ref) (io.ReadCloser, uint32, error) {
	rc, size, err := s.Fetcher.Fetch(ctx, br)
	if err != nil {
		s.mu.Lock()
		fn := s.onMiss[br]
		delete(s.onMiss, br)
		s.mu.Unlock()
		if fn != nil {
			fn()
		}
	}
	return rc, size, err
}

func mut6c05Bug1File(name string, chunk *test.Blob) *test.Blob {
	return &test.Blob{Contents: fmt.Sprintf(`{"camliVersion": 1,
"camliType": "file",
"fileName": %q,
"parts": [
  {"blobRef": "%s", "size": %d}
]}`, name, chunk.BlobRef(), len(chunk.Contents))}
}

func mut6c05Bug1Rows(t *testing.T, s sorted.KeyValue) []string {
	var rows []string
	it := s.Find("", "")
	for it.Next() {
		rows = append(rows, it.Key()+" = "+it.Value())
	}
	if err := it.Close(); err != nil {
		t.Fatal(err)
	}
	sort.Strings(rows)
	return rows
}

// Two files share one chunk. The first file is already waiting for the chunk
// when the second one is received; the chunk arrives (and is indexed) while
// the second file is in the middle of being indexed, right after it failed
// to fetch the chunk. Once everything has settled the index must be the same
// as when the three blobs arrive in dependency order.
func TestMut6C05Bug1SharedDependencyArrivesMidIndexing(t *testing.T) {
	ctx := context.Background()
	chunk := &test.Blob{Contents: "mut6-c05 bug1: the chunk that two files share"}
	file1 := mut6c05Bug1File("one.txt", chunk)
	file2 := mut6c05Bug1File("two.txt", chunk)

	newIndex := func() (*index.Index, *mut6c05Bug1Source, sorted.KeyValue) {
		s := sorted.NewMemoryKeyValue()
		ix, err := index.New(s)
		if err != nil {
			t.Fatal(err)
		}
		src := &mut6c05Bug1Source{Fetcher: new(test.Fetcher), onMiss: make(map[blob.Ref]func())}
		ix.InitBlobSource(src)
		return ix, src, s
	}
	receive := func(ix *index.Index, src *mut6c05Bug1Source, b *test.Blob) {
		src.AddBlob(b)
		if _, err := ix.ReceiveBlob(ctx, b.BlobRef(), b.Reader()); err != nil {
			t.Fatalf("ReceiveBlob(%v): %v", b.BlobRef(), err)
		}
	}

	// Reference: dependency order.
	refIx, refSrc, refKV := newIndex()
	receive(refIx, refSrc, chunk)
	receive(refIx, refSrc, file1)
	receive(refIx, refSrc, file2)
	refIx.Exp_AwaitAsyncIndexing(t)
	want := mut6c05Bug1Rows(t, refKV)

	// Out of order, interleaved.
	ix, src, kv := newIndex()
	receive(ix, src, file1) // waits for chunk
	if v, err := kv.Get(index.Exp_missingKey(file1.BlobRef(), chunk.BlobRef())); err != nil || v == "" {
		t.Fatalf("file1 isn't recorded as waiting for the chunk: %q, %v", v, err)
	}
	src.mu.Lock()
	src.onMiss[chunk.BlobRef()] = func() {
		// The chunk is uploaded by somebody else, right now.
		receive(ix, src, chunk)
	}
	src.mu.Unlock()
	receive(ix, src, file2) // misses the chunk, which then arrives before file2 notes the miss
	ix.Exp_AwaitAsyncIndexing(t)
	got := mut6c05Bug1Rows(t, kv)

	for _, row := range got {
		if strings.HasPrefix(row, "missing|") {
			t.Errorf("left-over dependency row although every blob has arrived: %s", row)
		}
	}
	ix.WithNeededMapsForTest(func(needs, neededBy map[blob.Ref][]blob.Ref, ready map[blob.Ref]bool) {
		if len(needs) != 0 || len(neededBy) != 0 || len(ready) != 0 {
			t.Errorf("index still has pending blobs: needs=%v neededBy=%v ready=%v", needs, neededBy, ready)
		}
	})
	if strings.Join(got, "\n") != strings.Join(want, "\n") {
		t.Errorf("index rows depend on the arrival order.\n in dependency order:\n  %s\n interleaved:\n  %s",
			strings.Join(want, "\n  "), strings.Join(got, "\n  "))
	}
}
