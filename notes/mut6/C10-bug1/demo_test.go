package buffer_test

import (
	"testing"

	"perkeep.org/pkg/sorted"
	"perkeep.org/pkg/sorted/buffer"
)

// TestMutSetBackToFlushedValue drives the write buffer through the sequence
//
//	Set(k, A); Flush; Set(k, B); Set(k, A)
//
// i.e. a row whose value is changed after a flush and then changed back to the
// value that was flushed. A byte-ordered map must answer A afterwards, from
// Get, from a range scan, and in the backing store once flushed again.
func TestMutSetBackToFlushedValue(t *testing.T) {
	backing := sorted.NewMemoryKeyValue()
	kv := buffer.New(sorted.NewMemoryKeyValue(), backing, 1<<20)

	must := func(err error) {
		t.Helper()
		if err != nil {
			t.Fatal(err)
		}
	}
	const key = "claim|sha224-aa|2011-01-01T00:00:00Z"
	must(kv.Set("a", "av"))
	must(kv.Set(key, "A"))
	must(kv.Set("z", "zv"))
	must(kv.Flush())

	must(kv.Set(key, "B"))
	if v, err := kv.Get(key); err != nil || v != "B" {
		t.Fatalf("after Set(B): Get = %q, %v; want B", v, err)
	}
	must(kv.Set(key, "A")) // last value set is A again

	if v, err := kv.Get(key); err != nil || v != "A" {
		t.Errorf("after Set(A); Flush; Set(B); Set(A): Get = %q, %v; want \"A\"", v, err)
	}

	scan := func(name string, s sorted.KeyValue) {
		t.Helper()
		var got []string
		it := s.Find("", "")
		for it.Next() {
			got = append(got, it.Key()+"="+it.Value())
		}
		must(it.Close())
		want := []string{"a=av", key + "=A", "z=zv"}
		if len(got) != len(want) {
			t.Errorf("%s scan = %q; want %q", name, got, want)
			return
		}
		for i := range want {
			if got[i] != want[i] {
				t.Errorf("%s scan = %q; want %q", name, got, want)
				return
			}
		}
	}
	scan("buffered", kv)
	must(kv.Flush())
	scan("backing after second flush", backing)
}
