package index_test

import (
	"context"
	"testing"
	"time"

	"perkeep.org/pkg/index"
	"perkeep.org/pkg/index/indextest"
	"perkeep.org/pkg/schema"
	"perkeep.org/pkg/sorted"
	"perkeep.org/pkg/test"
	"perkeep.org/pkg/types/camtypes"
)

// C06, at a moment when a blob is still waiting for a dependency.
//
// History: a permanode P, a set-attribute claim C on it, and a delete claim D
// of P. The delete claim arrives FIRST (its target is not indexed yet, so it
// is parked with a missing|D|P edge). At that moment the server is
// "restarted": a second Index+Corpus is opened over a copy of the persisted
// rows. Then P and C arrive at both. The running server and the restarted one
// must give the same answers all along.
func TestMut6C06Bug2(t *testing.T) {
	index.SetVerboseCorpusLogging(false)
	defer index.SetVerboseCorpusLogging(true)
	ctx := context.Background()

	liveKV := sorted.NewMemoryKeyValue()
	live, err := index.New(liveKV)
	if err != nil {
		t.Fatal(err)
	}
	id := indextest.NewIndexDeps(live)
	id.Fataler = t
	liveCorpus, err := live.KeepInMemory()
	if err != nil {
		t.Fatal(err)
	}

	t0 := time.Date(2016, 3, 4, 5, 6, 7, 0, time.UTC)
	pnBlob := id.Sign(schema.NewPlannedPermanode("mut6-c06-bug2"))
	pn := pnBlob.BlobRef()
	cb := schema.NewSetAttributeClaim(pn, "title", "doomed")
	cb.SetClaimDate(t0)
	claimBlob := id.Sign(cb)
	db := schema.NewDeleteClaim(pn)
	db.SetClaimDate(t0.Add(time.Minute))
	delBlob := id.Sign(db)
	del := delBlob.BlobRef()

	// The whole history is in the blob storage; the indexes receive it
	// in the order D, P, C.
	for _, b := range []*test.Blob{pnBlob, claimBlob, delBlob} {
		id.BlobSource.AddBlob(b)
	}
	receive := func(ix *index.Index, b *test.Blob) {
		t.Helper()
		if _, err := ix.ReceiveBlob(ctx, b.BlobRef(), b.Reader()); err != nil {
			t.Fatalf("ReceiveBlob(%v): %v", b.BlobRef(), err)
		}
	}

	receive(live, delBlob) // parked: waits for pn

	// "Restart" now: fresh index and corpus over the same rows.
	restartKV := sorted.NewMemoryKeyValue()
	if err := sorted.Foreach(liveKV, func(k, v string) error { return restartKV.Set(k, v) }); err != nil {
		t.Fatal(err)
	}
	restarted, err := index.New(restartKV)
	if err != nil {
		t.Fatal(err)
	}
	restarted.KeyFetcher = id.PublicKeyFetcher
	restarted.InitBlobSource(id.BlobSource)
	restartedCorpus, err := restarted.KeepInMemory()
	if err != nil {
		t.Fatal(err)
	}

	// 1. What a restart would load at this moment: the persisted
	// missing| edges (logged only; the live maps are not exported).
	nMissing := 0
	sorted.ForeachInRange(liveKV, "missing|", "missing}", func(k, v string) error {
		nMissing++
		t.Logf("while %v waits for %v, persisted edge: %q", del, pn, k)
		return nil
	})
	t.Logf("persisted missing| edges while the delete claim is parked: %d", nMissing)

	// 2. The rest of the history arrives; both must converge on the
	// same answers.
	for _, ix := range []*index.Index{live, restarted} {
		receive(ix, pnBlob)
		receive(ix, claimBlob)
	}
	// The parked delete claim is re-indexed asynchronously once its
	// target is there: give both indexes time to settle.
	deadline := time.Now().Add(5 * time.Second)
	for time.Now().Before(deadline) && !(live.IsDeleted(pn) && restarted.IsDeleted(pn)) {
		time.Sleep(20 * time.Millisecond)
	}
	type answers struct {
		IndexDeleted, CorpusDeleted bool
		NClaims                     int
		Enumerated                  int
	}
	ask := func(ix *index.Index, c *index.Corpus) answers {
		ix.RLock()
		defer ix.RUnlock()
		var a answers
		a.IndexDeleted = ix.IsDeleted(pn)
		a.CorpusDeleted = c.IsDeleted(pn)
		cls, err := c.AppendClaims(ctx, nil, pn, "", "")
		if err != nil {
			t.Fatal(err)
		}
		a.NClaims = len(cls)
		c.EnumeratePermanodesLastModified(func(camtypes.BlobMeta) bool { a.Enumerated++; return true })
		return a
	}
	la, ra := ask(live, liveCorpus), ask(restarted, restartedCorpus)
	if !la.IndexDeleted || !la.CorpusDeleted {
		t.Errorf("live: permanode not deleted: %+v", la)
	}
	if la != ra {
		t.Errorf("after the whole history:\n live      = %+v\n restarted = %+v", la, ra)
	}
}
