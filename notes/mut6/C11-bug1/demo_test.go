package encrypt

// Demonstration for seeded bug 1 (C11): a full (>FullMetaBlobSize lines)
// packed meta blob must survive a restart followed by a compaction.

import (
	"bytes"
	"fmt"
	"io"
	"strings"
	"testing"
	"time"

	"filippo.io/age"
	"perkeep.org/pkg/blob"
	"perkeep.org/pkg/blobserver"
	"perkeep.org/pkg/sorted"
	"perkeep.org/pkg/test"
)

func mut1NewStorage(id *age.X25519Identity, blobs, meta *test.Fetcher) *storage {
	return &storage{
		index:     sorted.NewMemoryKeyValue(),
		smallMeta: &metaBlobHeap{},
		identity:  id,
		blobs:     blobs,
		meta:      meta,
	}
}

// mut1Settle waits until the background packers (if any) are done: the set
// of blobs in the meta store has not changed for a full second.
func mut1Settle(meta *test.Fetcher) {
	last := ""
	stable := 0
	for i := 0; i < 600 && stable < 10; i++ {
		cur := strings.Join(meta.BlobrefStrings(), ",")
		if cur == last {
			stable++
		} else {
			stable = 0
			last = cur
		}
		time.Sleep(100 * time.Millisecond)
	}
}

func TestMut1FullMetaSurvivesRestartAndCompaction(t *testing.T) {
	id, err := age.GenerateX25519Identity()
	if err != nil {
		t.Fatal(err)
	}
	blobs, meta := new(test.Fetcher), new(test.Fetcher)

	contents := map[blob.Ref]string{}

	// Phase 0: the state that a sequential history of uploads leaves behind
	// once the packed meta blob is "full": the packer is handed 101, 201,
	// ..., 9901 and finally 10001 (> FullMetaBlobSize) refs, and that last
	// packed meta blob is not tracked as small any more. Build that last
	// step directly with the package's own packer.
	s0 := mut1NewStorage(id, blobs, meta)
	var plains []blob.Ref
	for i := 0; i < FullMetaBlobSize+1; i++ {
		c := fmt.Sprintf("old-blob-%d", i)
		br := blob.RefFromString(c)
		contents[br] = c
		enc := new(bytes.Buffer)
		if err := s0.encryptBlob(enc, bytes.NewBufferString(c)); err != nil {
			t.Fatal(err)
		}
		encBR := blob.RefFromBytes(enc.Bytes())
		if _, err := blobserver.ReceiveNoHash(ctxbg, blobs, encBR, enc); err != nil {
			t.Fatal(err)
		}
		if err := s0.index.Set(br.String(), packIndexEntry(uint32(len(c)), encBR)); err != nil {
			t.Fatal(err)
		}
		plains = append(plains, br)
	}
	s0.makePackedMetaBlob(plains, nil)
	if n := meta.NumBlobs(); n != 1 {
		t.Fatalf("phase 0: %d meta blobs, want 1", n)
	}

	// Restart 1 (meta index lost), then 100 more uploads.
	s1 := mut1NewStorage(id, blobs, meta)
	if err := s1.readAllMetaBlobs(); err != nil {
		t.Fatalf("restart 1: %v", err)
	}
	for i := 0; i < SmallMetaCountLimit; i++ {
		c := fmt.Sprintf("new-blob-%d", i)
		br := blob.RefFromString(c)
		contents[br] = c
		if _, err := blobserver.Receive(ctxbg, s1, br, strings.NewReader(c)); err != nil {
			t.Fatalf("upload: %v", err)
		}
	}
	mut1Settle(meta)

	// Restart 2: lets any compaction that is due happen with all index
	// rows present.
	s2 := mut1NewStorage(id, blobs, meta)
	if err := s2.readAllMetaBlobs(); err != nil {
		t.Fatalf("restart 2: %v", err)
	}
	mut1Settle(meta)
	t.Logf("meta blobs after restart 2: %d", meta.NumBlobs())

	// Restart 3: everything ever acknowledged must still be there.
	s3 := mut1NewStorage(id, blobs, meta)
	if err := s3.readAllMetaBlobs(); err != nil {
		t.Fatalf("restart 3: %v", err)
	}
	missing := 0
	for br, want := range contents {
		rc, _, err := s3.Fetch(ctxbg, br)
		if err != nil {
			missing++
			if missing <= 5 {
				t.Errorf("after restart: Fetch(%v) (content %q): %v", br, want, err)
			}
			continue
		}
		got, _ := io.ReadAll(rc)
		rc.Close()
		if string(got) != want {
			t.Errorf("Fetch(%v) = %q; want %q", br, got, want)
		}
	}
	if missing > 0 {
		t.Errorf("%d of %d acknowledged blobs are no longer reachable from the wrapped stores", missing, len(contents))
	}
}
