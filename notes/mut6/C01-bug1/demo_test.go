package union

import (
	"context"
	"io"
	"testing"

	"perkeep.org/pkg/blob"
	"perkeep.org/pkg/blobserver"
	"perkeep.org/pkg/blobserver/localdisk"
	"perkeep.org/pkg/test"
)

// TestMutDemoFetchBlobInTwoSubsets checks that a blob that is present in
// more than one subset of a union (here: two file-per-blob stores) is
// fetched back byte-for-byte, like a blob that is in one subset only.
func TestMutDemoFetchBlobInTwoSubsets(t *testing.T) {
	ctx := context.Background()
	ld := test.NewLoader()
	var subs []blobserver.Storage
	for _, name := range []string{"/disk-a/", "/disk-b/"} {
		ds, err := localdisk.New(t.TempDir())
		if err != nil {
			t.Fatal(err)
		}
		ld.SetStorage(name, ds)
		subs = append(subs, ds)
	}
	uni := newUnion(t, ld, map[string]any{
		"subsets": []any{"/disk-a/", "/disk-b/"},
	})

	both := &test.Blob{Contents: "a blob that both subsets hold"}
	onlyA := &test.Blob{Contents: "a blob of the first subset"}
	onlyB := &test.Blob{Contents: "a blob of the second subset"}
	both.MustUpload(t, subs[0])
	both.MustUpload(t, subs[1])
	onlyA.MustUpload(t, subs[0])
	onlyB.MustUpload(t, subs[1])

	for _, tb := range []*test.Blob{onlyA, onlyB, both} {
		rc, size, err := uni.Fetch(ctx, tb.BlobRef())
		if err != nil {
			t.Errorf("Fetch(%v): %v", tb.BlobRef(), err)
			continue
		}
		got, err := io.ReadAll(rc)
		rc.Close()
		if err != nil {
			t.Errorf("reading %v (%q) from the union: %v", tb.BlobRef(), tb.Contents, err)
			continue
		}
		if string(got) != tb.Contents || int(size) != len(tb.Contents) {
			t.Errorf("Fetch(%v) = %q, size %d; want %q, size %d", tb.BlobRef(), got, size, tb.Contents, len(tb.Contents))
		}
		if blob.RefFromString(string(got)) != tb.BlobRef() {
			t.Errorf("Fetch(%v): content doesn't hash to its ref", tb.BlobRef())
		}
	}
}
