package sqlite

import (
	"errors"
	"path/filepath"
	"testing"

	"perkeep.org/pkg/sorted"
)

// TestMutBatchAtomicAfterFailedStatement checks that a batch in which one
// statement failed is never committed partially: CommitBatch must either
// report the failure and leave the store untouched, or apply everything.
//
// The failing statement is produced without any fault injection: the same
// sqlite file is opened twice (as two perkeep processes sharing an index
// would do) and the first handle holds the write lock while the second one
// records its first mutation, which therefore fails with SQLITE_BUSY.
func TestMutBatchAtomicAfterFailedStatement(t *testing.T) {
	file := filepath.Join(t.TempDir(), "index.sqlite")
	kv1, err := NewStorage(file)
	if err != nil {
		t.Fatal(err)
	}
	defer kv1.Close()
	kv2, err := NewStorage(file)
	if err != nil {
		t.Fatal(err)
	}
	defer kv2.Close()

	for _, kvp := range [][2]string{{"a", "old"}, {"c", "cv"}} {
		if err := kv1.Set(kvp[0], kvp[1]); err != nil {
			t.Fatal(err)
		}
	}

	// Handle 1 starts a batch and takes the write lock.
	b1 := kv1.BeginBatch()
	b1.Set("x", "xv")

	// Handle 2 starts its own batch; its first statement hits the lock.
	b2 := kv2.BeginBatch()
	b2.Set("a", "new")

	// Handle 1 is done: the lock is free again.
	if err := kv1.CommitBatch(b1); err != nil {
		t.Fatalf("commit of batch 1: %v", err)
	}

	// The rest of batch 2 executes fine.
	b2.Delete("c")
	b2.Set("d", "dv")
	commitErr := kv2.CommitBatch(b2)

	get := func(k string) string {
		v, err := kv1.Get(k)
		if errors.Is(err, sorted.ErrNotFound) {
			return "<notfound>"
		}
		if err != nil {
			t.Fatalf("Get(%q): %v", k, err)
		}
		return v
	}
	got := map[string]string{"a": get("a"), "c": get("c"), "d": get("d"), "x": get("x")}
	t.Logf("CommitBatch(b2) = %v; store = %v", commitErr, got)

	if got["x"] != "xv" {
		t.Errorf("batch 1 not applied: x = %q", got["x"])
	}
	none := got["a"] == "old" && got["c"] == "cv" && got["d"] == "<notfound>"
	all := got["a"] == "new" && got["c"] == "<notfound>" && got["d"] == "dv"
	switch {
	case commitErr != nil && none:
		// The failure was reported and nothing was applied: fine.
	case commitErr == nil && all:
		// Everything went through (e.g. the driver waited for the lock): fine.
	case commitErr == nil:
		t.Errorf("CommitBatch returned nil but the batch {Set a=new, Delete c, Set d=dv} was applied partially: %v", got)
	default:
		t.Errorf("CommitBatch returned %v but the batch was applied (partially): %v", commitErr, got)
	}
}
