package blob_test

import (
	"encoding/json"
	"testing"

	"perkeep.org/pkg/blob"
)

// TestMutC20HighBitHexRejected checks that a ref string whose digest contains
// a non-ASCII byte (here: a valid hex digit with bit 7 set) is rejected by
// every parser, and that anything a parser does accept prints back to the
// very same text.
func TestMutC20HighBitHexRejected(t *testing.T) {
	good := []string{
		"sha1-0beec7b5ea3f0fdbc95d0dd47f3c5bc275da8a33",
		"sha224-d14a028c2a3a2bc9476102bb288234c415a2b01f828ea62ac5b3e42f",
		"sha256-b5bb9d8014a0f9b1d61e21e796d78dccdf1352f23cd32812f4850b878ae4944c",
		"foo-0b0c",
	}
	for _, g := range good {
		dash := len(g) - len(blob.MustParse(g).Digest())
		for pos := dash; pos < len(g); pos++ {
			b := []byte(g)
			b[pos] |= 0x80
			s := string(b)

			if r, ok := blob.Parse(s); ok {
				t.Errorf("Parse(%q) accepted; String() = %q", s, r.String())
			}
			if r, ok := blob.ParseKnown(s); ok {
				t.Errorf("ParseKnown(%q) accepted; String() = %q", s, r.String())
			}
			if r, ok := blob.ParseBytes(b); ok {
				t.Errorf("ParseBytes(%q) accepted; String() = %q", s, r.String())
			}
			if blob.ValidRefString(s) {
				t.Errorf("ValidRefString(%q) = true", s)
			}
			var r blob.Ref
			if err := r.UnmarshalJSON([]byte(`"` + s + `"`)); err == nil {
				t.Errorf("UnmarshalJSON(%q) accepted; String() = %q", s, r.String())
			}
			var f struct{ R blob.Ref }
			if err := json.Unmarshal([]byte(`{"R":"`+s+`"}`), &f); err == nil && f.R.Valid() && f.R.String() != s {
				t.Errorf("json.Unmarshal(%q) gave ref %q", s, f.R.String())
			}
		}
	}
}
