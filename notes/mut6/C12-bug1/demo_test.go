package replica

import (
	"context"
	"errors"
	"io"
	"strings"
	"sync"
	"testing"

	"perkeep.org/pkg/blob"
	"perkeep.org/pkg/blobserver"
	"perkeep.org/pkg/blobserver/memory"
)

// shortCopyStorage is a replica that, for some refs, is left with a
// truncated copy of the blob (e.g. after a crash in the middle of an earlier
// write, or bit rot): it stats and fetches those with the short size.
//
// If overwrite is set, receiving the blob again replaces the short copy with
// the good bytes (as a write-to-temp-and-rename store does). Otherwise the
// store keeps what it has and answers with the size of what it has (as a
// "already have it" short-circuiting store does).
type shortCopyStorage struct {
	*memory.Storage
	overwrite bool

	mu    sync.Mutex
	short map[blob.Ref]string // ref -> truncated contents held
}

func (s *shortCopyStorage) shortCopy(br blob.Ref) (string, bool) {
	s.mu.Lock()
	defer s.mu.Unlock()
	v, ok := s.short[br]
	return v, ok
}

func (s *shortCopyStorage) StatBlobs(ctx context.Context, blobs []blob.Ref, fn func(blob.SizedRef) error) error {
	var rest []blob.Ref
	for _, br := range blobs {
		if v, ok := s.shortCopy(br); ok {
			if err := fn(blob.SizedRef{Ref: br, Size: uint32(len(v))}); err != nil {
				return err
			}
			continue
		}
		rest = append(rest, br)
	}
	return s.Storage.StatBlobs(ctx, rest, fn)
}

func (s *shortCopyStorage) Fetch(ctx context.Context, br blob.Ref) (io.ReadCloser, uint32, error) {
	if v, ok := s.shortCopy(br); ok {
		return io.NopCloser(strings.NewReader(v)), uint32(len(v)), nil
	}
	return s.Storage.Fetch(ctx, br)
}

func (s *shortCopyStorage) ReceiveBlob(ctx context.Context, br blob.Ref, src io.Reader) (blob.SizedRef, error) {
	if v, ok := s.shortCopy(br); ok && !s.overwrite {
		io.Copy(io.Discard, src)
		return blob.SizedRef{Ref: br, Size: uint32(len(v))}, nil
	}
	sb, err := s.Storage.ReceiveBlob(ctx, br, src)
	if err == nil {
		s.mu.Lock()
		delete(s.short, br)
		s.mu.Unlock()
	}
	return sb, err
}

// downStorage is a replica that refuses all writes.
type downStorage struct {
	*memory.Storage
}

func (downStorage) ReceiveBlob(ctx context.Context, br blob.Ref, src io.Reader) (blob.SizedRef, error) {
	io.Copy(io.Discard, src)
	return blob.SizedRef{}, errors.New("replica is down")
}

func mutDemoReplica(min int, stos ...blobserver.Storage) *replicaStorage {
	names := make([]string, len(stos))
	for i := range names {
		names[i] = "/r/"
	}
	return &replicaStorage{
		replicaPrefixes:     names,
		replicas:            stos,
		readPrefixes:        names,
		readReplicas:        stos,
		minWritesForSuccess: min,
	}
}

// goodCopies returns how many of the write replicas hold br with the right size.
func goodCopies(t *testing.T, sto *replicaStorage, br blob.Ref, size int) int {
	n := 0
	for _, rep := range sto.replicas {
		sb, err := blobserver.StatBlob(context.Background(), rep, br)
		if err == nil && int(sb.Size) == size {
			n++
		}
	}
	return n
}

// TestMutDemoQuorumCountsOnlyRightSizedCopies: a receive is acknowledged
// only once minWritesForSuccess replicas hold the blob with the correct size,
// also when a replica starts out with a truncated copy of that very blob.
func TestMutDemoQuorumCountsOnlyRightSizedCopies(t *testing.T) {
	const contents = "some blob contents that one replica only has the start of"
	br := blob.RefFromString(contents)

	t.Run("n=3,min=2,short-copy+good+down", func(t *testing.T) {
		a := &shortCopyStorage{Storage: &memory.Storage{}, overwrite: true,
			short: map[blob.Ref]string{br: contents[:10]}}
		b := &memory.Storage{}
		c := downStorage{&memory.Storage{}}
		sto := mutDemoReplica(2, a, b, c)

		_, err := blobserver.Receive(context.Background(), sto, br, strings.NewReader(contents))
		got := goodCopies(t, sto, br, len(contents))
		t.Logf("Receive err = %v; replicas with a right-sized copy = %d", err, got)
		if err == nil && got < 2 {
			t.Errorf("Receive acknowledged the blob with minWritesForSuccess=2, but only %d replica(s) hold it with the correct size", got)
		}
	})

	t.Run("n=2,min=2,short-copy(kept)+good", func(t *testing.T) {
		a := &shortCopyStorage{Storage: &memory.Storage{}, overwrite: false,
			short: map[blob.Ref]string{br: contents[:10]}}
		b := &memory.Storage{}
		sto := mutDemoReplica(2, a, b)

		_, err := blobserver.Receive(context.Background(), sto, br, strings.NewReader(contents))
		got := goodCopies(t, sto, br, len(contents))
		t.Logf("Receive err = %v; replicas with a right-sized copy = %d", err, got)
		if err == nil {
			t.Errorf("Receive acknowledged the blob with minWritesForSuccess=2, but only %d replica(s) hold it with the correct size", got)
		}
	})
}
