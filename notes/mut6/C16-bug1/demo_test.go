package jsonsign_test

import (
	"encoding/json"
	"fmt"
	"path/filepath"
	"reflect"
	"testing"
	"time"

	. "perkeep.org/pkg/jsonsign"
)

// TestMutC16SignDefaultSecretRing signs the same valid object with the three
// ways a SignRequest can locate the private key: an explicit EntityFetcher,
// an explicit SecretKeyringPath, and neither (the documented "final resort":
// the default secret ring, osutil.SecretRingFile(), here named by the
// CAMLI_SECRET_RING environment variable, as a jsonsign handler configured
// without "secretRing" does). In all three configurations the C16 round-trip
// must hold: valid JSON out, verifies against the signer's key, original
// fields exposed.
func TestMutC16SignDefaultSecretRing(t *testing.T) {
	ring, err := filepath.Abs(filepath.Join("testdata", "test-secring.gpg"))
	if err != nil {
		t.Fatal(err)
	}
	unsigned := fmt.Sprintf(`{"camliVersion": 1,
  "camliSigner": %q,
  "camliType": "permanode",
  "random": "default-ring-demo"
}`, pubKeyBlob1.BlobRef().String())
	var want map[string]any
	if err := json.Unmarshal([]byte(unsigned), &want); err != nil {
		t.Fatal(err)
	}

	check := func(t *testing.T, sr *SignRequest) {
		t.Helper()
		sr.UnsignedJSON = unsigned
		sr.SignatureTime = time.Unix(1300000000, 0)
		signed, err := sr.Sign(ctxbg)
		if err != nil {
			t.Fatalf("Sign of a valid object failed: %v", err)
		}
		var all map[string]any
		if err := json.Unmarshal([]byte(signed), &all); err != nil {
			t.Fatalf("signed document is not valid JSON: %v\n%s", err, signed)
		}
		vr := NewVerificationRequest(signed, testFetcher)
		if _, err := vr.Verify(ctxbg); err != nil {
			t.Fatalf("signed document does not verify: %v (vr.Err=%v)", err, vr.Err)
		}
		if !reflect.DeepEqual(vr.PayloadMap, want) {
			t.Errorf("payload fields differ: got %v want %v", vr.PayloadMap, want)
		}
		if got, wantID := vr.SignerKeyId, "2931A67C26F5ABDA"; got != wantID {
			t.Errorf("SignerKeyId = %q; want %q", got, wantID)
		}
	}

	t.Run("explicit-EntityFetcher", func(t *testing.T) {
		check(t, &SignRequest{
			Fetcher:       testFetcher,
			ServerMode:    true,
			EntityFetcher: &FileEntityFetcher{File: ring},
		})
	})
	t.Run("explicit-SecretKeyringPath", func(t *testing.T) {
		check(t, &SignRequest{
			Fetcher:           testFetcher,
			ServerMode:        true,
			SecretKeyringPath: ring,
		})
	})
	t.Run("default-secret-ring", func(t *testing.T) {
		t.Setenv("CAMLI_SECRET_RING", ring)
		check(t, &SignRequest{
			Fetcher:    testFetcher,
			ServerMode: true,
			// No EntityFetcher, no SecretKeyringPath: falls back to
			// osutil.SecretRingFile().
		})
	})
}
