package blobpacked

import (
	"archive/zip"
	"bytes"
	"io"
	"testing"

	"perkeep.org/pkg/blob"
	"perkeep.org/pkg/schema"
	"perkeep.org/pkg/sorted"
	"perkeep.org/pkg/test"
)

// A file whose content repeats a chunk (A B A C A) is packed. The zip's
// first entry must be the contiguous file content, the whole-file read must
// return the file, and that must still hold after the meta index is rebuilt
// from the zips alone.
func TestMut2PackFileWithRepeatedChunk(t *testing.T) {
	const chunkSize = 200 << 10
	raw := randBytesSrc(3*chunkSize, 815)
	chunkA := &test.Blob{Contents: string(raw[:chunkSize])}
	chunkB := &test.Blob{Contents: string(raw[chunkSize : 2*chunkSize])}
	chunkC := &test.Blob{Contents: string(raw[2*chunkSize:])}
	order := []*test.Blob{chunkA, chunkB, chunkA, chunkC, chunkA}

	var contents []byte
	var parts []schema.BytesPart
	for _, c := range order {
		contents = append(contents, c.Contents...)
		parts = append(parts, schema.BytesPart{Size: uint64(len(c.Contents)), BlobRef: c.BlobRef()})
	}
	wholeRef := blob.RefFromBytes(contents)

	small, large := new(test.Fetcher), new(test.Fetcher)
	sto := &storage{
		small: small,
		large: large,
		meta:  sorted.NewMemoryKeyValue(),
		log:   test.NewLogger(t, "blobpacked: "),
	}
	sto.init()

	for _, c := range []*test.Blob{chunkA, chunkB, chunkC} {
		c.MustUpload(t, sto)
	}
	m := schema.NewFileMap("repeats.dat")
	if err := m.PopulateParts(int64(len(contents)), parts); err != nil {
		t.Fatal(err)
	}
	fjson, err := m.JSON()
	if err != nil {
		t.Fatal(err)
	}
	fileBlob := &test.Blob{Contents: fjson}
	fileBlob.MustUpload(t, sto)

	if n := large.NumBlobs(); n != 1 {
		t.Fatalf("zips = %d; want 1 (file not packed?)", n)
	}
	if n := small.NumBlobs(); n != 0 {
		t.Errorf("loose blobs left = %d; want 0", n)
	}

	// The zip's first entry is the contiguous file content.
	zipSB, err := singleBlob(large)
	if err != nil {
		t.Fatal(err)
	}
	zipBytes := slurpBlob(t, large, zipSB.Ref)
	zr, err := zip.NewReader(bytes.NewReader(zipBytes), int64(len(zipBytes)))
	if err != nil {
		t.Fatal(err)
	}
	frc, err := zr.File[0].Open()
	if err != nil {
		t.Fatal(err)
	}
	first, err := io.ReadAll(frc)
	frc.Close()
	if err != nil {
		t.Fatal(err)
	}
	if !bytes.Equal(first, contents) {
		t.Errorf("zip's first entry %q has %d bytes and is not the file content (%d bytes)", zr.File[0].Name, len(first), len(contents))
	}

	check := func(when string) {
		// Every logical blob is served.
		for _, b := range []*test.Blob{chunkA, chunkB, chunkC, fileBlob} {
			if got := slurpBlob(t, sto, b.BlobRef()); string(got) != b.Contents {
				t.Errorf("%s: blob %v: wrong bytes", when, b.BlobRef())
			}
		}
		// A read through the schema works.
		fr, err := schema.NewFileReader(ctxbg, sto, fileBlob.BlobRef())
		if err != nil {
			t.Fatalf("%s: NewFileReader: %v", when, err)
		}
		if got, err := io.ReadAll(fr); err != nil || !bytes.Equal(got, contents) {
			t.Errorf("%s: file read through its schema: %d bytes, err %v; want %d bytes", when, len(got), err, len(contents))
		}
		// And so does the whole-file read from the zips.
		rc, size, err := sto.OpenWholeRef(wholeRef, 0)
		if err != nil {
			t.Errorf("%s: OpenWholeRef: %v", when, err)
			return
		}
		defer rc.Close()
		got, err := io.ReadAll(rc)
		if err != nil || size != int64(len(contents)) || !bytes.Equal(got, contents) {
			t.Errorf("%s: OpenWholeRef: %d bytes (reported size %d), err %v; want the %d bytes of the file", when, len(got), size, err, len(contents))
		}
	}
	check("after the pack")

	if err := sto.reindex(ctxbg, func() (sorted.KeyValue, error) {
		return sorted.NewMemoryKeyValue(), nil
	}); err != nil {
		t.Fatalf("reindex: %v", err)
	}
	check("after full recovery")
}
