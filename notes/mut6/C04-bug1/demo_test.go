package blobpacked

import (
	"bytes"
	"context"
	"errors"
	"io"
	"os"
	"sync"
	"testing"

	"perkeep.org/pkg/blob"
	"perkeep.org/pkg/blobserver"
	"perkeep.org/pkg/schema"
	"perkeep.org/pkg/sorted"
	"perkeep.org/pkg/test"
)

// mut1CrashingLarge is a large (zip) store that "crashes" the pack: from the
// failAt'th zip on, nothing is stored any more.
type mut1CrashingLarge struct {
	*test.Fetcher
	mu     sync.Mutex
	n      int
	failAt int // 1-based index of the first zip that is refused
}

func (l *mut1CrashingLarge) ReceiveBlob(ctx context.Context, br blob.Ref, r io.Reader) (blob.SizedRef, error) {
	l.mu.Lock()
	l.n++
	fail := l.n >= l.failAt
	l.mu.Unlock()
	if fail {
		return blob.SizedRef{}, errors.New("mut1: simulated crash before the zip is stored")
	}
	return l.Fetcher.ReceiveBlob(ctx, br, r)
}

// A multi-zip pack is interrupted after its first zip (zip stored, meta
// committed, loose blobs of that zip deleted), the server restarts in
// recovery mode (full: fresh meta; fast: existing meta). The file is then
// only partially packed: a whole-file read must either be refused
// (os.ErrNotExist, so that callers fall back to the chunks) or return the
// complete file. It must never return a truncated file as if it were whole.
func TestMut1RecoveryOfInterruptedMultiZipPack(t *testing.T) {
	for _, mode := range []string{"full", "fast"} {
		t.Run(mode, func(t *testing.T) {
			const fileSize = 3 << 20
			contents := randBytesSrc(fileSize, 4711)
			wholeRef := blob.RefFromBytes(contents)

			logical := new(test.Fetcher)
			if _, err := schema.WriteFileFromReader(ctxbg, logical, "interrupted.dat", bytes.NewReader(contents)); err != nil {
				t.Fatal(err)
			}

			small := new(test.Fetcher)
			large := &mut1CrashingLarge{Fetcher: new(test.Fetcher), failAt: 2}
			meta := sorted.NewMemoryKeyValue()
			sto := &storage{
				small:               small,
				large:               large,
				meta:                meta,
				forceMaxZipBlobSize: 1 << 20,
				log:                 test.NewLogger(t, "blobpacked: "),
			}
			sto.init()
			if _, err := schema.WriteFileFromReader(ctxbg, sto, "interrupted.dat", bytes.NewReader(contents)); err != nil {
				t.Fatal(err)
			}
			if got := large.NumBlobs(); got != 1 {
				t.Fatalf("zips stored before the crash = %d; want 1", got)
			}
			if _, err := meta.Get(wholeMetaPrefix + wholeRef.String()); !errors.Is(err, sorted.ErrNotFound) {
				t.Fatalf("final whole-file row before the crash: err = %v; want not found", err)
			}

			// Restart in recovery mode.
			sto2 := &storage{
				small:               small,
				large:               large,
				meta:                meta,
				forceMaxZipBlobSize: 1 << 20,
				log:                 test.NewLogger(t, "blobpacked: "),
			}
			sto2.init()
			if err := sto2.reindex(ctxbg, func() (sorted.KeyValue, error) {
				if mode == "full" {
					return sorted.NewMemoryKeyValue(), nil
				}
				return meta, nil
			}); err != nil {
				t.Fatalf("reindex: %v", err)
			}

			// Every logical blob is still served with its bytes.
			if err := blobserver.EnumerateAll(ctxbg, logical, func(sb blob.SizedRef) error {
				got := slurpBlob(t, sto2, sb.Ref)
				if blob.RefFromBytes(got) != sb.Ref || uint32(len(got)) != sb.Size {
					t.Errorf("blob %v: wrong bytes after recovery", sb.Ref)
				}
				return nil
			}); err != nil {
				t.Fatal(err)
			}

			// The whole-file read.
			rc, size, err := sto2.OpenWholeRef(wholeRef, 0)
			if errors.Is(err, os.ErrNotExist) {
				return // fine: not (completely) packed, callers use the chunks
			}
			if err != nil {
				t.Fatalf("OpenWholeRef: %v", err)
			}
			defer rc.Close()
			got, err := io.ReadAll(rc)
			if err != nil {
				t.Fatalf("reading the whole file: %v (after %d bytes)", err, len(got))
			}
			if size != fileSize || !bytes.Equal(got, contents) {
				t.Fatalf("after %s recovery of an interrupted pack, OpenWholeRef serves %d bytes (reported size %d) as the whole file; the file has %d bytes",
					mode, len(got), size, fileSize)
			}
		})
	}
}
