package index_test

import (
	"context"
	"testing"

	"perkeep.org/pkg/index"
	"perkeep.org/pkg/index/indextest"
	"perkeep.org/pkg/types/camtypes"
)

// mut6c07b1Replay applies claims, already restricted to one attribute by the
// caller (that is what the attrFilter argument of AppendClaims is for), in
// the order given.
func mut6c07b1Replay(claims []camtypes.Claim) []string {
	var vals []string
	for _, cl := range claims {
		switch cl.Type {
		case "set-attribute":
			vals = []string{cl.Value}
		case "add-attribute":
			vals = append(vals, cl.Value)
		case "del-attribute":
			if cl.Value == "" {
				vals = nil
				continue
			}
			var kept []string
			for _, v := range vals {
				if v != cl.Value {
					kept = append(kept, v)
				}
			}
			vals = kept
		}
	}
	return vals
}

// The claims of one attribute, as read from the sorted index rows (no
// corpus), must be exactly that attribute's claims, and the same as what
// the corpus returns: other attributes whose name or value happens to
// contain the filtered attribute's name must not leak in.
func TestMut6C07Bug1AttrFilterSubstring(t *testing.T) {
	ctx := context.Background()
	idx := index.NewMemoryIndex()
	id := indextest.NewIndexDeps(idx)
	id.Fataler = t

	pn := id.NewPermanode()
	id.SetAttribute(pn, "title", "Paris")
	id.AddAttribute(pn, "tag", "city")
	// Rows whose value part contains "title" / "tag" as a substring:
	id.SetAttribute(pn, "description", "no title yet")
	id.SetAttribute(pn, "subtitle", "in spring")
	id.AddAttribute(pn, "camliContentImage", "vintage")

	type res struct {
		attrs []string
		vals  []string
	}
	query := func(x *index.Index, attr string) res {
		x.RLock()
		defer x.RUnlock()
		claims, err := x.AppendClaims(ctx, nil, pn, indextest.KeyID, attr)
		if err != nil {
			t.Fatalf("AppendClaims(%q): %v", attr, err)
		}
		var r res
		for _, cl := range claims {
			r.attrs = append(r.attrs, cl.Attr)
		}
		r.vals = mut6c07b1Replay(claims)
		return r
	}

	want := map[string][]string{
		"title": {"Paris"},
		"tag":   {"city"},
	}

	check := func(path string, x *index.Index) {
		for attr, wantVals := range want {
			r := query(x, attr)
			for _, a := range r.attrs {
				if a != attr {
					t.Errorf("%s: AppendClaims(attrFilter=%q) returned a claim about attribute %q", path, attr, a)
				}
			}
			if len(r.vals) != len(wantVals) || (len(wantVals) > 0 && r.vals[0] != wantVals[0]) {
				t.Errorf("%s: values of %q from its filtered claims = %q; want %q", path, attr, r.vals, wantVals)
			}
		}
	}

	// 1. sorted index rows only.
	check("index rows", idx)

	// 2. same index, with a corpus loaded from those rows.
	if _, err := idx.KeepInMemory(); err != nil {
		t.Fatal(err)
	}
	check("corpus", idx)
}
