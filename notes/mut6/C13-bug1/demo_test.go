package files_test

import (
	"context"
	"errors"
	"os"
	"sync"
	"testing"

	"perkeep.org/pkg/blob"
	"perkeep.org/pkg/blobserver"
	"perkeep.org/pkg/blobserver/files"
	"perkeep.org/pkg/test"
)

// mutFaultFS is the host file system, except that the failAt-th call (1
// based) of ReadDirNames fails with a transient I/O error.
type mutFaultFS struct {
	files.VFS

	mu     sync.Mutex
	calls  int
	failAt int // 0: never
}

var errMutInjected = errors.New("injected transient I/O error")

func (fs *mutFaultFS) ReadDirNames(dir string) ([]string, error) {
	fs.mu.Lock()
	fs.calls++
	fail := fs.calls == fs.failAt
	fs.mu.Unlock()
	if fail {
		return nil, &os.PathError{Op: "readdirent", Path: dir, Err: errMutInjected}
	}
	return fs.VFS.ReadDirNames(dir)
}

func (fs *mutFaultFS) arm(k int) {
	fs.mu.Lock()
	fs.calls, fs.failAt = 0, k
	fs.mu.Unlock()
}

func mutEnumerate(sto blobserver.Storage) ([]blob.SizedRef, error) {
	var got []blob.SizedRef
	err := blobserver.EnumerateAll(context.Background(), sto, func(sb blob.SizedRef) error {
		got = append(got, sb)
		return nil
	})
	return got, err
}

// TestMutEnumerateReadDirFault injects one transient error at the k-th
// directory listing of an enumeration, for every k. The enumeration must
// then either fail, or list everything that was acknowledged: it must not
// succeed with blobs silently missing.
func TestMutEnumerateReadDirFault(t *testing.T) {
	root := t.TempDir()
	fs := &mutFaultFS{VFS: files.OSFS()}
	sto := files.NewStorage(fs, root)

	var want []blob.SizedRef
	for _, c := range []string{"foo", "baar", "bazzz", "quux", "some other blob"} {
		tb := &test.Blob{Contents: c}
		tb.MustUpload(t, sto)
		want = append(want, tb.SizedRef())
	}

	// Fault-free run: learn how many directory listings one enumeration does.
	fs.arm(0)
	got, err := mutEnumerate(sto)
	if err != nil {
		t.Fatalf("fault-free enumerate: %v", err)
	}
	if len(got) != len(want) {
		t.Fatalf("fault-free enumerate listed %d blobs; want %d", len(got), len(want))
	}
	fs.mu.Lock()
	nCalls := fs.calls
	fs.mu.Unlock()
	if nCalls < 4 {
		t.Fatalf("only %d ReadDirNames calls seen; test is broken", nCalls)
	}

	for k := 1; k <= nCalls; k++ {
		fs.arm(k)
		got, err := mutEnumerate(sto)
		if err != nil {
			continue // the affected call failed: fine
		}
		if len(got) != len(want) {
			t.Errorf("fault at ReadDirNames call #%d: enumerate reported success but listed only %d of the %d acknowledged blobs",
				k, len(got), len(want))
		}
	}

	// Once failures stop, everything is listed again.
	fs.arm(0)
	got, err = mutEnumerate(sto)
	if err != nil || len(got) != len(want) {
		t.Errorf("after faults: enumerate = %d blobs, %v; want %d, nil", len(got), err, len(want))
	}
}
