package proxycache_test

import (
	"context"
	"errors"
	"io"
	"os"
	"sync"
	"testing"

	"perkeep.org/pkg/blob"
	"perkeep.org/pkg/blobserver"
	"perkeep.org/pkg/blobserver/memory"
	"perkeep.org/pkg/blobserver/proxycache"
	"perkeep.org/pkg/test"
)

var errMutInjected = errors.New("injected transient origin error")

// mutFlakyOrigin is a blobserver.Storage whose next ReceiveBlob fails (after
// having consumed its source, like a remote store whose connection drops)
// while failNext is set.
type mutFlakyOrigin struct {
	blobserver.Storage

	mu       sync.Mutex
	failNext bool
}

func (o *mutFlakyOrigin) ReceiveBlob(ctx context.Context, br blob.Ref, src io.Reader) (blob.SizedRef, error) {
	o.mu.Lock()
	fail := o.failNext
	o.failNext = false
	o.mu.Unlock()
	if fail {
		io.Copy(io.Discard, src)
		return blob.SizedRef{}, errMutInjected
	}
	return o.Storage.ReceiveBlob(ctx, br, src)
}

type mutView struct {
	fetch, stat, enum bool
}

func mutVisibility(t *testing.T, sto blobserver.Storage, br blob.Ref) mutView {
	t.Helper()
	ctx := context.Background()
	var v mutView

	rc, _, err := sto.Fetch(ctx, br)
	switch {
	case err == nil:
		rc.Close()
		v.fetch = true
	case !errors.Is(err, os.ErrNotExist):
		t.Fatalf("Fetch(%v): %v", br, err)
	}

	_, err = blobserver.StatBlob(ctx, sto, br)
	switch {
	case err == nil:
		v.stat = true
	case !errors.Is(err, os.ErrNotExist):
		t.Fatalf("StatBlob(%v): %v", br, err)
	}

	if err := blobserver.EnumerateAll(ctx, sto, func(sb blob.SizedRef) error {
		if sb.Ref == br {
			v.enum = true
		}
		return nil
	}); err != nil {
		t.Fatalf("EnumerateAll: %v", err)
	}
	return v
}

// TestMutFailedOriginWriteLeavesNothingVisible makes one write to the origin
// (the lower layer of the proxycache) fail. The ReceiveBlob must fail, and
// the blob must not be visible in any way afterwards: it is not stored.
func TestMutFailedOriginWriteLeavesNothingVisible(t *testing.T) {
	origin := &mutFlakyOrigin{Storage: memory.NewCache(0)}
	px := proxycache.New(1<<20, memory.NewCache(1<<20), origin)

	a := &test.Blob{Contents: "blob A, stored without any fault"}
	b := &test.Blob{Contents: "blob B, whose first upload hits an origin failure"}

	a.MustUpload(t, px)

	origin.mu.Lock()
	origin.failNext = true
	origin.mu.Unlock()
	if _, err := blobserver.Receive(context.Background(), px, b.BlobRef(), b.Reader()); err == nil {
		t.Fatalf("ReceiveBlob of B succeeded although the origin write failed")
	}

	// Failures have stopped. A is fully there, B is not there at all.
	if v := mutVisibility(t, px, a.BlobRef()); v != (mutView{true, true, true}) {
		t.Errorf("A (acknowledged) visibility = %+v; want all true", v)
	}
	if v := mutVisibility(t, px, b.BlobRef()); v != (mutView{}) {
		t.Errorf("B (upload failed, origin doesn't have it) is partially visible: %+v; want it absent everywhere", v)
	}
	if _, _, err := origin.Fetch(context.Background(), b.BlobRef()); !errors.Is(err, os.ErrNotExist) {
		t.Fatalf("origin unexpectedly has B: %v", err)
	}

	// A retry stores it for good.
	b.MustUpload(t, px)
	if v := mutVisibility(t, px, b.BlobRef()); v != (mutView{true, true, true}) {
		t.Errorf("B after a successful retry: visibility = %+v; want all true", v)
	}
}
