package search_test

import (
	"fmt"
	"testing"

	"perkeep.org/pkg/blob"
	. "perkeep.org/pkg/search"
)

// Paging (-created) through permanodes whose creation time is both older
// than what an int64 of nanoseconds can hold (before 1678) and not on a whole
// second must return every result exactly once, whatever the page size.
func TestMutC09PagingAncientSubSecond(t *testing.T) {
	testQueryTypes(t, memIndexTypes, func(qt *queryTest) {
		id := qt.id

		// Six permanodes tied on an ancient, sub-second instant, two more
		// a fraction of a second before it, and two ordinary ones.
		times := []string{
			"2011-11-28T01:32:37.000123456Z",
			"1970-01-01T00:00:00Z",
			"1455-03-01T12:00:00.75Z",
			"1455-03-01T12:00:00.75Z",
			"1455-03-01T12:00:00.75Z",
			"1455-03-01T12:00:00.75Z",
			"1455-03-01T12:00:00.75Z",
			"1455-03-01T12:00:00.75Z",
			"1455-03-01T12:00:00.5Z",
			"1455-03-01T12:00:00.25Z",
			"1455-03-01T11:59:59Z",
		}
		for i, ts := range times {
			pn := id.NewPlannedPermanode(fmt.Sprint("ancient", i))
			id.SetAttribute(pn, "dateCreated", ts)
		}
		h := qt.Handler()

		query := func(limit int, cont string) *SearchResult {
			res, err := h.Query(ctxbg, &SearchQuery{
				Constraint: &Constraint{Permanode: &PermanodeConstraint{}},
				Sort:       CreatedDesc,
				Limit:      limit,
				Continue:   cont,
			})
			if err != nil {
				t.Fatalf("Query(limit=%d, continue=%q): %v", limit, cont, err)
			}
			return res
		}
		refs := func(res *SearchResult) (out []blob.Ref) {
			for _, b := range res.Blobs {
				out = append(out, b.Blob)
			}
			return
		}

		full := refs(query(-1, ""))
		if len(full) != len(times) {
			t.Fatalf("full list has %d results; want %d", len(full), len(times))
		}

		for limit := 1; limit <= len(times)+1; limit++ {
			var paged []blob.Ref
			cont := ""
			for page := 0; ; page++ {
				if page > 2*len(times) {
					t.Fatalf("limit %d: paging does not end", limit)
				}
				res := query(limit, cont)
				paged = append(paged, refs(res)...)
				if res.Continue == "" {
					break
				}
				cont = res.Continue
			}
			if fmt.Sprint(paged) != fmt.Sprint(full) {
				// Report positions in the full list rather than blobrefs.
				pos := make(map[blob.Ref]int)
				for i, br := range full {
					pos[br] = i
				}
				var got []int
				for _, br := range paged {
					got = append(got, pos[br])
				}
				t.Errorf("%v: limit %d: paging returned %d results, the full list has %d; positions returned: %v",
					qt.itype, limit, len(paged), len(full), got)
			}
		}
	})
}
