package serverinit_test

import (
	"net/http"
	"net/http/httptest"
	"strings"
	"testing"

	"perkeep.org/pkg/auth"
	"perkeep.org/pkg/serverinit"

	_ "perkeep.org/pkg/blobserver/memory"
	_ "perkeep.org/pkg/server"
)

// A server whose auth mode is "tailscale:..." but which is reached through a
// listener that is not the tsnet one (plain TCP, or here: in process) has no
// way to tell who is calling. Every credential-requiring endpoint must then
// refuse the request.
func TestMut6C17TailscaleAuthOnPlainListener(t *testing.T) {
	defer auth.SetMode(auth.None{}) // do not leak the mode into other tests
	// Avoid the "non-hermetic use of host configuration" guard of osutil.
	t.Setenv("CAMLI_CONFIG_DIR", t.TempDir())

	const lowLevel = `{
  "handlerConfig": true,
  "auth": "tailscale:full-access-to-tailnet",
  "prefixes": {
    "/": {
      "handler": "root",
      "handlerArgs": {"blobRoot": "/bs/", "statusRoot": "/status/"}
    },
    "/bs/": {"handler": "storage-memory"},
    "/status/": {"handler": "status"}
  }
}`
	conf, err := serverinit.Load([]byte(lowLevel))
	if err != nil {
		t.Fatalf("Load: %v", err)
	}
	mux := http.NewServeMux()
	if _, err := conf.InstallHandlers(mux, "http://pk.example.com"); err != nil {
		t.Fatalf("InstallHandlers: %v", err)
	}

	const ref = "sha224-d14a028c2a3a2bc9476102bb288234c415a2b01f828ea62ac5b3e42f"
	for _, tt := range []struct {
		method, path, body string
	}{
		{"GET", "/bs/camli/enumerate-blobs", ""},
		{"GET", "/bs/camli/" + ref, ""},
		{"HEAD", "/bs/camli/" + ref, ""},
		{"POST", "/bs/camli/stat", "camliversion=1&blob1=" + ref},
		{"PUT", "/bs/camli/" + ref, ""},
		{"GET", "/status/status.json", ""},
		{"GET", "/?camli.mode=config", ""},
		{"GET", "/debug/config", ""},
	} {
		req := httptest.NewRequest(tt.method, "http://pk.example.com"+tt.path, strings.NewReader(tt.body))
		req.RemoteAddr = "203.0.113.7:40000" // some host on the Internet
		if tt.method == "POST" {
			req.Header.Set("Content-Type", "application/x-www-form-urlencoded")
		}
		rr := httptest.NewRecorder()
		mux.ServeHTTP(rr, req)
		if rr.Code != http.StatusUnauthorized {
			t.Errorf("%s %s without credentials (tailscale auth, non-tailscale listener): status %d, want 401; body: %.200q",
				tt.method, tt.path, rr.Code, rr.Body.String())
		}
	}
}
