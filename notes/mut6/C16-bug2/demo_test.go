package jsonsign_test

import (
	"encoding/json"
	"fmt"
	"reflect"
	"strings"
	"testing"
	"time"

	"golang.org/x/crypto/openpgp/armor"
	"golang.org/x/crypto/openpgp/packet"
	. "perkeep.org/pkg/jsonsign"
)

// TestMutC16SignatureTimes checks that a document verifies whatever the
// signature time it was signed at (C16 scope: "all signature times"),
// in particular for back-dated signatures (claims for old files, planned
// permanodes) whose time precedes the creation time of the signer's key.
func TestMutC16SignatureTimes(t *testing.T) {
	block, err := armor.Decode(strings.NewReader(pubKey1))
	if err != nil {
		t.Fatal(err)
	}
	p, err := packet.Read(block.Body)
	if err != nil {
		t.Fatal(err)
	}
	keyCreated := p.(*packet.PublicKey).CreationTime
	t.Logf("signer key created at %v", keyCreated.UTC())

	unsigned := fmt.Sprintf(`{"camliVersion": 1,
  "camliSigner": %q,
  "camliType": "claim",
  "claimType": "set-attribute",
  "attribute": "title",
  "value": "back-dated"
}`, pubKeyBlob1.BlobRef().String())
	var want map[string]any
	if err := json.Unmarshal([]byte(unsigned), &want); err != nil {
		t.Fatal(err)
	}

	times := []struct {
		name string
		t    time.Time
	}{
		{"zero", time.Time{}},
		{"now", time.Now()},
		{"after-key-1y", keyCreated.Add(365 * 24 * time.Hour)},
		{"key-creation-instant", keyCreated},
		{"key-creation-minus-1s", keyCreated.Add(-time.Second)},
		{"2006", time.Date(2006, 1, 2, 15, 4, 5, 0, time.UTC)},
		{"1980", time.Date(1980, 6, 1, 0, 0, 0, 0, time.UTC)},
		{"unix-1", time.Unix(1, 0)},
	}
	for _, tc := range times {
		t.Run(tc.name, func(t *testing.T) {
			sr := newRequest(1)
			sr.UnsignedJSON = unsigned
			sr.SignatureTime = tc.t
			signed, err := sr.Sign(ctxbg)
			if err != nil {
				t.Fatalf("Sign at %v: %v", tc.t, err)
			}
			vr := NewVerificationRequest(signed, testFetcher)
			if _, err := vr.Verify(ctxbg); err != nil {
				t.Fatalf("document signed at %v does not verify: %v (vr.Err=%v)", tc.t.UTC(), err, vr.Err)
			}
			if !reflect.DeepEqual(vr.PayloadMap, want) {
				t.Errorf("payload fields differ: got %v want %v", vr.PayloadMap, want)
			}
			if got, wantID := vr.SignerKeyId, "2931A67C26F5ABDA"; got != wantID {
				t.Errorf("SignerKeyId = %q; want %q", got, wantID)
			}
		})
	}
}
