package search_test

import (
	"testing"
	"time"

	"perkeep.org/pkg/blob"
	. "perkeep.org/pkg/search"
)

// TestMutC08Bug1RelationAtClaimDate checks that a relation constraint
// evaluated "at" the very date of the claim that created the edge sees that
// edge ("attribute claims after this point in time are ignored": the claim
// made at that instant is not after it), whatever the sort order / candidate
// source.
func TestMutC08Bug1RelationAtClaimDate(t *testing.T) {
	testQueryTypes(t, memIndexTypes, func(qt *queryTest) {
		id := qt.id

		set := id.NewPlannedPermanode("set")
		m1 := id.NewPlannedPermanode("m1")
		m2 := id.NewPlannedPermanode("m2")
		id.AddAttribute(m1, "title", "one")
		id.AddAttribute(m2, "title", "two")

		id.AddAttribute(set, "camliMember", m1.String())
		id.AddAttribute(set, "camliMember", m2.String())
		atM2 := id.LastTime() // date of the claim adding m2 to set
		// A later claim on the set: its current attributes are not the
		// ones at atM2 anymore, so they have to be recomputed from the claims.
		id.SetAttribute(set, "title", "the set")

		sorts := []SortType{UnspecifiedSort, Unsorted, BlobRefAsc, CreatedDesc, LastModifiedDesc}
		for _, at := range []time.Time{atM2, atM2.Add(time.Nanosecond), atM2.Add(time.Hour)} {
			for _, srt := range sorts {
				qt.t.Logf("at=%v sort=%v", at, srt)
				// The parents of m2.
				qt.wantRes(&SearchQuery{
					Sort: srt,
					Constraint: &Constraint{
						Permanode: &PermanodeConstraint{
							At: at,
							Relation: &RelationConstraint{
								Relation: "child",
								Any:      &Constraint{BlobRefPrefix: m2.String()},
							},
						},
					},
				}, set)
				// The children of set.
				qt.wantRes(&SearchQuery{
					Sort: srt,
					Constraint: &Constraint{
						Permanode: &PermanodeConstraint{
							At: at,
							Relation: &RelationConstraint{
								Relation: "parent",
								Any:      &Constraint{BlobRefPrefix: set.String()},
							},
						},
					},
				}, m1, m2)
			}
		}
		// Just before: m2 is not a member yet.
		qt.wantRes(&SearchQuery{
			Sort: BlobRefAsc,
			Constraint: &Constraint{
				Permanode: &PermanodeConstraint{
					At: atM2.Add(-time.Nanosecond),
					Relation: &RelationConstraint{
						Relation: "parent",
						Any:      &Constraint{BlobRefPrefix: set.String()},
					},
				},
			},
		}, []blob.Ref{m1}...)
	})
}
