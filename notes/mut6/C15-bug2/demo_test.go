package schema_test

import (
	"bytes"
	"context"
	"errors"
	"io"
	"math/rand"
	"testing"

	"perkeep.org/pkg/blob"
	"perkeep.org/pkg/schema"
	"perkeep.org/pkg/test"
)

// mutC15FailReceiver refuses to store one chosen blob.
type mutC15FailReceiver struct {
	*test.Fetcher
	bad blob.Ref
}

var errMutC15Receive = errors.New("injected receive failure")

func (s *mutC15FailReceiver) ReceiveBlob(ctx context.Context, br blob.Ref, src io.Reader) (blob.SizedRef, error) {
	if br == s.bad {
		io.Copy(io.Discard, src)
		return blob.SizedRef{}, errMutC15Receive
	}
	return s.Fetcher.ReceiveBlob(ctx, br, src)
}

// If the upload of any of the nested "bytes" schema blobs of a file fails,
// WriteFileFromReader must fail: it may not return a file schema blobref (and
// store the "file" blob) while a blob that the file's tree references is
// missing from the store.
func TestMutC15NestedBytesUploadFailureReported(t *testing.T) {
	ctx := context.Background()
	const size = 6<<20 + 4321
	data := make([]byte, size)
	rnd := rand.New(rand.NewSource(2015))
	for i := range data {
		data[i] = byte(rnd.Intn(256))
	}

	// Reference run on a fault-free store, to learn the tree.
	ref := new(test.Fetcher)
	fileRef, err := schema.WriteFileFromReader(ctx, ref, "big", bytes.NewReader(data))
	if err != nil {
		t.Fatal(err)
	}
	fr, err := schema.NewFileReader(ctx, ref, fileRef)
	if err != nil {
		t.Fatal(err)
	}
	var bytesBlobs []blob.Ref // all nested "bytes" schema blobs, in file order
	seen := map[blob.Ref]bool{}
	err = fr.ForeachChunk(ctx, func(path []blob.Ref, p schema.BytesPart) error {
		for _, br := range path[1:] {
			if !seen[br] {
				seen[br] = true
				bytesBlobs = append(bytesBlobs, br)
			}
		}
		return nil
	})
	if err != nil {
		t.Fatal(err)
	}
	if len(bytesBlobs) < 2 {
		t.Fatalf("test file has %d nested bytes blobs; need at least 2", len(bytesBlobs))
	}
	t.Logf("file %v has %d nested bytes schema blobs", fileRef, len(bytesBlobs))

	for i, bad := range bytesBlobs {
		sto := &mutC15FailReceiver{Fetcher: new(test.Fetcher), bad: bad}
		got, err := schema.WriteFileFromReader(ctx, sto, "big", bytes.NewReader(data))
		if err != nil {
			continue // good: the failure was reported
		}
		_, _, ferr := sto.Fetch(ctx, bad)
		t.Errorf("bytes blob #%d %v could not be stored, yet WriteFileFromReader returned %v, nil (fetching that blob: %v)", i, bad, got, ferr)
		if fr, err := schema.NewFileReader(ctx, sto, got); err == nil {
			b, rerr := io.ReadAll(fr)
			t.Logf("  reading the returned file back: %d of %d bytes, err=%v", len(b), size, rerr)
		}
	}
}
