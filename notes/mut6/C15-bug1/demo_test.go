package schema_test

import (
	"bytes"
	"context"
	"errors"
	"io"
	"math/rand"
	"testing"

	"perkeep.org/pkg/blob"
	"perkeep.org/pkg/schema"
	"perkeep.org/pkg/test"
)

// mutC15FailFetcher fails the fetch of one chosen blob and delegates the rest.
type mutC15FailFetcher struct {
	blob.Fetcher
	bad blob.Ref
}

var errMutC15Injected = errors.New("injected fetch failure")

func (f *mutC15FailFetcher) Fetch(ctx context.Context, br blob.Ref) (io.ReadCloser, uint32, error) {
	if br == f.bad {
		return nil, 0, errMutC15Injected
	}
	return f.Fetcher.Fetch(ctx, br)
}

// A sequential read of a file of which one data chunk (referenced from a
// nested "bytes" schema blob) cannot be fetched must either fail or return
// every byte: it may never end cleanly (io.EOF) on a prefix of the file.
func TestMutC15NestedChunkFetchFailureNotSilentlyTruncated(t *testing.T) {
	ctx := context.Background()
	const size = 3<<20 + 12345
	data := make([]byte, size)
	rnd := rand.New(rand.NewSource(15))
	for i := range data {
		data[i] = byte(rnd.Intn(256))
	}
	sto := new(test.Fetcher)
	fileRef, err := schema.WriteFileFromReader(ctx, sto, "big", bytes.NewReader(data))
	if err != nil {
		t.Fatal(err)
	}

	// Sanity: without any fault the file reads back exactly.
	fr, err := schema.NewFileReader(ctx, sto, fileRef)
	if err != nil {
		t.Fatal(err)
	}
	got, err := io.ReadAll(fr)
	if err != nil || !bytes.Equal(got, data) {
		t.Fatalf("fault-free read: %d bytes, err=%v; want %d bytes, nil", len(got), err, size)
	}

	// Collect the data chunks that are referenced through a nested "bytes" blob.
	var nested []blob.Ref
	err = fr.ForeachChunk(ctx, func(path []blob.Ref, p schema.BytesPart) error {
		if len(path) >= 2 && p.BlobRef.Valid() {
			nested = append(nested, p.BlobRef)
		}
		return nil
	})
	if err != nil {
		t.Fatal(err)
	}
	if len(nested) < 2 {
		t.Fatalf("test file has only %d chunks under nested bytes blobs; need some", len(nested))
	}

	for _, bad := range []blob.Ref{nested[0], nested[len(nested)/2], nested[len(nested)-1]} {
		ff := &mutC15FailFetcher{Fetcher: sto, bad: bad}
		fr, err := schema.NewFileReader(ctx, ff, fileRef)
		if err != nil {
			t.Fatal(err)
		}
		got, err := io.ReadAll(fr)
		if err == nil && !bytes.Equal(got, data) {
			t.Errorf("chunk %v unfetchable: ReadAll returned %d of %d bytes and a nil error (silent truncation)", bad, len(got), size)
		}
		if err == nil && len(got) == size {
			t.Errorf("chunk %v unfetchable, but the whole file was read?", bad)
		}

		// Same through io.Copy of a section.
		fr2, err := schema.NewFileReader(ctx, ff, fileRef)
		if err != nil {
			t.Fatal(err)
		}
		var buf bytes.Buffer
		n, err := io.Copy(&buf, io.NewSectionReader(fr2, 0, size))
		if err == nil && n != size {
			t.Errorf("chunk %v unfetchable: io.Copy of [0,%d) copied %d bytes and a nil error (silent truncation)", bad, size, n)
		}
	}
}
