package proxycache

import (
	"context"
	"errors"
	"os"
	"testing"

	"perkeep.org/pkg/blob"
	"perkeep.org/pkg/blobserver"
	"perkeep.org/pkg/blobserver/memory"
	"perkeep.org/pkg/test"
)

// TestMutDemoStatAfterRemove runs receive / stat / remove / stat / receive
// against a proxycache (evicting memory cache, memory origin) and compares
// every stat with what a map from blobref to bytes would answer.
func TestMutDemoStatAfterRemove(t *testing.T) {
	ctx := context.Background()
	px := New(1<<20, memory.NewCache(1<<20), &memory.Storage{})

	a := &test.Blob{Contents: "blob a"}
	b := &test.Blob{Contents: "blob b, which stays"}
	c := &test.Blob{Contents: "blob c, only ever stat'ed and fetched through the proxy"}
	refs := []blob.Ref{a.BlobRef(), b.BlobRef(), c.BlobRef()}

	model := map[blob.Ref]uint32{}
	check := func(step string) {
		t.Helper()
		got, err := blobserver.StatBlobs(ctx, px, refs)
		if err != nil {
			t.Fatalf("%s: StatBlobs: %v", step, err)
		}
		for _, br := range refs {
			wantSize, want := model[br]
			sb, have := got[br]
			switch {
			case want && !have:
				t.Errorf("%s: stat doesn't report %v, which is present", step, br)
			case !want && have:
				t.Errorf("%s: stat reports %v (%d bytes), which is absent", step, br, sb.Size)
			case want && sb.Size != wantSize:
				t.Errorf("%s: stat reports %v with size %d; want %d", step, br, sb.Size, wantSize)
			}
			_, _, err := px.Fetch(ctx, br)
			if want && err != nil {
				t.Errorf("%s: Fetch(%v) = %v; the blob is present", step, br, err)
			}
			if !want && !errors.Is(err, os.ErrNotExist) {
				t.Errorf("%s: Fetch(%v) = %v; want os.ErrNotExist", step, br, err)
			}
		}
	}
	receive := func(tb *test.Blob) {
		t.Helper()
		if _, err := blobserver.Receive(ctx, px, tb.BlobRef(), tb.Reader()); err != nil {
			t.Fatal(err)
		}
		model[tb.BlobRef()] = uint32(len(tb.Contents))
	}
	remove := func(tb *test.Blob) {
		t.Helper()
		if err := px.RemoveBlobs(ctx, []blob.Ref{tb.BlobRef()}); err != nil {
			t.Fatal(err)
		}
		delete(model, tb.BlobRef())
	}

	check("empty")
	receive(a)
	receive(b)
	receive(c)
	check("after receiving a, b, c")
	remove(a)
	check("after removing a")
	remove(c)
	check("after removing c")
	receive(a)
	check("after receiving a again")
	remove(a)
	remove(b)
	check("after removing everything")
}
