package index_test

import (
	"context"
	"sort"
	"testing"
	"time"

	"perkeep.org/pkg/blob"
	"perkeep.org/pkg/index"
	"perkeep.org/pkg/index/indextest"
	"perkeep.org/pkg/types/camtypes"
)

// mut6c07b2Values replays the signer's non-deleted claims about attr dated
// no later than at (zero: all of them), in claim-date order: the documented
// semantics, computed from the sorted index rows.
func mut6c07b2Values(t *testing.T, idx *index.Index, pn blob.Ref, attr string, at time.Time) []string {
	claims, err := idx.AppendClaims(context.Background(), nil, pn, indextest.KeyID, attr)
	if err != nil {
		t.Fatal(err)
	}
	sort.Sort(camtypes.ClaimsByDate(claims))
	var vals []string
	for _, cl := range claims {
		if cl.Attr != attr || (!at.IsZero() && cl.Date.After(at)) {
			continue
		}
		switch cl.Type {
		case "set-attribute":
			vals = []string{cl.Value}
		case "add-attribute":
			vals = append(vals, cl.Value)
		case "del-attribute":
			var kept []string
			for _, v := range vals {
				if cl.Value != "" && v != cl.Value {
					kept = append(kept, v)
				}
			}
			vals = kept
		}
	}
	return vals
}

func mut6c07b2Search(t *testing.T, idx *index.Index, signer blob.Ref, attr, val string, at time.Time) map[blob.Ref]bool {
	ch := make(chan blob.Ref, 100)
	err := idx.SearchPermanodesWithAttr(context.Background(), ch, &camtypes.PermanodeByAttrRequest{
		Signer:    signer,
		Attribute: attr,
		Query:     val,
		At:        at,
	})
	if err != nil {
		t.Fatalf("SearchPermanodesWithAttr: %v", err)
	}
	got := make(map[blob.Ref]bool)
	for br := range ch {
		got[br] = true
	}
	return got
}

func mut6c07b2Has(vals []string, v string) bool {
	for _, x := range vals {
		if x == v {
			return true
		}
	}
	return false
}

// The attr=value lookup on the sorted index rows must agree with the
// attribute values given by the claim semantics: a permanode has the value
// as of T if some non-deleted claim dated <= T gives it, whatever happened
// to other (newer, or deleted) claims giving the same value.
func TestMut6C07Bug2WithAttrNewerRowMasks(t *testing.T) {
	idx := index.NewMemoryIndex()
	id := indextest.NewIndexDeps(idx)
	id.Fataler = t

	// pnA: tagged "foo" twice; the second (newer) tagging claim is deleted.
	pnA := id.NewPermanode()
	id.AddAttribute(pnA, "tag", "foo")
	dupTag := id.AddAttribute(pnA, "tag", "foo")
	id.Delete(dupTag)

	// pnB: title "Draft", then "Final", then (after tMid) "Draft" again.
	pnB := id.NewPermanode()
	id.SetAttribute(pnB, "title", "Draft")
	tMid := id.LastTime()
	id.SetAttribute(pnB, "title", "Final")
	id.SetAttribute(pnB, "title", "Draft")

	// pnC (control): its only tagging claim is deleted.
	pnC := id.NewPermanode()
	onlyTag := id.AddAttribute(pnC, "tag", "foo")
	id.Delete(onlyTag)

	// pnD (control): tagged only after tMid.
	pnD := id.NewPermanode()
	id.SetAttribute(pnD, "title", "Draft")

	// Ground truth from the claims.
	if v := mut6c07b2Values(t, idx, pnA, "tag", time.Time{}); !mut6c07b2Has(v, "foo") {
		t.Fatalf("setup: tag values of pnA = %q; want foo in there", v)
	}
	if v := mut6c07b2Values(t, idx, pnB, "title", tMid); !mut6c07b2Has(v, "Draft") {
		t.Fatalf("setup: title of pnB at tMid = %q; want Draft", v)
	}
	if v := mut6c07b2Values(t, idx, pnC, "tag", time.Time{}); len(v) != 0 {
		t.Fatalf("setup: tag values of pnC = %q; want none", v)
	}

	got := mut6c07b2Search(t, idx, id.SignerBlobRef, "tag", "foo", time.Time{})
	if !got[pnA] {
		t.Errorf("tag=foo now: pnA missing, though its first (non-deleted) claim still gives it tag foo")
	}
	if got[pnC] {
		t.Errorf("tag=foo now: pnC returned, though its only tagging claim is deleted")
	}

	got = mut6c07b2Search(t, idx, id.SignerBlobRef, "title", "Draft", tMid)
	if !got[pnB] {
		t.Errorf("title=Draft at tMid: pnB missing, though its title was Draft at that time")
	}
	if got[pnD] {
		t.Errorf("title=Draft at tMid: pnD returned, though it got its title later")
	}

	got = mut6c07b2Search(t, idx, id.SignerBlobRef, "title", "Draft", time.Time{})
	if !got[pnB] || !got[pnD] {
		t.Errorf("title=Draft now: got %v; want both pnB and pnD", got)
	}
}
