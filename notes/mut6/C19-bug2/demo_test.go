package server_test

import (
	"context"
	"errors"
	"io"
	"strings"
	"sync"
	"testing"
	"time"

	"go4.org/jsonconfig"
	"perkeep.org/pkg/blob"
	"perkeep.org/pkg/blobserver"
	"perkeep.org/pkg/blobserver/memory"
	_ "perkeep.org/pkg/server"
	"perkeep.org/pkg/test"
)

// flakyDest is a destination whose first failN writes fail (transient
// destination failure), and which then works.
type flakyDest struct {
	*memory.Storage
	mu    sync.Mutex
	failN int
}

func (d *flakyDest) ReceiveBlob(ctx context.Context, br blob.Ref, r io.Reader) (blob.SizedRef, error) {
	d.mu.Lock()
	fail := d.failN > 0
	if fail {
		d.failN--
	}
	d.mu.Unlock()
	if fail {
		io.Copy(io.Discard, r)
		return blob.SizedRef{}, errors.New("flakyDest: injected transient destination failure")
	}
	return d.Storage.ReceiveBlob(ctx, br, r)
}

func mut6c19bug2Has(sto blob.Fetcher, br blob.Ref) bool {
	rc, _, err := sto.Fetch(context.Background(), br)
	if err != nil {
		return false
	}
	rc.Close()
	return true
}

// A sync handler configured with a full sync on start. The destination fails
// once, while the start-up full sync copies blob X. Later (failures are over)
// X is received again by the source (a client re-sending it), and a fresh blob
// Y is uploaded too. Both must eventually be at the destination.
func TestMut6C19Bug2ReuploadAfterFailedFullSyncCopy(t *testing.T) {
	ctx := context.Background()
	src := new(memory.Storage)
	dst := &flakyDest{Storage: new(memory.Storage), failN: 1}

	const contentX = "mut6 c19 bug2: blob X, already in the source when the sync handler starts"
	brX := blob.RefFromString(contentX)
	if _, err := src.ReceiveBlob(ctx, brX, strings.NewReader(contentX)); err != nil {
		t.Fatal(err)
	}

	ld := test.NewLoader()
	ld.SetStorage("/src/", src)
	ld.SetStorage("/dst/", dst)
	_, err := blobserver.CreateHandler("sync", ld, jsonconfig.Obj{
		"from":                    "/src/",
		"to":                      "/dst/",
		"blockingFullSyncOnStart": true,
		"queue":                   map[string]any{"type": "memory"},
	})
	if err != nil {
		t.Fatalf("creating sync handler: %v", err)
	}
	// The full sync is over now; its one copy (of X) hit the transient
	// destination failure.
	if mut6c19bug2Has(dst, brX) {
		t.Fatal("test set-up: X unexpectedly at the destination already")
	}

	// Failures are over. X is received again by the source, and so is a new blob Y.
	if _, err := blobserver.ReceiveString(ctx, src, contentX); err != nil {
		t.Fatalf("re-upload of X: %v", err)
	}
	const contentY = "mut6 c19 bug2: blob Y, a fresh upload"
	brY := blob.RefFromString(contentY)
	if _, err := blobserver.ReceiveString(ctx, src, contentY); err != nil {
		t.Fatalf("upload of Y: %v", err)
	}

	deadline := time.Now().Add(12 * time.Second)
	for time.Now().Before(deadline) {
		if mut6c19bug2Has(dst, brX) && mut6c19bug2Has(dst, brY) {
			return
		}
		time.Sleep(50 * time.Millisecond)
	}
	t.Fatalf("after 12s without failures: X at destination=%v, Y at destination=%v; want both",
		mut6c19bug2Has(dst, brX), mut6c19bug2Has(dst, brY))
}
