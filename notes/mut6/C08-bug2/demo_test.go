package search_test

import (
	"testing"
	"time"

	"perkeep.org/pkg/blob"
	. "perkeep.org/pkg/search"
)

// TestMutC08Bug2RecursiveContainsDeep checks that a directory
// recursiveContains constraint matches every ancestor directory of the
// matching file, however deep the file is, for each candidate source and sort.
func TestMutC08Bug2RecursiveContainsDeep(t *testing.T) {
	testQuery(t, func(qt *queryTest) {
		id := qt.id

		needle, _ := id.UploadFile("needle.txt", "needle", time.Unix(1000, 0))
		hay, _ := id.UploadFile("hay.txt", "hay", time.Unix(1001, 0))
		low := id.UploadDir("low", []blob.Ref{needle}, time.Unix(1002, 0))
		mid := id.UploadDir("mid", []blob.Ref{low, hay}, time.Unix(1003, 0))
		top := id.UploadDir("top", []blob.Ref{mid}, time.Unix(1004, 0))
		root := id.UploadDir("root", []blob.Ref{top, hay}, time.Unix(1005, 0))
		// An unrelated tree.
		other := id.UploadDir("other", []blob.Ref{hay}, time.Unix(1006, 0))
		id.UploadDir("otherparent", []blob.Ref{other}, time.Unix(1007, 0))

		pRoot := id.NewPlannedPermanode("root")
		id.SetAttribute(pRoot, "camliContent", root.String())
		pLow := id.NewPlannedPermanode("low")
		id.SetAttribute(pLow, "camliContent", low.String())
		pOther := id.NewPlannedPermanode("other")
		id.SetAttribute(pOther, "camliContent", other.String())

		dirc := func() *DirConstraint {
			return &DirConstraint{
				RecursiveContains: &Constraint{File: &FileConstraint{
					FileName: &StringConstraint{Equals: "needle.txt"},
				}},
			}
		}
		for _, srt := range []SortType{UnspecifiedSort, Unsorted, BlobRefAsc} {
			// index_blob_meta candidate source
			qt.wantRes(&SearchQuery{
				Sort:       srt,
				Constraint: &Constraint{Dir: dirc()},
			}, low, mid, top, root)
			// corpus_blob_meta candidate source
			qt.wantRes(&SearchQuery{
				Sort:       srt,
				Constraint: &Constraint{CamliType: "directory", Dir: dirc()},
			}, low, mid, top, root)
			// by blobref
			qt.wantRes(&SearchQuery{
				Sort: srt,
				Constraint: &Constraint{Dir: &DirConstraint{
					RecursiveContains: &Constraint{BlobRefPrefix: needle.String()},
				}},
			}, low, mid, top, root)
		}
		// through a permanode
		qt.wantRes(&SearchQuery{
			Constraint: &Constraint{Permanode: &PermanodeConstraint{
				Attr:       "camliContent",
				ValueInSet: &Constraint{Dir: dirc()},
			}},
		}, pRoot, pLow)
	})
}
