package server_test

import (
	"context"
	"errors"
	"sync"
	"testing"
	"time"

	"perkeep.org/pkg/blob"
	"perkeep.org/pkg/blobserver"
	"perkeep.org/pkg/blobserver/memory"
	"perkeep.org/pkg/server"
	"perkeep.org/pkg/sorted"
)

// flakyQueue is a sync queue whose first failN Set calls fail (a transient
// write error of the persistent queue: disk full, I/O error, ...).
type flakyQueue struct {
	sorted.KeyValue
	mu    sync.Mutex
	failN int
}

func (q *flakyQueue) Set(key, value string) error {
	q.mu.Lock()
	fail := q.failN > 0
	if fail {
		q.failN--
	}
	q.mu.Unlock()
	if fail {
		return errors.New("flakyQueue: injected transient queue write failure")
	}
	return q.KeyValue.Set(key, value)
}

func hasBlob(sto blobserver.Storage, br blob.Ref) bool {
	rc, _, err := sto.Fetch(context.Background(), br)
	if err != nil {
		return false
	}
	rc.Close()
	return true
}

// One source with two asynchronous sync destinations (as with /bs/ -> /index/
// plus /bs/ -> replica). The queue of the FIRST registered sync handler fails
// one write. An upload must either be refused (so the client retries it) or be
// delivered to both destinations eventually.
func TestMut6C19Bug1TwoSyncsOneQueueWriteFailure(t *testing.T) {
	ctx := context.Background()
	src := new(memory.Storage)
	dstA := new(memory.Storage)
	dstB := new(memory.Storage)

	qA := &flakyQueue{KeyValue: sorted.NewMemoryKeyValue(), failN: 1}
	qB := sorted.NewMemoryKeyValue()

	// Registration order matters: A's receive hook is registered before B's.
	server.NewSyncHandler("/src/", "/dstA/", src, dstA, qA)
	server.NewSyncHandler("/src/", "/dstB/", src, dstB, qB)

	const content = "mut6 c19 bug1: blob uploaded while queue A has a transient write failure"
	br := blob.RefFromString(content)

	// The client retries the upload until it is acknowledged.
	acked := false
	for attempt := 1; attempt <= 5; attempt++ {
		_, err := blobserver.ReceiveString(ctx, src, content)
		if err == nil {
			t.Logf("upload acknowledged at attempt %d", attempt)
			acked = true
			break
		}
		t.Logf("upload attempt %d refused: %v", attempt, err)
	}
	if !acked {
		t.Fatal("upload never acknowledged")
	}

	deadline := time.Now().Add(12 * time.Second)
	for time.Now().Before(deadline) {
		if hasBlob(dstA, br) && hasBlob(dstB, br) {
			return
		}
		time.Sleep(50 * time.Millisecond)
	}
	_, errA := qA.Get(br.String())
	t.Fatalf("acknowledged upload %v not delivered everywhere after 12s: at dstA=%v, at dstB=%v; row in queue A: %v",
		br, hasBlob(dstA, br), hasBlob(dstB, br), errA == nil)
}
