package index_test

import (
	"context"
	"errors"
	"fmt"
	"io"
	"os"
	"strings"
	"sync"
	"testing"
	"time"

	"perkeep.org/pkg/blob"
	"perkeep.org/pkg/blobserver"
	"perkeep.org/pkg/blobserver/memory"
	"perkeep.org/pkg/index"
	"perkeep.org/pkg/sorted"
)

// mutRaceSource is the blob source of the index. The first time the blob
// "trigger" is looked up and found missing, onMiss is run before the miss is
// reported: it stands for what another client manages to do in the meantime.
type mutRaceSource struct {
	blobserver.Storage
	trigger blob.Ref
	once    sync.Once
	onMiss  func()
}

func (s *mutRaceSource) Fetch(ctx context.Context, br blob.Ref) (io.ReadCloser, uint32, error) {
	rc, size, err := s.Storage.Fetch(ctx, br)
	if br == s.trigger && errors.Is(err, os.ErrNotExist) {
		s.once.Do(s.onMiss)
	}
	return rc, size, err
}

// TestMutFileAndChunkIndexedConcurrently has one client upload a file schema
// blob while another one uploads the (only) data chunk of that file. The
// chunk lands in the blob source, and is completely indexed, right after the
// indexing of the file looked for it and before that indexing records that
// it waits for the chunk. Once everything has settled, the acknowledged file
// must be indexed.
func TestMutFileAndChunkIndexedConcurrently(t *testing.T) {
	ctx := context.Background()

	const chunkData = "the one and only chunk"
	chunkRef := blob.RefFromString(chunkData)
	fileJSON := fmt.Sprintf(`{"camliVersion": 1,
"camliType": "file",
"fileName": "mut.txt",
"parts": [
  {"blobRef": "%s", "size": %d}
]}`, chunkRef, len(chunkData))
	fileRef := blob.RefFromString(fileJSON)

	s := sorted.NewMemoryKeyValue()
	ix, err := index.New(s)
	if err != nil {
		t.Fatal(err)
	}
	sto := new(memory.Storage)
	src := &mutRaceSource{Storage: sto, trigger: chunkRef}
	src.onMiss = func() {
		// The other client: upload the chunk to the storage, then
		// to the index, as the server does for every upload.
		done := make(chan error, 1)
		go func() {
			if _, err := blobserver.Receive(ctx, sto, chunkRef, strings.NewReader(chunkData)); err != nil {
				done <- err
				return
			}
			_, err := ix.ReceiveBlob(ctx, chunkRef, strings.NewReader(chunkData))
			done <- err
		}()
		select {
		case err := <-done:
			if err != nil {
				t.Errorf("indexing the chunk: %v", err)
			}
		case <-time.After(10 * time.Second):
			t.Errorf("indexing the chunk did not finish")
		}
	}
	ix.InitBlobSource(src)

	// This client: upload the file schema blob, storage first.
	if _, err := blobserver.Receive(ctx, sto, fileRef, strings.NewReader(fileJSON)); err != nil {
		t.Fatal(err)
	}
	if _, err := ix.ReceiveBlob(ctx, fileRef, strings.NewReader(fileJSON)); err != nil {
		t.Fatalf("indexing the file: %v", err)
	}

	// Let the out-of-order indexing settle.
	ix.Exp_AwaitAsyncIndexing(t)

	have, err := s.Get("have:" + fileRef.String())
	if err != nil || !strings.HasSuffix(have, "|indexed") {
		t.Errorf("have row of the file = %q, %v; want it marked as indexed", have, err)
	}
	it := s.Find("missing|", "missing}")
	for it.Next() {
		t.Errorf("the index still waits for a blob that it has: row %q", it.Key())
	}
	it.Close()
	ix.WithNeededMapsForTest(func(needs, neededBy map[blob.Ref][]blob.Ref, ready map[blob.Ref]bool) {
		if len(needs) != 0 || len(neededBy) != 0 || len(ready) != 0 {
			t.Errorf("out-of-order bookkeeping not drained: needs=%v neededBy=%v ready=%v", needs, neededBy, ready)
		}
	})
	fi, err := ix.GetFileInfo(ctx, fileRef)
	if err != nil {
		t.Errorf("GetFileInfo(%v) of the acknowledged file: %v", fileRef, err)
	} else if fi.FileName != "mut.txt" || fi.Size != int64(len(chunkData)) {
		t.Errorf("GetFileInfo = %+v", fi)
	}
}
