package blob_test

import (
	"fmt"
	"strings"
	"testing"

	"perkeep.org/pkg/blob"
)

// TestMutC20HasPrefixAllPrefixes checks, for refs of every supported hash,
// that HasPrefix agrees with strings.HasPrefix(ref.String(), p) for every
// proper prefix p of the text form, and for every such prefix with its last
// character replaced by a different hex digit.
func TestMutC20HasPrefixAllPrefixes(t *testing.T) {
	for _, hn := range blob.HashFuncs() {
		for seed := range 4 {
			h, err := blob.NewHashOfType(hn)
			if err != nil {
				t.Fatal(err)
			}
			fmt.Fprintf(h, "content %d", seed)
			ref := blob.RefFromHash(h)
			text := ref.String()
			minLen := len(hn) + 2 // name, dash and at least one digit

			for n := minLen; n <= len(text); n++ {
				p := text[:n]
				if !ref.HasPrefix(p) {
					t.Errorf("%s: HasPrefix(%q) = false for a true prefix (len %d)", text, p, n)
				}
				for _, c := range "0123456789abcdef" {
					if byte(c) == p[n-1] {
						continue
					}
					q := p[:n-1] + string(c)
					if got, want := ref.HasPrefix(q), strings.HasPrefix(text, q); got != want {
						t.Errorf("%s: HasPrefix(%q) = %v, want %v (len %d of %d)", text, q, got, want, n, len(text))
					}
				}
			}
		}
	}
}
