package index_test

import (
	"fmt"
	"sort"
	"strings"
	"testing"
	"time"

	"perkeep.org/pkg/index"
	"perkeep.org/pkg/index/indextest"
	"perkeep.org/pkg/schema"
	"perkeep.org/pkg/sorted"
	"perkeep.org/pkg/test"
)

// One permanode and two claims about its "tag" attribute:
//
//	t+1s  add-attribute tag=x
//	t+2s  del-attribute tag        (no value: drops every tag)
//
// Whatever the order in which the three blobs reach an index that keeps its
// corpus in memory, the permanode must end up without a tag: that is what the
// claims say, what the index rows say, and what a corpus loaded from those
// rows (restart, reindex) says.
func TestMut6C05Bug2LateClaimAfterDelAttribute(t *testing.T) {
	type result struct {
		rows     []string // index rows
		live     string   // attribute values according to the live corpus
		reloaded string   // attribute values according to a corpus re-read from the rows
	}
	const attr = "tag"

	run := func(order string) result {
		s := sorted.NewMemoryKeyValue()
		ix, err := index.New(s)
		if err != nil {
			t.Fatal(err)
		}
		id := indextest.NewIndexDeps(ix)
		id.Fataler = t
		corpus, err := ix.KeepInMemory()
		if err != nil {
			t.Fatal(err)
		}

		pn := id.NewPlannedPermanode("mut6-c05-bug2")
		blobs := map[byte]*test.Blob{
			'a': id.Sign(schema.NewAddAttributeClaim(pn, attr, "x").SetClaimDate(test.ClockOrigin.Add(1 * time.Second))),
			'd': id.Sign(schema.NewDelAttributeClaim(pn, attr, "").SetClaimDate(test.ClockOrigin.Add(2 * time.Second))),
		}
		for i := 0; i < len(order); i++ {
			id.Upload(blobs[order[i]])
		}
		ix.Exp_AwaitAsyncIndexing(t)

		var res result
		it := s.Find("", "")
		for it.Next() {
			res.rows = append(res.rows, it.Key()+" = "+it.Value())
		}
		if err := it.Close(); err != nil {
			t.Fatal(err)
		}
		sort.Strings(res.rows)

		ix.RLock()
		res.live = fmt.Sprintf("value=%q values=%q",
			corpus.PermanodeAttrValue(pn, attr, time.Time{}, ""),
			corpus.AppendPermanodeAttrValues(nil, pn, attr, time.Time{}, ""))
		ix.RUnlock()

		c2, err := index.NewCorpusFromStorage(s)
		if err != nil {
			t.Fatal(err)
		}
		res.reloaded = fmt.Sprintf("value=%q values=%q",
			c2.PermanodeAttrValue(pn, attr, time.Time{}, ""),
			c2.AppendPermanodeAttrValues(nil, pn, attr, time.Time{}, ""))
		return res
	}

	inOrder := run("ad")  // by claim date
	reversed := run("da") // the older claim arrives last

	if a, b := strings.Join(inOrder.rows, "\n"), strings.Join(reversed.rows, "\n"); a != b {
		t.Errorf("index rows depend on the arrival order:\n%s\n---\n%s", a, b)
	}
	const want = `value="" values=[]`
	for _, c := range []struct {
		name string
		res  result
	}{{"add,del", inOrder}, {"del,add", reversed}} {
		if c.res.live != want {
			t.Errorf("arrival order %s: live corpus says %s; want %s", c.name, c.res.live, want)
		}
		if c.res.reloaded != want {
			t.Errorf("arrival order %s: corpus reloaded from the rows says %s; want %s", c.name, c.res.reloaded, want)
		}
		if c.res.live != c.res.reloaded {
			t.Errorf("arrival order %s: live corpus (%s) differs from the one a restart/reindex produces (%s)",
				c.name, c.res.live, c.res.reloaded)
		}
	}
	if inOrder.live != reversed.live {
		t.Errorf("the live corpus depends on the arrival order: %s vs %s", inOrder.live, reversed.live)
	}
}
