package proxycache

import (
	"bytes"
	"context"
	"errors"
	"io"
	"os"
	"path/filepath"
	"strings"
	"testing"

	"filippo.io/age"
	"go4.org/jsonconfig"

	"perkeep.org/pkg/blob"
	"perkeep.org/pkg/blobserver"
	_ "perkeep.org/pkg/blobserver/encrypt"
	"perkeep.org/pkg/blobserver/localdisk"
	"perkeep.org/pkg/blobserver/memory"
	"perkeep.org/pkg/test"
)

// mut6NoTrace fails the test if br is visible in any way through sto.
func mut6NoTrace(t *testing.T, name string, sto blobserver.Storage, br blob.Ref) {
	t.Helper()
	ctx := context.Background()
	if rc, size, err := sto.Fetch(ctx, br); err == nil {
		slurp, _ := io.ReadAll(io.LimitReader(rc, 32))
		rc.Close()
		t.Errorf("%s: refused blob %v is fetchable (%d bytes, starting with %q)", name, br, size, slurp)
	} else if !errors.Is(err, os.ErrNotExist) {
		t.Errorf("%s: Fetch of refused blob %v = %v; want os.ErrNotExist", name, br, err)
	}
	if sb, err := blobserver.StatBlob(ctx, sto, br); err == nil {
		t.Errorf("%s: refused blob is stat-able: %v", name, sb)
	}
	err := blobserver.EnumerateAll(ctx, sto, func(sb blob.SizedRef) error {
		if sb.Ref == br {
			t.Errorf("%s: refused blob is enumerated: %v", name, sb)
		}
		return nil
	})
	if err != nil {
		t.Errorf("%s: enumerate: %v", name, err)
	}
}

func mut6Disk(t *testing.T) *localdisk.DiskStorage {
	t.Helper()
	ds, err := localdisk.New(t.TempDir())
	if err != nil {
		t.Fatal(err)
	}
	return ds
}

// A blob that the origin refuses must not stay behind in the cache, from
// where the proxycache would serve and stat it.
func TestMut6C02RefusedByOrigin(t *testing.T) {
	ctx := context.Background()

	// 1. The origin re-verifies what it is given (memory storage), the
	// cache doesn't (file per blob). Corrupt bytes handed straight to the
	// storage, as an internal writer (sync, replica) would.
	t.Run("corrupt", func(t *testing.T) {
		cache := mut6Disk(t)
		origin := new(memory.Storage)
		px := New(1<<20, cache, origin)

		good := []byte("the true content of the blob")
		br := blob.RefFromBytes(good)
		bad := append([]byte(nil), good...)
		bad[3] ^= 0x20

		sb, err := px.ReceiveBlob(ctx, br, bytes.NewReader(bad))
		if err == nil {
			t.Fatalf("ReceiveBlob of corrupt bytes = %v, nil; want an error", sb)
		}
		t.Logf("ReceiveBlob(corrupt) = %v", err)
		mut6NoTrace(t, "proxycache", px, br)
		mut6NoTrace(t, "cache", cache, br)
		mut6NoTrace(t, "origin", origin, br)
	})

	// 2. The verified entry point, with an encrypting origin: a blob just
	// under 16 MiB is over the limit once encrypted, and refused as too
	// large.
	t.Run("toolarge", func(t *testing.T) {
		id, err := age.GenerateX25519Identity()
		if err != nil {
			t.Fatal(err)
		}
		keyFile := filepath.Join(t.TempDir(), "key")
		if err := os.WriteFile(keyFile, []byte(id.String()+"\n"), 0600); err != nil {
			t.Fatal(err)
		}
		ld := test.NewLoader()
		ld.SetStorage("/enc-blobs/", new(memory.Storage))
		ld.SetStorage("/enc-meta/", new(memory.Storage))
		origin, err := blobserver.CreateStorage("encrypt", ld, jsonconfig.Obj{
			"I_AGREE": "that encryption support hasn't been peer-reviewed, isn't finished, and its format might change.",
			"keyFile": keyFile,
			"blobs":   "/enc-blobs/",
			"meta":    "/enc-meta/",
			"metaIndex": map[string]any{
				"type": "memory",
			},
		})
		if err != nil {
			t.Fatal(err)
		}
		cache := mut6Disk(t)
		px := New(64<<20, cache, origin)

		hub := blobserver.GetHub(px)
		notified := make(chan blob.Ref, 1)
		hub.RegisterListener(notified)
		defer hub.UnregisterListener(notified)

		data := bytes.Repeat([]byte("0123456789abcdef"), (blobserver.MaxBlobSize-64)/16)
		br := blob.RefFromBytes(data)
		sb, err := blobserver.Receive(ctx, px, br, bytes.NewReader(data))
		if err == nil {
			// Not the case this test is about.
			t.Skipf("origin accepted the %d byte blob: %v", len(data), sb)
		}
		if !strings.Contains(err.Error(), "over the limit") {
			t.Fatalf("Receive = %v; want a too large error", err)
		}
		t.Logf("Receive(%d bytes) = %v", len(data), err)
		mut6NoTrace(t, "proxycache", px, br)
		mut6NoTrace(t, "cache", cache, br)
		select {
		case got := <-notified:
			t.Errorf("observers were told about refused blob %v", got)
		default:
		}
	})
}
