package diskpacked

import (
	"context"
	"io"
	"os"
	"path/filepath"
	"strings"
	"testing"

	"perkeep.org/pkg/blob"
	"perkeep.org/pkg/blobserver"
	"perkeep.org/pkg/test"
)

// TestMut6C03Bug2EmptyBlobAtPackTail: the (acknowledged) empty blob happens to
// be the last record of a pack file when the process stops. The index is lost
// and rebuilt from the pack files alone: it must list exactly the
// acknowledged, non-removed blobs, the empty blob included.
func TestMut6C03Bug2EmptyBlobAtPackTail(t *testing.T) {
	for _, tc := range []struct {
		name     string
		rollOver bool // the empty blob is the tail of a full, rolled-over pack
	}{
		{"lastPack", false},
		{"rolledOverPack", true},
	} {
		t.Run(tc.name, func(t *testing.T) {
			ctx := context.Background()
			dir := t.TempDir()
			s, err := newStorage(dir, 1<<20, nil)
			if err != nil {
				t.Fatal(err)
			}
			A := &test.Blob{Contents: "first blob"}
			B := &test.Blob{Contents: strings.Repeat("second blob. ", 30)}
			E := &test.Blob{Contents: ""}
			C := &test.Blob{Contents: "a blob in the next pack"}
			all := []*test.Blob{A, B, E}
			for _, tb := range all {
				sb, err := blobserver.Receive(ctx, s, tb.BlobRef(), tb.Reader())
				if err != nil {
					t.Fatalf("receive %v: %v", tb.BlobRef(), err)
				}
				if sb.Size != uint32(len(tb.Contents)) {
					t.Fatalf("receive %v acked size %d", tb.BlobRef(), sb.Size)
				}
			}
			if tc.rollOver {
				s.mu.Lock()
				err := s.nextPack()
				s.mu.Unlock()
				if err != nil {
					t.Fatal(err)
				}
				if _, err := blobserver.Receive(ctx, s, C.BlobRef(), C.Reader()); err != nil {
					t.Fatal(err)
				}
				all = append(all, C)
			}
			if err := s.Close(); err != nil {
				t.Fatal(err)
			}

			// Lose the index; keep only the pack files.
			matches, _ := filepath.Glob(filepath.Join(dir, "index.*"))
			for _, m := range matches {
				if err := os.RemoveAll(m); err != nil {
					t.Fatal(err)
				}
			}
			if err := Reindex(ctx, dir, true, nil); err != nil {
				t.Fatalf("Reindex from the pack files alone failed: %v", err)
			}

			s, err = newStorage(dir, 1<<20, nil)
			if err != nil {
				t.Fatal(err)
			}
			defer s.Close()

			want := map[blob.Ref]uint32{}
			for _, tb := range all {
				want[tb.BlobRef()] = uint32(len(tb.Contents))
			}
			dest := make(chan blob.SizedRef, 10)
			if err := s.EnumerateBlobs(ctx, dest, "", 10); err != nil {
				t.Fatalf("EnumerateBlobs: %v", err)
			}
			got := map[blob.Ref]uint32{}
			for sb := range dest {
				got[sb.Ref] = sb.Size
			}
			for br, sz := range want {
				if gsz, ok := got[br]; !ok {
					t.Errorf("enumerate after reindex: acknowledged blob %v (size %d) is missing", br, sz)
				} else if gsz != sz {
					t.Errorf("enumerate after reindex: %v has size %d, want %d", br, gsz, sz)
				}
			}
			if len(got) != len(want) {
				t.Errorf("enumerate after reindex lists %d blobs, want %d", len(got), len(want))
			}
			for _, tb := range all {
				rc, size, err := s.Fetch(ctx, tb.BlobRef())
				if err != nil {
					t.Errorf("fetch of acknowledged blob %v (size %d) after reindex: %v", tb.BlobRef(), len(tb.Contents), err)
					continue
				}
				data, err := io.ReadAll(rc)
				rc.Close()
				if err != nil || string(data) != tb.Contents || int(size) != len(tb.Contents) {
					t.Errorf("fetch %v = %q (size %d), %v; want %q", tb.BlobRef(), data, size, err, tb.Contents)
				}
			}
		})
	}
}
