package replica

import (
	"context"
	"fmt"
	"io"
	"strings"
	"sync/atomic"
	"testing"
	"time"

	"perkeep.org/pkg/blob"
	"perkeep.org/pkg/blobserver"
	"perkeep.org/pkg/blobserver/memory"
)

// mutSlowReplica is a replica backend whose uploads only start once
// gate is closed (a backend that is slower than the others).
type mutSlowReplica struct {
	blobserver.Storage
	gate chan struct{}
	done int32 // number of finished ReceiveBlob calls
	errs int32 // number of failed ReceiveBlob calls
}

func (s *mutSlowReplica) ReceiveBlob(ctx context.Context, br blob.Ref, src io.Reader) (blob.SizedRef, error) {
	<-s.gate
	sb, err := s.Storage.ReceiveBlob(ctx, br, src)
	if err != nil {
		atomic.AddInt32(&s.errs, 1)
	}
	atomic.AddInt32(&s.done, 1)
	return sb, err
}

// TestMutStragglerReplicaGetsItsBlob uploads a few blobs through a replica
// storage that acknowledges after the first successful write
// (minWritesForSuccess=1) while the second backend is slow. Once the slow
// backend catches up, it must hold every acknowledged blob, intact.
func TestMutStragglerReplicaGetsItsBlob(t *testing.T) {
	ctx := context.Background()
	fast := new(memory.Storage)
	slowMem := new(memory.Storage)
	slow := &mutSlowReplica{Storage: slowMem, gate: make(chan struct{})}

	sto := &replicaStorage{
		replicaPrefixes:     []string{"/fast/", "/slow/"},
		replicas:            []blobserver.Storage{fast, slow},
		readPrefixes:        []string{"/slow/", "/fast/"},
		readReplicas:        []blobserver.Storage{slow, fast},
		minWritesForSuccess: 1,
	}

	const n = 20
	contents := make([]string, n)
	refs := make([]blob.Ref, n)
	for i := range contents {
		// All of the same length, so that a mixed-up upload isn't
		// caught by a mere size check.
		contents[i] = fmt.Sprintf("blob-%03d-", i) + strings.Repeat(string(rune('a'+i)), 500)
		refs[i] = blob.RefFromString(contents[i])
		sb, err := blobserver.Receive(ctx, sto, refs[i], strings.NewReader(contents[i]))
		if err != nil {
			t.Fatalf("upload %d: %v", i, err)
		}
		if sb.Ref != refs[i] || int(sb.Size) != len(contents[i]) {
			t.Fatalf("upload %d acknowledged as %v", i, sb)
		}
	}

	// The slow backend catches up.
	close(slow.gate)
	deadline := time.Now().Add(10 * time.Second)
	for atomic.LoadInt32(&slow.done) < n {
		if time.Now().After(deadline) {
			t.Fatalf("slow replica finished %d of %d uploads", atomic.LoadInt32(&slow.done), n)
		}
		time.Sleep(5 * time.Millisecond)
	}
	if e := atomic.LoadInt32(&slow.errs); e != 0 {
		t.Errorf("%d of %d uploads to the slow replica failed", e, n)
	}

	for i, br := range refs {
		got, ok := slowMem.BlobContents(br)
		if !ok {
			t.Errorf("acknowledged blob %d (%v) is missing from the slow replica", i, br)
			continue
		}
		if got != contents[i] {
			t.Errorf("blob %d (%v) on the slow replica has the wrong contents %.12q...", i, br, got)
		}
		// And through the replica storage itself, which reads the slow backend first.
		rc, _, err := sto.Fetch(ctx, br)
		if err != nil {
			t.Errorf("Fetch(%v): %v", br, err)
			continue
		}
		all, _ := io.ReadAll(rc)
		rc.Close()
		if string(all) != contents[i] {
			t.Errorf("Fetch(%v) returned the wrong contents", br)
		}
	}
}
