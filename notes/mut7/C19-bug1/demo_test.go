package server

import (
	"context"
	"errors"
	"sync"
	"testing"
	"time"

	"perkeep.org/pkg/blob"
	"perkeep.org/pkg/blobserver"
	"perkeep.org/pkg/blobserver/memory"
	"perkeep.org/pkg/sorted"
)

// slowFailOnceKV is a sync queue whose first Set is slow (it waits for
// release) and then fails, as a disk-backed queue under a transient I/O error
// would. All other operations go straight to the wrapped KeyValue.
type slowFailOnceKV struct {
	sorted.KeyValue
	mu      sync.Mutex
	nset    int
	entered chan struct{} // closed when the first Set is in progress
	release chan struct{} // the first Set fails once this is closed
}

func (kv *slowFailOnceKV) Set(k, v string) error {
	kv.mu.Lock()
	kv.nset++
	first := kv.nset == 1
	kv.mu.Unlock()
	if first {
		close(kv.entered)
		<-kv.release
		return errors.New("transient queue write error")
	}
	return kv.KeyValue.Set(k, v)
}

// Two clients upload the same blob concurrently. The queue write of the first
// one is slow and fails (that upload is reported as failed); the second upload
// is acknowledged. An acknowledged upload must reach the destination, by the
// running handler or after a restart over the same queue.
func TestMut7C19ConcurrentSameBlobQueueFault(t *testing.T) {
	ctx := context.Background()
	src := new(memory.Storage)
	dst := new(memory.Storage)
	kv := &slowFailOnceKV{
		KeyValue: sorted.NewMemoryKeyValue(),
		entered:  make(chan struct{}),
		release:  make(chan struct{}),
	}
	// No background loop: the copy rounds are driven by hand below, so the
	// schedule is deterministic.
	sh := newSyncHandler("src", "dst", src, dst, kv)
	blobserver.GetHub(src).AddReceiveHook(sh.enqueue)

	const data = "a blob uploaded twice at the same time"
	br := blob.RefFromString(data)

	firstErr := make(chan error, 1)
	go func() {
		_, err := blobserver.ReceiveString(ctx, src, data)
		firstErr <- err
	}()
	select {
	case <-kv.entered:
	case <-time.After(10 * time.Second):
		t.Fatal("first upload never reached the queue write")
	}

	// Second upload of the same blob while the first queue write is pending.
	if _, err := blobserver.ReceiveString(ctx, src, data); err != nil {
		t.Fatalf("second upload: %v", err)
	}
	// It was acknowledged. Now the first queue write fails.
	close(kv.release)
	if err := <-firstErr; err == nil {
		t.Fatal("first upload: expected the queue write error")
	}

	has := func(s *memory.Storage) bool {
		rc, _, err := s.Fetch(ctx, br)
		if err != nil {
			return false
		}
		rc.Close()
		return true
	}

	// Copy rounds of the running handler.
	for range 3 {
		sh.runSync("test", sh.enumeratePendingBlobs)
	}
	if has(dst) {
		return
	}
	t.Logf("running handler did not deliver %v; restarting over the same queue", br)

	// Restart over the same queue.
	sh2 := newSyncHandler("src", "dst", src, dst, kv)
	if err := sh2.readQueueToMemory(); err != nil {
		t.Fatal(err)
	}
	for range 3 {
		sh2.runSync("test", sh2.enumeratePendingBlobs)
	}
	if !has(dst) {
		v, gerr := kv.Get(br.String())
		t.Fatalf("acknowledged blob %v never reaches the destination: not pending in memory (needCopy=%d), queue row = %q, %v",
			br, len(sh.needCopy), v, gerr)
	}
}
