package index_test

import (
	"reflect"
	"testing"
	"time"

	"perkeep.org/pkg/blob"
	"perkeep.org/pkg/index"
	"perkeep.org/pkg/index/indextest"
	"perkeep.org/pkg/types/camtypes"
)

// TestMutC08SecondSignerDeleteKeepsOwnerValues: the owner gives a permanode
// three tags, then a second identity makes its first claim on the permanode
// and deletes one of the tags. The owner-filtered attribute values (which
// is what every search PermanodeConstraint evaluates, with the owner's key
// id as signer filter) must still be the owner's three tags, and the
// cached (at = zero) and the claims-replay (at = later time) answers must
// agree.
func TestMutC08SecondSignerDeleteKeepsOwnerValues(t *testing.T) {
	c := index.ExpNewCorpus()
	pn := blob.MustParse("abc-123")
	sig1 := indextest.PubKey.BlobRef()
	keyID2 := "abc-789"
	sig2 := blob.MustParse(keyID2)
	if err := c.Exp_AddKeyID(sig1, indextest.KeyID); err != nil {
		t.Fatal(err)
	}
	if err := c.Exp_AddKeyID(sig2, keyID2); err != nil {
		t.Fatal(err)
	}
	tm := time.Unix(99, 0)
	claim := func(verb, attr, val string, sig blob.Ref) *camtypes.Claim {
		tm = tm.Add(time.Second)
		return &camtypes.Claim{
			Type:   verb + "-attribute",
			Attr:   attr,
			Value:  val,
			Date:   tm,
			Signer: sig,
		}
	}
	c.SetClaims(pn, []*camtypes.Claim{
		claim("add", "tag", "a", sig1),
		claim("add", "tag", "b", sig1),
		claim("add", "tag", "c", sig1),
		claim("set", "title", "x", sig2), // first claim of the second signer
		claim("del", "tag", "a", sig2),   // only affects the all-signers view
		// A later claim, so that a lookup at time 200 replays the
		// claims instead of using the cached values.
		{Type: "set-attribute", Attr: "other", Value: "y", Date: time.Unix(300, 0), Signer: sig1},
	})

	tests := []struct {
		name string
		sig  string
		want []string
	}{
		{"owner", indextest.KeyID, []string{"a", "b", "c"}},
		{"all signers", "", []string{"b", "c"}},
		{"second signer", keyID2, nil},
	}
	for _, tt := range tests {
		cached := c.AppendPermanodeAttrValues(nil, pn, "tag", time.Time{}, tt.sig)
		replayed := c.AppendPermanodeAttrValues(nil, pn, "tag", time.Unix(200, 0), tt.sig)
		if len(cached) == 0 && len(replayed) == 0 && len(tt.want) == 0 {
			continue
		}
		if !reflect.DeepEqual(cached, tt.want) {
			t.Errorf("%s: cached tag values = %q; want %q", tt.name, cached, tt.want)
		}
		if !reflect.DeepEqual(replayed, tt.want) {
			t.Errorf("%s: replayed tag values = %q; want %q", tt.name, replayed, tt.want)
		}
	}
	if !c.PermanodeHasAttrValue(pn, time.Unix(200, 0), "tag", "b") {
		t.Errorf("permanode should have tag b")
	}
}
