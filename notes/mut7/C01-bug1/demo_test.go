package overlay

import (
	"errors"
	"io"
	"os"
	"strings"
	"testing"

	"perkeep.org/pkg/blob"
	"perkeep.org/pkg/blobserver"
	"perkeep.org/pkg/test"
)

// A blob of the lower layer that was removed through the overlay must stay
// absent until it is received again; a receive that fails (upload broken
// off mid-way) is not a receive.
func TestMutFailedReceiveKeepsRemovedBlobAbsent(t *testing.T) {
	sto, lower := newOverlayWithLower(t, true)
	tb := &test.Blob{Contents: "blob that lives in the lower layer"}
	if _, err := lower.ReceiveBlob(ctxbg, tb.BlobRef(), tb.Reader()); err != nil {
		t.Fatal(err)
	}
	if err := sto.RemoveBlobs(ctxbg, []blob.Ref{tb.BlobRef()}); err != nil {
		t.Fatal(err)
	}
	if _, _, err := sto.Fetch(ctxbg, tb.BlobRef()); !errors.Is(err, os.ErrNotExist) {
		t.Fatalf("fetch after remove: err = %v; want not exist", err)
	}

	// An upload that breaks off after a few bytes.
	broken := io.MultiReader(strings.NewReader(tb.Contents[:5]), iotestErrReader{})
	if _, err := sto.ReceiveBlob(ctxbg, tb.BlobRef(), broken); err == nil {
		t.Fatal("broken receive succeeded")
	}

	if rc, _, err := sto.Fetch(ctxbg, tb.BlobRef()); !errors.Is(err, os.ErrNotExist) {
		if err == nil {
			rc.Close()
		}
		t.Errorf("fetch after failed re-receive: err = %v; want not exist", err)
	}
	got, err := blobserver.StatBlobs(ctxbg, sto, []blob.Ref{tb.BlobRef()})
	if err != nil {
		t.Fatal(err)
	}
	if len(got) != 0 {
		t.Errorf("stat after failed re-receive lists %v; want nothing", got)
	}
	ch := make(chan blob.SizedRef, 10)
	if err := sto.EnumerateBlobs(ctxbg, ch, "", 10); err != nil {
		t.Fatal(err)
	}
	for sb := range ch {
		t.Errorf("enumerate after failed re-receive lists %v; want nothing", sb)
	}
}

type iotestErrReader struct{}

func (iotestErrReader) Read([]byte) (int, error) { return 0, errors.New("connection reset") }
