package search_test

import (
	"fmt"
	"testing"

	"perkeep.org/pkg/blob"
	. "perkeep.org/pkg/search"
)

// An Around query over a result list that is sorted by creation time,
// oldest first (a sort without a pre-sorted candidate source), must return a
// contiguous window of the full ordered list, and the window must contain
// the pivot.
func TestMutC09AroundCreatedAsc(t *testing.T) {
	testQueryTypes(t, memIndexTypes, func(qt *queryTest) {
		id := qt.id
		const n = 12
		for i := 0; i < n; i++ {
			pn := id.NewPlannedPermanode(fmt.Sprintf("mutc09-%d", i))
			id.AddAttribute(pn, "x", "x") // advances the fake clock
		}
		h := qt.Handler()
		cons := func() *Constraint {
			return &Constraint{Permanode: &PermanodeConstraint{}}
		}
		fullRes, err := h.Query(ctxbg, &SearchQuery{Constraint: cons(), Sort: CreatedAsc, Limit: -1})
		if err != nil {
			t.Fatal(err)
		}
		var full []blob.Ref
		for _, b := range fullRes.Blobs {
			full = append(full, b.Blob)
		}
		if len(full) != n {
			t.Fatalf("full list has %d entries, want %d", len(full), n)
		}
		for _, limit := range []int{1, 2, 3, 5} {
			for pos, pivot := range full {
				res, err := h.Query(ctxbg, &SearchQuery{Constraint: cons(), Sort: CreatedAsc, Limit: limit, Around: pivot})
				if err != nil {
					t.Fatalf("limit %d pos %d: %v", limit, pos, err)
				}
				var got []blob.Ref
				for _, b := range res.Blobs {
					got = append(got, b.Blob)
				}
				if len(got) == 0 || len(got) > limit {
					t.Errorf("limit %d pos %d: window of %d entries", limit, pos, len(got))
					continue
				}
				// contiguous window of full?
				start := -1
				for i, br := range full {
					if br == got[0] {
						start = i
					}
				}
				ok := start >= 0 && start+len(got) <= len(full)
				for i := 0; ok && i < len(got); i++ {
					ok = full[start+i] == got[i]
				}
				if !ok {
					t.Errorf("limit %d pos %d: window %v is not a contiguous part of %v", limit, pos, got, full)
					continue
				}
				if pos < start || pos >= start+len(got) {
					t.Errorf("limit %d pos %d: window [%d,%d) of the full list does not contain the pivot %v", limit, pos, start, start+len(got), pivot)
				}
			}
		}
	})
}
