package replica_test

import (
	"context"
	"strings"
	"sync"
	"testing"
	"time"

	"perkeep.org/pkg/blob"
	"perkeep.org/pkg/blobserver"
	"perkeep.org/pkg/blobserver/memory"
	"perkeep.org/pkg/blobserver/replica"
)

// TestMutC12StatOnceWhileCallbackBusy: a blob held by both read replicas
// must be reported exactly once by StatBlobs, also when the second
// replica answers while the caller's callback is still busy with the
// answer of the first one.
func TestMutC12StatOnceWhileCallbackBusy(t *testing.T) {
	ctx := context.Background()
	a, b := &memory.Storage{}, &memory.Storage{}
	const contents = "held by both replicas"
	br := blob.RefFromString(contents)
	for _, s := range []blobserver.Storage{a, b} {
		if _, err := s.ReceiveBlob(ctx, br, strings.NewReader(contents)); err != nil {
			t.Fatal(err)
		}
	}
	sto := replica.NewForTest([]blobserver.Storage{a, b})

	for round := 0; round < 3; round++ {
		var (
			mu     sync.Mutex
			calls  int
			inside int
			maxIn  int
		)
		err := sto.StatBlobs(ctx, []blob.Ref{br}, func(sb blob.SizedRef) error {
			mu.Lock()
			calls++
			inside++
			if inside > maxIn {
				maxIn = inside
			}
			mu.Unlock()
			// A slow consumer (e.g. an HTTP response writer).
			time.Sleep(100 * time.Millisecond)
			mu.Lock()
			inside--
			mu.Unlock()
			if sb.Ref != br || int(sb.Size) != len(contents) {
				t.Errorf("unexpected stat result %v", sb)
			}
			return nil
		})
		if err != nil {
			t.Fatalf("StatBlobs: %v", err)
		}
		if maxIn > 1 {
			t.Errorf("round %d: callback ran %d times concurrently", round, maxIn)
		}
		if calls != 1 {
			t.Fatalf("round %d: blob present on both replicas was reported %d times by StatBlobs; want exactly once", round, calls)
		}
	}
}
