package proxycache

import (
	"context"
	"fmt"
	"runtime"
	"strings"
	"sync"
	"testing"

	"perkeep.org/pkg/blob"
	"perkeep.org/pkg/blobserver"
	"perkeep.org/pkg/blobserver/memory"
)

// TestMutC14ConcurrentCacheHits has several clients fetch the same, already
// cached, blobs through one proxycache while another client keeps uploading
// new blobs. Afterwards the LRU bookkeeping of the proxycache must list every
// cached blob exactly once. (Run it with -race to also get the data race
// report; it is written to fail without -race too.)
func TestMutC14ConcurrentCacheHits(t *testing.T) {
	if runtime.GOMAXPROCS(0) < 4 {
		defer runtime.GOMAXPROCS(runtime.GOMAXPROCS(4))
	}
	ctx := context.Background()
	sto := New(1<<30, &memory.Storage{}, &memory.Storage{})

	const (
		hot     = 64
		readers = 8
		iters   = 60000
		uploads = 20000
	)
	want := map[string]bool{}
	var refs []blob.Ref
	for i := range hot {
		data := fmt.Sprintf("hot blob %d", i)
		br := blob.RefFromString(data)
		if _, err := blobserver.Receive(ctx, sto, br, strings.NewReader(data)); err != nil {
			t.Fatal(err)
		}
		refs = append(refs, br)
		want[br.String()] = true
	}
	for i := range uploads {
		want[blob.RefFromString(fmt.Sprintf("new blob %d", i)).String()] = true
	}

	var wg sync.WaitGroup
	errc := make(chan error, readers+1)
	for r := range readers {
		wg.Add(1)
		go func() {
			defer wg.Done()
			for i := range iters {
				br := refs[(i*7+r*13)%hot]
				rc, _, err := sto.Fetch(ctx, br)
				if err != nil {
					errc <- fmt.Errorf("fetch %v: %v", br, err)
					return
				}
				rc.Close()
			}
		}()
	}
	wg.Add(1)
	go func() {
		defer wg.Done()
		for i := range uploads {
			data := fmt.Sprintf("new blob %d", i)
			if _, err := blobserver.Receive(ctx, sto, blob.RefFromString(data), strings.NewReader(data)); err != nil {
				errc <- fmt.Errorf("receive: %v", err)
				return
			}
		}
	}()
	wg.Wait()
	close(errc)
	for err := range errc {
		t.Error(err)
	}

	// Integrity of the LRU: every cached blob exactly once.
	sto.mu.Lock()
	defer sto.mu.Unlock()
	n := sto.lru.Len()
	if n != len(want) {
		t.Errorf("LRU has %d entries, want %d", n, len(want))
	}
	seen := map[string]bool{}
	for range len(want) + 10 {
		k, v := sto.lru.RemoveOldest()
		if v == nil {
			break
		}
		if seen[k] {
			t.Errorf("LRU lists %s twice", k)
			break
		}
		seen[k] = true
	}
	for k := range want {
		if !seen[k] {
			t.Errorf("LRU lost track of cached blob %s (and %d others at most)", k, len(want)-len(seen))
			break
		}
	}
}
