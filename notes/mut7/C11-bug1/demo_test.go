package encrypt

import (
	"context"
	"fmt"
	"io"
	"os"
	"sync"
	"testing"

	"perkeep.org/pkg/blob"
	"perkeep.org/pkg/blobserver"
	"perkeep.org/pkg/sorted"
	"perkeep.org/pkg/test"
)

// flakyMeta is a meta store whose listing and content disagree once: the
// first Fetch of the chosen ref says "not found" although EnumerateBlobs
// lists it (an eventually consistent listing, a replica that lags, a blob
// that is temporarily unreadable ...).
type flakyMeta struct {
	blobserver.Storage
	mu     sync.Mutex
	victim blob.Ref
	fired  bool
}

func (f *flakyMeta) Fetch(ctx context.Context, br blob.Ref) (io.ReadCloser, uint32, error) {
	f.mu.Lock()
	hit := br == f.victim && !f.fired
	if hit {
		f.fired = true
	}
	f.mu.Unlock()
	if hit {
		return nil, 0, os.ErrNotExist
	}
	return f.Storage.Fetch(ctx, br)
}

// TestMutC11RestartWithVanishingMeta: after the meta index is lost, the
// start-up scan must either rebuild the complete mapping or refuse to start.
func TestMutC11RestartWithVanishingMeta(t *testing.T) {
	ts := newTestStorage()
	var blobs []*test.Blob
	for i := 0; i < 8; i++ {
		tb := &test.Blob{Contents: fmt.Sprintf("some plaintext number %d", i)}
		tb.MustUpload(t, ts.sto)
		blobs = append(blobs, tb)
	}

	// Pick one of the stored single-entry meta blobs.
	var victim blob.Ref
	err := blobserver.EnumerateAll(ctxbg, ts.meta, func(sb blob.SizedRef) error {
		if !victim.Valid() {
			victim = sb.Ref
		}
		return nil
	})
	if err != nil || !victim.Valid() {
		t.Fatalf("enumerating meta: %v (victim %v)", err, victim)
	}

	// Restart with the meta index wiped.
	restarted := &storage{
		index:     sorted.NewMemoryKeyValue(),
		smallMeta: &metaBlobHeap{},
		identity:  testIdentity,
		blobs:     ts.blobs,
		meta:      &flakyMeta{Storage: ts.meta, victim: victim},
	}
	if err := restarted.readAllMetaBlobs(); err != nil {
		t.Logf("start-up scan refused to start (fine): %v", err)
		return
	}
	// The scan claimed success: every blob must be there.
	for _, tb := range blobs {
		rc, _, err := restarted.Fetch(ctxbg, tb.BlobRef())
		if err != nil {
			t.Errorf("start-up scan succeeded, but blob %v is gone: %v", tb.BlobRef(), err)
			continue
		}
		got, _ := io.ReadAll(rc)
		rc.Close()
		if string(got) != tb.Contents {
			t.Errorf("blob %v = %q; want %q", tb.BlobRef(), got, tb.Contents)
		}
	}
}
