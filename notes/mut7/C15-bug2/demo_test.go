package schema_test

import (
	"bytes"
	"context"
	"fmt"
	"strings"
	"sync"
	"testing"

	"perkeep.org/pkg/blob"
	"perkeep.org/pkg/schema"
	"perkeep.org/pkg/test"
)

// TestMut7C15ConcurrentNestedReads reads, from several goroutines at once
// (FileReader is an io.ReaderAt), disjoint ranges of a valid depth-2 tree whose
// top-level parts are all distinct nested "bytes" blobs. Every range must come
// back exactly.
func TestMut7C15ConcurrentNestedReads(t *testing.T) {
	const (
		nParts  = 1500
		partLen = 16
		workers = 8
		rounds  = 6
	)
	ctx := context.Background()
	fetcher := &test.Fetcher{}
	var want bytes.Buffer
	var parts []string
	for i := 0; i < nParts; i++ {
		data := fmt.Sprintf("%0*d", partLen, i)
		leaf := &test.Blob{Contents: data}
		fetcher.AddBlob(leaf)
		nested := &test.Blob{Contents: fmt.Sprintf(
			`{"camliVersion": 1, "camliType": "bytes", "parts": [{"blobRef": %q, "size": %d}]}`,
			leaf.BlobRef().String(), partLen)}
		fetcher.AddBlob(nested)
		parts = append(parts, fmt.Sprintf(`{"bytesRef": %q, "size": %d}`, nested.BlobRef().String(), partLen))
		want.WriteString(data)
	}
	root := &test.Blob{Contents: `{"camliVersion": 1, "camliType": "bytes", "parts": [` + strings.Join(parts, ",") + `]}`}
	fetcher.AddBlob(root)
	var rootRef blob.Ref = root.BlobRef()

	for round := 0; round < rounds; round++ {
		fr, err := schema.NewFileReader(ctx, fetcher, rootRef)
		if err != nil {
			t.Fatal(err)
		}
		if fr.Size() != int64(want.Len()) {
			t.Fatalf("size = %d; want %d", fr.Size(), want.Len())
		}
		var wg sync.WaitGroup
		errc := make(chan error, workers)
		for w := 0; w < workers; w++ {
			wg.Add(1)
			go func(w int) {
				defer wg.Done()
				buf := make([]byte, partLen)
				for i := w; i < nParts; i += workers {
					off := int64(i * partLen)
					n, err := fr.ReadAt(buf, off)
					if err != nil || n != partLen {
						errc <- fmt.Errorf("ReadAt(%d) = %d, %v", off, n, err)
						return
					}
					if !bytes.Equal(buf, want.Bytes()[off:off+partLen]) {
						errc <- fmt.Errorf("ReadAt(%d) = %q; want %q", off, buf, want.Bytes()[off:off+partLen])
						return
					}
				}
			}(w)
		}
		wg.Wait()
		close(errc)
		for err := range errc {
			t.Error(err)
		}
		fr.Close()
	}
}
