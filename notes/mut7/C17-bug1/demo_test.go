package server

import (
	"fmt"
	"testing"
	"time"

	"perkeep.org/pkg/blob"
	"perkeep.org/pkg/schema"
)

// A share claim deleted by two delete claims carrying the same claim date
// stays deleted when only one of those two delete claims is deleted in turn.
func TestDemoC17ShareDeletedTwiceSameDate(t *testing.T) {
	st := newShareTesterIdx(t, true)
	defer st.done()

	content := "monkey" // the secret
	contentRef := blob.RefFromString(content)
	link := fmt.Sprintf(`{"camliVersion": 1,
"camliType": "file",
"parts": [
   {"blobRef": "%v", "size": %d}
]}`, contentRef, len(content))
	linkRef := blob.RefFromString(link)
	st.putRaw(contentRef, content)
	st.putRaw(linkRef, link)

	t0 := time.Now().Add(-time.Hour).Truncate(time.Second)
	sign := func(bb *schema.Builder, at time.Time) blob.Ref {
		signed, err := bb.SignAt(ctxbg, st.signer, at)
		if err != nil {
			t.Fatal(err)
		}
		ref := blob.RefFromString(signed)
		st.putRaw(ref, signed)
		return ref
	}

	shareRef := sign(schema.NewShareRef(schema.ShareHaveRef, true).SetShareTarget(linkRef), t0)
	path := fmt.Sprintf("%s?via=%s,%s", contentRef, shareRef, linkRef)
	st.testGet(path, noError)

	// Two delete claims of the share with the very same claim date
	// (e.g. made by two clients, or by a script, within the same second).
	delDate := t0.Add(time.Minute)
	del1 := sign(schema.NewDeleteClaim(shareRef).SetRawStringField("note", "first"), delDate)
	st.testGet(path, shareDeleted)
	del2 := sign(schema.NewDeleteClaim(shareRef).SetRawStringField("note", "second"), delDate)
	if del1 == del2 {
		t.Fatal("test bug: delete claims are the same blob")
	}
	st.testGet(path, shareDeleted)

	// Undo only the second deletion: the first one still holds.
	sign(schema.NewDeleteClaim(del2), t0.Add(2*time.Minute))
	st.testGet(path, shareDeleted)
	st.testGet(shareRef.String(), shareDeleted)
}
