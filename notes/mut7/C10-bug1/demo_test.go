package sorted_test

import (
	"fmt"
	"sync/atomic"
	"testing"

	"perkeep.org/pkg/sorted"
)

// TestMemBatchAtomicUnderReaders commits large batches that move every key
// of a set from one generation to the next, while a reader looks at the
// first and then at the last key written by the batch. A committed batch
// is one unit: once the first key shows generation g, the last key (read
// afterwards) cannot still show an older generation.
func TestMemBatchAtomicUnderReaders(t *testing.T) {
	const (
		nKeys = 20000
		gens  = 30
	)
	kv := sorted.NewMemoryKeyValue()
	defer kv.Close()
	keys := make([]string, nKeys)
	for i := range keys {
		keys[i] = fmt.Sprintf("row|%06d", i)
	}
	commit := func(gen int) {
		bm := kv.BeginBatch()
		val := fmt.Sprintf("%04d", gen)
		for _, k := range keys {
			bm.Set(k, val)
		}
		if err := kv.CommitBatch(bm); err != nil {
			t.Errorf("CommitBatch: %v", err)
		}
	}
	commit(0)

	var done atomic.Bool
	torn := make(chan string, 1)
	go func() {
		defer close(torn)
		for !done.Load() {
			first, err1 := kv.Get(keys[0])
			last, err2 := kv.Get(keys[nKeys-1])
			if err1 != nil || err2 != nil {
				torn <- fmt.Sprintf("Get errors: %v, %v", err1, err2)
				return
			}
			if last < first {
				torn <- fmt.Sprintf("first key at generation %s, last key (read later) still at generation %s", first, last)
				return
			}
		}
	}()
	for g := 1; g <= gens; g++ {
		commit(g)
	}
	done.Store(true)
	if msg, ok := <-torn; ok {
		t.Fatalf("half-applied batch observed: %s", msg)
	}
}
