package blob_test

import (
	"fmt"
	"runtime"
	"sync"
	"sync/atomic"
	"testing"
	"time"

	"perkeep.org/pkg/blob"
)

// TestMW7ConcurrentStringRoundTrip: the text form of a ref parses back to
// an equal ref, also when many goroutines take text forms at once.
func TestMW7ConcurrentStringRoundTrip(t *testing.T) {
	if runtime.GOMAXPROCS(0) < 4 {
		defer runtime.GOMAXPROCS(runtime.GOMAXPROCS(4))
	}
	const workers = 8
	var bad atomic.Value
	var stop atomic.Bool
	var wg sync.WaitGroup
	deadline := time.Now().Add(5 * time.Second)
	for w := 0; w < workers; w++ {
		wg.Add(1)
		go func(w int) {
			defer wg.Done()
			r := blob.RefFromString(fmt.Sprintf("worker-%d", w))
			want := "sha224-" + r.Digest()
			for i := 0; !stop.Load(); i++ {
				s := r.String()
				back, ok := blob.Parse(s)
				if s != want || !ok || back != r {
					bad.Store(fmt.Sprintf("worker %d iteration %d: String() = %q, want %q (parses back equal: %v)", w, i, s, want, ok && back == r))
					stop.Store(true)
					return
				}
				if i%1024 == 0 && time.Now().After(deadline) {
					return
				}
			}
		}(w)
	}
	wg.Wait()
	if m, _ := bad.Load().(string); m != "" {
		t.Fatal(m)
	}
}
