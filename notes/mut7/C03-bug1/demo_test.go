package files_test

import (
	"context"
	"io"
	"os"
	"strings"
	"sync"
	"syscall"
	"testing"

	"perkeep.org/pkg/blob"
	"perkeep.org/pkg/blobserver/files"
)

// crashFS is the host file system with a model of durability: the bytes
// of a file survive a crash only once a Sync of it has succeeded.  The
// first Sync after failNextSync is armed fails with EINVAL and makes
// nothing durable (as a failed fsync does).
type crashFS struct {
	files.VFS
	mu           sync.Mutex
	unsynced     map[string]bool // path -> holds bytes that no successful Sync covered
	failNextSync bool
}

type crashFile struct {
	files.WritableFile
	fs *crashFS
}

func (f *crashFile) Write(p []byte) (int, error) {
	f.fs.mu.Lock()
	f.fs.unsynced[f.Name()] = true
	f.fs.mu.Unlock()
	return f.WritableFile.Write(p)
}

func (f *crashFile) Sync() error {
	f.fs.mu.Lock()
	defer f.fs.mu.Unlock()
	if f.fs.failNextSync {
		f.fs.failNextSync = false
		return &os.PathError{Op: "sync", Path: f.Name(), Err: syscall.EINVAL}
	}
	if err := f.WritableFile.Sync(); err != nil {
		return err
	}
	delete(f.fs.unsynced, f.Name())
	return nil
}

func (fs *crashFS) TempFile(dir, prefix string) (files.WritableFile, error) {
	f, err := fs.VFS.TempFile(dir, prefix)
	if err != nil {
		return nil, err
	}
	return &crashFile{f, fs}, nil
}

func (fs *crashFS) Rename(oldname, newname string) error {
	if err := fs.VFS.Rename(oldname, newname); err != nil {
		return err
	}
	fs.mu.Lock()
	defer fs.mu.Unlock()
	if fs.unsynced[oldname] {
		delete(fs.unsynced, oldname)
		fs.unsynced[newname] = true
	} else {
		delete(fs.unsynced, newname)
	}
	return nil
}

func (fs *crashFS) Remove(name string) error {
	fs.mu.Lock()
	delete(fs.unsynced, name)
	fs.mu.Unlock()
	return fs.VFS.Remove(name)
}

// crash loses the data that was never synced: those files come back empty.
func (fs *crashFS) crash(t *testing.T) {
	fs.mu.Lock()
	defer fs.mu.Unlock()
	for name := range fs.unsynced {
		if err := os.Truncate(name, 0); err != nil && !os.IsNotExist(err) {
			t.Fatal(err)
		}
	}
	fs.unsynced = map[string]bool{}
}

func TestMutC03AckedBlobSurvivesCrashAfterFailedSync(t *testing.T) {
	ctx := context.Background()
	root := t.TempDir()
	fs := &crashFS{VFS: files.OSFS(), unsynced: map[string]bool{}}
	sto := files.NewStorage(fs, root)

	recv := func(contents string) (blob.Ref, error) {
		br := blob.RefFromString(contents)
		_, err := sto.ReceiveBlob(ctx, br, strings.NewReader(contents))
		return br, err
	}

	acked := map[blob.Ref]string{}
	c1 := "first blob, synced normally"
	br1, err := recv(c1)
	if err != nil {
		t.Fatal(err)
	}
	acked[br1] = c1

	c2 := strings.Repeat("second blob, its fsync fails. ", 100)
	fs.mu.Lock()
	fs.failNextSync = true
	fs.mu.Unlock()
	br2, err := recv(c2)
	if err == nil {
		acked[br2] = c2
	} else {
		t.Logf("receive with failing fsync was refused (fine): %v", err)
	}

	// the process dies; un-synced data is lost; restart.
	fs.crash(t)
	sto = files.NewStorage(files.OSFS(), root)

	for br, want := range acked {
		rc, size, err := sto.Fetch(ctx, br)
		if err != nil {
			t.Errorf("acknowledged blob %v: fetch after the crash: %v", br, err)
			continue
		}
		got, _ := io.ReadAll(rc)
		rc.Close()
		if int(size) != len(want) || string(got) != want {
			t.Errorf("acknowledged blob %v is torn after the crash: size %d, %d bytes read, want %d", br, size, len(got), len(want))
		}
	}
	// and nothing torn is presented as a blob
	dest := make(chan blob.SizedRef, 10)
	if err := sto.EnumerateBlobs(ctx, dest, "", 10); err != nil {
		t.Fatal(err)
	}
	for sb := range dest {
		want := c1
		if sb.Ref == br2 {
			want = c2
		}
		if int(sb.Size) != len(want) {
			t.Errorf("enumerate presents %v with size %d, want %d (torn blob)", sb.Ref, sb.Size, len(want))
		}
	}
}
