package handlers

import (
	"bytes"
	"context"
	"fmt"
	"io"
	"mime/multipart"
	"net/http"
	"net/http/httptest"
	"net/textproto"
	"testing"

	"perkeep.org/pkg/blob"
	"perkeep.org/pkg/blobserver"
	"perkeep.org/pkg/blobserver/memory"
)

type mutC18Sto struct {
	*memory.Storage
}

func (mutC18Sto) Config() *blobserver.Config { return &blobserver.Config{Writable: true, Readable: true} }

// TestMutC18DocStyleMultipart uploads two blobs the way
// doc/protocol/blob-upload.md shows it: the part's name is the blobref and the
// filename is a throw-away counter ("blob1", "blob2"). Both blobs must be
// reported as received and be present in the storage afterwards. A third part
// that repeats the blobref as the filename (what pkg/client sends) is the
// control.
func TestMutC18DocStyleMultipart(t *testing.T) {
	sto := mutC18Sto{&memory.Storage{}}
	srv := httptest.NewServer(CreateBatchUploadHandler(sto))
	defer srv.Close()

	contents := []string{"first blob", "second blob", "third blob (client style)"}
	var body bytes.Buffer
	mw := multipart.NewWriter(&body)
	for i, c := range contents {
		br := blob.RefFromString(c)
		filename := fmt.Sprintf("blob%d", i+1)
		if i == 2 {
			filename = br.String()
		}
		h := make(textproto.MIMEHeader)
		h.Set("Content-Disposition", fmt.Sprintf(`form-data; name="%s"; filename="%s"`, br, filename))
		h.Set("Content-Type", "application/octet-stream")
		pw, err := mw.CreatePart(h)
		if err != nil {
			t.Fatal(err)
		}
		io.WriteString(pw, c)
	}
	mw.Close()

	req, _ := http.NewRequest("POST", srv.URL+"/camli/upload", &body)
	req.Header.Set("Content-Type", mw.FormDataContentType())
	res, err := http.DefaultClient.Do(req)
	if err != nil {
		t.Fatal(err)
	}
	resBody, _ := io.ReadAll(res.Body)
	res.Body.Close()
	if res.StatusCode != 200 {
		t.Fatalf("upload status = %d; body %s", res.StatusCode, resBody)
	}
	t.Logf("upload response: %s", resBody)

	for _, c := range contents {
		br := blob.RefFromString(c)
		if !bytes.Contains(resBody, []byte(br.String())) {
			t.Errorf("blob %v (%q) not reported as received", br, c)
		}
		rc, size, err := sto.Fetch(context.Background(), br)
		if err != nil {
			t.Errorf("blob %v (%q) not in storage after upload: %v", br, c, err)
			continue
		}
		got, _ := io.ReadAll(rc)
		rc.Close()
		if string(got) != c || int(size) != len(c) {
			t.Errorf("blob %v: got %q (size %d), want %q", br, got, size, c)
		}
	}
}
