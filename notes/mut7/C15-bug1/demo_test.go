package schema

import (
	"context"
	"io"
	"testing"

	"perkeep.org/pkg/test"
)

// A well-formed file whose part list contains a zero-size part (here between
// two data parts, and as the very first part of a nested bytes tree) must read
// back exactly the bytes the schema denotes.
func TestMutC15ZeroSizePart(t *testing.T) {
	ctx := context.Background()
	fetcher := &test.Fetcher{}
	a := &test.Blob{Contents: "AAAAA"}
	b := &test.Blob{Contents: "BBB"}
	fetcher.AddBlob(a)
	fetcher.AddBlob(b)

	mk := func(bb *Builder, parts []BytesPart) *test.Blob {
		var size int64
		for _, p := range parts {
			size += int64(p.Size)
		}
		if err := bb.PopulateParts(size, parts); err != nil {
			t.Fatal(err)
		}
		js, err := bb.JSON()
		if err != nil {
			t.Fatal(err)
		}
		tb := &test.Blob{Contents: js}
		fetcher.AddBlob(tb)
		return tb
	}

	// nested bytes tree starting with a zero-size part
	inner := mk(newBytes(), []BytesPart{
		{BlobRef: b.BlobRef(), Size: 0},
		{BlobRef: b.BlobRef(), Size: 3},
	})
	file := mk(NewFileMap("z"), []BytesPart{
		{BlobRef: a.BlobRef(), Size: 5},
		{BlobRef: a.BlobRef(), Size: 0, Offset: 2},
		{BlobRef: b.BlobRef(), Size: 3},
		{BytesRef: inner.BlobRef(), Size: 3},
	})
	const want = "AAAAABBBBBB"

	fr, err := NewFileReader(ctx, fetcher, file.BlobRef())
	if err != nil {
		t.Fatal(err)
	}
	if fr.Size() != int64(len(want)) {
		t.Fatalf("Size = %d; want %d", fr.Size(), len(want))
	}
	got, err := io.ReadAll(fr)
	if err != nil || string(got) != want {
		t.Errorf("ReadAll = %q, %v; want %q", got, err, want)
	}
	for off := 0; off < len(want); off++ {
		buf := make([]byte, len(want)-off)
		n, err := fr.ReadAt(buf, int64(off))
		if err != nil || string(buf[:n]) != want[off:] {
			t.Errorf("ReadAt(off=%d) = %q, %v; want %q", off, buf[:n], err, want[off:])
		}
	}
}
