package index_test

import (
	"context"
	"testing"
	"time"

	"perkeep.org/pkg/index"
	"perkeep.org/pkg/index/indextest"
	"perkeep.org/pkg/schema"
	"perkeep.org/pkg/sorted"
)

// Two delete claims (different dates) of one permanode are both received
// before the permanode. Whatever the order in which the two get re-indexed
// once the permanode arrives, the in-memory corpus must end up knowing both,
// exactly as it does when it is rebuilt from the index rows.
func TestMut7C05TwoEarlyDeletes(t *testing.T) {
	ctx := context.Background()
	for round := 0; round < 24; round++ {
		ix, err := index.New(sorted.NewMemoryKeyValue())
		if err != nil {
			t.Fatal(err)
		}
		id := indextest.NewIndexDeps(ix)
		id.Fataler = t
		corpus, err := ix.KeepInMemory()
		if err != nil {
			t.Fatal(err)
		}

		pn := id.Sign(schema.NewUnsignedPermanode())
		base := id.LastTime()
		mkDelete := func(d time.Duration) *schema.Builder {
			m := schema.NewDeleteClaim(pn.BlobRef())
			m.SetClaimDate(base.Add(d))
			return m
		}
		dOld := id.Sign(mkDelete(10 * time.Second))
		dNew := id.Sign(mkDelete(20 * time.Second))

		id.Upload(dOld)
		id.Upload(dNew)
		id.Upload(pn)
		ix.Exp_AwaitAsyncIndexing(t)
		ix.Exp_AwaitReindexing(t)

		ix.RLock()
		claims, err := corpus.AppendClaims(ctx, nil, pn.BlobRef(), "", "")
		ix.RUnlock()
		if err != nil {
			t.Fatal(err)
		}
		got := map[string]bool{}
		for _, cl := range claims {
			got[cl.BlobRef.String()] = true
		}
		if !got[dOld.BlobRef().String()] || !got[dNew.BlobRef().String()] {
			t.Fatalf("round %d: corpus knows %d claim(s) %v of the permanode; want both delete claims %v and %v (the index rows have both)",
				round, len(claims), got, dOld.BlobRef(), dNew.BlobRef())
		}

		// Undelete: delete the newer delete claim. The older one still
		// stands, so the permanode must still be deleted.
		undel := schema.NewDeleteClaim(dNew.BlobRef())
		undel.SetClaimDate(base.Add(30 * time.Second))
		id.Upload(id.Sign(undel))
		ix.RLock()
		deleted := corpus.IsDeleted(pn.BlobRef())
		ix.RUnlock()
		if !deleted || !ix.IsDeleted(pn.BlobRef()) {
			t.Fatalf("round %d: corpus.IsDeleted=%v, index.IsDeleted=%v; want both true", round, deleted, ix.IsDeleted(pn.BlobRef()))
		}
	}
}
