package blobserver_test

import (
	"context"
	"crypto/sha1"
	"errors"
	"fmt"
	"io"
	"strings"
	"testing"

	"perkeep.org/pkg/blob"
	"perkeep.org/pkg/blobserver"
	"perkeep.org/pkg/blobserver/localdisk"
)

// failAfter yields its prefix and then fails with a non-EOF error, like an
// upload whose connection breaks mid-stream.
type failAfter struct {
	r io.Reader
}

func (f *failAfter) Read(p []byte) (int, error) {
	n, err := f.r.Read(p)
	if err == io.EOF {
		return n, errors.New("connection reset by peer")
	}
	return n, err
}

// TestMut7C02SuffixAfterAbortedUpload: an upload of ref R that breaks
// mid-stream after the first part of R's content, followed by an upload
// under R of only the REST of the content (a truncation of the true
// content: its head is missing). The second upload must be refused as
// corrupt and leave no trace.
func TestMut7C02SuffixAfterAbortedUpload(t *testing.T) {
	ctx := context.Background()
	sto, err := localdisk.New(t.TempDir())
	if err != nil {
		t.Fatal(err)
	}
	hub := blobserver.GetHub(sto)
	notified := make(chan blob.Ref, 100)
	hub.RegisterListener(notified)

	for i := 0; i < 20; i++ {
		content := fmt.Sprintf("round %d: the head of the blob | and the tail of the very same blob", i)
		cut := strings.Index(content, "|")
		head, tail := content[:cut], content[cut:]
		for _, br := range []blob.Ref{blob.RefFromString(content), blob.MustParse("sha1-" + sha1Hex(content))} {
			// 1. the upload that breaks mid-stream: must fail.
			if _, err := blobserver.Receive(ctx, sto, br, &failAfter{strings.NewReader(head)}); err == nil {
				t.Fatalf("round %d: broken upload of %v was accepted", i, br)
			}
			// 2. only the tail, offered under the ref of the whole.
			sb, err := blobserver.Receive(ctx, sto, br, strings.NewReader(tail))
			if err == nil {
				t.Errorf("round %d: %d-byte tail accepted under %v (ref of the %d-byte whole): got %v", i, len(tail), br, len(content), sb)
			} else if !errors.Is(err, blobserver.ErrCorruptBlob) {
				t.Errorf("round %d: tail under %v: error %v, want ErrCorruptBlob", i, br, err)
			}
			if rc, size, err := sto.Fetch(ctx, br); err == nil {
				got, _ := io.ReadAll(rc)
				rc.Close()
				t.Errorf("round %d: rejected %v is fetchable: size %d, bytes %q", i, br, size, got)
			}
			select {
			case got := <-notified:
				t.Errorf("round %d: hub notified of %v", i, got)
			default:
			}
			if t.Failed() {
				return
			}
		}
	}
}

func sha1Hex(s string) string {
	h := sha1.New()
	io.WriteString(h, s)
	return fmt.Sprintf("%x", h.Sum(nil))
}
