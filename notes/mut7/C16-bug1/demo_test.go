package jsonsign_test

import (
	"context"
	"encoding/json"
	"io"
	"os"
	"strings"
	"testing"
	"time"

	"golang.org/x/crypto/openpgp"
	"perkeep.org/pkg/blob"
	"perkeep.org/pkg/jsonsign"
)

type mut1Fetcher map[blob.Ref]string

func (m mut1Fetcher) Fetch(ctx context.Context, br blob.Ref) (io.ReadCloser, uint32, error) {
	s, ok := m[br]
	if !ok {
		return nil, 0, os.ErrNotExist
	}
	return io.NopCloser(strings.NewReader(s)), uint32(len(s)), nil
}

type mut1Entity struct{ e *openpgp.Entity }

func (m mut1Entity) FetchEntity(string) (*openpgp.Entity, error) { return m.e, nil }

// TestMut1PercentInPayload signs objects whose string values contain '%'
// (URL-escaped names, "100%", printf-looking text) and requires that the
// signed document is valid JSON, verifies, and exposes the original fields.
func TestMut1PercentInPayload(t *testing.T) {
	ctx := context.Background()
	ent, err := jsonsign.NewEntity()
	if err != nil {
		t.Fatal(err)
	}
	armored, err := jsonsign.ArmoredPublicKey(ent)
	if err != nil {
		t.Fatal(err)
	}
	pubRef := blob.RefFromString(armored)
	fetcher := mut1Fetcher{pubRef: armored}

	values := []string{
		"plain",                   // control: no '%'
		"100%",                    // trailing percent
		"file%20name%2Fwith.jpg",  // URL escapes
		"progress: %d of %s done", // printf look-alike
		"%%",
	}
	for _, v := range values {
		vj, _ := json.Marshal(v)
		unsigned := `{"camliVersion": 1,
  "camliSigner": "` + pubRef.String() + `",
  "camliType": "claim",
  "value": ` + string(vj) + `
}`
		sr := &jsonsign.SignRequest{
			UnsignedJSON:  unsigned,
			Fetcher:       fetcher,
			EntityFetcher: mut1Entity{ent},
			SignatureTime: time.Unix(1300000000, 0),
		}
		signed, err := sr.Sign(ctx)
		if err != nil {
			t.Errorf("value %q: Sign: %v", v, err)
			continue
		}
		var m map[string]any
		if err := json.Unmarshal([]byte(signed), &m); err != nil {
			t.Errorf("value %q: signed document is not valid JSON: %v\n%s", v, err, signed)
			continue
		}
		if got, _ := m["value"].(string); got != v {
			t.Errorf("value %q: signed document exposes value %q", v, got)
		}
		wantPrefix := strings.TrimSuffix(unsigned, "}")
		if !strings.HasPrefix(signed, wantPrefix+`,"camliSig":"`) {
			t.Errorf("value %q: signed document does not start with the unsigned payload:\n%s", v, signed)
		}
		vr := jsonsign.NewVerificationRequest(signed, fetcher)
		if _, err := vr.Verify(ctx); err != nil {
			t.Errorf("value %q: freshly signed document does not verify: %v (%v)", v, err, vr.Err)
			continue
		}
		if got, _ := vr.PayloadMap["value"].(string); got != v {
			t.Errorf("value %q: verified payload exposes value %q", v, got)
		}
	}
}
