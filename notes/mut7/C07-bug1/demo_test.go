package index

import (
	"context"
	"testing"
	"time"

	"perkeep.org/pkg/blob"
	"perkeep.org/pkg/sorted"
)

// One GPG key whose public key is present as two distinct blobs (e.g. two
// different armorings, or a sha1 and a sha224 ref): both signer refs map to
// the same key ID. Claims made with either ref are that signer's claims, at
// the present time as well as at a historical time.
func TestMW7C07TwoSignerRefsOneKey(t *testing.T) {
	const keyID = "2931A67C26F5ABDA"
	pn := blob.RefFromString("mw7 permanode")
	signerA := blob.RefFromString("mw7 public key, armoring A")
	signerB := blob.RefFromString("mw7 public key, armoring B")
	t1 := time.Date(2011, 11, 27, 1, 23, 45, 0, time.UTC)
	t2 := t1.Add(time.Hour)
	t3 := t2.Add(time.Hour)

	kv := sorted.NewMemoryKeyValue()
	set := func(k, v string) {
		t.Helper()
		if err := kv.Set(k, v); err != nil {
			t.Fatal(err)
		}
	}
	set("signerkeyid:"+signerA.String(), keyID)
	set("signerkeyid:"+signerB.String(), keyID)
	claim := func(name string, at time.Time, val string, signer blob.Ref) {
		cl := blob.RefFromString("mw7 claim " + name)
		set(keyPermanodeClaim.Key(pn, keyID, at.Format(time.RFC3339), cl),
			keyPermanodeClaim.Val("set-attribute", "title", val, signer))
	}
	claim("1", t1, "one", signerA)
	claim("2", t2, "two", signerB)
	claim("3", t3, "three", signerA)

	c, err := NewCorpusFromStorage(kv)
	if err != nil {
		t.Fatal(err)
	}

	for _, tt := range []struct {
		name string
		at   time.Time
		want string
	}{
		{"zero", time.Time{}, "three"},
		{"t3", t3, "three"},
		{"t2", t2, "two"},
		{"t2+30m", t2.Add(30 * time.Minute), "two"},
		{"t1", t1, "one"},
	} {
		for _, filter := range []string{"", keyID} {
			if got := c.PermanodeAttrValue(pn, "title", tt.at, filter); got != tt.want {
				t.Errorf("PermanodeAttrValue(at=%s, signer=%q) = %q; want %q", tt.name, filter, got, tt.want)
			}
			got := c.AppendPermanodeAttrValues(nil, pn, "title", tt.at, filter)
			if len(got) != 1 || got[0] != tt.want {
				t.Errorf("AppendPermanodeAttrValues(at=%s, signer=%q) = %q; want [%q]", tt.name, filter, got, tt.want)
			}
		}
	}
	for _, filter := range []string{"", keyID} {
		cls, err := c.AppendClaims(context.Background(), nil, pn, filter, "title")
		if err != nil {
			t.Fatal(err)
		}
		if len(cls) != 3 {
			t.Errorf("AppendClaims(signer=%q) returned %d claims; want 3", filter, len(cls))
		}
	}
}
