package index_test

import (
	"context"
	"testing"

	"perkeep.org/pkg/blob"
	"perkeep.org/pkg/index"
	"perkeep.org/pkg/index/indextest"
	"perkeep.org/pkg/sorted"
)

// TestMutC06ParkedDeleteSignerKeyID: the very first claim of a signer is a
// delete claim that arrives before its target (so it is parked, waiting for
// the target). The live corpus must answer KeyId(signer) exactly as a corpus
// freshly loaded from the same rows does.
func TestMutC06ParkedDeleteSignerKeyID(t *testing.T) {
	ctx := context.Background()
	kv := sorted.NewMemoryKeyValue()
	idx, err := index.New(kv)
	if err != nil {
		t.Fatal(err)
	}
	idxd := indextest.NewIndexDeps(idx)
	idxd.Fataler = t
	live, err := idx.KeepInMemory()
	if err != nil {
		t.Fatal(err)
	}

	// Target never seen by the index: the delete claim gets parked.
	target := blob.RefFromString("some permanode that has not arrived yet")
	del := idxd.Delete(target)

	if v, err := kv.Get("signerkeyid:" + idxd.SignerBlobRef.String()); err != nil {
		t.Fatalf("no signerkeyid row persisted for the parked delete claim %v: %v", del, err)
	} else {
		t.Logf("persisted signerkeyid row: %q", v)
	}

	fresh, err := index.NewCorpusFromStorage(kv)
	if err != nil {
		t.Fatal(err)
	}
	idx.RLock()
	liveID, liveErr := live.KeyId(ctx, idxd.SignerBlobRef)
	_, liveMetaErr := live.GetBlobMeta(ctx, del)
	idx.RUnlock()
	freshID, freshErr := fresh.KeyId(ctx, idxd.SignerBlobRef)
	_, freshMetaErr := fresh.GetBlobMeta(ctx, del)

	if (liveMetaErr == nil) != (freshMetaErr == nil) {
		t.Errorf("GetBlobMeta(parked delete claim): live err=%v, fresh err=%v", liveMetaErr, freshMetaErr)
	}
	if liveID != freshID || (liveErr == nil) != (freshErr == nil) {
		t.Errorf("KeyId(signer) differs between the live corpus and a restart: live=(%q, %v) fresh=(%q, %v)",
			liveID, liveErr, freshID, freshErr)
	}
}
