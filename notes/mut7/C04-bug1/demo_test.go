package blobpacked

import (
	"bytes"
	"context"
	"testing"

	"perkeep.org/pkg/blob"
	"perkeep.org/pkg/blobserver"
	"perkeep.org/pkg/schema"
	"perkeep.org/pkg/sorted"
	"perkeep.org/pkg/test"
)

// A pack whose per-zip loose-blob deletion did not happen (crash between the
// meta commit and the deletion, or a failed deletion) leaves every packed
// blob both in the zip and in small. A later removal of such blobs, given in
// a batch that holds packed blobs only, must still make them disappear.
func TestMutC04RemovePackedWithLooseCopy(t *testing.T) {
	ctx := context.Background()
	small := new(test.Fetcher)
	large := new(test.Fetcher)
	sto := &storage{
		small:      small,
		large:      large,
		meta:       sorted.NewMemoryKeyValue(),
		log:        test.NewLogger(t, "blobpacked: "),
		skipDelete: true, // the loose copies stay, as after an interrupted pack
	}
	sto.init()

	if _, err := schema.WriteFileFromReader(ctx, sto, "foo.dat", bytes.NewReader(randBytesSrc(1<<20, 42))); err != nil {
		t.Fatal(err)
	}
	if large.NumBlobs() != 1 || small.NumBlobs() == 0 {
		t.Fatalf("large, small = %d, %d; want 1, non-zero", large.NumBlobs(), small.NumBlobs())
	}
	var all []blob.Ref
	if err := blobserver.EnumerateAll(ctx, sto, func(sb blob.SizedRef) error {
		all = append(all, sb.Ref)
		return nil
	}); err != nil {
		t.Fatal(err)
	}
	for _, br := range all {
		m, err := sto.getMetaRow(br)
		if err != nil || !m.isPacked() {
			t.Fatalf("%v not packed (err %v)", br, err)
		}
	}

	// Remove two packed blobs in one batch (packed blobs only).
	gone := all[:2]
	if err := sto.RemoveBlobs(ctx, gone); err != nil {
		t.Fatal(err)
	}
	for _, br := range gone {
		if rc, _, err := sto.Fetch(ctx, br); err == nil {
			rc.Close()
			t.Errorf("removed blob %v is still fetched", br)
		}
		if sb, err := blobserver.StatBlob(ctx, sto, br); err == nil {
			t.Errorf("removed blob %v is still stat-ed: %v", br, sb)
		}
	}
	n := 0
	if err := blobserver.EnumerateAll(ctx, sto, func(sb blob.SizedRef) error {
		n++
		for _, br := range gone {
			if sb.Ref == br {
				t.Errorf("removed blob %v is still enumerated", br)
			}
		}
		return nil
	}); err != nil {
		t.Fatal(err)
	}
	if want := len(all) - len(gone); n != want {
		t.Errorf("enumerated %d blobs after removal; want %d", n, want)
	}
}
