package proxycache

import (
	"context"
	"errors"
	"io"
	"os"
	"sync/atomic"
	"testing"

	"perkeep.org/pkg/blob"
	"perkeep.org/pkg/blobserver"
	"perkeep.org/pkg/blobserver/memory"
	"perkeep.org/pkg/test"
)

// flakyRemover is a blob store whose next RemoveBlobs call fails (once) when
// armed: a transient failure of the lower layer.
type flakyRemover struct {
	blobserver.Storage
	failNext atomic.Bool
}

func (f *flakyRemover) RemoveBlobs(ctx context.Context, blobs []blob.Ref) error {
	if f.failNext.CompareAndSwap(true, false) {
		return errors.New("injected transient remove failure")
	}
	return f.Storage.RemoveBlobs(ctx, blobs)
}

func TestMutC13TransientCacheRemoveFailure(t *testing.T) {
	ctx := context.Background()
	cache := &flakyRemover{Storage: &memory.Storage{}}
	origin := &memory.Storage{}
	sto := New(1<<20, cache, origin)

	tb := &test.Blob{Contents: "acknowledged, then removed"}
	br := tb.BlobRef()
	if _, err := blobserver.Receive(ctx, sto, br, tb.Reader()); err != nil {
		t.Fatalf("receive: %v", err)
	}

	// One transient failure of the cache during the removal.
	cache.failNext.Store(true)
	var err error
	for try := 0; try < 3; try++ {
		// A failed removal is simply repeated by the caller; the fault is
		// over after the first attempt.
		if err = sto.RemoveBlobs(ctx, []blob.Ref{br}); err == nil {
			break
		}
		t.Logf("RemoveBlobs attempt %d: %v", try+1, err)
	}
	if err != nil {
		t.Fatalf("RemoveBlobs keeps failing after the fault stopped: %v", err)
	}

	// The removal has been acknowledged: the blob must be gone.
	if rc, _, err := sto.Fetch(ctx, br); err == nil {
		got, _ := io.ReadAll(rc)
		rc.Close()
		t.Errorf("Fetch after an acknowledged removal still serves the blob (%q)", got)
	} else if !errors.Is(err, os.ErrNotExist) {
		t.Errorf("Fetch after removal: %v, want os.ErrNotExist", err)
	}
	if err := sto.StatBlobs(ctx, []blob.Ref{br}, func(sb blob.SizedRef) error {
		t.Errorf("StatBlobs after an acknowledged removal still reports %v", sb)
		return nil
	}); err != nil {
		t.Errorf("StatBlobs: %v", err)
	}
}
