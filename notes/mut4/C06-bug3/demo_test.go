package sqlite_test

import (
	"context"
	"database/sql"
	"fmt"
	"path/filepath"
	"sort"
	"strings"
	"testing"
	"time"

	"go4.org/jsonconfig"
	"perkeep.org/pkg/blob"
	"perkeep.org/pkg/index"
	"perkeep.org/pkg/index/indextest"
	"perkeep.org/pkg/schema"
	"perkeep.org/pkg/sorted"
	"perkeep.org/pkg/types/camtypes"
)

func mut4c06b3Open(t *testing.T, file string) (*index.Index, *index.Corpus) {
	t.Helper()
	kv, err := sorted.NewKeyValue(jsonconfig.Obj{
		"type": "sqlite",
		"file": file,
	})
	if err != nil {
		t.Fatal(err)
	}
	t.Cleanup(func() { kv.Close() })
	ix, err := index.New(kv)
	if err != nil {
		t.Fatal(err)
	}
	c, err := ix.KeepInMemory()
	if err != nil {
		t.Fatal(err)
	}
	return ix, c
}

func mut4c06b3Snapshot(t *testing.T, ix *index.Index, c *index.Corpus, pns map[string]blob.Ref) string {
	t.Helper()
	ctx := context.Background()
	ix.RLock()
	defer ix.RUnlock()
	var names []string
	for name := range pns {
		names = append(names, name)
	}
	sort.Strings(names)
	var sb strings.Builder
	for _, name := range names {
		pn := pns[name]
		_, err := ix.GetBlobMeta(ctx, pn)
		cls, cerr := ix.AppendClaims(ctx, nil, pn, "", "")
		if cerr != nil {
			t.Fatalf("AppendClaims: %v", cerr)
		}
		fmt.Fprintf(&sb, "%s: meta err=%v; %d claims; title=%q; tags=%q; deleted=%v/%v\n",
			name, err, len(cls),
			c.PermanodeAttrValue(pn, "title", time.Time{}, ""),
			c.AppendPermanodeAttrValues(nil, pn, "tag", time.Time{}, ""),
			c.IsDeleted(pn), ix.IsDeleted(pn))
	}
	var n int
	ix.EnumerateBlobMeta(ctx, func(camtypes.BlobMeta) bool { n++; return true })
	fmt.Fprintf(&sb, "%d blobs\n", n)
	return sb.String()
}

// The index is backed by an SQLite file and keeps a corpus in memory. While
// another connection (think: a backup or a maintenance tool) holds the write
// lock of the database file, a few blobs are received: their index rows can't
// be written. Whatever ReceiveBlob says, the running index and corpus must
// answer like ones opened afresh over the rows that were persisted.
func TestMut4C06B3_SQLiteBusyDuringReceive(t *testing.T) {
	index.SetVerboseCorpusLogging(false)
	ctx := context.Background()
	file := filepath.Join(t.TempDir(), "index.sqlite")
	ix, corpus := mut4c06b3Open(t, file)
	id := indextest.NewIndexDeps(ix)
	id.Fataler = t

	pn1 := id.NewPlannedPermanode("one")
	id.SetAttribute(pn1, "title", "first title")
	pn2 := id.NewPlannedPermanode("two")
	id.SetAttribute(pn2, "title", "two")
	pns := map[string]blob.Ref{"pn1": pn1, "pn2": pn2}

	compare := func(when string) {
		t.Helper()
		live := mut4c06b3Snapshot(t, ix, corpus, pns)
		ix2, corpus2 := mut4c06b3Open(t, file) // "restart"
		fresh := mut4c06b3Snapshot(t, ix2, corpus2, pns)
		if live != fresh {
			t.Errorf("%s: running index/corpus differs from freshly opened ones:\n--- live:\n%s--- fresh:\n%s", when, live, fresh)
		}
	}
	compare("before the lock")

	// Another connection takes the write lock.
	other, err := sql.Open("sqlite", file)
	if err != nil {
		t.Fatal(err)
	}
	defer other.Close()
	conn, err := other.Conn(ctx)
	if err != nil {
		t.Fatal(err)
	}
	defer conn.Close()
	if _, err := conn.ExecContext(ctx, "BEGIN IMMEDIATE"); err != nil {
		t.Fatalf("taking the write lock: %v", err)
	}

	receive := func(m *schema.Builder) {
		t.Helper()
		m.SetClaimDate(id.LastTime().Add(time.Second))
		tb := id.Sign(m)
		id.BlobSource.AddBlob(tb)
		_, err := ix.ReceiveBlob(ctx, tb.BlobRef(), tb.Reader())
		t.Logf("ReceiveBlob(%v) while the database is locked: err = %v", tb.BlobRef(), err)
	}
	receive(schema.NewSetAttributeClaim(pn1, "title", "second title"))
	receive(schema.NewAddAttributeClaim(pn1, "tag", "locked"))
	receive(schema.NewDeleteClaim(pn2))

	if _, err := conn.ExecContext(ctx, "ROLLBACK"); err != nil {
		t.Fatalf("releasing the write lock: %v", err)
	}
	compare("after receiving blobs while the database was locked")
}
