package search_test

import (
	"testing"
	"time"

	"perkeep.org/pkg/blob"
	. "perkeep.org/pkg/search"
)

// A file which is an entry of several directories matches a parentDir
// constraint as soon as one of its parents matches.
func TestMutC08Bug2FileInSeveralDirs(t *testing.T) {
	testQueryTypes(t, memIndexTypes, func(qt *queryTest) {
		id := qt.id

		shared, _ := id.UploadFile("shared.txt", "in both directories", time.Unix(1000, 0))
		onlyPhotos, _ := id.UploadFile("only-photos.txt", "in photos only", time.Unix(1001, 0))
		onlyBackup, _ := id.UploadFile("only-backup.txt", "in backup only", time.Unix(1002, 0))
		id.UploadFile("orphan.txt", "in no directory", time.Unix(1003, 0))

		id.UploadDir("photos", []blob.Ref{shared, onlyPhotos}, time.Unix(2000, 0))
		id.UploadDir("backup", []blob.Ref{shared, onlyBackup}, time.Unix(2001, 0))
		id.UploadDir("mirror", []blob.Ref{shared}, time.Unix(2002, 0))

		inDir := func(name string) *SearchQuery {
			return &SearchQuery{
				Sort: BlobRefAsc,
				Constraint: &Constraint{
					File: &FileConstraint{
						ParentDir: &DirConstraint{
							FileName: &StringConstraint{Equals: name},
						},
					},
				},
			}
		}
		// The parents of a file are kept in a set: ask several times, so
		// that they get visited in different orders.
		for i := 0; i < 30 && !t.Failed(); i++ {
			qt.wantRes(inDir("photos"), shared, onlyPhotos)
			qt.wantRes(inDir("backup"), shared, onlyBackup)
			qt.wantRes(inDir("mirror"), shared)
		}
	})
}
