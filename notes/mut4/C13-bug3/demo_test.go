package blobpacked

import (
	"bytes"
	"errors"
	"fmt"
	"sync"
	"testing"

	"perkeep.org/pkg/blob"
	"perkeep.org/pkg/blobserver"
	"perkeep.org/pkg/schema"
	"perkeep.org/pkg/sorted"
	"perkeep.org/pkg/test"
)

var errMutC13Iter = errors.New("injected transient meta index read failure")

// mutC13IterKV is a meta index whose next Find returns an iterator that
// breaks after failAfter rows: Next reports false and Close reports the
// error, which is how the sorted.Iterator contract reports a failed scan.
type mutC13IterKV struct {
	sorted.KeyValue

	mu        sync.Mutex
	armed     bool
	failAfter int
	tripped   bool
}

func (kv *mutC13IterKV) arm(failAfter int) {
	kv.mu.Lock()
	defer kv.mu.Unlock()
	kv.armed, kv.failAfter, kv.tripped = true, failAfter, false
}

func (kv *mutC13IterKV) disarm() (tripped bool) {
	kv.mu.Lock()
	defer kv.mu.Unlock()
	kv.armed = false
	return kv.tripped
}

func (kv *mutC13IterKV) Find(start, end string) sorted.Iterator {
	it := kv.KeyValue.Find(start, end)
	kv.mu.Lock()
	defer kv.mu.Unlock()
	if !kv.armed {
		return it
	}
	kv.armed = false // a single fault
	return &mutC13Iter{Iterator: it, kv: kv, remain: kv.failAfter}
}

type mutC13Iter struct {
	sorted.Iterator
	kv     *mutC13IterKV
	remain int
	failed bool
}

func (it *mutC13Iter) Next() bool {
	if it.failed {
		return false
	}
	if it.remain == 0 {
		// Only a real failure if there was a row left to read.
		if it.Iterator.Next() {
			it.failed = true
			it.kv.mu.Lock()
			it.kv.tripped = true
			it.kv.mu.Unlock()
		}
		return false
	}
	it.remain--
	return it.Iterator.Next()
}

func (it *mutC13Iter) Close() error {
	err := it.Iterator.Close()
	if it.failed {
		return errMutC13Iter
	}
	return err
}

func mutC13Enumerate(sto blobserver.Storage) ([]blob.Ref, error) {
	var got []blob.Ref
	err := blobserver.EnumerateAll(ctxbg, sto, func(sb blob.SizedRef) error {
		got = append(got, sb.Ref)
		return nil
	})
	return got, err
}

// TestMutC13EnumerateMetaScanFault packs a file, and enumerates the store
// while the scan of the meta index breaks after j rows, for every j. The
// enumeration has to either fail, or be complete.
func TestMutC13EnumerateMetaScanFault(t *testing.T) {
	kv := &mutC13IterKV{KeyValue: sorted.NewMemoryKeyValue()}
	sto := &storage{
		small: new(test.Fetcher),
		large: new(test.Fetcher),
		meta:  kv,
		log:   test.NewLogger(t, "blobpacked: "),
	}
	sto.init()

	// A file over the pack threshold: its chunks and schema blob get packed.
	if _, err := schema.WriteFileFromReader(ctxbg, sto, "foo.dat", bytes.NewReader(randBytesSrc(1<<20, 42))); err != nil {
		t.Fatal(err)
	}
	// And a few loose blobs.
	for i := 0; i < 3; i++ {
		if _, err := blobserver.ReceiveString(ctxbg, sto, fmt.Sprintf("loose blob %d", i)); err != nil {
			t.Fatal(err)
		}
	}
	if n := sto.large.(*test.Fetcher).NumBlobs(); n != 1 {
		t.Fatalf("file wasn't packed: %d zips", n)
	}

	want, err := mutC13Enumerate(sto)
	if err != nil {
		t.Fatal(err)
	}
	t.Logf("%d blobs in the store", len(want))
	if len(want) < 8 {
		t.Fatalf("expected more blobs than %d", len(want))
	}

	nTripped := 0
	for j := 0; j <= len(want); j++ {
		kv.arm(j)
		got, err := mutC13Enumerate(sto)
		tripped := kv.disarm()
		if tripped {
			nTripped++
		}
		if err != nil {
			if !tripped {
				t.Errorf("j=%d: enumerate failed without a fault: %v", j, err)
			}
			continue // the affected call failed: fine
		}
		if len(got) != len(want) {
			t.Errorf("j=%d (meta scan broke: %v): enumerate reported success, but listed %d of %d blobs", j, tripped, len(got), len(want))
		}
	}
	if nTripped == 0 {
		t.Fatal("no fault was ever injected")
	}

	// Once failures stop, the listing is right again.
	got, err := mutC13Enumerate(sto)
	if err != nil || len(got) != len(want) {
		t.Errorf("after the faults: enumerate = %d blobs, %v; want %d", len(got), err, len(want))
	}
}
