package server

import (
	"context"
	"io"
	"strings"
	"testing"
	"time"

	"perkeep.org/pkg/blob"
	"perkeep.org/pkg/blobserver"
	"perkeep.org/pkg/blobserver/memory"
	"perkeep.org/pkg/blobserver/replica"
	"perkeep.org/pkg/sorted"
)

// The source store /bs/ has an asynchronous sync destination (/backup/), and
// is also one of the backends of a synchronous replica set (like the
// "/bs-and-index/" prefix of the default server configuration). Blobs that
// the source receives through the replica set must be synced too, exactly
// like blobs uploaded to the source directly.
func TestC19Bug2UploadThroughReplicaIsSynced(t *testing.T) {
	ctx := context.Background()

	bs := &memory.Storage{}     // sync source
	other := &memory.Storage{}  // the other backend of the replica set
	backup := &memory.Storage{} // async sync destination of bs
	queue := sorted.NewMemoryKeyValue()

	NewSyncHandler("/bs/", "/backup/", bs, backup, queue)
	rep := replica.NewForTest([]blobserver.Storage{bs, other})

	waitAtBackup := func(br blob.Ref, want string) {
		t.Helper()
		deadline := time.Now().Add(2*queueSyncInterval + 2*time.Second)
		for time.Now().Before(deadline) {
			rc, _, err := backup.Fetch(ctx, br)
			if err == nil {
				got, _ := io.ReadAll(rc)
				rc.Close()
				if string(got) != want {
					t.Fatalf("backup has %q for %v, want %q", got, br, want)
				}
				return
			}
			time.Sleep(20 * time.Millisecond)
		}
		_, qerr := queue.Get(br.String())
		_, _, serr := bs.Fetch(ctx, br)
		t.Fatalf("blob %v never reached the sync destination (on source: %v; in pending queue: %v)",
			br, serr == nil, qerr == nil)
	}

	// Control: a direct upload to the source is synced.
	const direct = "c19 bug2: uploaded to /bs/ directly"
	directRef := blob.RefFromString(direct)
	if _, err := blobserver.Receive(ctx, bs, directRef, strings.NewReader(direct)); err != nil {
		t.Fatal(err)
	}
	waitAtBackup(directRef, direct)

	// An upload through the replica set lands on the source as well ...
	const viaReplica = "c19 bug2: uploaded through the replica set"
	viaRef := blob.RefFromString(viaReplica)
	if _, err := blobserver.Receive(ctx, rep, viaRef, strings.NewReader(viaReplica)); err != nil {
		t.Fatal(err)
	}
	if _, _, err := bs.Fetch(ctx, viaRef); err != nil {
		t.Fatalf("source did not get the blob from the replica set: %v", err)
	}
	// ... so it has to reach the source's sync destination.
	waitAtBackup(viaRef, viaReplica)
}
