package search_test

import (
	"testing"

	. "perkeep.org/pkg/search"
)

// A "parent" relation restricted to a specific (non membership) edge type
// must find the permanodes that are referenced through that edge.
func TestMutC08Bug1ParentRelationCustomEdge(t *testing.T) {
	testQueryTypes(t, memIndexTypes, func(qt *queryTest) {
		id := qt.id

		album := id.NewPlannedPermanode("album")
		other := id.NewPlannedPermanode("other_album")
		cover := id.NewPlannedPermanode("cover")
		member := id.NewPlannedPermanode("member")
		stray := id.NewPlannedPermanode("stray")

		id.SetAttribute(album, "tag", "holidays")
		id.SetAttribute(album, "coverImage", cover.String())
		id.AddAttribute(album, "camliMember", member.String())
		id.SetAttribute(other, "tag", "work")
		id.SetAttribute(other, "coverImage", stray.String())

		// Make the referenced permanodes actually exist.
		id.SetAttribute(cover, "title", "cover")
		id.SetAttribute(member, "title", "member")
		id.SetAttribute(stray, "title", "stray")

		// Sanity: the default edge types still work.
		qt.wantRes(&SearchQuery{
			Sort: BlobRefAsc,
			Constraint: &Constraint{
				Permanode: &PermanodeConstraint{
					Relation: &RelationConstraint{
						Relation: "parent",
						Any: &Constraint{
							Permanode: &PermanodeConstraint{Attr: "tag", Value: "holidays"},
						},
					},
				},
			},
		}, member)

		// All the permanodes which are the coverImage of something tagged "holidays".
		for _, sortType := range []SortType{UnspecifiedSort, BlobRefAsc, CreatedDesc, LastModifiedDesc} {
			qt.wantRes(&SearchQuery{
				Sort: sortType,
				Constraint: &Constraint{
					Permanode: &PermanodeConstraint{
						Relation: &RelationConstraint{
							Relation: "parent",
							EdgeType: "coverImage",
							Any: &Constraint{
								Permanode: &PermanodeConstraint{Attr: "tag", Value: "holidays"},
							},
						},
					},
				},
			}, cover)
		}
	})
}
