package blobpacked

import (
	"bytes"
	"context"
	"fmt"
	"io"
	"math/rand"
	"testing"

	"perkeep.org/pkg/blob"
	"perkeep.org/pkg/schema"
	"perkeep.org/pkg/sorted"
	"perkeep.org/pkg/test"
)

// A file packed into several zips is read through OpenWholeRef from
// various offsets: inside the first zip, exactly at a zip boundary,
// inside a middle zip and inside the last zip. Each read must return
// exactly contents[offset:] and end cleanly.
func TestMut2OpenWholeRefAtOffsetsAcrossZips(t *testing.T) {
	ctx := context.Background()
	const fileSize = 1<<20 + 12345
	contents := make([]byte, fileSize)
	rand.New(rand.NewSource(777)).Read(contents)
	wholeRef := blob.RefFromBytes(contents)

	small, large := new(test.Fetcher), new(test.Fetcher)
	sto := &storage{
		small:               small,
		large:               large,
		meta:                sorted.NewMemoryKeyValue(),
		log:                 test.NewLogger(t, "blobpacked: "),
		forceMaxZipBlobSize: 400 << 10,
	}
	sto.init()
	if _, err := schema.WriteFileFromReader(ctx, sto, "multi.dat", bytes.NewReader(contents)); err != nil {
		t.Fatal(err)
	}
	nzips := large.NumBlobs()
	if nzips < 3 {
		t.Fatalf("file packed into %d zips; want at least 3", nzips)
	}
	if small.NumBlobs() != 0 {
		t.Fatalf("%d loose blobs left after the pack; want 0", small.NumBlobs())
	}

	// The length of the data of each zip, from the w:<wholeref>:<n> rows.
	var partLen []int64
	for i := 0; i < nzips; i++ {
		v, err := sto.meta.Get(fmt.Sprintf("%s%s:%d", wholeMetaPrefix, wholeRef, i))
		if err != nil {
			t.Fatalf("whole row %d: %v", i, err)
		}
		var zipRef string
		var zipOff, wholeOff, n int64
		if _, err := fmt.Sscanf(v, "%s %d %d %d", &zipRef, &zipOff, &wholeOff, &n); err != nil {
			t.Fatalf("whole row %d = %q: %v", i, v, err)
		}
		partLen = append(partLen, n)
	}
	t.Logf("%d zips, data lengths %v", nzips, partLen)

	type tc struct {
		name   string
		offset int64
	}
	tests := []tc{
		{"start", 0},
		{"inside first zip", partLen[0] / 2},
		{"last byte of first zip", partLen[0] - 1},
		{"inside second zip", partLen[0] + partLen[1]/3},
		{"inside last zip", fileSize - partLen[nzips-1]/2},
		{"last byte", fileSize - 1},
	}
	for _, tt := range tests {
		rc, size, err := sto.OpenWholeRef(wholeRef, tt.offset)
		if err != nil {
			t.Errorf("%s (offset %d): OpenWholeRef = %v", tt.name, tt.offset, err)
			continue
		}
		if size != fileSize {
			t.Errorf("%s (offset %d): whole size = %d; want %d", tt.name, tt.offset, size, fileSize)
		}
		got, err := io.ReadAll(rc)
		rc.Close()
		if err != nil {
			t.Errorf("%s (offset %d): read error after %d bytes: %v", tt.name, tt.offset, len(got), err)
		}
		if !bytes.Equal(got, contents[tt.offset:]) {
			t.Errorf("%s (offset %d): read %d bytes, want the %d bytes from the offset on; contents equal = false",
				tt.name, tt.offset, len(got), fileSize-tt.offset)
		}
	}
}
