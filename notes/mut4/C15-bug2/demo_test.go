package schema_test

import (
	"context"
	"fmt"
	"io"
	"testing"

	"perkeep.org/pkg/schema"
	"perkeep.org/pkg/test"
)

// TestMutC15NestedSubRange reads every (offset, length) range of a file whose
// first part is a SUB-RANGE of a nested "bytes" blob: it skips the first 2
// bytes of the bytes tree and stops 4 bytes before its end.
func TestMutC15NestedSubRange(t *testing.T) {
	ctx := context.Background()
	sto := new(test.Fetcher)
	add := func(contents string) *test.Blob {
		b := &test.Blob{Contents: contents}
		sto.AddBlob(b)
		return b
	}
	alpha := add("abcdefghijklmnopqrstuvwxyz")
	digits := add("0123456789")
	inner := add(fmt.Sprintf(`{"camliVersion": 1, "camliType": "bytes", "parts": [{"blobRef": %q, "size": 13, "offset": 0}, {"blobRef": %q, "size": 13, "offset": 13}]}`,
		alpha.BlobRef(), alpha.BlobRef()))
	file := add(fmt.Sprintf(`{"camliVersion": 1, "camliType": "file", "fileName": "f", "parts": [{"bytesRef": %q, "size": 20, "offset": 2}, {"blobRef": %q, "size": 10}]}`,
		inner.BlobRef(), digits.BlobRef()))
	want := "cdefghijklmnopqrstuv" + "0123456789"

	fr, err := schema.NewFileReader(ctx, sto, file.BlobRef())
	if err != nil {
		t.Fatal(err)
	}
	defer fr.Close()
	if fr.Size() != int64(len(want)) {
		t.Fatalf("size = %d; want %d", fr.Size(), len(want))
	}
	bad := 0
	for off := 0; off < len(want); off++ {
		for n := 1; off+n <= len(want); n++ {
			buf := make([]byte, n)
			got, err := fr.ReadAt(buf, int64(off))
			if err != nil || got != n || string(buf) != want[off:off+n] {
				bad++
				if bad <= 5 {
					t.Errorf("ReadAt(off=%d, len=%d) = %q (n=%d, err=%v); want %q", off, n, buf[:got], got, err, want[off:off+n])
				}
			}
		}
		// and the same through Seek + Read to the end
		if _, err := fr.Seek(int64(off), io.SeekStart); err != nil {
			t.Fatal(err)
		}
		rest, err := io.ReadAll(fr)
		if err != nil || string(rest) != want[off:] {
			bad++
			if bad <= 5 {
				t.Errorf("Seek(%d)+ReadAll = %q, %v; want %q", off, rest, err, want[off:])
			}
		}
	}
	if bad > 0 {
		t.Errorf("%d wrong reads in total", bad)
	}
}
