package handlers_test

// Demonstration for MUT/bug2: the batch stat protocol documents a limit of
// 1000 blobs per request; every batch size up to and including that limit
// must be answered, and must report exactly the blobs that were uploaded.

import (
	"bytes"
	"encoding/json"
	"fmt"
	"net/http"
	"net/http/httptest"
	"net/url"
	"strings"
	"testing"

	"perkeep.org/pkg/blob"
	"perkeep.org/pkg/blobserver/handlers"
	"perkeep.org/pkg/blobserver/memory"
)

func TestMutStatBatchSizes(t *testing.T) {
	sto := new(memory.Storage)
	ts := httptest.NewServer(http.HandlerFunc(func(rw http.ResponseWriter, req *http.Request) {
		action := strings.TrimPrefix(req.URL.Path, "/camli/")
		switch {
		case req.Method == "PUT":
			handlers.CreatePutUploadHandler(sto).ServeHTTP(rw, req)
		case action == "stat":
			handlers.CreateStatHandler(sto).ServeHTTP(rw, req)
		default:
			handlers.CreateGetHandler(sto).ServeHTTP(rw, req)
		}
	}))
	defer ts.Close()

	// Upload 1001 blobs with PUT; remember their sizes. Also prepare some
	// refs that are never uploaded.
	const nBlobs = 1001
	var refs []blob.Ref
	size := map[blob.Ref]uint32{}
	for i := 0; i < nBlobs; i++ {
		data := fmt.Sprintf("stat batch blob number %d", i)
		br := blob.RefFromString(data)
		req, _ := http.NewRequest("PUT", ts.URL+"/camli/"+br.String(), bytes.NewReader([]byte(data)))
		res, err := http.DefaultClient.Do(req)
		if err != nil {
			t.Fatal(err)
		}
		res.Body.Close()
		if res.StatusCode != http.StatusNoContent {
			t.Fatalf("PUT %v: status %d", br, res.StatusCode)
		}
		refs = append(refs, br)
		size[br] = uint32(len(data))
	}
	var absent []blob.Ref
	for i := 0; i < nBlobs; i++ {
		absent = append(absent, blob.RefFromString(fmt.Sprintf("never uploaded %d", i)))
	}

	stat := func(method string, batch []blob.Ref) (int, []blob.SizedRef) {
		form := url.Values{"camliversion": {"1"}}
		for i, br := range batch {
			form.Set(fmt.Sprintf("blob%d", i+1), br.String())
		}
		var res *http.Response
		var err error
		if method == "POST" {
			res, err = http.PostForm(ts.URL+"/camli/stat", form)
		} else {
			res, err = http.Get(ts.URL + "/camli/stat?" + form.Encode())
		}
		if err != nil {
			t.Fatal(err)
		}
		defer res.Body.Close()
		if res.StatusCode != 200 {
			return res.StatusCode, nil
		}
		var sr struct {
			Stat []blob.SizedRef `json:"stat"`
		}
		if err := json.NewDecoder(res.Body).Decode(&sr); err != nil {
			t.Fatalf("stat of %d blobs: bad JSON: %v", len(batch), err)
		}
		return 200, sr.Stat
	}

	for _, n := range []int{0, 1, 2, 500, 998, 999, 1000} {
		// A batch of n blobs, every third one absent from the server.
		var batch []blob.Ref
		wantPresent := map[blob.Ref]bool{}
		for i := 0; i < n; i++ {
			if i%3 == 2 {
				batch = append(batch, absent[i])
			} else {
				batch = append(batch, refs[i])
				wantPresent[refs[i]] = true
			}
		}
		for _, method := range []string{"POST", "GET"} {
			if method == "GET" && n > 100 {
				continue // keep the query string reasonable
			}
			code, got := stat(method, batch)
			if code != 200 {
				t.Errorf("%s stat of a batch of %d blobs (limit is 1000): HTTP status %d; want 200", method, n, code)
				continue
			}
			seen := map[blob.Ref]bool{}
			for _, sb := range got {
				if seen[sb.Ref] {
					t.Errorf("stat of %d: %v reported twice", n, sb.Ref)
				}
				seen[sb.Ref] = true
				if !wantPresent[sb.Ref] {
					t.Errorf("stat of %d: %v reported but it wasn't uploaded/asked", n, sb.Ref)
				} else if sb.Size != size[sb.Ref] {
					t.Errorf("stat of %d: %v size = %d; want %d", n, sb.Ref, sb.Size, size[sb.Ref])
				}
			}
			if len(seen) != len(wantPresent) {
				t.Errorf("%s stat of %d: %d blobs reported; want %d", method, n, len(seen), len(wantPresent))
			}
		}
	}

	// Over the limit: must be refused, not silently truncated.
	if code, _ := stat("POST", refs[:1001]); code != http.StatusBadRequest {
		t.Errorf("stat of 1001 blobs: HTTP status %d; want 400", code)
	}
}
