package blob_test

import (
	"crypto/sha1"
	"crypto/sha256"
	"fmt"
	"sort"
	"testing"

	"perkeep.org/pkg/blob"
)

// TestMutC20Bug3LessMixedHashes checks that Ref.Less (and SizedRef.Less,
// ByRef) agrees with byte-wise ordering of the text forms for a set of
// refs that mixes all supported hash functions.
func TestMutC20Bug3LessMixedHashes(t *testing.T) {
	var refs []blob.Ref
	for i := 0; i < 12; i++ {
		data := []byte(fmt.Sprintf("content-%d", i))
		h1 := sha1.New()
		h1.Write(data)
		h224 := sha256.New224()
		h224.Write(data)
		h256 := sha256.New()
		h256.Write(data)
		refs = append(refs, blob.RefFromHash(h1), blob.RefFromHash(h224), blob.RefFromHash(h256))
	}
	// A few hand-made extremes.
	refs = append(refs,
		blob.MustParse("sha1-ffffffffffffffffffffffffffffffffffffffff"),
		blob.MustParse("sha224-00000000000000000000000000000000000000000000000000000000"),
		blob.MustParse("sha224-ffffffffffffffffffffffffffffffffffffffffffffffffffffffff"),
		blob.MustParse("sha256-0000000000000000000000000000000000000000000000000000000000000000"),
	)

	bad := 0
	for _, a := range refs {
		for _, b := range refs {
			want := a.String() < b.String()
			if got := a.Less(b); got != want {
				bad++
				if bad <= 10 {
					t.Errorf("%v.Less(%v) = %v; text order says %v", a, b, got, want)
				}
			}
			sa, sb := blob.SizedRef{Ref: a, Size: 1}, blob.SizedRef{Ref: b, Size: 2}
			if got := sa.Less(sb); got != want {
				bad++
				if bad <= 10 {
					t.Errorf("SizedRef %v.Less(%v) = %v; text order says %v", a, b, got, want)
				}
			}
		}
	}
	if bad > 0 {
		t.Errorf("%d pairs in total disagree with text order", bad)
	}

	// Sorting with ByRef must give the same sequence as sorting the text forms.
	sorted := append([]blob.Ref(nil), refs...)
	sort.Sort(blob.ByRef(sorted))
	var texts []string
	for _, r := range refs {
		texts = append(texts, r.String())
	}
	sort.Strings(texts)
	for i, r := range sorted {
		if r.String() != texts[i] {
			t.Errorf("sort.Sort(ByRef) position %d = %v; sorted text forms have %v", i, r, texts[i])
			break
		}
	}
}
