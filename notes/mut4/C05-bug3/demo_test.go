package index_test

import (
	"context"
	"errors"
	"fmt"
	"strings"
	"sync"
	"testing"

	"perkeep.org/pkg/index"
	"perkeep.org/pkg/sorted"
	"perkeep.org/pkg/test"
)

// mut4c05FlakyKV is a sorted.KeyValue whose Set of a "missing|" row fails
// while failing is set (a transient storage error: busy SQL server, full
// disk, ...).
type mut4c05FlakyKV struct {
	sorted.KeyValue

	mu      sync.Mutex
	failing bool
	failed  int
}

func (kv *mut4c05FlakyKV) setFailing(v bool) {
	kv.mu.Lock()
	defer kv.mu.Unlock()
	kv.failing = v
}

func (kv *mut4c05FlakyKV) Set(key, value string) error {
	if strings.HasPrefix(key, "missing|") {
		kv.mu.Lock()
		fail := kv.failing
		if fail {
			kv.failed++
		}
		kv.mu.Unlock()
		if fail {
			return errors.New("mut4c05: injected transient storage error")
		}
	}
	return kv.KeyValue.Set(key, value)
}

// A file arrives before its chunk while the index storage has a hiccup. The
// uploader (pk-put, the sync handler, ...) retries the uploads that failed,
// and only those. Once the chunk has arrived too, the index must be in the
// state that the set {file, chunk} produces in any other order: the file is
// indexed. It must not have been acknowledged and then forgotten.
func TestMut4C05Bug3DependencyNoteLost(t *testing.T) {
	ctx := context.Background()
	chunk := &test.Blob{Contents: "mut4-c05-bug3 the late chunk"}
	file := &test.Blob{Contents: fmt.Sprintf(`{"camliVersion": 1,
"camliType": "file",
"fileName": "late-chunk.txt",
"parts": [
  {"blobRef": "%s", "size": %d}
]}`, chunk.BlobRef(), len(chunk.Contents))}

	src := new(test.Fetcher)
	kv := &mut4c05FlakyKV{KeyValue: sorted.NewMemoryKeyValue()}
	ix, err := index.New(kv)
	if err != nil {
		t.Fatal(err)
	}
	ix.InitBlobSource(src)

	// The file arrives; its chunk isn't there yet, and recording that
	// fact fails during this first attempt.
	src.AddBlob(file)
	kv.setFailing(true)
	_, err = ix.ReceiveBlob(ctx, file.BlobRef(), file.Reader())
	kv.setFailing(false)
	if kv.failed == 0 {
		t.Fatal("no storage error was injected (test is broken)")
	}
	if err != nil {
		// The upload failed, so the uploader retries it.
		t.Logf("index.ReceiveBlob(file) failed, retrying: %v", err)
		if _, err = ix.ReceiveBlob(ctx, file.BlobRef(), file.Reader()); err != nil {
			t.Fatalf("index.ReceiveBlob(file), 2nd attempt: %v", err)
		}
	} else {
		t.Logf("index.ReceiveBlob(file) was acknowledged at the first attempt")
	}
	ix.Exp_AwaitAsyncIndexing(t)

	missingKey := fmt.Sprintf("missing|%s|%s", file.BlobRef(), chunk.BlobRef())
	if _, err := kv.Get(missingKey); err != nil {
		t.Errorf("the file upload was acknowledged, but the file is not remembered as pending: row %q: %v", missingKey, err)
	}

	// The chunk arrives.
	src.AddBlob(chunk)
	if _, err := ix.ReceiveBlob(ctx, chunk.BlobRef(), chunk.Reader()); err != nil {
		t.Fatalf("index.ReceiveBlob(chunk): %v", err)
	}
	ix.Exp_AwaitAsyncIndexing(t)

	if v, err := kv.Get("fileinfo|" + file.BlobRef().String()); err != nil {
		t.Errorf("file %v not indexed although the file and its chunk were both acknowledged: fileinfo row: %v", file.BlobRef(), err)
	} else {
		t.Logf("fileinfo = %q", v)
	}
	if _, err := kv.Get(missingKey); err == nil {
		t.Errorf("row %q still there at the end", missingKey)
	}
}
