package search_test

import (
	"fmt"
	"testing"

	"perkeep.org/pkg/blob"
	. "perkeep.org/pkg/search"
)

// An "around" query must return a window of at most Limit results that is a
// contiguous part of the full ordered result list and contains the pivot, for
// every limit (also the smallest ones) and every pivot.
func TestMutC09Bug3AroundSmallLimits(t *testing.T) {
	testQueryTypes(t, memIndexTypes, func(qt *queryTest) {
		id := qt.id
		for i := 0; i < 9; i++ {
			pn := id.NewPlannedPermanode(fmt.Sprintf("pn-%d", i))
			id.SetAttribute(pn, "title", fmt.Sprintf("permanode %d", i))
		}
		h := qt.Handler()

		for _, sortType := range []SortType{CreatedDesc, LastModifiedDesc} {
			query := func(limit int, around blob.Ref) []blob.Ref {
				res, err := h.Query(ctxbg, &SearchQuery{
					Constraint: &Constraint{Permanode: &PermanodeConstraint{Attr: "title", ValueMatches: &StringConstraint{HasPrefix: "permanode"}}},
					Sort:       sortType,
					Limit:      limit,
					Around:     around,
				})
				if err != nil {
					t.Fatalf("sort %v, limit %d, around %v: %v", sortType, limit, around, err)
				}
				var got []blob.Ref
				for _, b := range res.Blobs {
					got = append(got, b.Blob)
				}
				return got
			}

			full := query(1000, blob.Ref{})
			if len(full) != 9 {
				t.Fatalf("sort %v: full list has %d results, want 9", sortType, len(full))
			}
			for limit := 1; limit <= 10; limit++ {
				for pos, pivot := range full {
					got := query(limit, pivot)
					if len(got) == 0 || len(got) > limit {
						t.Errorf("sort %v, limit %d, pivot at %d: got %d results", sortType, limit, pos, len(got))
						continue
					}
					// Find the window in the full list.
					start := -1
					for i, br := range full {
						if br == got[0] {
							start = i
							break
						}
					}
					if start < 0 || start+len(got) > len(full) {
						t.Errorf("sort %v, limit %d, pivot at %d: results are not a window of the full list", sortType, limit, pos)
						continue
					}
					for i, br := range got {
						if full[start+i] != br {
							t.Errorf("sort %v, limit %d, pivot at %d: results are not a contiguous window of the full list", sortType, limit, pos)
							break
						}
					}
					if pos < start || pos >= start+len(got) {
						t.Errorf("sort %v, limit %d, pivot at %d: the window [%d,%d) does not contain the pivot", sortType, limit, pos, start, start+len(got))
					}
				}
			}
		}
	})
}
