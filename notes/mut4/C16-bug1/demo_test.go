package jsonsign_test

import (
	"bytes"
	"encoding/hex"
	"fmt"
	"io"
	"strings"
	"testing"

	"golang.org/x/crypto/openpgp/armor"
	. "perkeep.org/pkg/jsonsign"
)

// c16SplitSig splits a signed document into everything up to and including
// the opening quote of the camliSig value, the camliSig value, and the rest.
func c16SplitSig(t *testing.T, signed string) (head, sig, tail string) {
	const sep = `,"camliSig":"`
	i := strings.LastIndex(signed, sep)
	if i < 0 {
		t.Fatalf("no camliSig in %q", signed)
	}
	head = signed[:i+len(sep)]
	rest := signed[i+len(sep):]
	j := strings.Index(rest, `"`)
	return head, rest[:j], rest[j:]
}

// c16SigBytes decodes a single-line camliSig into the raw OpenPGP packet bytes.
func c16SigBytes(t *testing.T, camliSig string) []byte {
	lastEq := strings.LastIndex(camliSig, "=")
	var buf bytes.Buffer
	buf.WriteString("-----BEGIN PGP SIGNATURE-----\n\n")
	payload := camliSig[:lastEq]
	for len(payload) > 0 {
		n := min(len(payload), 60)
		buf.WriteString(payload[:n] + "\n")
		payload = payload[n:]
	}
	buf.WriteString(camliSig[lastEq:] + "\n-----END PGP SIGNATURE-----\n")
	block, err := armor.Decode(&buf)
	if err != nil {
		t.Fatalf("armor.Decode: %v", err)
	}
	raw, err := io.ReadAll(block.Body)
	if err != nil {
		t.Fatalf("reading armor body: %v", err)
	}
	return raw
}

// c16CamliSig encodes raw packet bytes the way SignRequest.Sign does
// (armor, with a correct CRC, flattened onto one line).
func c16CamliSig(t *testing.T, raw []byte) string {
	var buf bytes.Buffer
	w, err := armor.Encode(&buf, "PGP SIGNATURE", nil)
	if err != nil {
		t.Fatal(err)
	}
	w.Write(raw)
	w.Close()
	out := buf.String()
	i1 := strings.Index(out, "\n\n")
	i2 := strings.Index(out, "\n-----")
	return strings.Replace(out[i1+2:i2], "\n", "", -1)
}

// c16AddUnhashedIssuer returns a copy of the (new-format, two-octet length)
// v4 signature packet raw with an issuer subpacket for keyID appended to
// its unhashed subpacket area.
func c16AddUnhashedIssuer(t *testing.T, raw, keyID []byte) []byte {
	if len(raw) < 3 || raw[0] != 0xC2 || raw[1] < 192 || raw[1] > 223 {
		t.Fatalf("unexpected signature packet header % x", raw[:3])
	}
	bodyLen := (int(raw[1])-192)<<8 + int(raw[2]) + 192
	body := raw[3:]
	if len(body) != bodyLen {
		t.Fatalf("packet body is %d bytes, header says %d", len(body), bodyLen)
	}
	if body[0] != 4 {
		t.Fatalf("not a v4 signature")
	}
	hashedLen := int(body[4])<<8 | int(body[5])
	unhashedOff := 6 + hashedLen // offset of the 2-byte unhashed area length
	unhashedLen := int(body[unhashedOff])<<8 | int(body[unhashedOff+1])
	sub := append([]byte{9, 16}, keyID...) // length (type+data), type 16 = issuer
	var nb []byte
	nb = append(nb, body[:unhashedOff]...)
	nb = append(nb, byte((unhashedLen+len(sub))>>8), byte(unhashedLen+len(sub)))
	nb = append(nb, body[unhashedOff+2:unhashedOff+2+unhashedLen]...)
	nb = append(nb, sub...)
	nb = append(nb, body[unhashedOff+2+unhashedLen:]...)
	n := len(nb) - 192
	return append([]byte{0xC2, byte(n>>8) + 192, byte(n)}, nb...)
}

// A document that names key 1 as its camliSigner and carries a valid
// signature by key 1 must be reported as signed by key 1, whatever the
// unsigned, freely editable part of the signature packet claims.
func TestC16SignerKeyIdNotForgeable(t *testing.T) {
	fp1, _, err := ParseArmoredPublicKey(strings.NewReader(pubKey1))
	if err != nil {
		t.Fatal(err)
	}
	fp2, _, err := ParseArmoredPublicKey(strings.NewReader(pubKey2))
	if err != nil {
		t.Fatal(err)
	}
	keyID1, keyID2 := fp1[len(fp1)-16:], fp2[len(fp2)-16:]
	id1, _ := hex.DecodeString(keyID1)
	id2, _ := hex.DecodeString(keyID2)

	sr := newRequest(1)
	sr.UnsignedJSON = fmt.Sprintf(`{"camliVersion": 1, "camliType": "claim", "claimType": "set-attribute", "attribute": "title", "value": "mine", "camliSigner": %q}`,
		pubKeyBlob1.BlobRef().String())
	signed, err := sr.Sign(ctxbg)
	if err != nil {
		t.Fatalf("Sign: %v", err)
	}
	vr := NewVerificationRequest(signed, testFetcher)
	if _, err := vr.Verify(ctxbg); err != nil {
		t.Fatalf("pristine document does not verify: %v", err)
	}
	if vr.SignerKeyId != keyID1 {
		t.Fatalf("pristine document: SignerKeyId = %q; want %q", vr.SignerKeyId, keyID1)
	}

	// Add an issuer subpacket naming key 2 to the *unhashed* area of the
	// signature packet. That area is not covered by the signature, so
	// anybody can edit it; it is parsed after the hashed area.
	head, sig, tail := c16SplitSig(t, signed)
	raw := c16AddUnhashedIssuer(t, c16SigBytes(t, sig), id2)
	if !bytes.Contains(raw, id1) {
		t.Fatalf("expected original (hashed) issuer subpacket to be retained")
	}
	forged := head + c16CamliSig(t, raw) + tail
	if forged == signed {
		t.Fatal("forgery is identical to original")
	}

	vr = NewVerificationRequest(forged, testFetcher)
	if _, err := vr.Verify(ctxbg); err != nil {
		// Rejecting the altered packet outright is fine too.
		t.Logf("altered signature packet rejected: %v", err)
		return
	}
	if vr.SignerKeyId != keyID1 {
		t.Errorf("document naming and signed by key %s verified with SignerKeyId = %q (key %s never signed it)",
			keyID1, vr.SignerKeyId, keyID2)
	}
}
