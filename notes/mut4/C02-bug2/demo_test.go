package cond

import (
	"bytes"
	"errors"
	"testing"
	"time"

	"perkeep.org/pkg/blob"
	"perkeep.org/pkg/blobserver"
	"perkeep.org/pkg/blobserver/localdisk"
	"perkeep.org/pkg/test"
)

// A corrupt upload through blobserver.Receive into a "cond" storage with an
// "isSchema" write rule, whose targets are plain localdisk stores (which, unlike
// the in-memory test store, don't re-hash what they are given).
func TestMut4CondCorruptUpload(t *testing.T) {
	ld := test.NewLoader()
	newDisk := func() blobserver.Storage {
		ds, err := localdisk.New(t.TempDir())
		if err != nil {
			t.Fatal(err)
		}
		return ds
	}
	schemaSto, otherSto := newDisk(), newDisk()
	ld.SetStorage("/disk-schema/", schemaSto)
	ld.SetStorage("/disk-other/", otherSto)
	sto := newCond(t, ld, map[string]any{
		"write": map[string]any{
			"if":   "isSchema",
			"then": "/disk-schema/",
			"else": "/disk-other/",
		},
		"read": "/disk-other/",
	})

	// Sanity: valid blobs go where they belong.
	mustReceive(t, sto, &test.Blob{Contents: "stuff"})
	mustReceive(t, sto, &test.Blob{Contents: `{"camliVersion": 1, "camliType": "foo"}`})

	for _, tt := range []struct {
		name       string
		want, sent string
	}{
		{"bitflip", "some blob content, not a schema", "some blob cOntent, not a schema"},
		{"truncation", "some other content that gets cut short", "some other content that"},
		{"extension", "short", "short and then some"},
		{"schema-bitflip", `{"camliVersion": 1, "camliType": "bar"}`, `{"camliVersion": 1, "camliType": "baz"}`},
	} {
		t.Run(tt.name, func(t *testing.T) {
			br := blob.RefFromString(tt.want)

			notified := make(chan blob.Ref, 4)
			for _, s := range []any{sto, schemaSto, otherSto} {
				hub := blobserver.GetHub(s)
				hub.RegisterBlobListener(br, notified)
				defer hub.UnregisterBlobListener(br, notified)
			}

			sb, err := blobserver.Receive(ctxbg, sto, br, bytes.NewReader([]byte(tt.sent)))
			if !errors.Is(err, blobserver.ErrCorruptBlob) {
				t.Errorf("Receive(%v, %q) = %v, %v; want ErrCorruptBlob", br, tt.sent, sb, err)
			}
			for name, s := range map[string]blobserver.Storage{"cond": sto, "then": schemaSto, "else": otherSto} {
				if got, err := blobserver.StatBlob(ctxbg, s, br); err == nil {
					t.Errorf("%s storage: rejected %v is stat-able: %v", name, br, got)
				}
				if rc, _, err := s.Fetch(ctxbg, br); err == nil {
					rc.Close()
					t.Errorf("%s storage: rejected %v is fetchable", name, br)
				}
				if err := blobserver.EnumerateAll(ctxbg, s, func(sb blob.SizedRef) error {
					if sb.Ref == br {
						t.Errorf("%s storage: rejected %v is enumerated", name, br)
					}
					return nil
				}); err != nil {
					t.Errorf("%s storage: enumerate: %v", name, err)
				}
			}
			select {
			case got := <-notified:
				t.Errorf("a blob hub announced the rejected blob %v", got)
			case <-time.After(100 * time.Millisecond):
			}
		})
	}
}
