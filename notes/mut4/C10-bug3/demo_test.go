package leveldb_test

import (
	"path/filepath"
	"reflect"
	"testing"

	"perkeep.org/pkg/sorted"
	"perkeep.org/pkg/sorted/leveldb"
)

func mut4c10bug3Scan(t *testing.T, kv sorted.KeyValue, start, end string) []string {
	t.Helper()
	got := []string{}
	it := kv.Find(start, end)
	for it.Next() {
		got = append(got, it.Key()+"="+it.Value())
	}
	if err := it.Close(); err != nil {
		t.Fatal(err)
	}
	return got
}

// A range scan with an empty (open) start and a non-empty end must stop
// before end.
func TestMut4C10Bug3OpenStartBoundedEnd(t *testing.T) {
	kv, err := leveldb.NewStorage(filepath.Join(t.TempDir(), "db.leveldb"))
	if err != nil {
		t.Fatal(err)
	}
	defer kv.Close()
	for _, k := range []string{"claim|1", "meta:x", "signerkeyid:y", "\xffhigh"} {
		if err := kv.Set(k, "v"); err != nil {
			t.Fatal(err)
		}
	}
	// Sanity: the usual shapes of scans.
	if got, want := mut4c10bug3Scan(t, kv, "", ""), []string{"claim|1=v", "meta:x=v", "signerkeyid:y=v", "\xffhigh=v"}; !reflect.DeepEqual(got, want) {
		t.Fatalf("Find(\"\",\"\") = %q; want %q", got, want)
	}
	if got, want := mut4c10bug3Scan(t, kv, "meta:", "meta;"), []string{"meta:x=v"}; !reflect.DeepEqual(got, want) {
		t.Fatalf("Find(meta:,meta;) = %q; want %q", got, want)
	}
	// Everything strictly before "meta:".
	if got, want := mut4c10bug3Scan(t, kv, "", "meta:"), []string{"claim|1=v"}; !reflect.DeepEqual(got, want) {
		t.Errorf("Find(\"\",meta:) = %q; want %q", got, want)
	}
	// Everything before the first key: nothing.
	if got, want := mut4c10bug3Scan(t, kv, "", "a"), []string{}; !reflect.DeepEqual(got, want) {
		t.Errorf("Find(\"\",a) = %q; want %q", got, want)
	}
	// The same through a read transaction (snapshot).
	tx := kv.(sorted.TransactionalReader).BeginReadTx()
	defer tx.Close()
	got := []string{}
	it := tx.Find("", "signerkeyid:")
	for it.Next() {
		got = append(got, it.Key()+"="+it.Value())
	}
	if err := it.Close(); err != nil {
		t.Fatal(err)
	}
	if want := []string{"claim|1=v", "meta:x=v"}; !reflect.DeepEqual(got, want) {
		t.Errorf("tx.Find(\"\",signerkeyid:) = %q; want %q", got, want)
	}
}
