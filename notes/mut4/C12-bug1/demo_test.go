package replica_test

import (
	"context"
	"strings"
	"testing"

	"go4.org/jsonconfig"
	"perkeep.org/pkg/blob"
	"perkeep.org/pkg/blobserver"
	_ "perkeep.org/pkg/blobserver/replica"
	"perkeep.org/pkg/test"
)

// TestMutDefaultQuorumWithReadBackends: three write backends, one of which
// always fails, a distinct (smaller) set of read backends, and no explicit
// minWritesForSuccess. The documented default is "all" write backends, so
// the receive must be refused, as only two of the three replicas stored it.
func TestMutDefaultQuorumWithReadBackends(t *testing.T) {
	ctx := context.Background()
	ld := test.NewLoader()
	sto, err := blobserver.CreateStorage("replica", ld, jsonconfig.Obj{
		"backends":     []any{"/good-1/", "/good-2/", "/fail-3/"},
		"readBackends": []any{"/good-1/", "/good-2/"},
	})
	if err != nil {
		t.Fatalf("CreateStorage: %v", err)
	}
	const contents = "quorum is all write replicas by default"
	br := blob.RefFromString(contents)
	sb, err := sto.ReceiveBlob(ctx, br, strings.NewReader(contents))
	if err == nil {
		t.Fatalf("ReceiveBlob acknowledged %v although only 2 of the 3 write replicas stored it and minWritesForSuccess defaults to all", sb)
	}
	t.Logf("ReceiveBlob correctly failed: %v", err)

	// Control: with every write backend healthy the same shape of config
	// acknowledges, and the blob is on all three write replicas.
	ld2 := test.NewLoader()
	sto2, err := blobserver.CreateStorage("replica", ld2, jsonconfig.Obj{
		"backends":     []any{"/good-1/", "/good-2/", "/good-3/"},
		"readBackends": []any{"/good-1/"},
	})
	if err != nil {
		t.Fatalf("CreateStorage: %v", err)
	}
	if _, err := sto2.ReceiveBlob(ctx, br, strings.NewReader(contents)); err != nil {
		t.Fatalf("ReceiveBlob with all replicas healthy: %v", err)
	}
}
