package proxycache

import (
	"context"
	"errors"
	"io"
	"os"
	"testing"
	"time"

	"perkeep.org/pkg/blob"
	"perkeep.org/pkg/blobserver"
	"perkeep.org/pkg/blobserver/memory"
	"perkeep.org/pkg/test"
)

// mut14SlowCache is a cache store whose writes can be slow: a ReceiveBlob
// reports that it started, and then waits until it is released (or until
// maxDelay has elapsed) before it does the write.
type mut14SlowCache struct {
	blobserver.Storage
	started  chan blob.Ref
	release  chan struct{}
	done     chan blob.Ref
	maxDelay time.Duration
}

func (c *mut14SlowCache) ReceiveBlob(ctx context.Context, br blob.Ref, src io.Reader) (blob.SizedRef, error) {
	select {
	case c.started <- br:
	default:
	}
	select {
	case <-c.release:
	case <-time.After(c.maxDelay):
	}
	sb, err := c.Storage.ReceiveBlob(ctx, br, src)
	select {
	case c.done <- br:
	default:
	}
	return sb, err
}

// TestMut14FetchThenRemoveThenFetch: three calls, one after the other (none
// of them overlap), on a proxycache whose cache store is slow to write:
//
//	Fetch(b)        -> the blob (from the origin; it is not cached yet)
//	RemoveBlobs(b)  -> ok
//	Fetch(b), Stat  -> must say that b doesn't exist
func TestMut14FetchThenRemoveThenFetch(t *testing.T) {
	ctx := context.Background()
	origin := &memory.Storage{}
	cache := &mut14SlowCache{
		Storage:  &memory.Storage{},
		started:  make(chan blob.Ref, 8),
		release:  make(chan struct{}),
		done:     make(chan blob.Ref, 8),
		maxDelay: 300 * time.Millisecond,
	}
	px := New(1<<20, cache, origin)

	// The blob is on the origin only (as after an eviction from the cache,
	// or when it was written by another server sharing the origin).
	tb := &test.Blob{Contents: "some blob that is not in the cache"}
	if _, err := origin.ReceiveBlob(ctx, tb.BlobRef(), tb.Reader()); err != nil {
		t.Fatal(err)
	}

	// 1. Fetch.
	rc, _, err := px.Fetch(ctx, tb.BlobRef())
	if err != nil {
		t.Fatalf("first Fetch: %v", err)
	}
	got, _ := io.ReadAll(rc)
	rc.Close()
	if string(got) != tb.Contents {
		t.Fatalf("first Fetch = %q; want %q", got, tb.Contents)
	}

	// 2. Remove, after the Fetch has returned.
	if err := px.RemoveBlobs(ctx, []blob.Ref{tb.BlobRef()}); err != nil {
		t.Fatalf("RemoveBlobs: %v", err)
	}

	// Whatever cache write is still in flight may proceed now; wait for it.
	close(cache.release)
	select {
	case <-cache.started:
		select {
		case <-cache.done:
		case <-time.After(5 * time.Second):
			t.Fatal("cache write never finished")
		}
	case <-time.After(500 * time.Millisecond):
		// No cache write was ever started: nothing to wait for.
	}
	time.Sleep(20 * time.Millisecond) // let the writer of the cache get past its bookkeeping

	// 3. Fetch and stat again: the blob was removed.
	if rc, _, err := px.Fetch(ctx, tb.BlobRef()); err == nil {
		got, _ := io.ReadAll(rc)
		rc.Close()
		t.Errorf("Fetch after a completed RemoveBlobs returned the blob again (%q); want os.ErrNotExist", got)
	} else if !errors.Is(err, os.ErrNotExist) {
		t.Errorf("Fetch after RemoveBlobs = %v; want os.ErrNotExist", err)
	}
	if sb, err := blobserver.StatBlob(ctx, px, tb.BlobRef()); err == nil {
		t.Errorf("StatBlob after a completed RemoveBlobs = %v; want os.ErrNotExist", sb)
	}
	// ... and enumeration agrees that it is gone.
	n := 0
	if err := blobserver.EnumerateAll(ctx, px, func(sb blob.SizedRef) error {
		n++
		return nil
	}); err != nil {
		t.Fatal(err)
	}
	if n != 0 {
		t.Errorf("enumerated %d blobs; want 0", n)
	}
}
