package index_test

import (
	"context"
	"fmt"
	"sort"
	"strings"
	"testing"

	"perkeep.org/pkg/blob"
	"perkeep.org/pkg/index"
	"perkeep.org/pkg/index/indextest"
	"perkeep.org/pkg/schema"
	"perkeep.org/pkg/sorted"
	"perkeep.org/pkg/types/camtypes"
)

// mut4c06b1Snapshot returns what the index (and its corpus) answer about
// permanode pn.
func mut4c06b1Snapshot(t *testing.T, ix *index.Index, c *index.Corpus, pn blob.Ref) (snap string, claims []blob.Ref) {
	t.Helper()
	ctx := context.Background()
	ix.RLock()
	defer ix.RUnlock()
	var sb strings.Builder
	cls, err := ix.AppendClaims(ctx, nil, pn, "", "")
	if err != nil {
		t.Fatalf("AppendClaims: %v", err)
	}
	sort.Sort(camtypes.ClaimsByDate(cls))
	for _, cl := range cls {
		fmt.Fprintf(&sb, "claim %v type=%s date=%v\n", cl.BlobRef, cl.Type, cl.Date.UTC())
		claims = append(claims, cl.BlobRef)
	}
	fmt.Fprintf(&sb, "corpus.IsDeleted(pn)=%v\n", c.IsDeleted(pn))
	return sb.String(), claims
}

func mut4c06b1Fresh(t *testing.T, kv sorted.KeyValue) (*index.Index, *index.Corpus) {
	t.Helper()
	ix, err := index.New(kv)
	if err != nil {
		t.Fatal(err)
	}
	c, err := ix.KeepInMemory()
	if err != nil {
		t.Fatal(err)
	}
	return ix, c
}

// Two delete claims of the same permanode are both received before the
// permanode itself. When the permanode arrives, both claims are indexed again
// (asynchronously). The live corpus must then know both deletions, exactly as
// a corpus loaded from the same rows does.
func TestMut4C06B1_TwoEarlyDeletesOfSameTarget(t *testing.T) {
	index.SetVerboseCorpusLogging(false)
	kv := sorted.NewMemoryKeyValue()
	ix, corpus := mut4c06b1Fresh(t, kv)
	id := indextest.NewIndexDeps(ix)
	id.Fataler = t

	pnBlob := id.Sign(schema.NewPlannedPermanode("mut4c06b1"))
	pn := pnBlob.BlobRef()

	// Both received (and parked: their target is unknown) before pn.
	d1 := id.Delete(pn)
	d2 := id.Delete(pn)
	ix.Exp_AwaitAsyncIndexing(t)

	id.Upload(pnBlob)
	ix.Exp_AwaitAsyncIndexing(t)

	live, liveClaims := mut4c06b1Snapshot(t, ix, corpus, pn)
	ix2, corpus2 := mut4c06b1Fresh(t, kv) // "restart"
	fresh, _ := mut4c06b1Snapshot(t, ix2, corpus2, pn)
	if live != fresh {
		t.Errorf("after both deletes were re-indexed, live index/corpus differs from a freshly loaded one:\n--- live:\n%s--- fresh:\n%s", live, fresh)
	}

	// Consequence: undo (delete) the one deletion that the live corpus knows
	// for sure. The permanode is still deleted by the other one.
	if len(liveClaims) == 0 {
		t.Fatalf("live corpus knows no claim at all for %v (d1=%v d2=%v)", pn, d1, d2)
	}
	id.Delete(liveClaims[0])
	ix.Exp_AwaitAsyncIndexing(t)

	live, _ = mut4c06b1Snapshot(t, ix, corpus, pn)
	ix3, corpus3 := mut4c06b1Fresh(t, kv)
	fresh, _ = mut4c06b1Snapshot(t, ix3, corpus3, pn)
	if live != fresh {
		t.Errorf("after undoing one of the two deletions, live index/corpus differs from a freshly loaded one:\n--- live:\n%s--- fresh:\n%s", live, fresh)
	}
	if !corpus3.IsDeleted(pn) {
		t.Errorf("fresh corpus: permanode should still be deleted by the other delete claim")
	}
}
