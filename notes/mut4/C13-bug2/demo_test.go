package overlay

import (
	"errors"
	"fmt"
	"io"
	"sync"
	"testing"

	"perkeep.org/pkg/blob"
	"perkeep.org/pkg/blobserver"
	"perkeep.org/pkg/sorted"
	"perkeep.org/pkg/test"
)

// mutC13FaultKV fails the failAt-th call (1-based, counted from arm) made to
// the wrapped key/value store, and nothing else.
type mutC13FaultKV struct {
	sorted.KeyValue

	mu     sync.Mutex
	calls  int
	failAt int // 0: never
	hit    string
}

var errMutC13Injected = errors.New("injected transient index failure")

func (kv *mutC13FaultKV) arm(k int) {
	kv.mu.Lock()
	defer kv.mu.Unlock()
	kv.calls, kv.failAt, kv.hit = 0, k, ""
}

func (kv *mutC13FaultKV) fail(op string) bool {
	kv.mu.Lock()
	defer kv.mu.Unlock()
	if kv.failAt == 0 {
		return false
	}
	kv.calls++
	if kv.calls == kv.failAt {
		kv.hit = op
		return true
	}
	return false
}

func (kv *mutC13FaultKV) Get(key string) (string, error) {
	if kv.fail("Get") {
		return "", errMutC13Injected
	}
	return kv.KeyValue.Get(key)
}

func (kv *mutC13FaultKV) Set(key, value string) error {
	if kv.fail("Set") {
		return errMutC13Injected
	}
	return kv.KeyValue.Set(key, value)
}

func (kv *mutC13FaultKV) Delete(key string) error {
	if kv.fail("Delete") {
		return errMutC13Injected
	}
	return kv.KeyValue.Delete(key)
}

func (kv *mutC13FaultKV) CommitBatch(b sorted.BatchMutation) error {
	if kv.fail("CommitBatch") {
		return errMutC13Injected
	}
	return kv.KeyValue.CommitBatch(b)
}

func mutC13Visible(t *testing.T, sto blobserver.Storage, tb *test.Blob) error {
	rc, _, err := sto.Fetch(ctxbg, tb.BlobRef())
	if err != nil {
		return fmt.Errorf("Fetch: %v", err)
	}
	got, err := io.ReadAll(rc)
	rc.Close()
	if err != nil || string(got) != tb.Contents {
		return fmt.Errorf("Fetch content = %q, %v", got, err)
	}
	if _, err := blobserver.StatBlob(ctxbg, sto, tb.BlobRef()); err != nil {
		return fmt.Errorf("StatBlob: %v", err)
	}
	found := false
	if err := blobserver.EnumerateAll(ctxbg, sto, func(sb blob.SizedRef) error {
		if sb.Ref == tb.BlobRef() {
			found = true
		}
		return nil
	}); err != nil {
		return fmt.Errorf("EnumerateAll: %v", err)
	}
	if !found {
		return errors.New("not enumerated")
	}
	return nil
}

// TestMutC13ReceiveAfterRemoveWithIndexFault uploads a blob again that was
// removed from the overlay before, with a single failure injected at the
// k-th access of the "deleted" index, for every k. Whatever the outcome of
// the faulted upload, an acknowledged upload has to be served afterwards.
func TestMutC13ReceiveAfterRemoveWithIndexFault(t *testing.T) {
	for _, inLower := range []bool{false, true} {
		for k := 1; k <= 4; k++ {
			t.Run(fmt.Sprintf("inLower=%v/k=%d", inLower, k), func(t *testing.T) {
				stoI, lower := newOverlayWithLower(t, true)
				sto := stoI.(*overlayStorage)
				kv := &mutC13FaultKV{KeyValue: sto.deleted}
				sto.deleted = kv

				x := &test.Blob{Contents: "a blob that is removed and uploaded again"}
				if inLower {
					if _, err := lower.ReceiveBlob(ctxbg, x.BlobRef(), x.Reader()); err != nil {
						t.Fatal(err)
					}
				} else if _, err := blobserver.Receive(ctxbg, sto, x.BlobRef(), x.Reader()); err != nil {
					t.Fatal(err)
				}
				if err := sto.RemoveBlobs(ctxbg, []blob.Ref{x.BlobRef()}); err != nil {
					t.Fatal(err)
				}
				if _, _, err := sto.Fetch(ctxbg, x.BlobRef()); err == nil {
					t.Fatal("removed blob is still served")
				}

				// The upload with a transient index failure.
				kv.arm(k)
				_, err := blobserver.Receive(ctxbg, sto, x.BlobRef(), x.Reader())
				hit := kv.hit
				kv.arm(0)
				t.Logf("fault at index call %d (%q); faulted upload returned: %v", k, hit, err)

				if err != nil {
					// The affected call failed; fine. A retry has to work.
					if hit == "" {
						t.Fatalf("upload failed without a fault: %v", err)
					}
					if _, err := blobserver.Receive(ctxbg, sto, x.BlobRef(), x.Reader()); err != nil {
						t.Fatalf("retry after the fault: %v", err)
					}
				}
				// The upload (or its retry) was acknowledged.
				if err := mutC13Visible(t, sto, x); err != nil {
					t.Errorf("acknowledged blob is not served: %v", err)
				}
			})
		}
	}
}
