package blobpacked

import (
	"bytes"
	"context"
	"io"
	"math/rand"
	"testing"

	"perkeep.org/pkg/blob"
	"perkeep.org/pkg/blobserver"
	"perkeep.org/pkg/schema"
	"perkeep.org/pkg/sorted"
	"perkeep.org/pkg/test"
)

// A (legal) file whose second part only uses the first bytes of the
// blob it references: {blobRef: B, size: 250000} where B is 400000 bytes.
// Whatever blobpacked decides to do with such a file (pack it or leave
// it loose), every uploaded blob must still be fetched, range-fetched,
// stat-ed and enumerated with identical bytes and size, and the file
// must read back identically.
func TestMut3PartSmallerThanItsBlob(t *testing.T) {
	ctx := context.Background()
	rnd := rand.New(rand.NewSource(99))
	mk := func(n int) *test.Blob {
		b := make([]byte, n)
		rnd.Read(b)
		return &test.Blob{Contents: string(b)}
	}
	blobA, blobB, blobC := mk(300000), mk(400000), mk(300000)
	const usedOfB = 250000
	wantFile := blobA.Contents + blobB.Contents[:usedOfB] + blobC.Contents

	m := schema.NewFileMap("partial.dat")
	if err := m.PopulateParts(int64(len(wantFile)), []schema.BytesPart{
		{Size: uint64(blobA.Size()), BlobRef: blobA.BlobRef()},
		{Size: usedOfB, BlobRef: blobB.BlobRef()},
		{Size: uint64(blobC.Size()), BlobRef: blobC.BlobRef()},
	}); err != nil {
		t.Fatal(err)
	}
	fjson, err := m.JSON()
	if err != nil {
		t.Fatal(err)
	}
	fileBlob := &test.Blob{Contents: fjson}
	all := []*test.Blob{blobA, blobB, blobC, fileBlob}

	small, large := new(test.Fetcher), new(test.Fetcher)
	sto := &storage{
		small: small,
		large: large,
		meta:  sorted.NewMemoryKeyValue(),
		log:   test.NewLogger(t, "blobpacked: "),
	}
	sto.init()
	for _, b := range all {
		b.MustUpload(t, sto)
	}
	t.Logf("after upload: %d loose blobs, %d zips", small.NumBlobs(), large.NumBlobs())

	// Enumerate: each blob exactly once, with its size.
	seen := map[blob.Ref][]uint32{}
	if err := blobserver.EnumerateAll(ctx, sto, func(sb blob.SizedRef) error {
		seen[sb.Ref] = append(seen[sb.Ref], sb.Size)
		return nil
	}); err != nil {
		t.Fatal(err)
	}
	if len(seen) != len(all) {
		t.Errorf("enumerated %d distinct blobs; want %d", len(seen), len(all))
	}
	for _, b := range all {
		br := b.BlobRef()
		want := []byte(b.Contents)
		if sizes := seen[br]; len(sizes) != 1 || sizes[0] != uint32(len(want)) {
			t.Errorf("blob %v enumerated with sizes %v; want once with size %d", br, sizes, len(want))
		}
		// Stat.
		sb, err := blobserver.StatBlob(ctx, sto, br)
		if err != nil {
			t.Errorf("stat %v: %v", br, err)
		} else if sb.Size != uint32(len(want)) {
			t.Errorf("stat %v: size %d; want %d", br, sb.Size, len(want))
		}
		// Fetch.
		rc, size, err := sto.Fetch(ctx, br)
		if err != nil {
			t.Errorf("fetch %v: %v", br, err)
			continue
		}
		got, err := io.ReadAll(rc)
		rc.Close()
		if err != nil {
			t.Errorf("fetch %v: read: %v", br, err)
		}
		if size != uint32(len(want)) || !bytes.Equal(got, want) {
			t.Errorf("fetch %v: size %d, read %d bytes, identical = %v; want the %d uploaded bytes",
				br, size, len(got), bytes.Equal(got, want), len(want))
		}
		// Range fetch of the tail.
		off := int64(len(want) / 2)
		src, err := sto.SubFetch(ctx, br, off, int64(len(want))-off)
		if err != nil {
			t.Errorf("subfetch %v: %v", br, err)
			continue
		}
		got, err = io.ReadAll(src)
		src.Close()
		if err != nil || !bytes.Equal(got, want[off:]) {
			t.Errorf("subfetch %v from %d: read %d bytes, err %v, identical = %v; want %d bytes",
				br, off, len(got), err, bytes.Equal(got, want[off:]), int64(len(want))-off)
		}
	}

	// The file reads back identically.
	fr, err := schema.NewFileReader(ctx, sto, fileBlob.BlobRef())
	if err != nil {
		t.Fatalf("NewFileReader: %v", err)
	}
	defer fr.Close()
	got, err := io.ReadAll(fr)
	if err != nil {
		t.Errorf("reading the file: %v", err)
	}
	if string(got) != wantFile {
		t.Errorf("file read back: %d bytes, identical = false; want %d bytes", len(got), len(wantFile))
	}

	// If it was packed, the whole-file read must also be right.
	wholeRef := blob.RefFromString(wantFile)
	if rc, size, err := sto.OpenWholeRef(wholeRef, 0); err == nil {
		got, rerr := io.ReadAll(rc)
		rc.Close()
		if rerr != nil || size != int64(len(wantFile)) || string(got) != wantFile {
			t.Errorf("OpenWholeRef: size %d, read %d bytes, err %v, identical = %v; want %d bytes",
				size, len(got), rerr, string(got) == wantFile, len(wantFile))
		}
	}
}
