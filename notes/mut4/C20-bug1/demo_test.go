package blob_test

import (
	"encoding/json"
	"strings"
	"testing"

	"perkeep.org/pkg/blob"
)

// TestMutC20Bug1NearMissHashNames checks that ParseBytes and JSON decoding
// agree with Parse and with the text form for refs whose hash name is a
// near miss of a supported one (same length, same leading characters) and
// whose digest has the length of that supported hash.
func TestMutC20Bug1NearMissHashNames(t *testing.T) {
	hex := func(n int) string { return strings.Repeat("0123456789abcdef", 8)[:n] }
	cases := []string{
		"sha225-" + hex(56),
		"sha22a-" + hex(56),
		"sha257-" + hex(64),
		"sha25z-" + hex(64),
		// non-names: must be rejected everywhere
		"sha22A-" + hex(56),
		"sha22--" + hex(56),
		"sha25g-" + hex(64), // valid (unknown) name
	}
	for _, in := range cases {
		want, wantOK := blob.Parse(in)
		got, ok := blob.ParseBytes([]byte(in))
		if ok != wantOK || got != want {
			t.Errorf("ParseBytes(%q) = %v, %v; Parse gives %v, %v", in, got, ok, want, wantOK)
		}
		if ok && got.String() != in {
			t.Errorf("ParseBytes(%q).String() = %q; text form does not round-trip", in, got.String())
		}
		if ok && got.IsSupported() {
			t.Errorf("ParseBytes(%q) yields a ref of supported hash %q", in, got.HashName())
		}

		var jr blob.Ref
		err := json.Unmarshal([]byte(`"`+in+`"`), &jr)
		if wantOK {
			if err != nil {
				t.Errorf("json.Unmarshal(%q): %v", in, err)
				continue
			}
			if jr != want || jr.String() != in {
				t.Errorf("json.Unmarshal(%q) = %v; want %v", in, jr, want)
			}
			out, _ := json.Marshal(jr)
			if string(out) != `"`+in+`"` {
				t.Errorf("JSON round trip of %q gave %s", in, out)
			}
		} else if err == nil {
			t.Errorf("json.Unmarshal(%q) = %v; want error (not a well-formed ref)", in, jr)
		}
	}
}
