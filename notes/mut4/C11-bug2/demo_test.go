package encrypt

// Demonstration for MUT/bug2: when the packed meta blob cannot be stored,
// the small meta blobs it was meant to replace must stay.

import (
	"bytes"
	"context"
	"errors"
	"fmt"
	"io"
	"sync"
	"testing"
	"time"

	"perkeep.org/pkg/blob"
	"perkeep.org/pkg/sorted"
	"perkeep.org/pkg/test"
)

// mutB2FlakyMeta is a meta store that refuses the next `failures` uploads
// that are bigger than a single-entry meta blob (i.e. the packed ones).
type mutB2FlakyMeta struct {
	*test.Fetcher
	mu       sync.Mutex
	failures int
	failed   chan struct{}
}

func (m *mutB2FlakyMeta) ReceiveBlob(ctx context.Context, br blob.Ref, src io.Reader) (blob.SizedRef, error) {
	all, err := io.ReadAll(src)
	if err != nil {
		return blob.SizedRef{}, err
	}
	m.mu.Lock()
	fail := len(all) > 4<<10 && m.failures > 0
	if fail {
		m.failures--
	}
	m.mu.Unlock()
	if fail {
		defer func() { m.failed <- struct{}{} }()
		return blob.SizedRef{}, errors.New("injected: meta store write failed")
	}
	return m.Fetcher.ReceiveBlob(ctx, br, bytes.NewReader(all))
}

func mutB2Quiesce(meta *test.Fetcher) int {
	last, stable := meta.NumBlobs(), time.Now()
	deadline := time.Now().Add(10 * time.Second)
	for time.Now().Before(deadline) {
		time.Sleep(20 * time.Millisecond)
		if n := meta.NumBlobs(); n != last {
			last, stable = n, time.Now()
		} else if time.Since(stable) > 400*time.Millisecond {
			break
		}
	}
	return last
}

func TestMutC11Bug2PackedMetaWriteFails(t *testing.T) {
	ts := newTestStorage()
	meta := &mutB2FlakyMeta{Fetcher: ts.meta, failures: 1, failed: make(chan struct{}, 4)}
	ts.sto.meta = meta

	var all []*test.Blob
	compacted := false
	for round := 0; round < 3 && !compacted; round++ {
		for i := range SmallMetaCountLimit + 1 {
			tb := &test.Blob{Contents: fmt.Sprintf("blob %d.%d", round, i)}
			tb.MustUpload(t, ts.sto)
			all = append(all, tb)
		}
		select {
		case <-meta.failed:
			compacted = true
		case <-time.After(3 * time.Second):
			// The (rare) abort of a compaction that raced with the last
			// upload: the next round starts from an empty heap.
		}
	}
	if !compacted {
		t.Fatal("no compaction was attempted")
	}
	n := mutB2Quiesce(ts.meta)
	t.Logf("%d meta blobs left after the failed compaction of %d", n, len(all))

	// Every blob still reads fine from the running instance ...
	for _, tb := range all {
		if got := ts.fetchOrErrorString(tb.BlobRef()); got != tb.Contents {
			t.Fatalf("before restart: fetch %v = %q; want %q", tb.BlobRef(), got, tb.Contents)
		}
	}

	// ... and must still do after a restart with the meta index lost.
	sto2 := &storage{
		index:     sorted.NewMemoryKeyValue(),
		smallMeta: &metaBlobHeap{},
		identity:  ts.sto.identity,
		blobs:     ts.sto.blobs,
		meta:      ts.sto.meta,
	}
	if err := sto2.readAllMetaBlobs(); err != nil {
		t.Fatalf("restart: %v", err)
	}
	lost := 0
	for _, tb := range all {
		rc, _, err := sto2.Fetch(ctxbg, tb.BlobRef())
		if err != nil {
			lost++
			if lost <= 3 {
				t.Errorf("after restart: fetch %v (%q): %v", tb.BlobRef(), tb.Contents, err)
			}
			continue
		}
		got, _ := io.ReadAll(rc)
		rc.Close()
		if string(got) != tb.Contents {
			t.Errorf("after restart: fetch %v = %q; want %q", tb.BlobRef(), got, tb.Contents)
		}
	}
	if lost > 0 {
		t.Errorf("%d of %d blobs are gone after the restart: their ciphertext is still in the blob store, but no meta blob maps to it", lost, len(all))
	}
}
