package blobpacked

import (
	"bytes"
	"context"
	"errors"
	"io"
	"testing"
	"time"

	"perkeep.org/pkg/blob"
	"perkeep.org/pkg/blobserver"
	"perkeep.org/pkg/blobserver/localdisk"
	"perkeep.org/pkg/sorted"
	"perkeep.org/pkg/test"
)

// mut4FailingReader yields data and then fails with err (never io.EOF).
type mut4FailingReader struct {
	data []byte
	err  error
}

func (r *mut4FailingReader) Read(p []byte) (int, error) {
	if len(r.data) == 0 {
		return 0, r.err
	}
	n := copy(p, r.data)
	r.data = r.data[n:]
	return n, nil
}

// Corrupt or failing uploads through blobserver.Receive into a blobpacked
// storage whose loose ("small") store is a plain localdisk store, as in a
// production config (the in-memory store used by the package's own tests
// re-hashes what it is given, a localdisk store doesn't).
func TestMut4BlobpackedCorruptUpload(t *testing.T) {
	ctx := context.Background()
	small, err := localdisk.New(t.TempDir())
	if err != nil {
		t.Fatal(err)
	}
	s := &storage{
		small: small,
		large: new(test.Fetcher),
		meta:  sorted.NewMemoryKeyValue(),
		log:   test.NewLogger(t, "blobpacked: "),
	}
	s.init()

	// Sanity: a valid upload works and is served back.
	okData := []byte("a perfectly fine blob")
	okRef := blob.RefFromBytes(okData)
	if _, err := blobserver.Receive(ctx, s, okRef, bytes.NewReader(okData)); err != nil {
		t.Fatalf("valid upload: %v", err)
	}

	// A distinct 64 KiB payload per case, so that the cases don't share refs.
	payload := func(tag string) []byte {
		return append([]byte(tag+":"), bytes.Repeat([]byte("0123456789abcdef"), 4096)...)
	}
	flipWant := payload("bitflip")
	flipped := append([]byte(nil), flipWant...)
	flipped[12345] ^= 1
	truncWant := payload("truncation")
	extWant := payload("extension")[:1000]
	midWant := payload("error-midstream")
	big := bytes.Repeat([]byte("0123456789abcdef"), 100<<10) // 1.6 MB: too big for a schema blob
	bigFlipped := append([]byte(nil), big...)
	bigFlipped[len(big)-7] ^= 1
	errBroken := errors.New("connection reset by peer")

	for _, tt := range []struct {
		name    string
		want    []byte    // what the ref is the digest of
		src     io.Reader // what is offered
		wantErr error
	}{
		{"bitflip", flipWant, bytes.NewReader(flipped), blobserver.ErrCorruptBlob},
		{"truncation", truncWant, bytes.NewReader(truncWant[:len(truncWant)/2]), blobserver.ErrCorruptBlob},
		{"extension", extWant, bytes.NewReader(append(append([]byte(nil), extWant...), 'x')), blobserver.ErrCorruptBlob},
		{"schema-bitflip", []byte(`{"camliVersion": 1, "camliType": "bar"}`), bytes.NewReader([]byte(`{"camliVersion": 1, "camliType": "baz"}`)), blobserver.ErrCorruptBlob},
		{"error-midstream", midWant, &mut4FailingReader{data: midWant[:len(midWant)/2], err: errBroken}, errBroken},
		{"big-bitflip", big, bytes.NewReader(bigFlipped), blobserver.ErrCorruptBlob},
	} {
		t.Run(tt.name, func(t *testing.T) {
			br := blob.RefFromBytes(tt.want)

			notified := make(chan blob.Ref, 4)
			for _, sto := range []any{s, small} {
				hub := blobserver.GetHub(sto)
				hub.RegisterBlobListener(br, notified)
				defer hub.UnregisterBlobListener(br, notified)
			}

			sb, err := blobserver.Receive(ctx, s, br, tt.src)
			if !errors.Is(err, tt.wantErr) {
				t.Errorf("Receive under %v = %v, %v; want error %v", br, sb, err, tt.wantErr)
			}
			for name, sto := range map[string]blobserver.Storage{"blobpacked": s, "small": small} {
				if got, err := blobserver.StatBlob(ctx, sto, br); err == nil {
					t.Errorf("%s storage: rejected %v is stat-able: %v", name, br, got)
				}
				if rc, _, err := sto.Fetch(ctx, br); err == nil {
					got, _ := io.ReadAll(rc)
					rc.Close()
					t.Errorf("%s storage: rejected %v is fetchable (%d bytes; the ref is of %d bytes)", name, br, len(got), len(tt.want))
				}
				if err := blobserver.EnumerateAll(ctx, sto, func(sb blob.SizedRef) error {
					if sb.Ref == br {
						t.Errorf("%s storage: rejected %v is enumerated", name, br)
					}
					return nil
				}); err != nil {
					t.Errorf("%s storage: enumerate: %v", name, err)
				}
			}
			select {
			case got := <-notified:
				t.Errorf("a blob hub announced the rejected blob %v", got)
			case <-time.After(100 * time.Millisecond):
			}
		})
	}
}
