package index_test

import (
	"context"
	"fmt"
	"reflect"
	"testing"

	"perkeep.org/pkg/index"
	"perkeep.org/pkg/sorted"
	"perkeep.org/pkg/test"
)

// A full reindex from blob storage must produce the rows that the arrivals
// produced, including the "missing|" rows remembering the blobs that still
// wait for a dependency which never arrived. Here the reindex is run on the
// live index (Index.Reindex wipes the rows and re-receives every blob of the
// blob source), as "perkeepd -reindex" or the indextest Reindex test do.
func TestMut4C05Bug2ReindexForgetsPending(t *testing.T) {
	ctx := context.Background()
	chunk := &test.Blob{Contents: "mut4-c05-bug2 late chunk"}
	file := &test.Blob{Contents: fmt.Sprintf(`{"camliVersion": 1,
"camliType": "file",
"fileName": "late-chunk.txt",
"parts": [
  {"blobRef": "%s", "size": %d}
]}`, chunk.BlobRef(), len(chunk.Contents))}
	other := &test.Blob{Contents: "mut4-c05-bug2 some unrelated opaque blob"}

	src := new(test.Fetcher)
	kv := sorted.NewMemoryKeyValue()
	ix, err := index.New(kv)
	if err != nil {
		t.Fatal(err)
	}
	ix.InitBlobSource(src)

	add := func(ix *index.Index, b *test.Blob) {
		t.Helper()
		src.AddBlob(b)
		if _, err := ix.ReceiveBlob(ctx, b.BlobRef(), b.Reader()); err != nil {
			t.Fatalf("ReceiveBlob(%v): %v", b.BlobRef(), err)
		}
		ix.Exp_AwaitAsyncIndexing(t)
	}
	rows := func() map[string]string {
		m := make(map[string]string)
		it := kv.Find("", "")
		for it.Next() {
			m[it.Key()] = it.Value()
		}
		if err := it.Close(); err != nil {
			t.Fatal(err)
		}
		return m
	}

	add(ix, other)
	add(ix, file) // its chunk never arrives (so far): remembered as pending
	before := rows()
	missingKey := fmt.Sprintf("missing|%s|%s", file.BlobRef(), chunk.BlobRef())
	if _, ok := before[missingKey]; !ok {
		t.Fatalf("no %q row after receiving the file; rows: %v", missingKey, before)
	}

	// Reindex reports the blobs that still wait for a dependency as an
	// error; that's expected here.
	if err := ix.Reindex(); err != nil {
		t.Logf("Reindex: %v", err)
	}
	ix.Exp_AwaitAsyncIndexing(t)
	after := rows()
	if !reflect.DeepEqual(before, after) {
		t.Errorf("rows after a full reindex differ from the rows the arrivals produced:\nbefore: %v\nafter:  %v", before, after)
	}

	// What the lost row means: re-open the index, let the chunk arrive.
	ix2, err := index.New(kv)
	if err != nil {
		t.Fatal(err)
	}
	ix2.InitBlobSource(src)
	add(ix2, chunk)
	if _, err := kv.Get("fileinfo|" + file.BlobRef().String()); err != nil {
		t.Errorf("file %v not indexed after its chunk arrived (reindex, restart, chunk): %v", file.BlobRef(), err)
	}
}
