package jsonsign_test

import (
	"encoding/json"
	"fmt"
	"reflect"
	"testing"

	. "perkeep.org/pkg/jsonsign"
)

// A valid unsigned schema object stays valid (and means the same) whatever
// insignificant JSON whitespace -- space, tab, LF, CR -- surrounds it. Signing
// it must yield a valid JSON document that verifies and exposes the original
// fields; e.g. JSON submitted from a browser <textarea> or saved by a Windows
// editor ends in CRLF.
func TestC16SignTrailingJSONWhitespace(t *testing.T) {
	obj := fmt.Sprintf(`{"camliVersion": 1,
  "camliSigner": %q,
  "camliType": "claim",
  "claimType": "set-attribute",
  "attribute": "title",
  "value": "hello"
}`, pubKeyBlob1.BlobRef().String())
	var want map[string]any
	if err := json.Unmarshal([]byte(obj), &want); err != nil {
		t.Fatalf("test bug: %v", err)
	}

	for _, trail := range []string{"", "\n", " ", "\t", "\r\n", "\r", "\n\r\n", " \r\n\t", "\r\n\r\n"} {
		t.Run(fmt.Sprintf("trailing=%q", trail), func(t *testing.T) {
			unsigned := obj + trail
			if !json.Valid([]byte(unsigned)) {
				t.Fatalf("test bug: unsigned JSON invalid")
			}
			sr := newRequest(1)
			sr.UnsignedJSON = unsigned
			signed, err := sr.Sign(ctxbg)
			if err != nil {
				t.Fatalf("Sign of valid object with trailing %q failed: %v", trail, err)
			}
			if !json.Valid([]byte(signed)) {
				t.Errorf("signed document is not valid JSON:\n%q", signed)
			}
			vr := NewVerificationRequest(signed, testFetcher)
			if _, err := vr.Verify(ctxbg); err != nil {
				t.Fatalf("freshly signed document does not verify: %v (%v)\n%q", err, vr.Err, signed)
			}
			if !reflect.DeepEqual(vr.PayloadMap, want) {
				t.Errorf("verified payload differs from what was signed:\n got: %v\nwant: %v", vr.PayloadMap, want)
			}
		})
	}
}
