package search_test

import (
	"fmt"
	"testing"

	"perkeep.org/pkg/blob"
	. "perkeep.org/pkg/search"
)

// With a few hundred blobs indexed, a query which can only be answered by
// enumerating all the blobs (here: a blob size range, and a logical "or")
// must still return every matching blob.
func TestMutC08Bug3LargeWorldAllBlobs(t *testing.T) {
	testQueryTypes(t, memIndexTypes, func(qt *queryTest) {
		id := qt.id

		const n = 600
		var small, big []blob.Ref
		for i := range n {
			if i%2 == 0 {
				small = append(small, id.UploadString(fmt.Sprintf("s%04d", i))) // 5 bytes
			} else {
				big = append(big, id.UploadString(fmt.Sprintf("big-blob-%04d", i))) // 13 bytes
			}
		}
		pn := id.NewPlannedPermanode("pn")
		id.SetAttribute(pn, "tag", "foo")

		check := func(name string, sq *SearchQuery, want []blob.Ref) {
			t.Helper()
			res, err := qt.Handler().Query(ctxbg, sq)
			if err != nil {
				t.Fatalf("%s: %v", name, err)
			}
			got := make(map[blob.Ref]int)
			for _, b := range res.Blobs {
				got[b.Blob]++
			}
			missing := 0
			for _, br := range want {
				if got[br] != 1 {
					missing++
				}
			}
			if missing != 0 || len(res.Blobs) != len(want) {
				t.Errorf("%s (%v index): got %d results, want %d; %d wanted blobs are missing",
					name, qt.itype, len(res.Blobs), len(want), missing)
			}
		}

		// "anything" must at least return all the blobs we uploaded.
		{
			res, err := qt.Handler().Query(ctxbg, &SearchQuery{
				Limit:      -1,
				Constraint: &Constraint{Anything: true},
			})
			if err != nil {
				t.Fatal(err)
			}
			got := make(map[blob.Ref]bool)
			for _, b := range res.Blobs {
				got[b.Blob] = true
			}
			missing := 0
			for _, br := range append(append([]blob.Ref{pn}, small...), big...) {
				if !got[br] {
					missing++
				}
			}
			if missing != 0 {
				t.Errorf("anything (%v index): %d of the %d uploaded blobs are missing from the %d results",
					qt.itype, missing, n+1, len(res.Blobs))
			}
		}

		for _, sortType := range []SortType{Unsorted, BlobRefAsc} {
			check("blobSize=5", &SearchQuery{
				Limit: -1,
				Sort:  sortType,
				Constraint: &Constraint{
					BlobSize: &IntConstraint{Min: 5, Max: 5},
				},
			}, small)

			check("blobSize=13 or tag=foo", &SearchQuery{
				Limit: -1,
				Sort:  sortType,
				Constraint: &Constraint{
					Logical: &LogicalConstraint{
						Op: "or",
						A:  &Constraint{BlobSize: &IntConstraint{Min: 13, Max: 13}},
						B: &Constraint{Permanode: &PermanodeConstraint{
							Attr: "tag", Value: "foo",
						}},
					},
				},
			}, append([]blob.Ref{pn}, big...))
		}
	})
}
