package files_test

import (
	"context"
	"io"
	"os"
	"path/filepath"
	"sync"
	"testing"
	"time"

	"perkeep.org/pkg/blob"
	"perkeep.org/pkg/blobserver/files"
	"perkeep.org/pkg/test"
)

// mut14HookFS is the host filesystem, with a hook run right after a
// successful MkdirAll and a RemoveDir that has plain rmdir(2) semantics
// (it only removes empty directories) and reports when it ran.
type mut14HookFS struct {
	files.VFS
	afterMkdir func(path string)
	rmdirDone  chan string
}

func (h *mut14HookFS) MkdirAll(path string, perm os.FileMode) error {
	err := h.VFS.MkdirAll(path, perm)
	if err == nil && h.afterMkdir != nil {
		h.afterMkdir(path)
	}
	return err
}

func (h *mut14HookFS) RemoveDir(path string) error {
	err := os.Remove(path)
	select {
	case h.rmdirDone <- path:
	default:
	}
	return err
}

// TestMut14ReceiveVsEmptyDirCleanup: a client receives a blob into a sync
// queue ("queue-*" root) while another client enumerates the queue. The
// enumeration finds the blob's directory (just created by the receive, and
// still empty) and schedules its removal. The receive must succeed anyway and
// the blob must be there afterwards.
func TestMut14ReceiveVsEmptyDirCleanup(t *testing.T) {
	ctx := context.Background()
	root := filepath.Join(t.TempDir(), "queue-sync-to-index")
	if err := os.MkdirAll(root, 0700); err != nil {
		t.Fatal(err)
	}
	hfs := &mut14HookFS{VFS: files.OSFS(), rmdirDone: make(chan string, 16)}
	sto := files.NewStorage(hfs, root)

	var once sync.Once
	hfs.afterMkdir = func(path string) {
		once.Do(func() {
			// The other client: enumerates the whole queue now.
			dest := make(chan blob.SizedRef, 16)
			if err := sto.EnumerateBlobs(ctx, dest, "", 1000); err != nil {
				t.Errorf("EnumerateBlobs: %v", err)
			}
			for range dest {
			}
			// Give the scheduled directory removal a chance to run
			// (it can't, if the receiver holds the directory lock).
			select {
			case p := <-hfs.rmdirDone:
				t.Logf("empty directory %s was removed while a receive was about to use it", p)
			case <-time.After(500 * time.Millisecond):
			}
		})
	}

	tb := &test.Blob{Contents: "a blob for the sync queue"}
	sb, err := sto.ReceiveBlob(ctx, tb.BlobRef(), tb.Reader())
	if err != nil {
		t.Fatalf("ReceiveBlob failed while the queue was being enumerated: %v", err)
	}
	if sb.Ref != tb.BlobRef() || int(sb.Size) != len(tb.Contents) {
		t.Fatalf("ReceiveBlob = %v; want %v/%d", sb, tb.BlobRef(), len(tb.Contents))
	}

	// Let the pending directory removal (if any) run, then check that the
	// acknowledged blob is still there.
	select {
	case <-hfs.rmdirDone:
	case <-time.After(2 * time.Second):
	}
	rc, size, err := sto.Fetch(ctx, tb.BlobRef())
	if err != nil {
		t.Fatalf("Fetch of the acknowledged blob: %v", err)
	}
	defer rc.Close()
	got, err := io.ReadAll(rc)
	if err != nil {
		t.Fatal(err)
	}
	if int(size) != len(tb.Contents) || string(got) != tb.Contents {
		t.Fatalf("Fetch = %q (size %d); want %q", got, size, tb.Contents)
	}
}
