package diskpacked

// Demonstration for MUT/bug3: the process dies while a blob is appended to
// the pack file, so the pack ends in a torn record (every prefix of the
// appended bytes is tried). After the restart StreamBlobs must hand out the
// acknowledged blobs and must never present the torn one as a blob.

import (
	"context"
	"os"
	"path/filepath"
	"strings"
	"testing"

	"perkeep.org/pkg/blobserver"
	"perkeep.org/pkg/test"
)

func TestMutStreamAfterTornAppend(t *testing.T) {
	ctx := context.Background()
	dir := t.TempDir()
	s, err := newStorage(dir, 1<<20, nil)
	if err != nil {
		t.Fatal(err)
	}
	defer s.Close()

	var (
		A = &test.Blob{Contents: strings.Repeat("acknowledged blob. ", 20)}
		B = &test.Blob{Contents: strings.Repeat("blob in flight when the process died. ", 10)}
	)
	if _, err := s.ReceiveBlob(ctx, A.BlobRef(), A.Reader()); err != nil {
		t.Fatal(err)
	}
	fi, err := os.Stat(s.filename(0))
	if err != nil {
		t.Fatal(err)
	}
	sizeA := fi.Size() // the pack up to and including A's record
	if _, err := s.ReceiveBlob(ctx, B.BlobRef(), B.Reader()); err != nil {
		t.Fatal(err)
	}
	pack, err := os.ReadFile(s.filename(0))
	if err != nil {
		t.Fatal(err)
	}

	bad := 0
	// Every proper prefix of the bytes appended for B (torn header, torn body).
	for cut := sizeA; cut < int64(len(pack)); cut++ {
		img := t.TempDir()
		if err := os.WriteFile(filepath.Join(img, "pack-00000.blobs"), pack[:cut], 0600); err != nil {
			t.Fatal(err)
		}
		rs, err := newStorage(img, 1<<20, nil) // restart (B's index row was never written)
		if err != nil {
			t.Fatalf("cut %d: reopen: %v", cut, err)
		}
		dest := make(chan blobserver.BlobAndToken, 16)
		streamErr := rs.StreamBlobs(ctx, dest, "")
		sawA := false
		for bt := range dest {
			ref := bt.Blob.Ref()
			if verr := bt.Blob.ValidContents(ctx); verr != nil {
				bad++
				if bad <= 5 {
					t.Errorf("pack cut at %d (%d of the %d bytes of B's record on disk): StreamBlobs (err=%v) presented %v, size %d, but: %v",
						cut, cut-sizeA, int64(len(pack))-sizeA, streamErr, ref, bt.Blob.Size(), verr)
				}
				continue
			}
			if ref == A.BlobRef() {
				sawA = true
			}
		}
		if !sawA {
			t.Errorf("pack cut at %d: acknowledged blob A was not streamed (err=%v)", cut, streamErr)
		}
		rs.Close()
	}
	if bad > 5 {
		t.Errorf("... and %d more crash points at which a torn blob was streamed", bad-5)
	}
}
