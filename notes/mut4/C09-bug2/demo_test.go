package search_test

import (
	"fmt"
	"sort"
	"testing"

	"perkeep.org/pkg/blob"
	. "perkeep.org/pkg/search"
)

// mutC09Bug2Page follows the continuation tokens of the query made of c, sortType
// and limit until there is no token left, and returns all the results, in order.
func mutC09Bug2Page(t *testing.T, h *Handler, c func() *Constraint, sortType SortType, limit int) []blob.Ref {
	var got []blob.Ref
	cont := ""
	for page := 0; ; page++ {
		if page > 500 {
			t.Fatalf("sort %v, limit %d: paging does not terminate", sortType, limit)
		}
		res, err := h.Query(ctxbg, &SearchQuery{
			Constraint: c(),
			Sort:       sortType,
			Limit:      limit,
			Continue:   cont,
		})
		if err != nil {
			t.Fatalf("sort %v, limit %d, page %d: %v", sortType, limit, page, err)
		}
		for _, b := range res.Blobs {
			got = append(got, b.Blob)
		}
		if res.Continue == "" {
			return got
		}
		cont = res.Continue
	}
}

// Tweets imported in one batch: permanodes of one camliNodeType that share their
// time. Paging through the permanodes of that type, newest created first, must
// return each of them exactly once, in the order of the unpaged result.
func TestMutC09Bug2NodeTypePagingWithTiedTimes(t *testing.T) {
	testQueryTypes(t, memIndexTypes, func(qt *queryTest) {
		id := qt.id

		first := id.NewPlannedPermanode("first-tweet")
		id.SetAttribute(first, "camliNodeType", "twitter.com:tweet")
		other := id.NewPlannedPermanode("not-a-tweet")
		id.SetAttribute(other, "camliNodeType", "foursquare.com:checkin")

		var tied []blob.Ref
		for i := 0; i < 25; i++ {
			pn := id.NewPlannedPermanode(fmt.Sprintf("tweet-%d", i))
			// All these claims have the same date.
			id.SetAttribute_NoTimeMove(pn, "camliNodeType", "twitter.com:tweet")
			tied = append(tied, pn)
			pn = id.NewPlannedPermanode(fmt.Sprintf("untyped-%d", i))
			id.SetAttribute_NoTimeMove(pn, "title", "untyped")
		}
		last := id.NewPlannedPermanode("last-tweet")
		id.SetAttribute(last, "camliNodeType", "twitter.com:tweet")

		// Newest first; for equal times, the greatest blobref first.
		sort.Slice(tied, func(i, j int) bool { return tied[j].Less(tied[i]) })
		want := append([]blob.Ref{last}, tied...)
		want = append(want, first)

		tweets := func() *Constraint {
			return &Constraint{Permanode: &PermanodeConstraint{
				Attr:  "camliNodeType",
				Value: "twitter.com:tweet",
			}}
		}
		h := qt.Handler()
		for _, sortType := range []SortType{CreatedDesc, UnspecifiedSort, LastModifiedDesc} {
			for _, limit := range []int{1, 2, 3, 5, 26, 27, 100} {
				got := mutC09Bug2Page(t, h, tweets, sortType, limit)
				seen := make(map[blob.Ref]int)
				for _, br := range got {
					seen[br]++
				}
				skipped, repeated := 0, 0
				for _, br := range want {
					switch n := seen[br]; {
					case n == 0:
						skipped++
					case n > 1:
						repeated++
					}
				}
				if skipped > 0 || repeated > 0 {
					t.Errorf("sort %v, limit %d: %d of the %d tweets were skipped, %d were returned more than once", sortType, limit, skipped, len(want), repeated)
					continue
				}
				if len(got) != len(want) {
					t.Errorf("sort %v, limit %d: got %d results in total, want %d", sortType, limit, len(got), len(want))
					continue
				}
				for i := range want {
					if got[i] != want[i] {
						t.Errorf("sort %v, limit %d: result %d is %v, want %v", sortType, limit, i, got[i], want[i])
						break
					}
				}
			}
		}
	})
}
