package blobpacked

import (
	"bytes"
	"io"
	"testing"

	"perkeep.org/pkg/blob"
	"perkeep.org/pkg/blobserver"
	"perkeep.org/pkg/schema"
	"perkeep.org/pkg/sorted"
	"perkeep.org/pkg/test"
)

// TestMutC01PartShorterThanBlob uploads two data blobs and then a (valid)
// "file" schema blob whose first part only uses a prefix of the first data
// blob (part size < blob size). Whatever blobpacked decides to do with that
// file, every blob that was received must still be fetched back
// byte-for-byte, with its true size in Fetch, StatBlobs and EnumerateBlobs.
func TestMutC01PartShorterThanBlob(t *testing.T) {
	ctx := t.Context()
	s := &storage{
		small: new(test.Fetcher),
		large: new(test.Fetcher),
		meta:  sorted.NewMemoryKeyValue(),
		log:   test.NewLogger(t, "blobpacked: ", "Packing file ", "Packed file ", "Error packing file "),
	}
	s.init()

	const (
		sizeA = 400 << 10
		usedA = 300 << 10 // the file only uses the first 300 KB of blob A
		sizeB = 300 << 10
	)
	all := randBytes(sizeA + sizeB)
	blobA := &test.Blob{Contents: string(all[:sizeA])}
	blobB := &test.Blob{Contents: string(all[sizeA:])}
	blobA.MustUpload(t, s)
	blobB.MustUpload(t, s)

	m := schema.NewFileMap("foo.dat")
	m.PopulateParts(usedA+sizeB, []schema.BytesPart{
		{Size: usedA, BlobRef: blobA.BlobRef()},
		{Size: sizeB, BlobRef: blobB.BlobRef()},
	})
	fjson, err := m.JSON()
	if err != nil {
		t.Fatal(err)
	}
	fileBlob := &test.Blob{Contents: fjson}
	fileBlob.MustUpload(t, s)

	want := map[blob.Ref]string{
		blobA.BlobRef():    blobA.Contents,
		blobB.BlobRef():    blobB.Contents,
		fileBlob.BlobRef(): fileBlob.Contents,
	}

	for br, contents := range want {
		rc, size, err := s.Fetch(ctx, br)
		if err != nil {
			t.Errorf("Fetch(%v): %v", br, err)
			continue
		}
		got, err := io.ReadAll(rc)
		rc.Close()
		if err != nil {
			t.Errorf("reading %v: %v", br, err)
			continue
		}
		if int(size) != len(contents) {
			t.Errorf("Fetch(%v) size = %d; want %d", br, size, len(contents))
		}
		if !bytes.Equal(got, []byte(contents)) {
			t.Errorf("Fetch(%v) = %d bytes, differing from the %d bytes received", br, len(got), len(contents))
		}
	}

	var refs []blob.Ref
	for br := range want {
		refs = append(refs, br)
	}
	stat, err := blobserver.StatBlobs(ctx, s, refs)
	if err != nil {
		t.Fatalf("StatBlobs: %v", err)
	}
	for br, contents := range want {
		sb, ok := stat[br]
		if !ok {
			t.Errorf("StatBlobs: %v missing", br)
		} else if int(sb.Size) != len(contents) {
			t.Errorf("StatBlobs: %v has size %d; want %d", br, sb.Size, len(contents))
		}
	}

	seen := map[blob.Ref]int{}
	if err := blobserver.EnumerateAll(ctx, s, func(sb blob.SizedRef) error {
		seen[sb.Ref]++
		if c, ok := want[sb.Ref]; !ok {
			t.Errorf("EnumerateBlobs: unexpected %v", sb)
		} else if int(sb.Size) != len(c) {
			t.Errorf("EnumerateBlobs: %v has size %d; want %d", sb.Ref, sb.Size, len(c))
		}
		return nil
	}); err != nil {
		t.Fatalf("EnumerateAll: %v", err)
	}
	for br := range want {
		if seen[br] != 1 {
			t.Errorf("EnumerateBlobs listed %v %d times; want once", br, seen[br])
		}
	}
}
