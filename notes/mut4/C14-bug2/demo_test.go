package index_test

import (
	"sync/atomic"
	"testing"
	"time"

	"perkeep.org/pkg/blob"
	"perkeep.org/pkg/index"
	"perkeep.org/pkg/index/indextest"
	"perkeep.org/pkg/schema"
	"perkeep.org/pkg/types/camtypes"
)

// TestMut14DeleteReindexedWhileQueried feeds the index while it is queried:
//
//	client 1: uploads a delete claim D of permanode P before P itself (so D
//	          waits for P), and then P. Receiving P makes the index re-index D
//	          in the background.
//	client 2: lists the permanodes by time, in the window between the
//	          indexing of P and the (background) re-indexing of D, and again
//	          once the deletion is visible in the corpus.
//
// The second listing, which starts after the corpus says that P is deleted,
// must not contain P.
func TestMut14DeleteReindexedWhileQueried(t *testing.T) {
	idx := index.NewMemoryIndex()
	id := indextest.NewIndexDeps(idx)
	id.Fataler = t
	c, err := idx.KeepInMemory()
	if err != nil {
		t.Fatal(err)
	}

	// A gate on the fetches from the blob source: that's how the
	// background re-indexing gets at the blob to re-index.
	var gateOn atomic.Bool
	entered := make(chan struct{}, 16)
	release := make(chan struct{})
	id.BlobSource.FetchErr = func() error {
		if gateOn.Load() {
			entered <- struct{}{}
			<-release
		}
		return nil
	}

	listByTime := func() (created, modified []blob.Ref) {
		idx.RLock()
		defer idx.RUnlock()
		c.EnumeratePermanodesCreated(func(m camtypes.BlobMeta) bool {
			created = append(created, m.Ref)
			return true
		}, true)
		c.EnumeratePermanodesLastModified(func(m camtypes.BlobMeta) bool {
			modified = append(modified, m.Ref)
			return true
		})
		return
	}
	contains := func(l []blob.Ref, br blob.Ref) bool {
		for _, v := range l {
			if v == br {
				return true
			}
		}
		return false
	}

	// Some unrelated content.
	other := id.NewPermanode()
	id.SetAttribute(other, "title", "unrelated")

	// P, a claim on it, and its delete claim, all signed but not uploaded yet.
	t0 := id.LastTime()
	pb := schema.NewUnsignedPermanode()
	pBlob := id.Sign(pb)
	p := pBlob.BlobRef()

	ab := schema.NewSetAttributeClaim(p, "title", "doomed")
	ab.SetClaimDate(t0.Add(1 * time.Second))
	aBlob := id.Sign(ab)

	db := schema.NewDeleteClaim(p)
	db.SetClaimDate(t0.Add(2 * time.Second))
	dBlob := id.Sign(db)

	// client 1: the claim, then the delete claim (which has to wait for P)...
	id.Upload(aBlob)
	id.Upload(dBlob)
	// ... and then P. Hold the background re-indexing of D at the gate.
	gateOn.Store(true)
	id.Upload(pBlob)
	select {
	case <-entered:
	case <-time.After(10 * time.Second):
		t.Fatal("the delete claim was not re-indexed in the background after its target arrived")
	}

	// client 2: P is indexed, its deletion isn't yet.
	created, modified := listByTime()
	if !contains(created, p) || !contains(modified, p) {
		t.Fatalf("before the deletion is indexed, %v should be listed; got created=%v modified=%v", p, created, modified)
	}

	// Let the re-indexing of D proceed, and wait until the corpus knows about the deletion.
	gateOn.Store(false)
	close(release)
	deadline := time.Now().Add(10 * time.Second)
	for {
		idx.RLock()
		deleted := c.IsDeleted(p)
		idx.RUnlock()
		if deleted {
			break
		}
		if time.Now().After(deadline) {
			t.Fatal("the corpus never learned that the permanode was deleted")
		}
		time.Sleep(5 * time.Millisecond)
	}

	// client 2 again, strictly after the deletion became visible.
	created, modified = listByTime()
	if contains(created, p) {
		t.Errorf("EnumeratePermanodesCreated still lists %v, which the corpus reports as deleted", p)
	}
	if contains(modified, p) {
		t.Errorf("EnumeratePermanodesLastModified still lists %v, which the corpus reports as deleted", p)
	}
	if !contains(created, other) || !contains(modified, other) {
		t.Errorf("unrelated permanode %v is missing: created=%v modified=%v", other, created, modified)
	}
}
