package index_test

import (
	"context"
	"fmt"
	"strings"
	"testing"

	"perkeep.org/pkg/blob"
	"perkeep.org/pkg/index"
	"perkeep.org/pkg/sorted"
	"perkeep.org/pkg/test"
)

// A file whose two chunks arrive after it discovers its missing chunks one
// after the other (the file reader stops at the first miss). When the first
// chunk arrives, the file is reindexed and then waits for the second one only.
// The persisted "missing|" rows must say exactly that, or a re-opened index
// waits for the first chunk for ever.
func TestMut4C05Bug1StaleEdgeAfterRestart(t *testing.T) {
	ctx := context.Background()
	c1 := &test.Blob{Contents: "mut4-c05-bug1 first chunk"}
	c2 := &test.Blob{Contents: "mut4-c05-bug1 second chunk"}
	file := &test.Blob{Contents: fmt.Sprintf(`{"camliVersion": 1,
"camliType": "file",
"fileName": "two-chunks.txt",
"parts": [
  {"blobRef": "%s", "size": %d},
  {"blobRef": "%s", "size": %d}
]}`, c1.BlobRef(), len(c1.Contents), c2.BlobRef(), len(c2.Contents))}

	src := new(test.Fetcher)
	kv := sorted.NewMemoryKeyValue()
	ix, err := index.New(kv)
	if err != nil {
		t.Fatal(err)
	}
	ix.InitBlobSource(src)

	add := func(ix *index.Index, b *test.Blob) {
		t.Helper()
		src.AddBlob(b)
		if _, err := ix.ReceiveBlob(ctx, b.BlobRef(), b.Reader()); err != nil {
			t.Fatalf("ReceiveBlob(%v): %v", b.BlobRef(), err)
		}
		ix.Exp_AwaitAsyncIndexing(t)
	}
	missingRows := func() []string {
		var rows []string
		it := kv.Find("missing|", "missing}")
		for it.Next() {
			rows = append(rows, it.Key())
		}
		if err := it.Close(); err != nil {
			t.Fatal(err)
		}
		return rows
	}

	add(ix, file) // waits for c1
	add(ix, c1)   // file is reindexed, now waits for c2

	want := fmt.Sprintf("missing|%s|%s", file.BlobRef(), c2.BlobRef())
	if got := missingRows(); len(got) != 1 || got[0] != want {
		t.Errorf("after the first chunk, missing rows =\n  %s\nwant only\n  %s", strings.Join(got, "\n  "), want)
	}

	// Restart: a new Index over the same rows and the same blob source.
	ix2, err := index.New(kv)
	if err != nil {
		t.Fatal(err)
	}
	ix2.InitBlobSource(src)

	add(ix2, c2)

	if got := missingRows(); len(got) != 0 {
		t.Errorf("after the second chunk, missing rows left:\n  %s", strings.Join(got, "\n  "))
	}
	if v, err := kv.Get("fileinfo|" + file.BlobRef().String()); err != nil {
		t.Errorf("file %v was never indexed after the restart: fileinfo row: %v", file.BlobRef(), err)
	} else {
		t.Logf("fileinfo = %q", v)
	}
	ix2.WithNeededMapsForTest(func(needs, neededBy map[blob.Ref][]blob.Ref, ready map[blob.Ref]bool) {
		if len(needs) != 0 || len(neededBy) != 0 || len(ready) != 0 {
			t.Errorf("out-of-order bookkeeping not empty at the end: needs=%v neededBy=%v ready=%v", needs, neededBy, ready)
		}
	})
}
