package index_test

import (
	"reflect"
	"testing"
	"time"

	"perkeep.org/pkg/index"
	"perkeep.org/pkg/index/indextest"
	"perkeep.org/pkg/schema"
)

// A claim that arrives in the live (incrementally built) corpus with a date
// older than an already merged claim must be replayed at its place in
// claim-date order, for the unfiltered and for the per-signer view alike.
func TestMut4C07Bug1LateClaimSignerView(t *testing.T) {
	idx := index.NewMemoryIndex()
	id := indextest.NewIndexDeps(idx)
	id.Fataler = t
	c, err := idx.KeepInMemory() // live corpus, built incrementally from here on
	if err != nil {
		t.Fatal(err)
	}

	pn := id.NewPlannedPermanode("mut4c07bug1")
	base := id.LastTime()
	add := func(val string, off time.Duration) {
		m := schema.NewAddAttributeClaim(pn, "tag", val)
		m.SetClaimDate(base.Add(off))
		id.Upload(id.Sign(m))
	}
	add("a", 10*time.Second)
	add("c", 30*time.Second)
	add("b", 20*time.Second) // dated before "c", arrives after it
	add("d", 40*time.Second) // in order again

	check := func(at time.Time, signer string, want []string) {
		t.Helper()
		got := c.AppendPermanodeAttrValues(nil, pn, "tag", at, signer)
		if !reflect.DeepEqual(got, want) {
			t.Errorf("live corpus: tag values at %v for signer %q = %q; want %q", at, signer, got, want)
		}
	}
	all := []string{"a", "b", "c", "d"}
	check(time.Time{}, "", all)
	check(time.Time{}, indextest.KeyID, all)
	check(base.Add(time.Hour), indextest.KeyID, all)
	check(base.Add(25*time.Second), indextest.KeyID, []string{"a", "b"})
	if got := c.PermanodeAttrValue(pn, "tag", time.Time{}, indextest.KeyID); got != "a" {
		t.Errorf("PermanodeAttrValue = %q; want a", got)
	}

	// Same rows, corpus loaded at start: must agree.
	idx2, err := index.New(idx.Storage())
	if err != nil {
		t.Fatal(err)
	}
	c2, err := idx2.KeepInMemory()
	if err != nil {
		t.Fatal(err)
	}
	for _, signer := range []string{"", indextest.KeyID} {
		got := c.AppendPermanodeAttrValues(nil, pn, "tag", time.Time{}, signer)
		got2 := c2.AppendPermanodeAttrValues(nil, pn, "tag", time.Time{}, signer)
		if !reflect.DeepEqual(got, got2) {
			t.Errorf("signer %q: live corpus says %q, corpus loaded from the same rows says %q", signer, got, got2)
		}
	}
}
