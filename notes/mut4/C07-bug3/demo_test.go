package index_test

import (
	"testing"
	"time"

	"perkeep.org/pkg/index"
	"perkeep.org/pkg/index/indextest"
)

// The attribute values as of time T include the claims dated exactly T
// ("dated no later than T"), whichever corpus query is used, and whether or
// not later claims exist on the permanode.
func TestMut4C07Bug3ValueAtExactClaimTime(t *testing.T) {
	idx := index.NewMemoryIndex()
	id := indextest.NewIndexDeps(idx)
	id.Fataler = t
	c, err := idx.KeepInMemory()
	if err != nil {
		t.Fatal(err)
	}
	pn := id.NewPlannedPermanode("mut4c07bug3")

	id.SetAttribute(pn, "title", "first")
	t1 := id.LastTime()
	id.SetAttribute(pn, "title", "second")
	t2 := id.LastTime()
	id.DelAttribute(pn, "title", "")
	t3 := id.LastTime()
	id.AddAttribute(pn, "title", "third")
	t4 := id.LastTime()

	tests := []struct {
		name string
		at   time.Time
		want string
	}{
		{"before first", t1.Add(-time.Nanosecond), ""},
		{"at first", t1, "first"},
		{"between first and second", t1.Add(500 * time.Millisecond), "first"},
		{"at second", t2, "second"},
		{"at delete", t3, ""},
		{"after delete", t3.Add(time.Nanosecond), ""},
		{"at third (last claim)", t4, "third"},
		{"zero", time.Time{}, "third"},
	}
	for _, signer := range []string{"", indextest.KeyID} {
		for _, tt := range tests {
			got := c.PermanodeAttrValue(pn, "title", tt.at, signer)
			if got != tt.want {
				t.Errorf("signer %q, %s: PermanodeAttrValue = %q; want %q", signer, tt.name, got, tt.want)
			}
			// The multi-valued query must agree.
			var first string
			if vals := c.AppendPermanodeAttrValues(nil, pn, "title", tt.at, signer); len(vals) > 0 {
				first = vals[0]
			}
			if got != first {
				t.Errorf("signer %q, %s: PermanodeAttrValue = %q but AppendPermanodeAttrValues[0] = %q", signer, tt.name, got, first)
			}
		}
	}
}
