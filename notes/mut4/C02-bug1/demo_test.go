package localdisk

import (
	"bytes"
	"context"
	"errors"
	"io"
	"sync"
	"testing"
	"time"

	"perkeep.org/pkg/blob"
	"perkeep.org/pkg/blobserver"
)

// mut4GatedReader hands out all of data in its first Read. Its next Read
// announces itself on atEOF, waits for release and only then reports io.EOF.
// At the time atEOF fires, the consumer (io.Copy in files.ReceiveBlob) has
// already written data to its temp file.
type mut4GatedReader struct {
	data    []byte
	sent    bool
	once    sync.Once
	atEOF   chan struct{}
	release chan struct{}
}

func newMut4GatedReader(data []byte) *mut4GatedReader {
	return &mut4GatedReader{data: data, atEOF: make(chan struct{}), release: make(chan struct{})}
}

func (r *mut4GatedReader) Read(p []byte) (int, error) {
	if !r.sent {
		r.sent = true
		return copy(p, r.data), nil
	}
	r.once.Do(func() { close(r.atEOF) })
	<-r.release
	return 0, io.EOF
}

func mut4Wait(t *testing.T, what string, c <-chan struct{}) {
	t.Helper()
	select {
	case <-c:
	case <-time.After(10 * time.Second):
		t.Fatalf("timeout waiting for %s", what)
	}
}

// A valid and a corrupt upload of the same blobref race on a localdisk store.
// The corrupt one must be rejected and must leave no trace: afterwards the ref
// holds the valid bytes.
func TestMut4ConcurrentValidAndCorruptUpload(t *testing.T) {
	ctx := context.Background()
	ds, err := New(t.TempDir())
	if err != nil {
		t.Fatal(err)
	}

	good := bytes.Repeat([]byte("perkeep-good-content/"), 40)
	bad := append([]byte(nil), good...)
	bad[len(bad)/2] ^= 0x20 // same length, one bit flipped
	br := blob.RefFromBytes(good)

	type result struct {
		sb  blob.SizedRef
		err error
	}
	upload := func(r io.Reader) <-chan result {
		c := make(chan result, 1)
		go func() {
			sb, err := blobserver.Receive(ctx, ds, br, r)
			c <- result{sb, err}
		}()
		return c
	}

	vr := newMut4GatedReader(good)
	cr := newMut4GatedReader(bad)

	vres := upload(vr)
	mut4Wait(t, "valid upload to have written its bytes", vr.atEOF)
	cres := upload(cr)
	mut4Wait(t, "corrupt upload to have written its bytes", cr.atEOF)

	// The valid upload ends first and is committed ...
	close(vr.release)
	select {
	case res := <-vres:
		if res.err != nil {
			t.Fatalf("valid upload: %v", res.err)
		}
		if res.sb.Ref != br || int(res.sb.Size) != len(good) {
			t.Fatalf("valid upload = %v; want %v/%d", res.sb, br, len(good))
		}
	case <-time.After(10 * time.Second):
		t.Fatal("timeout waiting for the valid upload")
	}
	// ... then the corrupt one reaches EOF and is refused.
	close(cr.release)
	select {
	case res := <-cres:
		if !errors.Is(res.err, blobserver.ErrCorruptBlob) {
			t.Fatalf("corrupt upload: err = %v; want ErrCorruptBlob", res.err)
		}
	case <-time.After(10 * time.Second):
		t.Fatal("timeout waiting for the corrupt upload")
	}

	rc, size, err := ds.Fetch(ctx, br)
	if err != nil {
		t.Fatalf("Fetch of %v after the valid upload succeeded: %v", br, err)
	}
	defer rc.Close()
	got, err := io.ReadAll(rc)
	if err != nil {
		t.Fatal(err)
	}
	if int(size) != len(good) || !bytes.Equal(got, good) {
		h := br.Hash()
		h.Write(got)
		t.Errorf("store serves %d bytes under %v that don't hash to it (HashMatches=%v; equal to the REJECTED upload's bytes: %v)",
			len(got), br, br.HashMatches(h), bytes.Equal(got, bad))
	}
}
