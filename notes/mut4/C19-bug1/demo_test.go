package server

import (
	"context"
	"errors"
	"io"
	"strings"
	"sync"
	"testing"
	"time"

	"go4.org/jsonconfig"
	"perkeep.org/pkg/blob"
	"perkeep.org/pkg/blobserver/memory"
	"perkeep.org/pkg/sorted"
	"perkeep.org/pkg/test"
)

// c19Bug1Queue is the "on disk" pending queue that survives the restart of
// the sync handler: every handler configured with the queue type below opens
// this very key/value store.
var c19Bug1Queue = sorted.NewMemoryKeyValue()

func init() {
	sorted.RegisterKeyValue("c19bug1queue", func(cfg jsonconfig.Obj) (sorted.KeyValue, error) {
		if err := cfg.Validate(); err != nil {
			return nil, err
		}
		return c19Bug1Queue, nil
	})
}

// c19FlakyDest is a destination whose first failFirst writes fail.
type c19FlakyDest struct {
	*memory.Storage
	mu        sync.Mutex
	failFirst int
	calls     int
}

func (d *c19FlakyDest) ReceiveBlob(ctx context.Context, br blob.Ref, r io.Reader) (blob.SizedRef, error) {
	d.mu.Lock()
	d.calls++
	fail := d.calls <= d.failFirst
	d.mu.Unlock()
	if fail {
		io.Copy(io.Discard, r)
		return blob.SizedRef{}, errors.New("c19 demo: transient destination failure")
	}
	return d.Storage.ReceiveBlob(ctx, br, r)
}

// A blob is still in the pending queue when the server goes down. The server
// comes back configured with "fullSyncOnStart", and the destination is flaky
// for a short while (its first two writes fail). Once the failures stop, the
// pending blob must reach the destination.
func TestC19Bug1PendingAtRestartWithFullSyncAndFlakyDest(t *testing.T) {
	ctx := context.Background()
	const contents = "c19 bug1: pending at shutdown"
	br := blob.RefFromString(contents)

	// State left by the previous run: the blob is on the source, and its
	// row is in the pending queue (the copy had not happened yet).
	src := &memory.Storage{}
	if _, err := src.ReceiveBlob(ctx, br, strings.NewReader(contents)); err != nil {
		t.Fatal(err)
	}
	if err := c19Bug1Queue.Set(br.String(), "29"); err != nil {
		t.Fatal(err)
	}
	if len(contents) != 29 {
		t.Fatalf("test bug: len = %d", len(contents))
	}

	dst := &c19FlakyDest{Storage: &memory.Storage{}, failFirst: 2}

	ld := test.NewLoader()
	ld.SetStorage("/src/", src)
	ld.SetStorage("/dst/", dst)

	// Restart.
	if _, err := newSyncFromConfig(ld, jsonconfig.Obj{
		"from":            "/src/",
		"to":              "/dst/",
		"fullSyncOnStart": true,
		"queue":           map[string]any{"type": "c19bug1queue"},
	}); err != nil {
		t.Fatal(err)
	}

	deadline := time.Now().Add(3*queueSyncInterval + 2*time.Second)
	for time.Now().Before(deadline) {
		rc, _, err := dst.Storage.Fetch(ctx, br)
		if err == nil {
			got, _ := io.ReadAll(rc)
			rc.Close()
			if string(got) != contents {
				t.Fatalf("destination has %q, want %q", got, contents)
			}
			// And the row must be gone eventually.
			for time.Now().Before(deadline) {
				if _, err := c19Bug1Queue.Get(br.String()); err != nil {
					return
				}
				time.Sleep(20 * time.Millisecond)
			}
			t.Fatalf("blob delivered but its queue row was never removed")
		}
		time.Sleep(50 * time.Millisecond)
	}
	dst.mu.Lock()
	calls := dst.calls
	dst.mu.Unlock()
	_, qerr := c19Bug1Queue.Get(br.String())
	t.Fatalf("blob %v pending at restart was never delivered (destination saw %d write attempts; queue row still present: %v)", br, calls, qerr == nil)
}
