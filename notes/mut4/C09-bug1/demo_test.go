package search_test

import (
	"fmt"
	"sort"
	"testing"

	"perkeep.org/pkg/blob"
	. "perkeep.org/pkg/search"
)

// mutC09Bug1Page follows the continuation tokens of a "-created" permanode
// query until there is no token left and returns all the results, in order.
func mutC09Bug1Page(t *testing.T, h *Handler, limit int) []blob.Ref {
	var got []blob.Ref
	cont := ""
	for page := 0; ; page++ {
		if page > 500 {
			t.Fatalf("limit %d: paging does not terminate", limit)
		}
		res, err := h.Query(ctxbg, &SearchQuery{
			Constraint: &Constraint{Permanode: &PermanodeConstraint{}},
			Sort:       CreatedDesc,
			Limit:      limit,
			Continue:   cont,
		})
		if err != nil {
			t.Fatalf("limit %d, page %d: %v", limit, page, err)
		}
		for _, b := range res.Blobs {
			got = append(got, b.Blob)
		}
		if res.Continue == "" {
			return got
		}
		cont = res.Continue
	}
}

// Many permanodes are created at the very same instant, but the instant is
// written in their dateCreated attribute with different (all valid RFC 3339)
// zone notations. Paging through them must return each of them exactly once.
func TestMutC09Bug1SameInstantDifferentZoneNotation(t *testing.T) {
	testQueryTypes(t, memIndexTypes, func(qt *queryTest) {
		id := qt.id
		notations := []string{
			"2013-05-05T12:00:00Z",
			"2013-05-05T14:00:00+02:00",
			"2013-05-05T07:00:00-05:00",
		}
		var all []blob.Ref
		for i := 0; i < 30; i++ {
			pn := id.NewPlannedPermanode(fmt.Sprintf("tied-%d", i))
			id.SetAttribute(pn, "dateCreated", notations[i%len(notations)])
			all = append(all, pn)
		}
		// One older and one newer permanode, for good measure.
		older := id.NewPlannedPermanode("older")
		id.SetAttribute(older, "dateCreated", "2013-05-05T11:59:59.999999999Z")
		newer := id.NewPlannedPermanode("newer")
		id.SetAttribute(newer, "dateCreated", "2013-05-05T12:00:00.000000001Z")

		// Newest first; for equal times, the greatest blobref first.
		sort.Slice(all, func(i, j int) bool { return all[j].Less(all[i]) })
		want := append([]blob.Ref{newer}, all...)
		want = append(want, older)

		h := qt.Handler()
		for _, limit := range []int{1, 2, 3, 7, 10, 31, 100} {
			got := mutC09Bug1Page(t, h, limit)
			seen := make(map[blob.Ref]int)
			for _, br := range got {
				seen[br]++
			}
			skipped, repeated := 0, 0
			for _, br := range want {
				switch n := seen[br]; {
				case n == 0:
					skipped++
				case n > 1:
					repeated++
				}
			}
			if skipped > 0 || repeated > 0 {
				t.Errorf("limit %d: %d of the %d permanodes were skipped, %d were returned more than once", limit, skipped, len(want), repeated)
				continue
			}
			if len(got) != len(want) {
				t.Errorf("limit %d: got %d results in total, want %d", limit, len(got), len(want))
				continue
			}
			for i := range want {
				if got[i] != want[i] {
					t.Errorf("limit %d: result %d is %v, want %v", limit, i, got[i], want[i])
					break
				}
			}
		}
	})
}
