package blob_test

import (
	"testing"

	"perkeep.org/pkg/blob"
)

// TestMutC20Bug2EqualStringNonHex checks, for refs of every supported hash,
// that replacing any single character of the text form by any other
// character (including non-hex ones such as 'g', 'A', '-') makes
// EqualString false, and HasPrefix false for the full-length string and
// for every prefix that extends past the replaced character.
func TestMutC20Bug2EqualStringNonHex(t *testing.T) {
	refs := []blob.Ref{
		blob.MustParse("sha1-da39a3ee5e6b4b0d3255bfef95601890afd80709"),
		blob.MustParse("sha224-d14a028c2a3a2bc9476102bb288234c415a2b01f828ea62ac5b3e42f"),
		blob.MustParse("sha256-e3b0c44298fc1c149afbf4c8996fb92427ae41e4649b934ca495991b7852b855"),
		blob.RefFromString("foo"),
		blob.RefFromString("hello world"),
	}
	const alphabet = "0123456789abcdefgzAF-/ \x00"
	for _, r := range refs {
		text := r.String()
		if !r.EqualString(text) || !r.HasPrefix(text) {
			t.Errorf("%v: EqualString/HasPrefix of own text form is false", r)
		}
		for pos := 0; pos < len(text); pos++ {
			for i := 0; i < len(alphabet); i++ {
				c := alphabet[i]
				if c == text[pos] {
					continue
				}
				mut := text[:pos] + string(c) + text[pos+1:]
				if r.EqualString(mut) {
					t.Errorf("%v.EqualString(%q) = true (pos %d, %q -> %q)", r, mut, pos, text[pos], c)
				}
				for n := pos + 1; n <= len(mut); n++ {
					if r.HasPrefix(mut[:n]) {
						t.Errorf("%v.HasPrefix(%q) = true (pos %d, %q -> %q)", r, mut[:n], pos, text[pos], c)
					}
				}
			}
		}
	}
}
