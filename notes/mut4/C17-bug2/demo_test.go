package server

import (
	"fmt"
	"testing"
	"time"

	"perkeep.org/pkg/blob"
	"perkeep.org/pkg/schema"
)

// A share claim that was deleted twice stays deleted when only the more
// recent of the two delete claims is itself deleted ("undeleted"): the
// older delete claim is still in force.
func TestMutC17ShareDeletedTwiceUndeletedOnce(t *testing.T) {
	st := newShareTesterIdx(t, true)
	defer st.done()

	content := "monkey" // the secret
	contentRef := blob.RefFromString(content)
	link := fmt.Sprintf(`{"camliVersion": 1,
"camliType": "file",
"parts": [
   {"blobRef": "%v", "size": %d}
]}`, contentRef, len(content))
	linkRef := blob.RefFromString(link)
	st.putRaw(contentRef, content)
	st.putRaw(linkRef, link)

	t0 := time.Now().Add(-time.Hour)
	sign := func(bb *schema.Builder, at time.Time) blob.Ref {
		signed, err := bb.SignAt(ctxbg, st.signer, at)
		if err != nil {
			t.Fatal(err)
		}
		ref := blob.RefFromString(signed)
		st.putRaw(ref, signed)
		return ref
	}

	shareRef := sign(schema.NewShareRef(schema.ShareHaveRef, true).SetShareTarget(linkRef), t0)
	paths := []string{
		shareRef.String(),
		fmt.Sprintf("%s?via=%s", linkRef, shareRef),
		fmt.Sprintf("%s?via=%s,%s", contentRef, shareRef, linkRef),
	}
	check := func(when string, want errorCode) {
		t.Helper()
		for _, p := range paths {
			got := st.get(p)
			switch {
			case want == noError && got != nil:
				t.Errorf("%s: fetching %s: error %v; want success", when, p, got)
			case want != noError && (got == nil || got.code != want):
				t.Errorf("%s: fetching %s: error = %v (HTTP %d); want %v", when, p, got, st.rec.Code, want)
			}
		}
	}
	check("fresh share", noError)

	del1 := sign(schema.NewDeleteClaim(shareRef), t0.Add(1*time.Minute))
	check("after first delete claim", shareDeleted)

	del2 := sign(schema.NewDeleteClaim(shareRef), t0.Add(2*time.Minute))
	check("after second delete claim", shareDeleted)

	// Undo the second (most recent) deletion only.
	undel2 := sign(schema.NewDeleteClaim(del2), t0.Add(3*time.Minute))
	check("after deleting the second delete claim (first still in force)", shareDeleted)

	// Undo the first deletion too: now the share is live again.
	sign(schema.NewDeleteClaim(del1), t0.Add(4*time.Minute))
	check("after deleting both delete claims", noError)

	// And deleting the undeletion of the second delete revives that delete.
	sign(schema.NewDeleteClaim(undel2), t0.Add(5*time.Minute))
	check("after deleting the undeletion", shareDeleted)
}
