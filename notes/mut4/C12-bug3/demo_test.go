package replica_test

import (
	"context"
	"fmt"
	"io"
	"strings"
	"sync"
	"testing"
	"time"

	"go4.org/jsonconfig"
	"perkeep.org/pkg/blob"
	"perkeep.org/pkg/blobserver"
	"perkeep.org/pkg/blobserver/localdisk"
	"perkeep.org/pkg/blobserver/memory"
	_ "perkeep.org/pkg/blobserver/replica"
	"perkeep.org/pkg/test"
)

// slowStorage is a replica that is slow for some blobs: for a blob that
// was registered with hold, ReceiveBlob only starts reading the data once
// the returned release func has been called.
type slowStorage struct {
	blobserver.Storage // a localdisk store, which like most stores trusts the replica layer's bytes
	mu    sync.Mutex
	gates map[blob.Ref]chan struct{}
	done  map[blob.Ref]chan struct{}
}

func (s *slowStorage) hold(br blob.Ref) (release func(), stored <-chan struct{}) {
	s.mu.Lock()
	defer s.mu.Unlock()
	if s.gates == nil {
		s.gates = make(map[blob.Ref]chan struct{})
		s.done = make(map[blob.Ref]chan struct{})
	}
	gate, done := make(chan struct{}), make(chan struct{})
	s.gates[br], s.done[br] = gate, done
	return func() { close(gate) }, done
}

func (s *slowStorage) ReceiveBlob(ctx context.Context, br blob.Ref, src io.Reader) (blob.SizedRef, error) {
	s.mu.Lock()
	gate, done := s.gates[br], s.done[br]
	s.mu.Unlock()
	if gate != nil {
		<-gate
		defer close(done)
	}
	return s.Storage.ReceiveBlob(ctx, br, src)
}

// TestMutStragglerStoresRightBytes: 2 replicas, minWritesForSuccess 1. Blob A
// is acknowledged as soon as the fast replica has it, while the slow replica
// has not yet read its copy. Then another blob B (of the same length) is
// received, and only then does the slow replica get to read and store A.
// Then the fast replica is "lost" (reads go to the slow one first): A must
// still be fetchable with its own bytes.
func TestMutStragglerStoresRightBytes(t *testing.T) {
	ctx := context.Background()
	fast := &memory.Storage{}
	disk, err := localdisk.New(t.TempDir())
	if err != nil {
		t.Fatal(err)
	}
	slow := &slowStorage{Storage: disk}
	ld := test.NewLoader()
	ld.SetStorage("/fast/", fast)
	ld.SetStorage("/slow/", slow)
	sto, err := blobserver.CreateStorage("replica", ld, jsonconfig.Obj{
		"backends":            []any{"/fast/", "/slow/"},
		"readBackends":        []any{"/slow/", "/fast/"},
		"minWritesForSuccess": float64(1),
	})
	if err != nil {
		t.Fatal(err)
	}

	// The reuse of memory that the regression depends on is up to the
	// runtime (sync.Pool), so do a number of rounds.
	const rounds = 40
	for i := range rounds {
		a := fmt.Sprintf("round %03d blob A %s", i, strings.Repeat("a", 100))
		b := fmt.Sprintf("round %03d blob B %s", i, strings.Repeat("b", 100))
		aRef, bRef := blob.RefFromString(a), blob.RefFromString(b)

		release, stored := slow.hold(aRef)
		if _, err := sto.ReceiveBlob(ctx, aRef, strings.NewReader(a)); err != nil {
			t.Fatalf("round %d: receive A: %v", i, err)
		}
		if _, err := sto.ReceiveBlob(ctx, bRef, strings.NewReader(b)); err != nil {
			t.Fatalf("round %d: receive B: %v", i, err)
		}
		release()
		select {
		case <-stored:
		case <-time.After(10 * time.Second):
			t.Fatalf("round %d: slow replica never finished storing A", i)
		}

		// The fast replica loses A; the slow one is all that's left.
		if err := fast.RemoveBlobs(ctx, []blob.Ref{aRef}); err != nil {
			t.Fatal(err)
		}
		if sb, err := blobserver.StatBlob(ctx, sto, aRef); err != nil || int(sb.Size) != len(a) {
			t.Fatalf("round %d: stat of A on the replica set = %v, %v; the slow replica should hold it", i, sb, err)
		}
		rc, _, err := sto.Fetch(ctx, aRef)
		if err != nil {
			t.Fatalf("round %d: A is held by the slow replica, but Fetch: %v", i, err)
		}
		got, err := io.ReadAll(rc)
		rc.Close()
		if err != nil {
			t.Fatal(err)
		}
		if string(got) != a {
			t.Fatalf("round %d: after losing the fast replica, fetching %v from the replica set returns other bytes:\n got %q\nwant %q", i, aRef, got, a)
		}
	}
}
