package blobpacked

import (
	"bytes"
	"context"
	"errors"
	"io"
	"math/rand"
	"strings"
	"testing"

	"perkeep.org/pkg/blob"
	"perkeep.org/pkg/blobserver"
	"perkeep.org/pkg/schema"
	"perkeep.org/pkg/sorted"
	"perkeep.org/pkg/test"
)

// mut1CrashKV is a meta index on which the single-row Set of the final
// "w:<wholeref>" row fails while armed: the pack "crashes" right before
// its last write (all zips stored, all meta batches committed, all loose
// blobs deleted).
type mut1CrashKV struct {
	sorted.KeyValue
	armed bool
}

func (kv *mut1CrashKV) Set(key, value string) error {
	if kv.armed && strings.HasPrefix(key, wholeMetaPrefix) {
		return errors.New("simulated crash before the final whole-file row")
	}
	return kv.KeyValue.Set(key, value)
}

func mut1ReadWhole(t *testing.T, sto *storage, wholeRef blob.Ref, want []byte, when string) {
	t.Helper()
	rc, size, err := sto.OpenWholeRef(wholeRef, 0)
	if err != nil {
		t.Errorf("%s: OpenWholeRef = %v", when, err)
		return
	}
	defer rc.Close()
	if size != int64(len(want)) {
		t.Errorf("%s: OpenWholeRef size = %d; want %d", when, size, len(want))
	}
	got, err := io.ReadAll(rc)
	if err != nil {
		t.Errorf("%s: reading whole file: %v", when, err)
		return
	}
	if !bytes.Equal(got, want) {
		t.Errorf("%s: whole file contents differ (got %d bytes, want %d)", when, len(got), len(want))
	}
}

func mut1CheckBlobs(t *testing.T, sto *storage, logical *test.Fetcher, when string) {
	t.Helper()
	ctx := context.Background()
	seen := map[blob.Ref]int{}
	if err := blobserver.EnumerateAll(ctx, sto, func(sb blob.SizedRef) error {
		seen[sb.Ref]++
		return nil
	}); err != nil {
		t.Fatalf("%s: enumerate: %v", when, err)
	}
	n := 0
	if err := blobserver.EnumerateAll(ctx, logical, func(sb blob.SizedRef) error {
		n++
		if seen[sb.Ref] != 1 {
			t.Errorf("%s: blob %v enumerated %d times; want once", when, sb.Ref, seen[sb.Ref])
		}
		rc, size, err := sto.Fetch(ctx, sb.Ref)
		if err != nil {
			t.Errorf("%s: fetch %v: %v", when, sb.Ref, err)
			return nil
		}
		defer rc.Close()
		h := sb.Ref.Hash()
		nc, _ := io.Copy(h, rc)
		if size != sb.Size || nc != int64(sb.Size) || !sb.Ref.HashMatches(h) {
			t.Errorf("%s: blob %v fetched wrong (size %d, read %d, want %d)", when, sb.Ref, size, nc, sb.Size)
		}
		return nil
	}); err != nil {
		t.Fatal(err)
	}
	if len(seen) != n {
		t.Errorf("%s: enumerated %d blobs; want %d", when, len(seen), n)
	}
}

// The same contents are uploaded under two names. The pack of the first
// one is interrupted right before its final whole-file row, so that the
// second upload (after the restart) packs the contents again, into a
// second zip for the same wholeref and part index. The whole file is
// served. Then the meta index is rebuilt from the zips alone (fast, then
// full recovery): the whole file must be served identically afterwards.
func TestMut1RecoveryWithDuplicateZips(t *testing.T) {
	ctx := context.Background()
	const fileSize = 1 << 20
	contents := make([]byte, fileSize)
	rand.New(rand.NewSource(4242)).Read(contents)
	wholeRef := blob.RefFromBytes(contents)

	logical := new(test.Fetcher)
	for _, name := range []string{"a.txt", "b.txt"} {
		if _, err := schema.WriteFileFromReader(ctx, logical, name, bytes.NewReader(contents)); err != nil {
			t.Fatal(err)
		}
	}

	small, large := new(test.Fetcher), new(test.Fetcher)
	kv := &mut1CrashKV{KeyValue: sorted.NewMemoryKeyValue(), armed: true}
	newSto := func() *storage {
		s := &storage{
			small: small,
			large: large,
			meta:  kv,
			log:   test.NewLogger(t, "blobpacked: "),
		}
		s.init()
		return s
	}

	sto := newSto()
	if _, err := schema.WriteFileFromReader(ctx, sto, "a.txt", bytes.NewReader(contents)); err != nil {
		t.Fatal(err)
	}
	if large.NumBlobs() != 1 {
		t.Fatalf("after the first (interrupted) pack: %d zips; want 1", large.NumBlobs())
	}
	if _, err := kv.Get(wholeMetaPrefix + wholeRef.String()); !errors.Is(err, sorted.ErrNotFound) {
		t.Fatalf("final whole-file row after the interrupted pack: err = %v; want not found", err)
	}

	// Restart, without recovery.
	kv.armed = false
	sto = newSto()
	if _, err := schema.WriteFileFromReader(ctx, sto, "b.txt", bytes.NewReader(contents)); err != nil {
		t.Fatal(err)
	}
	if large.NumBlobs() != 2 {
		t.Fatalf("after the second pack: %d zips; want 2", large.NumBlobs())
	}
	mut1ReadWhole(t, sto, wholeRef, contents, "before recovery")
	mut1CheckBlobs(t, sto, logical, "before recovery")
	if t.Failed() {
		t.FailNow()
	}

	// Fast recovery: reindex over the existing meta.
	sto = newSto()
	if err := sto.reindex(ctx, func() (sorted.KeyValue, error) { return kv, nil }); err != nil {
		t.Fatalf("fast reindex: %v", err)
	}
	mut1ReadWhole(t, sto, wholeRef, contents, "after fast recovery")
	mut1CheckBlobs(t, sto, logical, "after fast recovery")

	// Full recovery: the meta is rebuilt from the zips alone.
	sto = newSto()
	if err := sto.reindex(ctx, func() (sorted.KeyValue, error) { return sorted.NewMemoryKeyValue(), nil }); err != nil {
		t.Fatalf("full reindex: %v", err)
	}
	mut1ReadWhole(t, sto, wholeRef, contents, "after full recovery")
	mut1CheckBlobs(t, sto, logical, "after full recovery")
}
