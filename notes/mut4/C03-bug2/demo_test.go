package diskpacked

// Demonstration for MUT/bug2: the process dies while a blob is being removed,
// right after the blob's data was zeroed/punched. The pack files as they are
// on disk at that instant, alone, must rebuild an index in which every blob
// that is listed can be fetched back intact.

import (
	"context"
	"io"
	"os"
	"path/filepath"
	"strings"
	"testing"

	"perkeep.org/pkg/blob"
	"perkeep.org/pkg/test"
)

func mutCopyPacks(t *testing.T, from, to string) {
	t.Helper()
	names, err := filepath.Glob(filepath.Join(from, "pack-*.blobs"))
	if err != nil || len(names) == 0 {
		t.Fatalf("no pack files in %s (%v)", from, err)
	}
	for _, name := range names {
		data, err := os.ReadFile(name)
		if err != nil {
			t.Fatal(err)
		}
		if err := os.WriteFile(filepath.Join(to, filepath.Base(name)), data, 0600); err != nil {
			t.Fatal(err)
		}
	}
}

func TestMutCrashWhileRemoving(t *testing.T) {
	ctx := context.Background()
	dir := t.TempDir()
	s, err := newStorage(dir, 1<<20, nil)
	if err != nil {
		t.Fatal(err)
	}
	defer s.Close()

	var (
		A = &test.Blob{Contents: strings.Repeat("first blob, stays. ", 50)}
		B = &test.Blob{Contents: strings.Repeat("second blob, is being removed. ", 300)}
		C = &test.Blob{Contents: strings.Repeat("third blob, stays. ", 70)}
	)
	for _, tb := range []*test.Blob{A, B, C} {
		if _, err := s.ReceiveBlob(ctx, tb.BlobRef(), tb.Reader()); err != nil {
			t.Fatal(err)
		}
	}

	// The crash images: the pack files right before and right after the
	// data of B is released.
	before, after := t.TempDir(), t.TempDir()
	origPunch := punchHole
	defer func() { punchHole = origPunch }()
	punchHole = func(f *os.File, offset, size int64) error {
		mutCopyPacks(t, dir, before)
		// Same effect as a hole, on any file system.
		if _, err := f.WriteAt(make([]byte, size), offset); err != nil {
			return err
		}
		mutCopyPacks(t, dir, after)
		return nil
	}
	if err := s.RemoveBlobs(ctx, []blob.Ref{B.BlobRef()}); err != nil {
		t.Fatalf("RemoveBlobs: %v", err)
	}
	punchHole = origPunch

	for _, img := range []struct{ name, dir string }{
		{"crash right before the data of B is zeroed", before},
		{"crash right after the data of B is zeroed", after},
	} {
		// Restart after the crash; the index is rebuilt from the packs alone.
		if err := Reindex(ctx, img.dir, true, nil); err != nil {
			t.Errorf("%s: Reindex: %v", img.name, err)
			continue
		}
		rs, err := newStorage(img.dir, 1<<20, nil)
		if err != nil {
			t.Errorf("%s: reopen: %v", img.name, err)
			continue
		}
		dest := make(chan blob.SizedRef, 10)
		if err := rs.EnumerateBlobs(ctx, dest, "", 10); err != nil {
			t.Errorf("%s: enumerate: %v", img.name, err)
		}
		listed := map[blob.Ref]bool{}
		for sb := range dest {
			listed[sb.Ref] = true
			rc, _, err := rs.Fetch(ctx, sb.Ref)
			if err != nil {
				t.Errorf("%s: fetch of listed blob %v: %v", img.name, sb.Ref, err)
				continue
			}
			data, err := io.ReadAll(rc)
			rc.Close()
			if err != nil || blob.RefFromBytes(data) != sb.Ref || len(data) != int(sb.Size) {
				t.Errorf("%s: after a reindex from the packs, blob %v (size %d) is presented as stored but its content is damaged (%d bytes, all zero: %v, read err %v)",
					img.name, sb.Ref, sb.Size, len(data), strings.Trim(string(data), "\x00") == "", err)
			}
		}
		for _, tb := range []*test.Blob{A, C} {
			if !listed[tb.BlobRef()] {
				t.Errorf("%s: acknowledged blob %v is missing after the reindex", img.name, tb.BlobRef())
			}
		}
		rs.Close()
	}
}
