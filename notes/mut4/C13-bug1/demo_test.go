package diskpacked

import (
	"io"
	"os"
	"path/filepath"
	"strings"
	"testing"
	"time"

	"go4.org/jsonconfig"
	"perkeep.org/pkg/blobserver"
	"perkeep.org/pkg/test"
)

// TestMutC13RollOverOpenFailure makes the roll-over to the next pack file
// fail transiently at the point where the pack file itself is opened (its
// lock file can be taken, the data file can't be opened: its name is taken
// by a directory). Once the obstacle is gone, the store has to accept and
// serve blobs again.
func TestMutC13RollOverOpenFailure(t *testing.T) {
	dir, err := os.MkdirTemp("", "diskpacked-mutc13")
	if err != nil {
		t.Fatal(err)
	}
	defer os.RemoveAll(dir)

	const maxFileSize = 100
	s, err := newStorage(dir, maxFileSize, jsonconfig.Obj{"type": "memory"})
	if err != nil {
		t.Fatal(err)
	}
	defer s.Close()

	// The transient fault: pack-00001.blobs can't be opened for writing.
	obstacle := filepath.Join(dir, "pack-00001.blobs")
	if err := os.Mkdir(obstacle, 0700); err != nil {
		t.Fatal(err)
	}

	// A fills pack 0 beyond maxFileSize, so its receive rolls over.
	a := &test.Blob{Contents: strings.Repeat("a", 2*maxFileSize)}
	_, errA := blobserver.Receive(ctxbg, s, a.BlobRef(), a.Reader())
	t.Logf("receive of A during the fault: %v", errA)
	if errA == nil {
		t.Fatalf("expected the roll-over to fail while %s is a directory", obstacle)
	}

	// The fault is over.
	if err := os.Remove(obstacle); err != nil {
		t.Fatal(err)
	}

	// From now on everything has to work again, in bounded time.
	done := make(chan error, 1)
	b := &test.Blob{Contents: strings.Repeat("b", 10)}
	c := &test.Blob{Contents: strings.Repeat("c", 10)}
	go func() {
		for _, tb := range []*test.Blob{b, c} {
			if _, err := blobserver.Receive(ctxbg, s, tb.BlobRef(), tb.Reader()); err != nil {
				done <- err
				return
			}
		}
		done <- nil
	}()
	select {
	case err := <-done:
		if err != nil {
			t.Fatalf("receive after the fault is over still fails: %v", err)
		}
	case <-time.After(10 * time.Second):
		t.Fatal("receive after the fault is over hangs")
	}

	for _, tb := range []*test.Blob{b, c} {
		rc, _, err := s.Fetch(ctxbg, tb.BlobRef())
		if err != nil {
			t.Fatalf("fetch of %v: %v", tb.BlobRef(), err)
		}
		got, err := io.ReadAll(rc)
		rc.Close()
		if err != nil || string(got) != tb.Contents {
			t.Fatalf("fetch of %v = %q, %v; want %q", tb.BlobRef(), got, err, tb.Contents)
		}
	}

	// And the store can be rebuilt from its pack files.
	if err := s.Close(); err != nil {
		t.Fatalf("Close: %v", err)
	}
	if err := Reindex(ctxbg, dir, true, nil); err != nil {
		t.Fatalf("Reindex: %v", err)
	}
}
