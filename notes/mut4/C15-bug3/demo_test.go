package schema_test

import (
	"context"
	"fmt"
	"testing"

	"perkeep.org/pkg/blob"
	"perkeep.org/pkg/schema"
	"perkeep.org/pkg/test"
)

// TestMutC15BigDirDefaultThreshold writes directories of 15000 and 20000
// members with the DEFAULT static-set splitting threshold and lists them
// back: the listing must be exactly the original members, in order.
func TestMutC15BigDirDefaultThreshold(t *testing.T) {
	for _, n := range []int{15000, 20000} {
		t.Run(fmt.Sprint(n), func(t *testing.T) {
			defer func() {
				if e := recover(); e != nil {
					t.Fatalf("directory of %d members: panic: %v", n, e)
				}
			}()
			ctx := context.Background()
			sto := new(test.Fetcher)
			members := make([]blob.Ref, n)
			for i := range members {
				members[i] = blob.RefFromString(fmt.Sprintf("member-%d", i))
			}
			ssb := schema.NewStaticSet()
			subsets := ssb.SetStaticSetMembers(members)
			top := ssb.Blob()
			for _, b := range append(subsets, top) {
				if len(b.JSON()) > schema.MaxSchemaBlobSize {
					t.Errorf("static-set blob %v is %d bytes, over MaxSchemaBlobSize", b.BlobRef(), len(b.JSON()))
				}
				sto.AddBlob(&test.Blob{Contents: b.JSON()})
			}
			dir := schema.NewDirMap("big").PopulateDirectoryMap(top.BlobRef()).Blob()
			sto.AddBlob(&test.Blob{Contents: dir.JSON()})

			dr, err := schema.NewDirReader(ctx, sto, dir.BlobRef())
			if err != nil {
				t.Fatal(err)
			}
			got, err := dr.StaticSet(ctx)
			if err != nil {
				t.Fatalf("listing a directory of %d members: %v", n, err)
			}
			if len(got) != len(members) {
				t.Fatalf("listed %d members; want %d", len(got), len(members))
			}
			for i := range got {
				if got[i] != members[i] {
					t.Fatalf("member %d = %v; want %v", i, got[i], members[i])
				}
			}
		})
	}
}
