package blobpacked

// Demonstration for MUT/bug1: a complete, paged enumeration over the HTTP
// blob protocol of a blobpacked store that holds both loose and packed blobs
// must list every uploaded blob exactly once, for any page size.

import (
	"bytes"
	"context"
	"encoding/json"
	"fmt"
	"io"
	"log"
	"math/rand"
	"net/http"
	"net/http/httptest"
	"net/url"
	"sort"
	"strings"
	"testing"

	"perkeep.org/pkg/blob"
	"perkeep.org/pkg/blobserver"
	"perkeep.org/pkg/blobserver/handlers"
	"perkeep.org/pkg/blobserver/memory"
	"perkeep.org/pkg/schema"
	"perkeep.org/pkg/sorted"
)

// mutHTTPSto is a minimal blobserver.StatReceiver speaking only the HTTP
// blob protocol (PUT upload, batch stat) to the server at base.
type mutHTTPSto struct {
	t    *testing.T
	base string
	sent map[blob.Ref]uint32
}

func (h *mutHTTPSto) ReceiveBlob(ctx context.Context, br blob.Ref, src io.Reader) (blob.SizedRef, error) {
	data, err := io.ReadAll(src)
	if err != nil {
		return blob.SizedRef{}, err
	}
	req, err := http.NewRequest("PUT", h.base+"/camli/"+br.String(), bytes.NewReader(data))
	if err != nil {
		return blob.SizedRef{}, err
	}
	res, err := http.DefaultClient.Do(req)
	if err != nil {
		return blob.SizedRef{}, err
	}
	defer res.Body.Close()
	if res.StatusCode != http.StatusNoContent {
		return blob.SizedRef{}, fmt.Errorf("PUT %v: status %d", br, res.StatusCode)
	}
	h.sent[br] = uint32(len(data))
	return blob.SizedRef{Ref: br, Size: uint32(len(data))}, nil
}

func (h *mutHTTPSto) StatBlobs(ctx context.Context, blobs []blob.Ref, fn func(blob.SizedRef) error) error {
	form := url.Values{"camliversion": {"1"}}
	for i, br := range blobs {
		form.Set(fmt.Sprintf("blob%d", i+1), br.String())
	}
	res, err := http.PostForm(h.base+"/camli/stat", form)
	if err != nil {
		return err
	}
	defer res.Body.Close()
	if res.StatusCode != 200 {
		return fmt.Errorf("stat: status %d", res.StatusCode)
	}
	var sr struct {
		Stat []blob.SizedRef `json:"stat"`
	}
	if err := json.NewDecoder(res.Body).Decode(&sr); err != nil {
		return err
	}
	for _, sb := range sr.Stat {
		if err := fn(sb); err != nil {
			return err
		}
	}
	return nil
}

func mutEnumerateAll(t *testing.T, base string, limit int) []blob.SizedRef {
	var all []blob.SizedRef
	after := ""
	for page := 0; ; page++ {
		if page > 10000 {
			t.Fatalf("limit=%d: enumeration doesn't terminate", limit)
		}
		res, err := http.Get(fmt.Sprintf("%s/camli/enumerate-blobs?after=%s&limit=%d", base, url.QueryEscape(after), limit))
		if err != nil {
			t.Fatal(err)
		}
		var er struct {
			Blobs         []blob.SizedRef `json:"blobs"`
			ContinueAfter string          `json:"continueAfter"`
		}
		err = json.NewDecoder(res.Body).Decode(&er)
		res.Body.Close()
		if err != nil {
			t.Fatalf("limit=%d after=%q: bad enumerate response: %v", limit, after, err)
		}
		if len(er.Blobs) > limit {
			t.Fatalf("limit=%d after=%q: got %d blobs in one page", limit, after, len(er.Blobs))
		}
		all = append(all, er.Blobs...)
		if er.ContinueAfter == "" {
			return all
		}
		after = er.ContinueAfter
	}
}

func TestMutHTTPEnumeratePackedAndLoose(t *testing.T) {
	sto := &storage{
		small: new(memory.Storage),
		large: new(memory.Storage),
		meta:  sorted.NewMemoryKeyValue(),
		log:   log.New(io.Discard, "", 0),
	}
	sto.init()

	ts := httptest.NewServer(http.HandlerFunc(func(rw http.ResponseWriter, req *http.Request) {
		action := strings.TrimPrefix(req.URL.Path, "/camli/")
		switch {
		case req.Method == "PUT":
			handlers.CreatePutUploadHandler(sto).ServeHTTP(rw, req)
		case action == "stat":
			handlers.CreateStatHandler(sto).ServeHTTP(rw, req)
		case action == "enumerate-blobs":
			handlers.CreateEnumerateHandler(sto).ServeHTTP(rw, req)
		default:
			handlers.CreateGetHandler(sto).ServeHTTP(rw, req)
		}
	}))
	defer ts.Close()

	ctx := context.Background()
	hs := &mutHTTPSto{t: t, base: ts.URL, sent: map[blob.Ref]uint32{}}

	// Some loose blobs...
	for i := 0; i < 40; i++ {
		if _, err := blobserver.ReceiveString(ctx, hs, fmt.Sprintf("loose blob %d", i)); err != nil {
			t.Fatal(err)
		}
	}
	// ... and a file big enough to be packed once its schema blob arrives.
	fileData := make([]byte, 2<<20)
	rand.New(rand.NewSource(18)).Read(fileData)
	if _, err := schema.WriteFileFromReader(ctx, hs, "big.bin", bytes.NewReader(fileData)); err != nil {
		t.Fatal(err)
	}
	if n := sto.large.(*memory.Storage).NumBlobs(); n == 0 {
		t.Fatal("test setup: the file wasn't packed")
	}
	nPacked := 0
	for br := range hs.sent {
		if m, err := sto.getMetaRow(br); err == nil && m.isPacked() {
			nPacked++
		}
	}
	t.Logf("uploaded %d blobs over HTTP, %d of them now packed", len(hs.sent), nPacked)

	var want []blob.SizedRef
	for br, size := range hs.sent {
		want = append(want, blob.SizedRef{Ref: br, Size: size})
	}
	sort.Slice(want, func(i, j int) bool { return want[i].Ref.String() < want[j].Ref.String() })

	for _, limit := range []int{1, 2, 3, 5, 7, 16, 1000} {
		got := mutEnumerateAll(t, ts.URL, limit)
		seen := map[blob.Ref]int{}
		for i, sb := range got {
			seen[sb.Ref]++
			if i > 0 && !(got[i-1].Ref.String() < sb.Ref.String()) {
				t.Errorf("limit=%d: enumeration not strictly sorted at %d: %v then %v", limit, i, got[i-1].Ref, sb.Ref)
			}
		}
		missing := 0
		for _, sb := range want {
			switch n := seen[sb.Ref]; {
			case n == 0:
				missing++
				if missing <= 3 {
					t.Errorf("limit=%d: uploaded blob %v is missing from the complete enumeration", limit, sb.Ref)
				}
			case n > 1:
				t.Errorf("limit=%d: blob %v enumerated %d times", limit, sb.Ref, n)
			}
		}
		if len(got) != len(want) {
			t.Errorf("limit=%d: complete enumeration has %d blobs; want %d (%d missing)", limit, len(got), len(want), missing)
		}
	}
}
