package client_test

// Demonstration for MUT/bug3: pkg/client must deliver a complete, sorted,
// duplicate-free enumeration of everything it uploaded, with and without
// the long-poll option (EnumerateOpts.MaxWait), also when the listing
// doesn't fit in one enumerate page (1000 blobs).

import (
	"context"
	"fmt"
	"io"
	"log"
	"net/http"
	"net/http/httptest"
	"strings"
	"testing"
	"time"

	"perkeep.org/pkg/blob"
	"perkeep.org/pkg/blobserver"
	"perkeep.org/pkg/blobserver/handlers"
	"perkeep.org/pkg/blobserver/memory"
	"perkeep.org/pkg/client"
)

type mutStorageAndConfig struct {
	blobserver.Storage
	config *blobserver.Config
}

func (s *mutStorageAndConfig) Config() *blobserver.Config { return s.config }

func mutEnumerate(t *testing.T, c *client.Client, opts client.EnumerateOpts) ([]blob.SizedRef, error) {
	ch := make(chan blob.SizedRef)
	errc := make(chan error, 1)
	go func() { errc <- c.EnumerateBlobsOpts(context.Background(), ch, opts) }()
	var got []blob.SizedRef
	for sb := range ch {
		got = append(got, sb)
	}
	return got, <-errc
}

func TestMutClientEnumerateLongPollPaging(t *testing.T) {
	origLog := log.Writer()
	log.SetOutput(io.Discard) // the upload handler logs every blob
	defer log.SetOutput(origLog)

	sto := &mutStorageAndConfig{
		Storage: new(memory.Storage),
		config:  &blobserver.Config{Writable: true, Readable: true, CanLongPoll: true},
	}
	ts := httptest.NewServer(http.HandlerFunc(func(rw http.ResponseWriter, req *http.Request) {
		action := strings.TrimPrefix(req.URL.Path, "/bs/camli/")
		switch {
		case req.Method == "POST" && action == "upload":
			handlers.CreateBatchUploadHandler(sto).ServeHTTP(rw, req)
		case action == "stat":
			handlers.CreateStatHandler(sto).ServeHTTP(rw, req)
		case action == "enumerate-blobs":
			handlers.CreateEnumerateHandler(sto).ServeHTTP(rw, req)
		default:
			handlers.CreateGetHandler(sto).ServeHTTP(rw, req)
		}
	}))
	defer ts.Close()

	c, err := client.New(client.OptionServer(ts.URL+"/bs"), client.OptionNoExternalConfig())
	if err != nil {
		t.Fatal(err)
	}
	defer c.Close()
	c.Logger = log.New(io.Discard, "", 0)
	ctx := context.Background()

	for _, nBlobs := range []int{10, 1000, 1500} {
		// Upload (through the client) until the server holds nBlobs blobs.
		want := map[blob.Ref]uint32{}
		for i := 0; i < nBlobs; i++ {
			data := fmt.Sprintf("client enumerate blob %d", i)
			want[blob.RefFromString(data)] = uint32(len(data))
		}
		for i := 0; i < nBlobs; i++ {
			data := fmt.Sprintf("client enumerate blob %d", i)
			br := blob.RefFromString(data)
			if _, err := c.ReceiveBlob(ctx, br, strings.NewReader(data)); err != nil {
				t.Fatalf("upload %d: %v", i, err)
			}
		}

		for _, opts := range []client.EnumerateOpts{
			{},
			{MaxWait: time.Second},
			{MaxWait: 2500 * time.Millisecond},
		} {
			name := fmt.Sprintf("%d blobs, MaxWait=%v", nBlobs, opts.MaxWait)
			t0 := time.Now()
			got, err := mutEnumerate(t, c, opts)
			if err != nil {
				t.Errorf("%s: enumerate error after %d blobs: %v", name, len(got), err)
			}
			if d := time.Since(t0); d > 900*time.Millisecond {
				t.Errorf("%s: took %v although the store is not empty", name, d)
			}
			seen := map[blob.Ref]bool{}
			for i, sb := range got {
				if seen[sb.Ref] {
					t.Errorf("%s: %v enumerated twice", name, sb.Ref)
				}
				seen[sb.Ref] = true
				if i > 0 && !(got[i-1].Ref.String() < sb.Ref.String()) {
					t.Errorf("%s: not sorted at %d", name, i)
				}
				if size, ok := want[sb.Ref]; !ok {
					t.Errorf("%s: unexpected blob %v", name, sb.Ref)
				} else if size != sb.Size {
					t.Errorf("%s: %v size = %d; want %d", name, sb.Ref, sb.Size, size)
				}
			}
			if len(seen) != len(want) {
				t.Errorf("%s: complete enumeration returned %d of the %d uploaded blobs", name, len(seen), len(want))
			}
		}
	}
}
