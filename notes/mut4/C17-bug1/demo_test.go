package serverinit_test

import (
	"net/http"
	"net/http/httptest"
	"strings"
	"testing"

	"perkeep.org/pkg/auth"
	"perkeep.org/pkg/serverinit"

	_ "perkeep.org/pkg/blobserver/memory"
	_ "perkeep.org/pkg/server"
)

// A low-level configuration whose root handler runs in "stealth" mode
// must still refuse discovery (which discloses the all-powerful auth
// token) to requests without credentials.
func TestMutC17StealthRootDiscovery(t *testing.T) {
	t.Setenv("CAMLI_CONFIG_DIR", "whatever")
	for _, stealth := range []string{"false", "true"} {
		conf, err := serverinit.Load([]byte(`{
	"handlerConfig": true,
	"auth": "userpass:alice:secret",
	"baseURL": "http://pk.example.com",
	"prefixes": {
		"/": {
			"handler": "root",
			"handlerArgs": {
				"stealth": ` + stealth + `,
				"blobRoot": "/bs/"
			}
		},
		"/bs/": {
			"handler": "storage-memory"
		}
	}
}`))
		if err != nil {
			t.Fatal(err)
		}
		mux := http.NewServeMux()
		if _, err := conf.InstallHandlers(mux, "http://pk.example.com"); err != nil {
			t.Fatal(err)
		}
		token := auth.Token()

		type reqSpec struct {
			method, target, accept string
		}
		for _, rs := range []reqSpec{
			{"GET", "/?camli.mode=config", ""},
			{"GET", "/", "text/x-camli-configuration"},
		} {
			req := httptest.NewRequest(rs.method, "http://pk.example.com"+rs.target, nil)
			req.RemoteAddr = "203.0.113.7:40000" // not localhost
			if rs.accept != "" {
				req.Header.Set("Accept", rs.accept)
			}
			rec := httptest.NewRecorder()
			mux.ServeHTTP(rec, req)
			body := rec.Body.String()
			if strings.Contains(body, token) || strings.Contains(body, "authToken") || strings.Contains(body, "blobRoot") {
				t.Errorf("stealth=%s: unauthenticated %s %s (Accept %q) got the discovery document (code %d):\n%s",
					stealth, rs.method, rs.target, rs.accept, rec.Code, body)
			}
			if stealth == "false" && rec.Code != http.StatusUnauthorized {
				t.Errorf("stealth=false: unauthenticated %s %s: code %d, want 401", rs.method, rs.target, rec.Code)
			}
		}

		// With credentials discovery is served in both modes.
		req := httptest.NewRequest("GET", "http://pk.example.com/?camli.mode=config", nil)
		req.RemoteAddr = "203.0.113.7:40000"
		req.SetBasicAuth("alice", "secret")
		rec := httptest.NewRecorder()
		mux.ServeHTTP(rec, req)
		if rec.Code != 200 || !strings.Contains(rec.Body.String(), token) {
			t.Errorf("stealth=%s: authenticated discovery: code %d, body %q", stealth, rec.Code, rec.Body.String())
		}
	}
}
