package overlay

import (
	"errors"
	"os"
	"testing"

	"perkeep.org/pkg/blob"
	"perkeep.org/pkg/blobserver"
	"perkeep.org/pkg/blobserver/storagetest"
	"perkeep.org/pkg/test"
)

// TestMutC01StatAfterRemoveOfLowerBlob removes, through the overlay, a blob
// that lives in the (read-only) lower layer. After that the blob must be
// absent for every operation -- Fetch, EnumerateBlobs and StatBlobs -- until
// it is received again.
func TestMutC01StatAfterRemoveOfLowerBlob(t *testing.T) {
	ctx := t.Context()
	sto, lower := newOverlayWithLower(t, true)

	L0 := &test.Blob{Contents: "lower blob 0"}
	L1 := &test.Blob{Contents: "lower blob 1"}
	U := &test.Blob{Contents: "upper blob"}
	L0.MustUpload(t, lower)
	L1.MustUpload(t, lower)
	U.MustUpload(t, sto)
	all := []*test.Blob{L0, L1, U}

	check := func(when string, present ...*test.Blob) {
		t.Helper()
		want := map[blob.Ref]blob.SizedRef{}
		var wantList []blob.SizedRef
		for _, tb := range present {
			want[tb.BlobRef()] = tb.SizedRef()
			wantList = append(wantList, tb.SizedRef())
		}
		if err := storagetest.CheckEnumerate(sto, wantList); err != nil {
			t.Errorf("%s: %v", when, err)
		}
		var refs []blob.Ref
		for _, tb := range all {
			refs = append(refs, tb.BlobRef())
			_, isPresent := want[tb.BlobRef()]
			rc, _, err := sto.Fetch(ctx, tb.BlobRef())
			if err == nil {
				rc.Close()
			}
			if isPresent && err != nil {
				t.Errorf("%s: Fetch(%q): %v; want it present", when, tb.Contents, err)
			}
			if !isPresent && !errors.Is(err, os.ErrNotExist) {
				t.Errorf("%s: Fetch(%q) = %v; want os.ErrNotExist", when, tb.Contents, err)
			}
			// single stat
			_, err = blobserver.StatBlob(ctx, sto, tb.BlobRef())
			if isPresent && err != nil {
				t.Errorf("%s: StatBlob(%q): %v; want it present", when, tb.Contents, err)
			}
			if !isPresent && err == nil {
				t.Errorf("%s: StatBlob(%q) reports the blob; want it absent (Fetch and EnumerateBlobs don't have it)", when, tb.Contents)
			}
		}
		// batch stat
		got, err := blobserver.StatBlobs(ctx, sto, refs)
		if err != nil {
			t.Fatalf("%s: StatBlobs: %v", when, err)
		}
		for _, tb := range all {
			sb, ok := got[tb.BlobRef()]
			wantSB, wantOK := want[tb.BlobRef()]
			if ok != wantOK || sb != wantSB {
				t.Errorf("%s: StatBlobs(all)[%q] = %v, %v; want %v, %v", when, tb.Contents, sb, ok, wantSB, wantOK)
			}
		}
	}

	check("at start", L0, L1, U)

	if err := sto.RemoveBlobs(ctx, []blob.Ref{L0.BlobRef()}); err != nil {
		t.Fatal(err)
	}
	check("after removing a lower blob", L1, U)

	if err := sto.RemoveBlobs(ctx, []blob.Ref{U.BlobRef()}); err != nil {
		t.Fatal(err)
	}
	check("after removing an upper blob too", L1)

	L0.MustUpload(t, sto)
	check("after receiving the lower blob again", L0, L1)
}
