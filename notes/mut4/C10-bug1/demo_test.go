package sorted_test

import (
	"errors"
	"path/filepath"
	"testing"

	"perkeep.org/pkg/sorted"
	"perkeep.org/pkg/sorted/kvfile"
)

// A batch that sets and then deletes a key which ALREADY exists in the store
// must leave the key deleted: the batch is applied in order as one unit.
func TestMut4C10Bug1BatchSetThenDelete(t *testing.T) {
	stores := map[string]func(t *testing.T) sorted.KeyValue{
		"memory": func(t *testing.T) sorted.KeyValue { return sorted.NewMemoryKeyValue() },
		"kvfile": func(t *testing.T) sorted.KeyValue {
			kv, err := kvfile.NewStorage(filepath.Join(t.TempDir(), "db.kv"))
			if err != nil {
				t.Fatal(err)
			}
			return kv
		},
	}
	for name, mk := range stores {
		t.Run(name, func(t *testing.T) {
			kv := mk(t)
			defer kv.Close()
			if err := kv.Set("claim|k", "old"); err != nil {
				t.Fatal(err)
			}
			if err := kv.Set("claim|other", "x"); err != nil {
				t.Fatal(err)
			}
			b := kv.BeginBatch()
			b.Set("claim|other", "y")
			b.Set("claim|k", "new")
			b.Delete("claim|k")
			if err := kv.CommitBatch(b); err != nil {
				t.Fatal(err)
			}
			if v, err := kv.Get("claim|k"); !errors.Is(err, sorted.ErrNotFound) {
				t.Errorf("Get(claim|k) after batch {set,delete} = %q, %v; want ErrNotFound", v, err)
			}
			var got []string
			it := kv.Find("", "")
			for it.Next() {
				got = append(got, it.Key()+"="+it.Value())
			}
			if err := it.Close(); err != nil {
				t.Fatal(err)
			}
			if len(got) != 1 || got[0] != "claim|other=y" {
				t.Errorf("scan after batch = %q; want [claim|other=y]", got)
			}
		})
	}
}
