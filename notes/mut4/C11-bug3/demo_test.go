package encrypt

// Demonstration for MUT/bug3: a start-up scan of the meta store that fails
// part-way must not yield a running store with half of the mapping.

import (
	"context"
	"errors"
	"fmt"
	"io"
	"sync"
	"testing"

	"perkeep.org/pkg/blob"
	"perkeep.org/pkg/sorted"
	"perkeep.org/pkg/test"
)

// mutB3FlakyList is a meta store whose enumeration, while failList is set,
// lists at most `first` blobs and then fails (a listing that is cut short by
// the backend: network error, expired credentials, ...).
type mutB3FlakyList struct {
	*test.Fetcher
	mu       sync.Mutex
	failList bool
	first    int
}

func (m *mutB3FlakyList) EnumerateBlobs(ctx context.Context, dest chan<- blob.SizedRef, after string, limit int) error {
	m.mu.Lock()
	fail, first := m.failList, m.first
	m.mu.Unlock()
	if !fail {
		return m.Fetcher.EnumerateBlobs(ctx, dest, after, limit)
	}
	defer close(dest)
	ch := make(chan blob.SizedRef, 16)
	errc := make(chan error, 1)
	go func() { errc <- m.Fetcher.EnumerateBlobs(ctx, ch, after, limit) }()
	n := 0
	for sb := range ch {
		if n < first {
			dest <- sb
			n++
		}
	}
	<-errc
	return errors.New("injected: listing of the meta store was cut short")
}

func TestMutC11Bug3MetaListingFailsAtStartup(t *testing.T) {
	ts := newTestStorage()
	meta := &mutB3FlakyList{Fetcher: ts.meta, first: 4}
	ts.sto.meta = meta

	var all []*test.Blob
	for i := range 10 {
		tb := &test.Blob{Contents: fmt.Sprintf("blob %d", i)}
		tb.MustUpload(t, ts.sto)
		all = append(all, tb)
	}

	reopen := func() (*storage, error) {
		sto := &storage{
			index:     sorted.NewMemoryKeyValue(),
			smallMeta: &metaBlobHeap{},
			identity:  ts.sto.identity,
			blobs:     ts.sto.blobs,
			meta:      ts.sto.meta,
		}
		return sto, sto.readAllMetaBlobs()
	}
	missing := func(sto *storage) (n int) {
		for _, tb := range all {
			rc, _, err := sto.Fetch(ctxbg, tb.BlobRef())
			if err != nil {
				n++
				continue
			}
			got, _ := io.ReadAll(rc)
			rc.Close()
			if string(got) != tb.Contents {
				t.Errorf("fetch %v = %q; want %q", tb.BlobRef(), got, tb.Contents)
			}
		}
		return n
	}

	// Restart with the meta index lost, while the meta store cannot be listed completely.
	meta.mu.Lock()
	meta.failList = true
	meta.mu.Unlock()
	sto, err := reopen()
	if err == nil {
		// Starting anyway is only acceptable with the complete mapping.
		if n := missing(sto); n > 0 {
			t.Errorf("the start-up scan of the meta store failed part-way, yet the store started without an error and %d of %d blobs are missing", n, len(all))
		}
	} else {
		t.Logf("start-up refused, as it should: %v", err)
	}

	// Once the meta store is healthy again, everything is recoverable.
	meta.mu.Lock()
	meta.failList = false
	meta.mu.Unlock()
	sto, err = reopen()
	if err != nil {
		t.Fatalf("restart with a healthy meta store: %v", err)
	}
	if n := missing(sto); n > 0 {
		t.Errorf("%d of %d blobs missing after a clean restart", n, len(all))
	}
}
