package jsonsign_test

import (
	"fmt"
	"testing"

	"golang.org/x/crypto/openpgp"
	. "perkeep.org/pkg/jsonsign"
)

// c16BothRings is an EntityFetcher knowing the secret keys of both test
// identities, like a user's secret ring holding several identities.
type c16BothRings struct{}

func (c16BothRings) FetchEntity(fingerprint string) (*openpgp.Entity, error) {
	var lastErr error
	for _, f := range []string{"./testdata/test-secring.gpg", "./testdata/test-secring2.gpg"} {
		e, err := (&FileEntityFetcher{File: f}).FetchEntity(fingerprint)
		if err == nil {
			return e, nil
		}
		lastErr = err
	}
	return nil, lastErr
}

// Signing a valid schema object whose camliSigner is key 1 must give a
// document that verifies against key 1 and exposes all original fields,
// whatever other keys the object has -- including keys that differ from
// "camliSigner" only by case.
func TestC16SignerKeyCaseVariants(t *testing.T) {
	key1 := pubKeyBlob1.BlobRef().String()
	key2 := pubKeyBlob2.BlobRef().String()
	tests := []struct {
		name       string
		extraKey   string
		extraValue string
	}{
		{"lowercase-freetext", "camlisigner", "Alice (laptop key)"},
		{"uppercase-otherkey", "CAMLISIGNER", key2},
		{"titlecase-otherkey", "CamliSigner", key2},
	}
	for _, tt := range tests {
		t.Run(tt.name, func(t *testing.T) {
			sr := newRequest(1)
			sr.SecretKeyringPath = ""
			sr.EntityFetcher = c16BothRings{}
			sr.UnsignedJSON = fmt.Sprintf(`{"camliVersion": 1, "camliSigner": %q, "camliType": "claim", %q: %q}`,
				key1, tt.extraKey, tt.extraValue)
			signed, err := sr.Sign(ctxbg)
			if err != nil {
				t.Fatalf("Sign(%s): %v", sr.UnsignedJSON, err)
			}
			vr := NewVerificationRequest(signed, testFetcher)
			if _, err := vr.Verify(ctxbg); err != nil {
				t.Fatalf("freshly signed document does not verify: %v (%v)\n%s", err, vr.Err, signed)
			}
			if got, want := vr.SignerKeyId, "2931A67C26F5ABDA"; got != want {
				t.Errorf("SignerKeyId = %q; want %q", got, want)
			}
			if got := vr.PayloadMap["camliSigner"]; got != key1 {
				t.Errorf("PayloadMap[camliSigner] = %v; want %v", got, key1)
			}
			if got := vr.PayloadMap[tt.extraKey]; got != tt.extraValue {
				t.Errorf("PayloadMap[%s] = %v; want %v", tt.extraKey, got, tt.extraValue)
			}
		})
	}
}
