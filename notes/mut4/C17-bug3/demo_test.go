package server

import (
	"fmt"
	"testing"

	"perkeep.org/pkg/blob"
	"perkeep.org/pkg/schema"
)

// Everything reachable from the target of a transitive share through genuine
// schema links is served. For a static-set, both its "members" and its
// "mergeSets" (sub static-sets) are such links, also when one static-set
// carries both fields.
func TestMutC17StaticSetWithMembersAndMergeSets(t *testing.T) {
	st := newShareTester(t)
	defer st.done()

	put := func(s string) blob.Ref {
		ref := blob.RefFromString(s)
		st.putRaw(ref, s)
		return ref
	}
	file := func(name, content string) blob.Ref {
		c := put(content)
		return put(fmt.Sprintf(`{"camliVersion": 1,
"camliType": "file",
"fileName": %q,
"parts": [
   {"blobRef": "%v", "size": %d}
]}`, name, c, len(content)))
	}
	f1 := file("one.txt", "first secret")
	f2 := file("two.txt", "second secret")
	f3 := file("three.txt", "third secret")

	// A leaf sub static-set.
	sub := put(fmt.Sprintf(`{"camliVersion": 1,
"camliType": "static-set",
"members": ["%v"]}`, f2))
	// Another one, only referenced from a pure "mergeSets" static-set.
	sub3 := put(fmt.Sprintf(`{"camliVersion": 1,
"camliType": "static-set",
"members": ["%v"]}`, f3))

	// The hybrid: direct members and a sub-set.
	hybrid := put(fmt.Sprintf(`{"camliVersion": 1,
"camliType": "static-set",
"members": ["%v"],
"mergeSets": ["%v"]}`, f1, sub))
	// The usual large-directory top static-set: mergeSets only.
	top := put(fmt.Sprintf(`{"camliVersion": 1,
"camliType": "static-set",
"mergeSets": ["%v"]}`, sub3))

	dir := func(name string, entries blob.Ref) blob.Ref {
		return put(fmt.Sprintf(`{"camliVersion": 1,
"camliType": "directory",
"fileName": %q,
"entries": "%v"}`, name, entries))
	}
	dirHybrid := dir("hybrid", hybrid)
	dirTop := dir("large", top)

	share := func(target blob.Ref) blob.Ref {
		b := schema.NewShareRef(schema.ShareHaveRef, true).
			SetShareTarget(target).
			SetSigner(blob.RefFromString("irrelevant")).
			SetRawStringField("camliSig", "alsounused").Blob()
		st.put(b)
		return b.BlobRef()
	}
	sHybrid := share(dirHybrid)
	sTop := share(dirTop)

	// Control: the mergeSets-only static-set.
	st.testGet(fmt.Sprintf("%s?via=%s,%s,%s", sub3, sTop, dirTop, top), noError)
	st.testGet(fmt.Sprintf("%s?via=%s,%s,%s,%s", f3, sTop, dirTop, top, sub3), noError)

	// The hybrid static-set: its direct member ...
	st.testGet(fmt.Sprintf("%s?via=%s,%s,%s", f1, sHybrid, dirHybrid, hybrid), noError)
	// ... its sub-set, and what is in it.
	st.testGet(fmt.Sprintf("%s?via=%s,%s,%s", sub, sHybrid, dirHybrid, hybrid), noError)
	st.testGet(fmt.Sprintf("%s?via=%s,%s,%s,%s", f2, sHybrid, dirHybrid, hybrid, sub), noError)

	// Still no way to something that is not linked.
	st.testGet(fmt.Sprintf("%s?via=%s,%s,%s", f3, sHybrid, dirHybrid, hybrid), viaChainInvalidLink)
}
