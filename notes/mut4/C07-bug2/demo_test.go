package index_test

import (
	"context"
	"testing"
	"time"

	"perkeep.org/pkg/index"
	"perkeep.org/pkg/index/indextest"
)

// Attribute values that need URL-escaping in the claim rows must read back
// identically from the sorted rows, from a live corpus and from a corpus
// loaded at start. The values below all END with a byte that is escaped
// in the row ("%21", "%3F", "%25", "%C3%A9", "%2F").
func TestMut4C07Bug2TrailingEscapedValue(t *testing.T) {
	ctx := context.Background()
	values := map[string]string{
		"title":       "Hello, world!",
		"description": "is this escaped?",
		"ratio":       "100%",
		"place":       "café",
		"dir":         "a/b/",
		"plain":       "what? no trailing escape",
	}

	// Index A: no corpus while the claims are received (sorted rows path),
	// then a corpus loaded at start from its rows.
	idxA := index.NewMemoryIndex()
	idA := indextest.NewIndexDeps(idxA)
	idA.Fataler = t
	// Index B: corpus kept in memory from the start (built incrementally).
	idxB := index.NewMemoryIndex()
	idB := indextest.NewIndexDeps(idxB)
	idB.Fataler = t
	live, err := idxB.KeepInMemory()
	if err != nil {
		t.Fatal(err)
	}

	pnA := idA.NewPlannedPermanode("mut4c07bug2")
	pnB := idB.NewPlannedPermanode("mut4c07bug2")
	if pnA != pnB {
		t.Fatalf("permanodes differ: %v vs %v", pnA, pnB)
	}
	for attr, v := range values {
		idA.SetAttribute(pnA, attr, v)
		idB.SetAttribute(pnB, attr, v)
	}

	// Sorted rows (no corpus).
	claims, err := idxA.AppendClaims(ctx, nil, pnA, indextest.KeyID, "")
	if err != nil {
		t.Fatal(err)
	}
	fromRows := map[string]string{}
	for _, cl := range claims {
		fromRows[cl.Attr] = cl.Value
	}

	loaded, err := idxA.KeepInMemory()
	if err != nil {
		t.Fatal(err)
	}

	for attr, want := range values {
		if got := fromRows[attr]; got != want {
			t.Errorf("sorted rows: %s = %q; want %q", attr, got, want)
		}
		for _, at := range []time.Time{{}, idA.LastTime().Add(time.Hour)} {
			if got := live.PermanodeAttrValue(pnB, attr, at, indextest.KeyID); got != want {
				t.Errorf("live corpus: %s at %v = %q; want %q", attr, at, got, want)
			}
			if got := loaded.PermanodeAttrValue(pnA, attr, at, indextest.KeyID); got != want {
				t.Errorf("loaded corpus: %s at %v = %q; want %q", attr, at, got, want)
			}
		}
		if !live.PermanodeHasAttrValue(pnB, time.Time{}, attr, want) {
			t.Errorf("live corpus: PermanodeHasAttrValue(%s, %q) = false", attr, want)
		}
	}
}
