package encrypt

// Demonstration for MUT/bug1: a packed meta blob that lists the same
// plaintext blob twice must still be readable at the next start.

import (
	"context"
	"errors"
	"fmt"
	"io"
	"sync"
	"testing"
	"time"

	"perkeep.org/pkg/blob"
	"perkeep.org/pkg/sorted"
	"perkeep.org/pkg/test"
)

// mutB1BarrierStore holds the first two ReceiveBlob calls until both have
// arrived, so that two uploads of the same plaintext both get past the
// duplicate check of the encrypt store.
type mutB1BarrierStore struct {
	*test.Fetcher
	mu      sync.Mutex
	arrived int
	release chan struct{}
}

func (b *mutB1BarrierStore) ReceiveBlob(ctx context.Context, br blob.Ref, src io.Reader) (blob.SizedRef, error) {
	b.mu.Lock()
	b.arrived++
	n := b.arrived
	b.mu.Unlock()
	if n == 2 {
		close(b.release)
	}
	if n <= 2 {
		select {
		case <-b.release:
		case <-time.After(5 * time.Second):
			return blob.SizedRef{}, errors.New("barrier timeout")
		}
	}
	return b.Fetcher.ReceiveBlob(ctx, br, src)
}

// mutB1NoRemoveStore is a meta store whose RemoveBlobs can be made to fail.
type mutB1NoRemoveStore struct {
	*test.Fetcher
	mu         sync.Mutex
	failRemove bool
}

func (m *mutB1NoRemoveStore) RemoveBlobs(ctx context.Context, blobs []blob.Ref) error {
	m.mu.Lock()
	fail := m.failRemove
	m.mu.Unlock()
	if fail {
		return errors.New("injected: remove failed")
	}
	return m.Fetcher.RemoveBlobs(ctx, blobs)
}

// mutB1Quiesce waits until the number of meta blobs has not changed for a while.
func mutB1Quiesce(meta *test.Fetcher) int {
	last, stable := meta.NumBlobs(), time.Now()
	deadline := time.Now().Add(10 * time.Second)
	for time.Now().Before(deadline) {
		time.Sleep(20 * time.Millisecond)
		if n := meta.NumBlobs(); n != last {
			last, stable = n, time.Now()
		} else if time.Since(stable) > 400*time.Millisecond {
			break
		}
	}
	return last
}

// mutB1Reopen simulates a restart with a lost meta index: a new storage over
// the same wrapped stores.
func mutB1Reopen(old *storage) (*storage, error) {
	sto := &storage{
		index:     sorted.NewMemoryKeyValue(),
		smallMeta: &metaBlobHeap{},
		identity:  old.identity,
		blobs:     old.blobs,
		meta:      old.meta,
	}
	return sto, sto.readAllMetaBlobs()
}

func mutB1CheckAll(t *testing.T, sto *storage, blobs []*test.Blob) {
	t.Helper()
	for _, tb := range blobs {
		rc, _, err := sto.Fetch(ctxbg, tb.BlobRef())
		if err != nil {
			t.Errorf("after restart: fetch %v (%q): %v", tb.BlobRef(), tb.Contents, err)
			continue
		}
		got, _ := io.ReadAll(rc)
		rc.Close()
		if string(got) != tb.Contents {
			t.Errorf("after restart: fetch %v = %q; want %q", tb.BlobRef(), got, tb.Contents)
		}
	}
}

// Two concurrent uploads of the same blob, then enough uploads to compact
// the small meta blobs, then a restart with the meta index lost.
func TestMutC11Bug1ConcurrentDuplicate(t *testing.T) {
	ts := newTestStorage()
	ts.sto.blobs = &mutB1BarrierStore{Fetcher: ts.blobs, release: make(chan struct{})}

	var all []*test.Blob
	dup := &test.Blob{Contents: "the same chunk, uploaded twice at the same time"}
	all = append(all, dup)
	var wg sync.WaitGroup
	for range 2 {
		wg.Go(func() {
			if _, err := ts.sto.ReceiveBlob(ctxbg, dup.BlobRef(), dup.Reader()); err != nil {
				t.Errorf("upload: %v", err)
			}
		})
	}
	wg.Wait()
	if n := ts.meta.NumBlobs(); n != 2 {
		t.Fatalf("precondition: %d meta blobs after the concurrent duplicate upload; want 2", n)
	}

	sto := ts.sto
	for i := range SmallMetaCountLimit - 1 {
		tb := &test.Blob{Contents: fmt.Sprintf("blob %d", i)}
		tb.MustUpload(t, sto)
		all = append(all, tb)
	}
	if n := mutB1Quiesce(ts.meta); n > SmallMetaCountLimit {
		// The (rare) abort of the compaction: it is redone at the next start.
		t.Logf("compaction did not happen (%d meta blobs); restarting once", n)
		var err error
		if sto, err = mutB1Reopen(sto); err != nil {
			t.Fatalf("restart before compaction: %v", err)
		}
		if n := mutB1Quiesce(ts.meta); n > SmallMetaCountLimit {
			t.Fatalf("still %d meta blobs", n)
		}
	}
	t.Logf("%d meta blob(s) after compaction", ts.meta.NumBlobs())

	sto2, err := mutB1Reopen(sto)
	if err != nil {
		t.Fatalf("restart after compaction: the meta blobs cannot be read back: %v", err)
	}
	mutB1CheckAll(t, sto2, all)
}

// The deletion of the small meta blobs fails after their packed replacement
// was stored (or the process dies in between): the next start sees both, and
// compacts them together.
func TestMutC11Bug1InterruptedCompaction(t *testing.T) {
	ts := newTestStorage()
	meta := &mutB1NoRemoveStore{Fetcher: ts.meta, failRemove: true}
	ts.sto.meta = meta

	var all []*test.Blob
	for i := range SmallMetaCountLimit + 1 {
		tb := &test.Blob{Contents: fmt.Sprintf("blob %d", i)}
		tb.MustUpload(t, ts.sto)
		all = append(all, tb)
	}
	n := mutB1Quiesce(ts.meta)
	t.Logf("%d meta blobs after the interrupted compaction", n)

	meta.mu.Lock()
	meta.failRemove = false
	meta.mu.Unlock()

	// First restart: fine, and compacts again.
	sto, err := mutB1Reopen(ts.sto)
	if err != nil {
		t.Fatalf("first restart: %v", err)
	}
	mutB1Quiesce(ts.meta)
	for i := range SmallMetaCountLimit + 1 {
		tb := &test.Blob{Contents: fmt.Sprintf("later blob %d", i)}
		tb.MustUpload(t, sto)
		all = append(all, tb)
	}
	n = mutB1Quiesce(ts.meta)
	t.Logf("%d meta blobs after the first restart and %d more uploads", n, SmallMetaCountLimit+1)

	sto2, err := mutB1Reopen(sto)
	if err != nil {
		t.Fatalf("second restart: the meta blobs cannot be read back: %v", err)
	}
	mutB1CheckAll(t, sto2, all)
}
