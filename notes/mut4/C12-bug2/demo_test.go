package replica_test

import (
	"context"
	"fmt"
	"io"
	"strings"
	"testing"
	"time"

	"perkeep.org/pkg/blob"
	"perkeep.org/pkg/blobserver"
	"perkeep.org/pkg/blobserver/memory"
	"perkeep.org/pkg/blobserver/replica"
)

// canceledStorage is a replica whose uploads are aborted: it never stores
// anything and reports an error wrapping context.Canceled, like a remote
// backend whose request got cancelled (its own deadline/cancellation, or
// the caller's context).
type canceledStorage struct {
	blobserver.Storage               // a memory store that stays empty
	waitCtx            bool          // if set, wait for the caller's ctx to be done first
	started            chan struct{} // closed on first receive, if non-nil
}

func (s *canceledStorage) ReceiveBlob(ctx context.Context, br blob.Ref, src io.Reader) (blob.SizedRef, error) {
	if s.started != nil {
		close(s.started)
	}
	if s.waitCtx {
		<-ctx.Done()
		return blob.SizedRef{}, ctx.Err()
	}
	return blob.SizedRef{}, fmt.Errorf("PUT %v: %w", br, context.Canceled)
}

func TestMutCanceledReplicaBelowQuorum(t *testing.T) {
	const contents = "must be on all three replicas"
	br := blob.RefFromString(contents)

	t.Run("backend-reports-canceled", func(t *testing.T) {
		good1, good2 := &memory.Storage{}, &memory.Storage{}
		bad := &canceledStorage{Storage: &memory.Storage{}}
		// NewForTest: minWritesForSuccess == number of replicas (3).
		sto := replica.NewForTest([]blobserver.Storage{good1, bad, good2})
		sb, err := sto.ReceiveBlob(context.Background(), br, strings.NewReader(contents))
		if err == nil {
			t.Fatalf("ReceiveBlob = %v, nil error; but only 2 of the 3 required replicas stored the blob", sb)
		}
		t.Logf("ReceiveBlob correctly failed: %v", err)
	})

	t.Run("caller-cancels", func(t *testing.T) {
		good := &memory.Storage{}
		slow := &canceledStorage{Storage: &memory.Storage{}, waitCtx: true, started: make(chan struct{})}
		sto := replica.NewForTest([]blobserver.Storage{good, slow})
		ctx, cancel := context.WithCancel(context.Background())
		defer cancel()
		go func() {
			select {
			case <-slow.started:
			case <-time.After(5 * time.Second):
			}
			cancel()
		}()
		sb, err := sto.ReceiveBlob(ctx, br, strings.NewReader(contents))
		if err == nil {
			t.Fatalf("ReceiveBlob = %v, nil error; but only 1 of the 2 required replicas stored the blob", sb)
		}
		t.Logf("ReceiveBlob correctly failed: %v", err)
	})
}
