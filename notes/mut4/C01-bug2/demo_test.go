package namespace

import (
	"context"
	"io"
	"testing"

	"perkeep.org/pkg/blob"
	"perkeep.org/pkg/blobserver"
	"perkeep.org/pkg/test"
)

// TestMutC01RemoveInOtherNamespace has two namespaces on top of the same
// backing storage (the configuration that the namespace storage exists
// for). A blob that was received through both of them and is then removed
// from one must be absent from that one only: the other namespace must
// still behave as a map that contains it.
func TestMutC01RemoveInOtherNamespace(t *testing.T) {
	ctx := context.Background()
	ld := test.NewLoader()
	ns1 := newNamespace(t, ld)
	ns2 := newNamespace(t, ld)

	shared := &test.Blob{Contents: "Shared Blob"}
	only1 := &test.Blob{Contents: "Blob only in ns1"}
	only2 := &test.Blob{Contents: "Blob only in ns2"}
	shared.MustUpload(t, ns1)
	only1.MustUpload(t, ns1)
	shared.MustUpload(t, ns2)
	only2.MustUpload(t, ns2)

	check := func(name string, sto blobserver.Storage, want ...*test.Blob) {
		t.Helper()
		wantSet := map[blob.Ref]*test.Blob{}
		for _, tb := range want {
			wantSet[tb.BlobRef()] = tb
		}
		// enumerate
		got := map[blob.Ref]uint32{}
		if err := blobserver.EnumerateAll(ctx, sto, func(sb blob.SizedRef) error {
			got[sb.Ref] = sb.Size
			return nil
		}); err != nil {
			t.Fatalf("%s: enumerate: %v", name, err)
		}
		if len(got) != len(wantSet) {
			t.Errorf("%s: enumerate lists %d blobs; want %d", name, len(got), len(wantSet))
		}
		for _, tb := range []*test.Blob{shared, only1, only2} {
			br := tb.BlobRef()
			_, wantIt := wantSet[br]
			if _, listed := got[br]; listed != wantIt {
				t.Errorf("%s: enumerate lists %v = %v; want %v", name, br, listed, wantIt)
			}
			// stat
			_, err := blobserver.StatBlob(ctx, sto, br)
			if statted := err == nil; statted != wantIt {
				t.Errorf("%s: stat of %v = %v; want present=%v", name, br, err, wantIt)
			}
			// fetch
			rc, size, err := sto.Fetch(ctx, br)
			if !wantIt {
				if err == nil {
					rc.Close()
					t.Errorf("%s: fetch of %v succeeded; want it absent", name, br)
				}
				continue
			}
			if err != nil {
				t.Errorf("%s: fetch of %v: %v; want its %d bytes", name, br, err, len(tb.Contents))
				continue
			}
			all, _ := io.ReadAll(rc)
			rc.Close()
			if string(all) != tb.Contents || int(size) != len(tb.Contents) {
				t.Errorf("%s: fetch of %v = %q (size %d); want %q", name, br, all, size, tb.Contents)
			}
		}
	}

	check("ns1 before", ns1, shared, only1)
	check("ns2 before", ns2, shared, only2)

	if err := ns1.RemoveBlobs(ctx, []blob.Ref{shared.BlobRef()}); err != nil {
		t.Fatalf("RemoveBlobs: %v", err)
	}

	check("ns1 after its remove", ns1, only1)
	check("ns2 after the remove in ns1", ns2, shared, only2)

	// ... and until received again, in ns1.
	shared.MustUpload(t, ns1)
	check("ns1 after receiving again", ns1, shared, only1)
	check("ns2 at the end", ns2, shared, only2)
}
