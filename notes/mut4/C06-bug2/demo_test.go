package index_test

import (
	"context"
	"fmt"
	"sort"
	"strings"
	"testing"
	"time"

	"perkeep.org/pkg/blob"
	"perkeep.org/pkg/index"
	"perkeep.org/pkg/index/indextest"
	"perkeep.org/pkg/sorted"
	"perkeep.org/pkg/types/camtypes"
)

// mut4c06b2Snapshot collects answers of the index that depend on the
// deletion status of permanodes and claims.
func mut4c06b2Snapshot(t *testing.T, ix *index.Index, owner blob.Ref, refs map[string]blob.Ref) string {
	t.Helper()
	ctx := context.Background()
	var sb strings.Builder

	var names []string
	for name := range refs {
		names = append(names, name)
	}
	sort.Strings(names)
	for _, name := range names {
		fmt.Fprintf(&sb, "IsDeleted(%s)=%v\n", name, ix.IsDeleted(refs[name]))
	}
	nameOf := func(br blob.Ref) string {
		for name, r := range refs {
			if r == br {
				return name
			}
		}
		return br.String()
	}

	// recent permanodes
	ch := make(chan camtypes.RecentPermanode, 10)
	if err := ix.GetRecentPermanodes(ctx, ch, owner, 10, time.Time{}); err != nil {
		t.Fatalf("GetRecentPermanodes: %v", err)
	}
	var recent []string
	for rp := range ch {
		recent = append(recent, nameOf(rp.Permanode))
	}
	fmt.Fprintf(&sb, "recent=%v\n", recent)

	// permanode with tag=foo
	pn, err := ix.PermanodeOfSignerAttrValue(ctx, owner, "tag", "foo")
	if err != nil {
		fmt.Fprintf(&sb, "tag=foo: %v\n", err)
	} else {
		fmt.Fprintf(&sb, "tag=foo: %v\n", nameOf(pn))
	}

	// claims of pn
	ix.RLock()
	cls, err := ix.AppendClaims(ctx, nil, refs["pn"], "", "")
	ix.RUnlock()
	if err != nil {
		t.Fatalf("AppendClaims: %v", err)
	}
	var cnames []string
	for _, cl := range cls {
		cnames = append(cnames, nameOf(cl.BlobRef))
	}
	sort.Strings(cnames)
	fmt.Fprintf(&sb, "claims(pn)=%v\n", cnames)
	return sb.String()
}

func mut4c06b2Run(t *testing.T, withCorpus bool) {
	index.SetVerboseCorpusLogging(false)
	kv := sorted.NewMemoryKeyValue()
	open := func() *index.Index {
		ix, err := index.New(kv)
		if err != nil {
			t.Fatal(err)
		}
		if withCorpus {
			if _, err := ix.KeepInMemory(); err != nil {
				t.Fatal(err)
			}
		}
		return ix
	}
	ix := open()
	id := indextest.NewIndexDeps(ix)
	id.Fataler = t

	pn := id.NewPlannedPermanode("pn")
	refs := map[string]blob.Ref{"pn": pn}
	refs["setTag"] = id.SetAttribute(pn, "tag", "foo")

	compare := func(when string) {
		t.Helper()
		live := mut4c06b2Snapshot(t, ix, id.SignerBlobRef, refs)
		fresh := mut4c06b2Snapshot(t, open(), id.SignerBlobRef, refs) // "restart"
		if live != fresh {
			t.Errorf("%s: running index differs from a freshly opened one:\n--- live:\n%s--- fresh:\n%s", when, live, fresh)
		}
	}

	compare("initially")
	refs["delete1"] = id.Delete(pn)
	compare("after a first delete of pn")
	refs["delete2"] = id.Delete(pn)
	compare("after a second delete of pn")
	// Undo only the second deletion: pn remains deleted by the first one.
	refs["undelete2"] = id.Delete(refs["delete2"])
	compare("after undoing the second delete of pn")
	if !ix.IsDeleted(pn) {
		t.Errorf("running index: pn should still be deleted (by delete1)")
	}
}

// A permanode is deleted twice (say from two clients), then the most recent
// of the two deletions is undone. What the running index answers must be what
// an index opened afresh over the same rows answers.
func TestMut4C06B2_DeletedTwiceUndoneOnce(t *testing.T) {
	t.Run("noCorpus", func(t *testing.T) { mut4c06b2Run(t, false) })
	t.Run("withCorpus", func(t *testing.T) { mut4c06b2Run(t, true) })
}
