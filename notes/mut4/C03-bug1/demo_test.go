package files_test

// Demonstration for MUT/bug1: a crash at any point of a RE-UPLOAD of a blob
// that is already stored (and was acknowledged) must not lose that blob.

import (
	"context"
	"errors"
	"io"
	"os"
	"strings"
	"testing"

	"perkeep.org/pkg/blob"
	"perkeep.org/pkg/blobserver/files"
	"perkeep.org/pkg/test"
)

var errMutCrashed = errors.New("mutdemo: process is dead")

// mutCrashFS is a VFS on top of the OS filesystem that "dies" right before
// its crashAt'th mutating call: that call and every later one do nothing
// and fail, so nothing more reaches the disk (reads fail too: the process
// is gone).
type mutCrashFS struct {
	files.VFS
	crashAt int // 1-based; 0 = never
	ops     int
	dead    bool
	trace   []string
}

func (c *mutCrashFS) step(what string) bool {
	if c.dead {
		return false
	}
	c.ops++
	if c.crashAt != 0 && c.ops == c.crashAt {
		c.dead = true
		c.trace = append(c.trace, "CRASH before "+what)
		return false
	}
	c.trace = append(c.trace, what)
	return true
}

func (c *mutCrashFS) Remove(p string) error {
	if !c.step("remove") {
		return errMutCrashed
	}
	return c.VFS.Remove(p)
}
func (c *mutCrashFS) RemoveDir(p string) error {
	if !c.step("removedir") {
		return errMutCrashed
	}
	return c.VFS.RemoveDir(p)
}
func (c *mutCrashFS) MkdirAll(p string, perm os.FileMode) error {
	if !c.step("mkdirall") {
		return errMutCrashed
	}
	return c.VFS.MkdirAll(p, perm)
}
func (c *mutCrashFS) Rename(o, n string) error {
	if !c.step("rename") {
		return errMutCrashed
	}
	return c.VFS.Rename(o, n)
}
func (c *mutCrashFS) TempFile(dir, prefix string) (files.WritableFile, error) {
	if !c.step("tempfile") {
		return nil, errMutCrashed
	}
	f, err := c.VFS.TempFile(dir, prefix)
	if err != nil {
		return nil, err
	}
	return &mutCrashFile{WritableFile: f, fs: c}, nil
}
func (c *mutCrashFS) Stat(p string) (os.FileInfo, error) {
	if c.dead {
		return nil, errMutCrashed
	}
	return c.VFS.Stat(p)
}
func (c *mutCrashFS) Lstat(p string) (os.FileInfo, error) {
	if c.dead {
		return nil, errMutCrashed
	}
	return c.VFS.Lstat(p)
}

type mutCrashFile struct {
	files.WritableFile
	fs *mutCrashFS
}

func (f *mutCrashFile) Write(p []byte) (int, error) {
	if !f.fs.step("write") {
		return 0, errMutCrashed
	}
	return f.WritableFile.Write(p)
}
func (f *mutCrashFile) Sync() error {
	if !f.fs.step("sync") {
		return errMutCrashed
	}
	return f.WritableFile.Sync()
}
func (f *mutCrashFile) Close() error {
	if !f.fs.step("close") {
		f.WritableFile.Close() // don't leak the fd of the test process
		return errMutCrashed
	}
	return f.WritableFile.Close()
}

func TestMutCrashDuringReupload(t *testing.T) {
	ctx := context.Background()
	tb := &test.Blob{Contents: strings.Repeat("an acknowledged blob. ", 200)}
	other := &test.Blob{Contents: "some other blob"}

	for crashAt := 1; ; crashAt++ {
		root := t.TempDir()

		// 1. The blob is received and acknowledged; nothing goes wrong.
		sto := files.NewStorage(files.OSFS(), root)
		for _, b := range []*test.Blob{tb, other} {
			if _, err := sto.ReceiveBlob(ctx, b.BlobRef(), b.Reader()); err != nil {
				t.Fatalf("initial receive: %v", err)
			}
		}

		// 2. A client uploads it again; the process dies somewhere in there.
		cfs := &mutCrashFS{VFS: files.OSFS(), crashAt: crashAt}
		_, rerr := files.NewStorage(cfs, root).ReceiveBlob(ctx, tb.BlobRef(), tb.Reader())
		if !cfs.dead {
			if rerr != nil {
				t.Fatalf("re-upload without a crash failed: %v", rerr)
			}
			t.Logf("re-upload is %d VFS calls: %v", cfs.ops, cfs.trace)
			if crashAt == 1 {
				t.Fatal("the crash file system saw no calls")
			}
			return
		}

		// 3. Restart: the blob acknowledged in step 1 must still be there, intact.
		sto = files.NewStorage(files.OSFS(), root)
		rc, size, err := sto.Fetch(ctx, tb.BlobRef())
		if err != nil {
			t.Errorf("crash before VFS call %d of the re-upload (%v): acknowledged blob lost: Fetch: %v", crashAt, cfs.trace, err)
			continue
		}
		data, err := io.ReadAll(rc)
		rc.Close()
		if err != nil || string(data) != tb.Contents || int(size) != len(tb.Contents) {
			t.Errorf("crash before VFS call %d (%v): blob not intact: size=%d len=%d err=%v", crashAt, cfs.trace, size, len(data), err)
		}
		var got []blob.SizedRef
		dest := make(chan blob.SizedRef, 10)
		if err := sto.EnumerateBlobs(ctx, dest, "", 10); err != nil {
			t.Errorf("crash before VFS call %d: enumerate: %v", crashAt, err)
		}
		for sb := range dest {
			got = append(got, sb)
		}
		if len(got) != 2 {
			t.Errorf("crash before VFS call %d (%v): enumerate = %v; want both acknowledged blobs", crashAt, cfs.trace, got)
		}
	}
}
