package schema_test

import (
	"bytes"
	"context"
	"errors"
	"io"
	"math/rand"
	"testing"
	"time"

	"perkeep.org/pkg/blob"
	"perkeep.org/pkg/schema"
	"perkeep.org/pkg/test"
)

// mutC15LateFail is an in-memory storage whose upload of one chosen blob
// takes a while and then fails.
type mutC15LateFail struct {
	*test.Fetcher
	failRef blob.Ref
	delay   time.Duration
}

func (s *mutC15LateFail) ReceiveBlob(ctx context.Context, br blob.Ref, r io.Reader) (blob.SizedRef, error) {
	if br == s.failRef {
		io.Copy(io.Discard, r)
		time.Sleep(s.delay)
		return blob.SizedRef{}, errors.New("injected upload failure")
	}
	return s.Fetcher.ReceiveBlob(ctx, br, r)
}

// TestMutC15LateUploadFailure: when the upload of the LAST data chunk of a
// file fails after the source has already been read to EOF, the write must
// either report an error or leave a file schema whose every referenced blob
// is stored. It must never succeed with a file that cannot be read back.
func TestMutC15LateUploadFailure(t *testing.T) {
	ctx := context.Background()
	data := make([]byte, 300<<10)
	rand.New(rand.NewSource(15)).Read(data)

	// Reference run on a healthy storage, to learn the chunks of the file.
	ref := new(test.Fetcher)
	br0, err := schema.WriteFileFromReader(ctx, ref, "f", bytes.NewReader(data))
	if err != nil {
		t.Fatal(err)
	}
	fr0, err := schema.NewFileReader(ctx, ref, br0)
	if err != nil {
		t.Fatal(err)
	}
	var chunks []blob.Ref
	if err := fr0.ForeachChunk(ctx, func(_ []blob.Ref, p schema.BytesPart) error {
		chunks = append(chunks, p.BlobRef)
		return nil
	}); err != nil {
		t.Fatal(err)
	}
	if len(chunks) < 2 {
		t.Fatalf("want at least 2 chunks, got %d", len(chunks))
	}
	last := chunks[len(chunks)-1]

	sto := &mutC15LateFail{Fetcher: new(test.Fetcher), failRef: last, delay: 300 * time.Millisecond}
	br, err := schema.WriteFileFromReader(ctx, sto, "f", bytes.NewReader(data))
	if err != nil {
		t.Logf("write reported the failed upload: %v (good)", err)
		return
	}
	// The write claims success: then the file has to read back in full.
	fr, err := schema.NewFileReader(ctx, sto, br)
	if err != nil {
		t.Fatalf("write returned nil error but file schema %v is unreadable: %v", br, err)
	}
	got, err := io.ReadAll(fr)
	if err != nil {
		t.Fatalf("write returned nil error, but reading the file back fails after %d of %d bytes: %v", len(got), len(data), err)
	}
	if !bytes.Equal(got, data) {
		t.Fatalf("write returned nil error, but the file reads back differently (%d bytes, want %d)", len(got), len(data))
	}
}
