package buffer_test

import (
	"reflect"
	"testing"

	"perkeep.org/pkg/sorted"
	"perkeep.org/pkg/sorted/buffer"
)

func mut4c10bug2Scan(t *testing.T, kv sorted.KeyValue, start, end string) []string {
	t.Helper()
	var got []string
	it := kv.Find(start, end)
	for it.Next() {
		got = append(got, it.Key()+"="+it.Value())
	}
	if err := it.Close(); err != nil {
		t.Fatal(err)
	}
	return got
}

// The last key held by one side of the write buffer (within the scanned
// range) is also present on the other side, and the other side still has
// larger keys: the scan must go on and return them.
func TestMut4C10Bug2ScanPastSharedLastKey(t *testing.T) {
	t.Run("buffer_ends_on_shared_key", func(t *testing.T) {
		back := sorted.NewMemoryKeyValue()
		kv := buffer.New(sorted.NewMemoryKeyValue(), back, 1<<20)
		for _, k := range []string{"k|a", "k|b", "k|c", "k|d"} {
			if err := kv.Set(k, "1"); err != nil {
				t.Fatal(err)
			}
		}
		if err := kv.Flush(); err != nil {
			t.Fatal(err)
		}
		// Overwrite an already flushed key: it is now the only (hence last)
		// key of the buffer, and also exists in the backing store.
		if err := kv.Set("k|b", "2"); err != nil {
			t.Fatal(err)
		}
		want := []string{"k|a=1", "k|b=2", "k|c=1", "k|d=1"}
		if got := mut4c10bug2Scan(t, kv, "", ""); !reflect.DeepEqual(got, want) {
			t.Errorf("Find(\"\",\"\") = %q; want %q", got, want)
		}
		want = []string{"k|b=2", "k|c=1"}
		if got := mut4c10bug2Scan(t, kv, "k|b", "k|d"); !reflect.DeepEqual(got, want) {
			t.Errorf("Find(k|b,k|d) = %q; want %q", got, want)
		}
	})
	t.Run("backing_ends_on_shared_key", func(t *testing.T) {
		back := sorted.NewMemoryKeyValue()
		kv := buffer.New(sorted.NewMemoryKeyValue(), back, 1<<20)
		if err := kv.Set("k|a", "1"); err != nil {
			t.Fatal(err)
		}
		if err := kv.Set("k|b", "1"); err != nil {
			t.Fatal(err)
		}
		if err := kv.Flush(); err != nil {
			t.Fatal(err)
		}
		// k|b is the last key of the backing store; the buffer has it too,
		// plus larger ones.
		for _, k := range []string{"k|b", "k|c", "k|d"} {
			if err := kv.Set(k, "2"); err != nil {
				t.Fatal(err)
			}
		}
		want := []string{"k|a=1", "k|b=2", "k|c=2", "k|d=2"}
		if got := mut4c10bug2Scan(t, kv, "", ""); !reflect.DeepEqual(got, want) {
			t.Errorf("Find(\"\",\"\") = %q; want %q", got, want)
		}
	})
}
