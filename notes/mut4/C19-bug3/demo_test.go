package server

import (
	"context"
	"io"
	"strings"
	"testing"
	"time"

	"go4.org/jsonconfig"
	"perkeep.org/pkg/blob"
	"perkeep.org/pkg/blobserver"
	"perkeep.org/pkg/blobserver/memory"
	"perkeep.org/pkg/sorted"
	"perkeep.org/pkg/test"
)

// c19Bug3Queue is the "on disk" pending queue that survives the restart of
// the sync handler: every handler configured with the queue type below opens
// this very key/value store.
var c19Bug3Queue = sorted.NewMemoryKeyValue()

func init() {
	sorted.RegisterKeyValue("c19bug3queue", func(cfg jsonconfig.Obj) (sorted.KeyValue, error) {
		if err := cfg.Validate(); err != nil {
			return nil, err
		}
		return c19Bug3Queue, nil
	})
}

// Two blobs are uploaded to the source, one of them the (perfectly legal)
// zero-length blob; the server dies before its copy loop got to them, so both
// are still in the durable pending queue. After the restart both must be
// delivered.
func TestC19Bug3EmptyBlobPendingAtRestart(t *testing.T) {
	ctx := context.Background()
	src := &memory.Storage{}
	dst := &memory.Storage{}

	// First life of the server: the handler records the uploads in its
	// queue (through the source's receive hook, as in production), but it
	// never gets to run its copy loop before the process dies.
	first := newSyncHandler("/src/", "/dst/", src, dst, c19Bug3Queue)
	blobserver.GetHub(src).AddReceiveHook(first.enqueue)

	contents := []string{"", "c19 bug3: some ordinary blob"}
	var refs []blob.Ref
	for _, c := range contents {
		br := blob.RefFromString(c)
		refs = append(refs, br)
		if _, err := blobserver.Receive(ctx, src, br, strings.NewReader(c)); err != nil {
			t.Fatalf("upload of %q: %v", c, err)
		}
		if _, err := c19Bug3Queue.Get(br.String()); err != nil {
			t.Fatalf("upload of %q acknowledged without a pending queue row: %v", c, err)
		}
	}

	// Restart over the same queue.
	ld := test.NewLoader()
	ld.SetStorage("/src/", src)
	ld.SetStorage("/dst/", dst)
	if _, err := newSyncFromConfig(ld, jsonconfig.Obj{
		"from":  "/src/",
		"to":    "/dst/",
		"queue": map[string]any{"type": "c19bug3queue"},
	}); err != nil {
		t.Fatal(err)
	}

	check := func(i int) (bool, error) {
		rc, size, err := dst.Fetch(ctx, refs[i])
		if err != nil {
			return false, nil
		}
		got, _ := io.ReadAll(rc)
		rc.Close()
		if string(got) != contents[i] || int(size) != len(contents[i]) {
			t.Fatalf("destination has %q (size %d) for %v, want %q", got, size, refs[i], contents[i])
		}
		return true, nil
	}
	deadline := time.Now().Add(2*queueSyncInterval + 2*time.Second)
	for time.Now().Before(deadline) {
		all := true
		for i := range refs {
			if ok, _ := check(i); !ok {
				all = false
			}
		}
		if all {
			return
		}
		time.Sleep(20 * time.Millisecond)
	}
	for i, br := range refs {
		if ok, _ := check(i); !ok {
			_, qerr := c19Bug3Queue.Get(br.String())
			t.Errorf("blob %v (%d bytes) pending at restart was never delivered (queue row still present: %v)",
				br, len(contents[i]), qerr == nil)
		}
	}
}
