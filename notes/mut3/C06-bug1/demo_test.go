package index_test

import (
	"fmt"
	"strings"
	"testing"
	"time"

	"perkeep.org/pkg/blob"
	"perkeep.org/pkg/index"
	"perkeep.org/pkg/index/indextest"
	"perkeep.org/pkg/schema"
	"perkeep.org/pkg/test"
	"perkeep.org/pkg/types/camtypes"
)

// mutC06B1Summary renders what a corpus answers about permanode pn.
func mutC06B1Summary(c *index.Corpus, pn blob.Ref, ats []time.Time) string {
	var sb strings.Builder
	fmt.Fprintf(&sb, "title(now)=%q\n", c.PermanodeAttrValue(pn, "title", time.Time{}, ""))
	fmt.Fprintf(&sb, "titles(now)=%q\n", c.AppendPermanodeAttrValues(nil, pn, "title", time.Time{}, ""))
	for _, at := range ats {
		fmt.Fprintf(&sb, "title(at %v)=%q\n", at.UTC().Format(time.RFC3339), c.PermanodeAttrValue(pn, "title", at, ""))
	}
	fmt.Fprintf(&sb, "deleted=%v\n", c.IsDeleted(pn))
	mt, ok := c.PermanodeModtime(pn)
	fmt.Fprintf(&sb, "modtime=%v,%v\n", mt.UTC().Format(time.RFC3339), ok)
	var claims []string
	c.ForeachClaim(pn, time.Time{}, func(cl *camtypes.Claim) bool {
		claims = append(claims, fmt.Sprintf("%s %s %s=%q", cl.Date.UTC().Format(time.RFC3339), cl.Type, cl.Attr, cl.Value))
		return true
	})
	fmt.Fprintf(&sb, "claims(in corpus order)=\n  %s\n", strings.Join(claims, "\n  "))
	return sb.String()
}

// A delete claim of a permanode arrives after a claim with a more recent
// date (blobs may arrive in any order), followed by another claim dated in
// between. The live corpus must answer like a corpus freshly loaded from the
// rows that were persisted.
func TestMutC06B1OutOfOrderDeleteClaim(t *testing.T) {
	index.SetVerboseCorpusLogging(false)
	idx := index.NewMemoryIndex()
	id := indextest.NewIndexDeps(idx)
	id.Fataler = t
	live, err := idx.KeepInMemory()
	if err != nil {
		t.Fatal(err)
	}

	t0 := test.ClockOrigin
	at := func(sec int) time.Time { return t0.Add(time.Duration(sec) * time.Second) }
	claim := func(b *schema.Builder, sec int) *test.Blob {
		b.SetClaimDate(at(sec))
		return id.Sign(b)
	}

	pn := id.NewPlannedPermanode("mutC06B1")
	c10 := claim(schema.NewSetAttributeClaim(pn, "title", "ten"), 10)
	c30 := claim(schema.NewSetAttributeClaim(pn, "title", "thirty"), 30)
	d20 := claim(schema.NewDeleteClaim(pn), 20)
	c25 := claim(schema.NewSetAttributeClaim(pn, "title", "twentyfive"), 25)

	ats := []time.Time{at(12), at(22), at(27), at(35)}
	check := func(step string) {
		t.Helper()
		idx.RLock()
		got := mutC06B1Summary(live, pn, ats)
		idx.RUnlock()
		fresh, err := index.NewCorpusFromStorage(idx.Storage())
		if err != nil {
			t.Fatalf("%s: loading a fresh corpus: %v", step, err)
		}
		want := mutC06B1Summary(fresh, pn, ats)
		if got != want {
			t.Errorf("after %s: live corpus differs from a freshly loaded one.\n--- live:\n%s--- fresh:\n%s", step, got, want)
		}
	}

	// Arrival order: t=10, t=30, then the delete claim dated t=20, then t=25.
	for _, step := range []struct {
		name string
		b    *test.Blob
	}{
		{"set title (t=10)", c10},
		{"set title (t=30)", c30},
		{"delete permanode (t=20), arriving late", d20},
		{"set title (t=25), arriving late", c25},
	} {
		id.Upload(step.b)
		check(step.name)
	}
}
