package replica_test

import (
	"context"
	"strings"
	"testing"
	"time"

	"perkeep.org/pkg/blob"
	"perkeep.org/pkg/blobserver"
	"perkeep.org/pkg/blobserver/memory"
	_ "perkeep.org/pkg/blobserver/replica"
	"perkeep.org/pkg/test"
)

// mutC14SlowRemover is a replica whose RemoveBlobs is slow: it only takes
// effect (and returns) once the test lets it.
type mutC14SlowRemover struct {
	blobserver.Storage
	entered chan struct{} // receives one value per RemoveBlobs call
	release chan struct{} // closed to let RemoveBlobs proceed
}

func (s *mutC14SlowRemover) RemoveBlobs(ctx context.Context, blobs []blob.Ref) error {
	s.entered <- struct{}{}
	<-s.release
	return s.Storage.RemoveBlobs(ctx, blobs)
}

// A client removes a blob; once the removal has been acknowledged, another
// client (or the same one) stats, fetches and enumerates: none of these may
// see the blob any more, as they started after the removal completed.
func TestMutC14RemoveAckThenRead(t *testing.T) {
	ctx := context.Background()
	fast := &memory.Storage{}
	slow := &mutC14SlowRemover{
		Storage: &memory.Storage{},
		entered: make(chan struct{}, 1),
		release: make(chan struct{}),
	}
	// A replica set that acknowledges writes as soon as one of the two
	// replicas has them ("minWritesForSuccess": 1).
	ld := test.NewLoader()
	ld.SetStorage("/good-slow/", slow)
	ld.SetStorage("/good-fast/", fast)
	sto, err := blobserver.CreateStorage("replica", ld, map[string]any{
		"backends":            []any{"/good-slow/", "/good-fast/"},
		"minWritesForSuccess": float64(1),
	})
	if err != nil {
		t.Fatal(err)
	}

	const contents = "mutC14 replica blob"
	br := blob.RefFromString(contents)
	if _, err := blobserver.Receive(ctx, sto, br, strings.NewReader(contents)); err != nil {
		t.Fatal(err)
	}

	// The upload is acknowledged after the first replica has the blob; wait
	// for the other one too, so that no upload is in flight any more.
	for _, r := range []blobserver.Storage{slow, fast} {
		deadline := time.Now().Add(10 * time.Second)
		for {
			if _, err := blobserver.StatBlob(ctx, r, br); err == nil {
				break
			}
			if time.Now().After(deadline) {
				t.Fatal("blob never reached both replicas")
			}
			time.Sleep(time.Millisecond)
		}
	}

	removed := make(chan error, 1)
	go func() { removed <- sto.RemoveBlobs(ctx, []blob.Ref{br}) }()
	select {
	case <-slow.entered:
	case <-time.After(10 * time.Second):
		t.Fatal("slow replica never asked to remove")
	}

	check := func(when string) {
		if _, err := blobserver.StatBlob(ctx, sto, br); err == nil {
			t.Errorf("%s: StatBlob still finds the blob", when)
		}
		if rc, _, err := sto.Fetch(ctx, br); err == nil {
			rc.Close()
			t.Errorf("%s: Fetch still finds the blob", when)
		}
		var got []blob.Ref
		if err := blobserver.EnumerateAll(ctx, sto, func(sb blob.SizedRef) error {
			got = append(got, sb.Ref)
			return nil
		}); err != nil {
			t.Errorf("%s: enumerate: %v", when, err)
		}
		if len(got) != 0 {
			t.Errorf("%s: enumerate still lists %v", when, got)
		}
	}

	// Give the removal the time to be acknowledged while the slow replica
	// hasn't removed anything yet. It must not be.
	select {
	case err := <-removed:
		if err != nil {
			t.Fatalf("RemoveBlobs: %v", err)
		}
		// Acknowledged: reads that start now must not see the blob.
		check("after RemoveBlobs returned (slow replica still removing)")
		close(slow.release)
		return
	case <-time.After(500 * time.Millisecond):
	}

	close(slow.release)
	select {
	case err := <-removed:
		if err != nil {
			t.Fatalf("RemoveBlobs: %v", err)
		}
	case <-time.After(10 * time.Second):
		t.Fatal("RemoveBlobs never returned")
	}
	check("after RemoveBlobs returned")
}
