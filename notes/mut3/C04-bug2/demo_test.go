package blobpacked

import (
	"bytes"
	"context"
	"errors"
	"fmt"
	"io"
	"log"
	"math/rand"
	"os"
	"testing"

	"perkeep.org/pkg/blob"
	"perkeep.org/pkg/schema"
	"perkeep.org/pkg/sorted"
	"perkeep.org/pkg/test"
)

// mut3DyingMeta is a meta index on which single-row Sets start failing once
// armed. The packer commits everything about a zip in a batch, and only the
// final whole-file row ("w:<wholeref>") with a plain Set, so arming it
// simulates a crash right before that last write of a pack.
type mut3DyingMeta struct {
	sorted.KeyValue
	armed bool
}

func (m *mut3DyingMeta) Set(k, v string) error {
	if m.armed {
		return errors.New("mut3: simulated crash before the final whole-file row")
	}
	return m.KeyValue.Set(k, v)
}

// TestMut3WholeReadAfterCrashBeforeFinalRow interrupts a pack between its
// last zip (stored, indexed, loose blobs deleted) and the final whole-file
// row, restarts the store, and asks for the whole file by its wholeref. The
// answer must be either "not packed" (an error, the caller then uses the
// schema) or exactly the file's bytes and size; both before and after the
// index is rebuilt from the zips.
func TestMut3WholeReadAfterCrashBeforeFinalRow(t *testing.T) {
	ctx := context.Background()
	log.SetOutput(io.Discard) // reindex is chatty
	defer log.SetOutput(os.Stderr)
	for _, tt := range []struct {
		name     string
		fileSize int
		zipMax   int
	}{
		{"single-zip", 1 << 20, 0},
		{"multi-zip", 3 << 20, 500 << 10},
	} {
		data := make([]byte, tt.fileSize)
		rand.New(rand.NewSource(23)).Read(data)
		wholeRef := blob.RefFromBytes(data)

		small, large := new(test.Fetcher), new(test.Fetcher)
		inner := sorted.NewMemoryKeyValue()
		dying := &mut3DyingMeta{KeyValue: inner, armed: true}
		s := &storage{small: small, large: large, meta: dying, log: log.New(io.Discard, "", 0), forceMaxZipBlobSize: tt.zipMax}
		s.init()
		fileRef, err := schema.WriteFileFromReader(ctx, s, "mut3-whole.dat", bytes.NewReader(data))
		if err != nil {
			t.Fatalf("%s: upload: %v", tt.name, err)
		}
		if large.NumBlobs() == 0 || small.NumBlobs() != 0 {
			t.Fatalf("%s: expected all zips written and nothing left loose; got %d zips, %d loose", tt.name, large.NumBlobs(), small.NumBlobs())
		}
		if _, err := inner.Get(wholeMetaPrefix + wholeRef.String()); !errors.Is(err, sorted.ErrNotFound) {
			t.Fatalf("%s: the final whole-file row should be missing; Get = %v", tt.name, err)
		}
		t.Logf("%s: pack of %v interrupted before the final row, %d zips", tt.name, fileRef, large.NumBlobs())

		check := func(when string, s *storage, mustExist bool) {
			t.Helper()
			for _, off := range []int64{0, 1000, int64(tt.fileSize) - 10} {
				rc, size, err := s.OpenWholeRef(wholeRef, off)
				if err != nil {
					if mustExist {
						t.Errorf("%s, %s: OpenWholeRef(offset %d) = %v", tt.name, when, off, err)
					}
					continue // not known as packed: fine
				}
				got, rerr := io.ReadAll(rc)
				rc.Close()
				if size != int64(tt.fileSize) || rerr != nil || !bytes.Equal(got, data[off:]) {
					t.Errorf("%s, %s: OpenWholeRef(offset %d) succeeded with size %d and %d bytes (read err %v); want size %d and %d identical bytes, or an error",
						tt.name, when, off, size, len(got), rerr, tt.fileSize, len(data)-int(off))
				}
			}
			// The file must in all cases be readable through its schema.
			fr, err := schema.NewFileReader(ctx, s, fileRef)
			if err != nil {
				t.Errorf("%s, %s: NewFileReader: %v", tt.name, when, err)
				return
			}
			if got, err := io.ReadAll(fr); err != nil || !bytes.Equal(got, data) {
				t.Errorf("%s, %s: file read through its schema differs (err=%v)", tt.name, when, err)
			}
		}

		// Restart on the same components, without recovery.
		s2 := &storage{small: small, large: large, meta: inner, log: log.New(io.Discard, "", 0), forceMaxZipBlobSize: tt.zipMax}
		s2.init()
		check("after restart", s2, false)

		// Restart again, rebuilding the index from the zips alone (full
		// recovery): now the whole file must be served.
		s3 := &storage{small: small, large: large, log: log.New(io.Discard, "", 0), forceMaxZipBlobSize: tt.zipMax}
		s3.init()
		err = s3.reindex(ctx, func() (sorted.KeyValue, error) { return sorted.NewMemoryKeyValue(), nil })
		if err != nil {
			t.Fatalf("%s: reindex: %v", tt.name, err)
		}
		check(fmt.Sprintf("after full recovery (%d zips)", large.NumBlobs()), s3, true)
	}
}
