package schema

import (
	"bytes"
	"context"
	"io"
	"testing"

	"perkeep.org/pkg/blob"
	"perkeep.org/pkg/test"
)

// mutC15ShortEOFReader hands out its data in reads of at most step bytes
// and returns io.EOF together with the last bytes (as io.Reader allows).
type mutC15ShortEOFReader struct {
	data []byte
	step int
}

func (r *mutC15ShortEOFReader) Read(p []byte) (int, error) {
	if len(r.data) == 0 {
		return 0, io.EOF
	}
	n := min(len(p), r.step, len(r.data))
	copy(p, r.data[:n])
	r.data = r.data[n:]
	if len(r.data) == 0 {
		return n, io.EOF
	}
	return n, nil
}

// TestMutC15Bug1ChunkLimit: content on which the rolling checksum never
// splits (zeros), a length a little over a forced 1 MiB cut, and a source
// that delivers unaligned short reads with the EOF attached to the last one.
func TestMutC15Bug1ChunkLimit(t *testing.T) {
	ctx := context.Background()
	const step = 1000
	for _, over := range []int{1, 180, 700} {
		size := firstChunkSize + maxBlobSize + over
		data := make([]byte, size) // zeros: rollsum never fires
		sto := new(test.Fetcher)
		br, err := WriteFileMap(ctx, sto, NewFileMap("zeros"), &mutC15ShortEOFReader{data: data, step: step})
		if err != nil {
			t.Fatalf("over=%d: WriteFileMap: %v", over, err)
		}
		fr, err := NewFileReader(ctx, sto, br)
		if err != nil {
			t.Fatalf("over=%d: NewFileReader: %v", over, err)
		}
		got, err := io.ReadAll(fr)
		if err != nil {
			t.Fatalf("over=%d: ReadAll: %v", over, err)
		}
		if !bytes.Equal(got, data) {
			t.Errorf("over=%d: read back %d bytes, differ from the %d written", over, len(got), len(data))
		}
		err = fr.ForeachChunk(ctx, func(_ []blob.Ref, p BytesPart) error {
			if p.Size > maxBlobSize {
				t.Errorf("over=%d (file of %d bytes): chunk %v has size %d > limit %d", over, size, p.BlobRef, p.Size, maxBlobSize)
			}
			if p.BlobRef.Valid() {
				rc, sz, err := sto.Fetch(ctx, p.BlobRef)
				if err != nil {
					t.Errorf("over=%d: referenced chunk %v not stored: %v", over, p.BlobRef, err)
					return nil
				}
				rc.Close()
				if sz > maxBlobSize {
					t.Errorf("over=%d: stored blob %v has %d bytes > limit %d", over, p.BlobRef, sz, maxBlobSize)
				}
			}
			return nil
		})
		if err != nil {
			t.Fatalf("over=%d: ForeachChunk: %v", over, err)
		}
	}
}
