package blob_test

import (
	"sort"
	"testing"

	"perkeep.org/pkg/blob"
)

// Refs of one hash function that share their leading bytes must still be
// ordered by Ref.Less exactly as their text forms are ordered byte-wise.
func TestMutC20LessSharedPrefix(t *testing.T) {
	for _, name := range blob.HashFuncs() {
		h, err := blob.NewHashOfType(name)
		if err != nil {
			t.Fatal(err)
		}
		h.Write([]byte("mut-c20 base content"))
		base := blob.RefFromHash(h).String()
		dash := len(name) + 1

		// Variants of base that differ from it in one or two hex digits,
		// at every position of the digest.
		flip := func(s string, pos int, to byte) string {
			b := []byte(s)
			b[pos] = to
			return string(b)
		}
		var strs []string
		seen := map[string]bool{}
		add := func(s string) {
			if !seen[s] {
				seen[s] = true
				strs = append(strs, s)
			}
		}
		add(base)
		for i := dash; i < len(base); i++ {
			lo, hi := flip(base, i, '0'), flip(base, i, 'f')
			add(lo)
			add(hi)
			for j := i + 1; j < len(base); j += 3 {
				add(flip(lo, j, 'f'))
				add(flip(hi, j, '0'))
			}
		}
		refs := make([]blob.Ref, len(strs))
		for i, s := range strs {
			refs[i] = blob.MustParse(s)
		}
		bad := 0
		for i, a := range refs {
			for j, b := range refs {
				if got, want := a.Less(b), strs[i] < strs[j]; got != want {
					bad++
					if bad <= 5 {
						t.Errorf("%s\n  .Less(%s) = %v; text order says %v", strs[i], strs[j], got, want)
					}
				}
			}
		}
		if bad > 0 {
			t.Errorf("%s: %d pairs ordered differently from their text forms", name, bad)
		}

		// And sorting by Ref must give the text-sorted sequence.
		sort.Sort(blob.ByRef(refs))
		sort.Strings(strs)
		for i := range refs {
			if refs[i].String() != strs[i] {
				t.Errorf("%s: sort.Sort(ByRef) position %d = %s; want %s", name, i, refs[i], strs[i])
				break
			}
		}
	}
}
