package buffer_test

import (
	"path/filepath"
	"testing"

	"perkeep.org/pkg/sorted"
	"perkeep.org/pkg/sorted/buffer"
	"perkeep.org/pkg/sorted/leveldb"
)

// A batch committed through the write buffer must reach the backing store
// at Flush, and must survive Close + reopen of the backing store.
func TestMutDemoBatchOnlyWritesAreFlushed(t *testing.T) {
	// 1. explicit Flush with an in-memory backing store.
	back := sorted.NewMemoryKeyValue()
	kv := buffer.New(sorted.NewMemoryKeyValue(), back, 1<<20)
	bm := kv.BeginBatch()
	bm.Set("claim|1", "v1")
	bm.Set("claim|2", "v2")
	if err := kv.CommitBatch(bm); err != nil {
		t.Fatal(err)
	}
	if v, err := kv.Get("claim|1"); err != nil || v != "v1" {
		t.Fatalf("buffered Get(claim|1) = %q, %v; want v1", v, err)
	}
	if err := kv.Flush(); err != nil {
		t.Fatal(err)
	}
	for _, k := range []string{"claim|1", "claim|2"} {
		if v, err := back.Get(k); err != nil {
			t.Errorf("after Flush, backing Get(%q) = %q, %v; want the value committed in the batch", k, v, err)
		}
	}

	// 2. Close and reopen with a leveldb backing store; the batch is
	// committed after a first (Set-triggered) flush.
	dir := filepath.Join(t.TempDir(), "db")
	lback, err := leveldb.NewStorage(dir)
	if err != nil {
		t.Fatal(err)
	}
	kv = buffer.New(sorted.NewMemoryKeyValue(), lback, 1<<20)
	if err := kv.Set("a", "1"); err != nil {
		t.Fatal(err)
	}
	if err := kv.Flush(); err != nil {
		t.Fatal(err)
	}
	bm = kv.BeginBatch()
	bm.Set("b", "2")
	bm.Delete("a")
	bm.Set("c", "3")
	if err := kv.CommitBatch(bm); err != nil {
		t.Fatal(err)
	}
	if err := kv.Close(); err != nil {
		t.Fatal(err)
	}
	re, err := leveldb.NewStorage(dir)
	if err != nil {
		t.Fatal(err)
	}
	defer re.Close()
	var got []string
	if err := sorted.Foreach(re, func(k, v string) error {
		got = append(got, k+"="+v)
		return nil
	}); err != nil {
		t.Fatal(err)
	}
	want := []string{"b=2", "c=3"}
	if len(got) != len(want) || got[0] != want[0] || got[1] != want[1] {
		t.Errorf("after Close and reopen, contents = %q; want %q", got, want)
	}
}
