package files_test

import (
	"context"
	"fmt"
	"os"
	"strings"
	"sync"
	"testing"

	"perkeep.org/pkg/blob"
	"perkeep.org/pkg/blobserver"
	"perkeep.org/pkg/blobserver/files"
)

// mutC14FS is the host filesystem, with a hook at the Rename boundary: it lets
// the test schedule another client's operation right after a receive has moved
// its temp file in place.
type mutC14FS struct {
	files.VFS
	mu          sync.Mutex
	afterRename func(newname string)
}

func (fs *mutC14FS) Rename(oldname, newname string) error {
	err := fs.VFS.Rename(oldname, newname)
	fs.mu.Lock()
	hook := fs.afterRename
	fs.mu.Unlock()
	if err == nil && hook != nil {
		hook(newname)
	}
	return err
}

// Client 1 uploads blob X while client 2 removes X. The removal happens to run
// right after client 1's file has been renamed in place. Whatever the order,
// both calls must complete normally: the upload is acknowledged (with the right
// size), the removal succeeds, and X is gone (upload, then removal).
func TestMutC14ReceiveRemovedRightAfterStore(t *testing.T) {
	ctx := context.Background()
	fs := &mutC14FS{VFS: files.OSFS()}
	sto := files.NewStorage(fs, t.TempDir())

	const contents = "mutC14 files blob"
	br := blob.RefFromString(contents)

	var removeErr error
	removed := false
	fs.mu.Lock()
	fs.afterRename = func(string) {
		// client 2
		removed = true
		removeErr = sto.RemoveBlobs(ctx, []blob.Ref{br})
	}
	fs.mu.Unlock()

	var (
		sb      blob.SizedRef
		recvErr error
	)
	func() {
		defer func() {
			if e := recover(); e != nil {
				recvErr = fmt.Errorf("ReceiveBlob panicked: %v", e)
			}
		}()
		// client 1
		sb, recvErr = sto.ReceiveBlob(ctx, br, strings.NewReader(contents))
	}()
	if !removed {
		t.Fatal("test bug: the removal didn't run")
	}
	if removeErr != nil {
		t.Errorf("RemoveBlobs: %v", removeErr)
	}
	if recvErr != nil {
		t.Fatalf("ReceiveBlob of a blob removed right after it was stored: %v", recvErr)
	}
	if want := (blob.SizedRef{Ref: br, Size: uint32(len(contents))}); sb != want {
		t.Errorf("ReceiveBlob = %v; want %v", sb, want)
	}
	if _, err := blobserver.StatBlob(ctx, sto, br); err != os.ErrNotExist {
		t.Errorf("StatBlob after upload+removal: err = %v; want os.ErrNotExist", err)
	}

	// And without interference the store still works.
	fs.mu.Lock()
	fs.afterRename = nil
	fs.mu.Unlock()
	if _, err := sto.ReceiveBlob(ctx, br, strings.NewReader(contents)); err != nil {
		t.Fatalf("second ReceiveBlob: %v", err)
	}
	if got, err := blobserver.StatBlob(ctx, sto, br); err != nil || got.Size != uint32(len(contents)) {
		t.Errorf("StatBlob after second upload = %v, %v", got, err)
	}
}
