package handlers_test

import (
	"bytes"
	"context"
	"encoding/json"
	"mime/multipart"
	"net/http/httptest"
	"testing"
	"time"

	"perkeep.org/pkg/blob"
	"perkeep.org/pkg/blobserver"
	"perkeep.org/pkg/blobserver/handlers"
	"perkeep.org/pkg/blobserver/memory"
	"perkeep.org/pkg/blobserver/protocol"
)

type mutStorageAndConfig struct {
	blobserver.Storage
}

func (mutStorageAndConfig) Config() *blobserver.Config { return &blobserver.Config{Writable: true} }

func mutData(n int) []byte {
	b := make([]byte, n)
	for i := range b {
		b[i] = byte(i*11 + i>>10)
	}
	return b
}

// mutMultipartUpload POSTs one part named after br with the given content to
// the batch upload handler in front of sto and returns the decoded response.
func mutMultipartUpload(t *testing.T, sto blobserver.Storage, br blob.Ref, content []byte) protocol.UploadResponse {
	t.Helper()
	var body bytes.Buffer
	mw := multipart.NewWriter(&body)
	w, err := mw.CreateFormFile(br.String(), br.String())
	if err != nil {
		t.Fatal(err)
	}
	w.Write(content)
	mw.Close()

	req := httptest.NewRequest("POST", "/camli/upload", &body)
	req.Header.Set("Content-Type", mw.FormDataContentType())
	rec := httptest.NewRecorder()
	handlers.CreateBatchUploadHandler(mutStorageAndConfig{sto}).ServeHTTP(rec, req)

	var res protocol.UploadResponse
	if err := json.Unmarshal(rec.Body.Bytes(), &res); err != nil {
		t.Fatalf("bad response (status %d) %q: %v", rec.Code, rec.Body.String(), err)
	}
	return res
}

func mutEnumerate(t *testing.T, sto blobserver.Storage) []blob.SizedRef {
	t.Helper()
	ch := make(chan blob.SizedRef, 16)
	errc := make(chan error, 1)
	go func() { errc <- sto.EnumerateBlobs(context.Background(), ch, "", 10) }()
	var got []blob.SizedRef
	for sb := range ch {
		got = append(got, sb)
	}
	if err := <-errc; err != nil {
		t.Errorf("enumerate: %v", err)
	}
	return got
}

// A multipart part longer than the 16 MiB blob limit must be refused, also
// when it is named after the blobref of its own first 16 MiB.
func TestMutMultipartOversizedPart(t *testing.T) {
	ctx := context.Background()
	for _, extra := range []int{1, 2, 1000, 1 << 20} {
		data := mutData(blobserver.MaxBlobSize + extra)
		prefixRef := blob.RefFromBytes(data[:blobserver.MaxBlobSize])

		sto := new(memory.Storage)
		notified := make(chan blob.Ref, 1)
		hub := blobserver.GetHub(mutStorageAndConfig{sto})
		hub.RegisterListener(notified)

		res := mutMultipartUpload(t, sto, prefixRef, data)
		if len(res.Received) != 0 {
			t.Errorf("+%d: oversized part listed as received: %v", extra, res.Received)
		}
		if res.ErrorText == "" {
			t.Errorf("+%d: no error reported for the oversized part", extra)
		}
		if rc, size, err := sto.Fetch(ctx, prefixRef); err == nil {
			rc.Close()
			t.Errorf("+%d: rejected blob %v is fetchable (%d bytes)", extra, prefixRef, size)
		}
		if sb, err := blobserver.StatBlob(ctx, sto, prefixRef); err == nil && sb.Valid() {
			t.Errorf("+%d: rejected blob is stat-able: %v", extra, sb)
		}
		if got := mutEnumerate(t, sto); len(got) != 0 {
			t.Errorf("+%d: rejected blob is enumerated: %v", extra, got)
		}
		select {
		case br := <-notified:
			t.Errorf("+%d: observers were notified of rejected blob %v", extra, br)
		case <-time.After(50 * time.Millisecond):
		}
		hub.UnregisterListener(notified)
	}
}

// Control: a part of exactly 16 MiB under its own ref is fine, and the same
// oversized body is refused by the PUT endpoint (chunked, no Content-Length).
func TestMutMultipartControls(t *testing.T) {
	data := mutData(blobserver.MaxBlobSize + 1000)
	prefix := data[:blobserver.MaxBlobSize]
	prefixRef := blob.RefFromBytes(prefix)

	sto := new(memory.Storage)
	res := mutMultipartUpload(t, sto, prefixRef, prefix)
	if len(res.Received) != 1 || res.Received[0].Ref != prefixRef || res.ErrorText != "" {
		t.Errorf("upload of a valid %d byte blob: received=%v errorText=%q", len(prefix), res.Received, res.ErrorText)
	}

	sto = new(memory.Storage)
	req := httptest.NewRequest("PUT", "/camli/"+prefixRef.String(), struct{ *bytes.Reader }{bytes.NewReader(data)})
	req.ContentLength = -1
	rec := httptest.NewRecorder()
	handlers.CreatePutUploadHandler(sto).ServeHTTP(rec, req)
	if rec.Code/100 == 2 {
		t.Errorf("PUT of %d bytes: status %d; want a rejection", len(data), rec.Code)
	}
	if got := mutEnumerate(t, sto); len(got) != 0 {
		t.Errorf("PUT: rejected blob is enumerated: %v", got)
	}
}
