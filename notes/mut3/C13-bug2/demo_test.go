package blobpacked

import (
	"bytes"
	"context"
	"errors"
	"io"
	"math/rand"
	"path/filepath"
	"sync/atomic"
	"testing"
	"time"

	"perkeep.org/pkg/blob"
	"perkeep.org/pkg/blobserver"
	"perkeep.org/pkg/schema"
	"perkeep.org/pkg/sorted/sqlite"
	"perkeep.org/pkg/test"
)

// mutC13FlakyLarge is the "large" (zip) store of a blobpacked storage. Its
// next ReceiveBlob call fails once with a transient error when armed.
type mutC13FlakyLarge struct {
	*test.Fetcher
	failNextReceive atomic.Bool
	fired           atomic.Bool
}

func (l *mutC13FlakyLarge) ReceiveBlob(ctx context.Context, br blob.Ref, r io.Reader) (blob.SizedRef, error) {
	if l.failNextReceive.CompareAndSwap(true, false) {
		l.fired.Store(true)
		io.Copy(io.Discard, r)
		return blob.SizedRef{}, errors.New("injected transient failure of the large store")
	}
	return l.Fetcher.ReceiveBlob(ctx, br, r)
}

// A blobpacked storage whose meta index is an SQLite database (a supported
// "metaIndex" type). The upload of one zip to the large store fails once
// while a file is being packed. All blobs of the file were acknowledged
// (they are in the small store), so they must remain served, and nothing
// may hang once the failure is gone.
func TestMutC13LargeStoreFaultWhilePackingSQLiteMeta(t *testing.T) {
	meta, err := sqlite.NewStorage(filepath.Join(t.TempDir(), "meta.sqlite"))
	if err != nil {
		t.Fatalf("sqlite meta index: %v", err)
	}
	large := &mutC13FlakyLarge{Fetcher: new(test.Fetcher)}
	sto := &storage{
		small: new(test.Fetcher),
		large: large,
		meta:  meta,
		log:   test.NewLogger(t, "blobpacked: "),
	}
	sto.init()

	ctx := context.Background()
	contents := make([]byte, 1<<20) // over packThreshold: gets packed
	rand.New(rand.NewSource(13)).Read(contents)

	type result struct {
		what string
		err  error
	}
	step := func(what string, fn func() error) {
		t.Helper()
		c := make(chan result, 1)
		go func() { c <- result{what, fn()} }()
		select {
		case r := <-c:
			if r.err != nil {
				t.Fatalf("%s: %v", r.what, r.err)
			}
		case <-time.After(10 * time.Second):
			t.Fatalf("%s: still blocked after 10s: the storage hangs after a transient failure of the large store", what)
		}
	}

	var fileRef blob.Ref
	large.failNextReceive.Store(true)
	step("upload of the file (its packing hits the fault)", func() error {
		var err error
		fileRef, err = schema.WriteFileFromReader(ctx, sto, "foo.dat", bytes.NewReader(contents))
		return err
	})
	if !large.fired.Load() {
		t.Fatal("the fault was not reached: the file wasn't packed")
	}

	// Faults have stopped. Everything acknowledged must be served.
	step("stat of the file blob after the fault", func() error {
		_, err := blobserver.StatBlob(ctx, sto, fileRef)
		return err
	})
	step("read back of the file after the fault", func() error {
		fr, err := schema.NewFileReader(ctx, sto, fileRef)
		if err != nil {
			return err
		}
		got, err := io.ReadAll(fr)
		if err != nil {
			return err
		}
		if !bytes.Equal(got, contents) {
			return errors.New("file contents differ")
		}
		return nil
	})
	step("upload of another blob after the fault", func() error {
		_, err := blobserver.ReceiveString(ctx, sto, "another blob")
		return err
	})
	step("re-upload of the file schema blob (packs the file now)", func() error {
		rc, _, err := sto.Fetch(ctx, fileRef)
		if err != nil {
			return err
		}
		defer rc.Close()
		_, err = blobserver.Receive(ctx, sto, fileRef, rc)
		return err
	})
	if n := large.NumBlobs(); n != 1 {
		t.Errorf("zips in large after the retried pack = %d; want 1", n)
	}
}
