package serverinit_test

import (
	"context"
	"encoding/json"
	"errors"
	"io"
	"log"
	"net/http"
	"net/http/httptest"
	"os"
	"path/filepath"
	"testing"

	"perkeep.org/internal/osutil"
	"perkeep.org/pkg/auth"
	"perkeep.org/pkg/blob"
	"perkeep.org/pkg/client"
	"perkeep.org/pkg/serverinit"

	_ "perkeep.org/pkg/blobserver/blobpacked"
	_ "perkeep.org/pkg/blobserver/cond"
	_ "perkeep.org/pkg/blobserver/diskpacked"
	_ "perkeep.org/pkg/blobserver/localdisk"
	_ "perkeep.org/pkg/blobserver/memory"
	_ "perkeep.org/pkg/blobserver/replica"
	_ "perkeep.org/pkg/search"
	_ "perkeep.org/pkg/server"
)

// mutC18B1World starts an in-process perkeepd from a high-level configuration
// (memory index; storage selected by kind) and returns its base URL.
func mutC18B1World(t *testing.T, kind string) string {
	t.Helper()
	srcRoot, err := osutil.PkSourceRoot()
	if err != nil {
		t.Fatalf("source root folder not found: %v", err)
	}
	t.Setenv("CAMLI_CONFIG_DIR", "whatever")
	hi := map[string]any{
		"auth":               "none",
		"https":              false,
		"identity":           "26F5ABDA",
		"identitySecretRing": filepath.Join(srcRoot, filepath.FromSlash("pkg/jsonsign/testdata/test-secring.gpg")),
		"memoryIndex":        true,
	}
	dir := t.TempDir()
	for _, sub := range []string{"", "packed", "cache"} {
		if err := os.MkdirAll(filepath.Join(dir, sub), 0700); err != nil {
			t.Fatal(err)
		}
	}
	switch kind {
	case "memory":
		hi["memoryStorage"] = true
	case "localdisk":
		hi["blobPath"] = dir
	case "diskpacked":
		hi["blobPath"] = dir
		hi["packBlobs"] = true
	case "blobpacked":
		hi["blobPath"] = dir
		hi["packRelated"] = true
	default:
		t.Fatalf("unknown world kind %q", kind)
	}
	mux := http.NewServeMux()
	srv := httptest.NewUnstartedServer(mux)
	baseURL := "http://" + srv.Listener.Addr().String()
	hi["listen"] = srv.Listener.Addr().String()
	hi["baseURL"] = baseURL
	confData, err := json.Marshal(hi)
	if err != nil {
		t.Fatal(err)
	}
	conf, err := serverinit.Load(confData)
	if err != nil {
		t.Fatalf("Load(%s): %v", kind, err)
	}
	shutdown, err := conf.InstallHandlers(mux, baseURL)
	if err != nil {
		t.Fatalf("InstallHandlers(%s): %v", kind, err)
	}
	auth.SetMode(auth.None{})
	srv.Start()
	t.Cleanup(func() {
		srv.Close()
		shutdown.Close()
	})
	return baseURL
}

// TestMutC18Bug1AbsentBlobOverHTTP checks that a blob the server does not
// have is reported as absent (404 / os.ErrNotExist) by GET and HEAD on the
// blob root, for every storage the high-level configuration can select.
func TestMutC18Bug1AbsentBlobOverHTTP(t *testing.T) {
	log.SetOutput(io.Discard)
	defer log.SetOutput(os.Stderr)
	ctx := context.Background()
	for _, kind := range []string{"memory", "localdisk", "diskpacked", "blobpacked"} {
		t.Run(kind, func(t *testing.T) {
			base := mutC18B1World(t, kind)
			blobRoot := base + "/bs-and-maybe-also-index"

			cl, err := client.New(client.OptionServer(blobRoot), client.OptionNoExternalConfig())
			if err != nil {
				t.Fatal(err)
			}
			cl.Logger.SetOutput(io.Discard)

			// One present blob, so the store isn't empty.
			const present = "some blob that is there"
			if _, err := cl.Upload(ctx, client.NewUploadHandleFromString(present)); err != nil {
				t.Fatalf("upload: %v", err)
			}
			absent := blob.RefFromString("a blob nobody ever uploaded")

			for _, method := range []string{"GET", "HEAD"} {
				req, _ := http.NewRequest(method, blobRoot+"/camli/"+absent.String(), nil)
				res, err := http.DefaultClient.Do(req)
				if err != nil {
					t.Fatal(err)
				}
				res.Body.Close()
				if res.StatusCode != http.StatusNotFound {
					t.Errorf("%s of absent blob: status %d; want 404", method, res.StatusCode)
				}
			}
			// The present one is still served.
			res, err := http.Get(blobRoot + "/camli/" + blob.RefFromString(present).String())
			if err != nil {
				t.Fatal(err)
			}
			body, _ := io.ReadAll(res.Body)
			res.Body.Close()
			if res.StatusCode != 200 || string(body) != present {
				t.Errorf("GET of present blob: status %d, body %q; want 200, %q", res.StatusCode, body, present)
			}

			// pkg/client maps the 404 to os.ErrNotExist (blob.Fetcher contract).
			if _, _, err := cl.Fetch(ctx, absent); !errors.Is(err, os.ErrNotExist) {
				t.Errorf("client.Fetch of absent blob = %v; want os.ErrNotExist", err)
			}
		})
	}
}
