package index_test

import (
	"context"
	"fmt"
	"strings"
	"testing"

	"perkeep.org/pkg/blob"
	"perkeep.org/pkg/index"
	"perkeep.org/pkg/index/indextest"
	"perkeep.org/pkg/schema"
	"perkeep.org/pkg/sorted"
	"perkeep.org/pkg/test"
)

// mut3C05Bug1Arrive indexes the blobs in the given arrival order (a blob may
// arrive several times) and returns the resulting index rows.
func mut3C05Bug1Arrive(t *testing.T, order []*test.Blob) (rows map[string]string, ix *index.Index) {
	t.Helper()
	ctx := context.Background()
	s := sorted.NewMemoryKeyValue()
	ix, err := index.New(s)
	if err != nil {
		t.Fatal(err)
	}
	bs := new(test.Fetcher)
	ix.InitBlobSource(bs)
	for _, b := range order {
		bs.AddBlob(b)
		if _, err := ix.ReceiveBlob(ctx, b.BlobRef(), b.Reader()); err != nil {
			t.Fatalf("ReceiveBlob(%v): %v", b.BlobRef(), err)
		}
		ix.Exp_AwaitAsyncIndexing(t)
	}
	rows = make(map[string]string)
	it := s.Find("", "")
	for it.Next() {
		rows[it.Key()] = it.Value()
	}
	if err := it.Close(); err != nil {
		t.Fatal(err)
	}
	return rows, ix
}

func mut3C05Bug1Compare(t *testing.T, name string, want, got map[string]string, ix *index.Index) {
	t.Helper()
	for k, v := range want {
		if gv, ok := got[k]; !ok {
			t.Errorf("%s: row %q = %q is missing", name, k, v)
		} else if gv != v {
			t.Errorf("%s: row %q = %q; want %q", name, k, gv, v)
		}
	}
	for k, v := range got {
		if _, ok := want[k]; !ok {
			t.Errorf("%s: unexpected row %q = %q", name, k, v)
		}
	}
	ix.WithNeededMapsForTest(func(needs, neededBy map[blob.Ref][]blob.Ref, ready map[blob.Ref]bool) {
		if len(needs) != 0 || len(neededBy) != 0 || len(ready) != 0 {
			t.Errorf("%s: needs = %v, neededBy = %v, ready = %v; want all empty", name, needs, neededBy, ready)
		}
	})
}

// A blob that is waiting for a dependency and is uploaded a second time
// (a client retry, or a sync pass: blobs waiting for a fetched dependency
// have no "have" row, so a sync to the index sends them again) must still
// get indexed once the dependency arrives, and the index must end up in the
// same state as if every blob had arrived once and in dependency order.
func TestMut3C05Bug1DuplicateOfWaitingBlob(t *testing.T) {
	signIdx, err := index.New(sorted.NewMemoryKeyValue())
	if err != nil {
		t.Fatal(err)
	}
	id := indextest.NewIndexDeps(signIdx)
	id.Fataler = t
	key := indextest.PubKey

	t.Run("deleteClaimBeforeTarget", func(t *testing.T) {
		pn := id.Sign(schema.NewPlannedPermanode("mut3c05bug1"))
		del := id.Sign(schema.NewDeleteClaim(pn.BlobRef()))

		want, _ := mut3C05Bug1Arrive(t, []*test.Blob{key, pn, del})
		if _, ok := want["have:"+del.BlobRef().String()]; !ok {
			t.Fatal("reference run didn't index the delete claim")
		}
		got, ix := mut3C05Bug1Arrive(t, []*test.Blob{key, del, del, pn})
		mut3C05Bug1Compare(t, "key,del,del,pn", want, got, ix)
		if v := got["have:"+del.BlobRef().String()]; !strings.HasSuffix(v, "|indexed") {
			t.Errorf("delete claim not fully indexed: have row = %q", v)
		}
	})

	t.Run("fileBeforeChunk", func(t *testing.T) {
		c1 := &test.Blob{Contents: "mut3c05bug1-chunk-one"}
		file := &test.Blob{Contents: fmt.Sprintf(`{"camliVersion": 1,
"camliType": "file",
"fileName": "bug1.txt",
"parts": [
  {"blobRef": "%s", "size": %d}
]}`, c1.BlobRef(), len(c1.Contents))}

		want, _ := mut3C05Bug1Arrive(t, []*test.Blob{c1, file})
		got, ix := mut3C05Bug1Arrive(t, []*test.Blob{file, file, c1})
		mut3C05Bug1Compare(t, "file,file,c1", want, got, ix)
	})

	// Sanity: without the duplicate the out-of-order arrival works.
	t.Run("noDuplicate", func(t *testing.T) {
		pn := id.Sign(schema.NewPlannedPermanode("mut3c05bug1-nodup"))
		del := id.Sign(schema.NewDeleteClaim(pn.BlobRef()))
		want, _ := mut3C05Bug1Arrive(t, []*test.Blob{key, pn, del})
		got, ix := mut3C05Bug1Arrive(t, []*test.Blob{key, del, pn})
		mut3C05Bug1Compare(t, "key,del,pn", want, got, ix)
	})
}
