package server

import (
	"fmt"
	"testing"
	"time"

	"perkeep.org/pkg/blob"
	"perkeep.org/pkg/index"
	"perkeep.org/pkg/schema"
	"perkeep.org/pkg/sorted"
	"perkeep.org/pkg/test"
)

// TestMutC17ShareDeletionSurvivesRestart checks that a deleted share claim
// stays deleted after the index is reopened on the same key/value storage
// (i.e. after a server restart).
func TestMutC17ShareDeletionSurvivesRestart(t *testing.T) {
	sto := new(test.Fetcher)
	kv := sorted.NewMemoryKeyValue()
	idx, err := index.New(kv)
	if err != nil {
		t.Fatal(err)
	}
	idx.InitBlobSource(sto)
	sig, armorPub := newSigner(t)
	st := &shareTester{
		t:          t,
		sto:        sto,
		signer:     sig,
		handler:    &shareHandler{fetcher: sto, idx: idx},
		restoreLog: test.TLog(t),
	}
	timeSleep = func(d time.Duration) { st.sleeps++ }
	defer st.done()
	st.putRaw(blob.RefFromString(armorPub), armorPub)

	content := "monkey" // the secret
	contentRef := blob.RefFromString(content)
	link := fmt.Sprintf(`{"camliVersion": 1,
"camliType": "file",
"parts": [
   {"blobRef": "%v", "size": %d}
]}`, contentRef, len(content))
	linkRef := blob.RefFromString(link)
	st.putRaw(contentRef, content)
	st.putRaw(linkRef, link)

	share := schema.NewShareRef(schema.ShareHaveRef, false).
		SetShareTarget(linkRef).
		SetShareIsTransitive(true)
	signed, err := share.SignAt(ctxbg, st.signer, time.Now())
	if err != nil {
		t.Fatal(err)
	}
	shareRef := blob.RefFromString(signed)
	st.putRaw(shareRef, signed)
	st.testGet(fmt.Sprintf("%s?via=%s,%s", contentRef, shareRef, linkRef), noError)

	deletion := schema.NewDeleteClaim(shareRef)
	signedDel, err := deletion.SignAt(ctxbg, st.signer, time.Now())
	if err != nil {
		t.Fatal(err)
	}
	st.putRaw(blob.RefFromString(signedDel), signedDel)
	st.testGet(fmt.Sprintf("%s?via=%s,%s", contentRef, shareRef, linkRef), shareDeleted)
	st.testGet(shareRef.String(), shareDeleted)

	// "Restart": reopen the index over the very same sorted storage.
	idx2, err := index.New(kv)
	if err != nil {
		t.Fatal(err)
	}
	idx2.InitBlobSource(sto)
	st.handler = &shareHandler{fetcher: sto, idx: idx2}

	st.testGet(shareRef.String(), shareDeleted)
	st.testGet(fmt.Sprintf("%s?via=%s", linkRef, shareRef), shareDeleted)
	st.testGet(fmt.Sprintf("%s?via=%s,%s", contentRef, shareRef, linkRef), shareDeleted)
	if st.rec.Code == 200 {
		t.Errorf("after restart, content %q served through deleted share", st.rec.Body.String())
	}
}
