package server

import (
	"fmt"
	"testing"
	"time"

	"perkeep.org/pkg/blob"
	"perkeep.org/pkg/schema"
)

// TestMutC17ShareExpiredAtEpoch checks that a share claim whose "expires"
// is the Unix epoch (a natural way to write "expired long ago") is treated
// as expired, like any other share with an expiry date in the past.
func TestMutC17ShareExpiredAtEpoch(t *testing.T) {
	st := newShareTester(t)
	defer st.done()

	content := "monkey" // the secret
	contentRef := blob.RefFromString(content)
	link := fmt.Sprintf(`{"camliVersion": 1,
"camliType": "file",
"parts": [
   {"blobRef": "%v", "size": %d}
]}`, contentRef, len(content))
	linkRef := blob.RefFromString(link)
	st.putRaw(contentRef, content)
	st.putRaw(linkRef, link)

	for _, exp := range []time.Time{
		time.Unix(1, 0), // control: one second later
		time.Unix(0, 0),
		time.Unix(0, 500e6), // still within the first second of 1970
	} {
		share := schema.NewShareRef(schema.ShareHaveRef, true).
			SetShareTarget(linkRef).
			SetShareExpiration(exp).
			SetSigner(blob.RefFromString("irrelevant")).
			SetRawStringField("camliSig", "alsounused")
		st.put(share.Blob())
		shareRef := share.Blob().BlobRef()
		t.Logf("share %v: %s", shareRef, share.Blob().JSON())

		st.testGet(shareRef.String(), shareExpired)
		st.testGet(fmt.Sprintf("%s?via=%s", linkRef, shareRef), shareExpired)
		st.testGet(fmt.Sprintf("%s?via=%s,%s", contentRef, shareRef, linkRef), shareExpired)
		if st.rec.Code == 200 {
			t.Errorf("expires=%v: content %q served through expired share", exp.UTC(), st.rec.Body.String())
		}
	}
}
