package blob_test

import (
	"encoding/json"
	"testing"

	"perkeep.org/pkg/blob"
)

// A string naming a supported hash function but carrying the wrong number
// of hex digits is not a blobref: ParseBytes must agree with Parse and
// ParseKnown in rejecting it, and JSON decoding of it must fail rather than
// silently produce a ref.
func TestMutC20WrongLengthRejectedEverywhere(t *testing.T) {
	for _, name := range blob.HashFuncs() {
		h, err := blob.NewHashOfType(name)
		if err != nil {
			t.Fatal(err)
		}
		h.Write([]byte("mut-c20"))
		good := blob.RefFromHash(h).String()

		bads := []string{
			name + "-",
			name + "-0b",
			name + "-0beec7",
			good[:len(good)-2],
			good[:len(good)-1],
			good + "0",
			good + "00",
			good + good[len(name)+1:],
		}
		for _, s := range bads {
			if r, ok := blob.Parse(s); ok || r.Valid() {
				t.Errorf("Parse(%q) = %v, %v; want rejection", s, r, ok)
			}
			if r, ok := blob.ParseKnown(s); ok || r.Valid() {
				t.Errorf("ParseKnown(%q) = %v, %v; want rejection", s, r, ok)
			}
			r, ok := blob.ParseBytes([]byte(s))
			if ok || r.Valid() {
				t.Errorf("ParseBytes(%q) = %v, ok=%v; want zero ref and ok=false", s, r, ok)
			}
			if ok != r.Valid() {
				t.Errorf("ParseBytes(%q): ok=%v but Valid()=%v", s, ok, r.Valid())
			}

			js, _ := json.Marshal(s)
			var jr blob.Ref
			if err := json.Unmarshal(js, &jr); err == nil {
				t.Errorf("json.Unmarshal(%s) into Ref: no error (got %v, valid=%v); want error", js, jr, jr.Valid())
			}
			var sr blob.SizedRef
			doc := []byte(`{"blobRef":` + string(js) + `,"size":3}`)
			if err := json.Unmarshal(doc, &sr); err == nil {
				t.Errorf("json.Unmarshal(%s) into SizedRef: no error (got %v); want error", doc, sr)
			}
		}

		// Sanity: the well-formed one is accepted on every path.
		if r, ok := blob.ParseBytes([]byte(good)); !ok || r.String() != good {
			t.Errorf("ParseBytes(%q) = %v, %v", good, r, ok)
		}
		var jr blob.Ref
		if err := json.Unmarshal([]byte(`"`+good+`"`), &jr); err != nil || jr.String() != good {
			t.Errorf("json.Unmarshal(%q) = %v, %v", good, jr, err)
		}
	}
}
