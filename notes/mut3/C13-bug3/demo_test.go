package encrypt

import (
	"context"
	"errors"
	"fmt"
	"io"
	"sync"
	"sync/atomic"
	"testing"
	"time"

	"filippo.io/age"
	"perkeep.org/pkg/blob"
	"perkeep.org/pkg/blobserver"
	"perkeep.org/pkg/blobserver/memory"
	"perkeep.org/pkg/sorted"
)

// mutC13FlakyKV is a key/value index whose n-th Get (counted from the
// moment the fault is armed) fails once with a transient error.
type mutC13FlakyKV struct {
	sorted.KeyValue
	failGetAt atomic.Int64 // 0: disarmed
	fired     chan struct{}
	once      sync.Once
}

func (kv *mutC13FlakyKV) Get(key string) (string, error) {
	if n := kv.failGetAt.Load(); n > 0 {
		if kv.failGetAt.Add(-1) == 0 {
			kv.once.Do(func() { close(kv.fired) })
			return "", errors.New("injected transient index failure")
		}
	}
	return kv.KeyValue.Get(key)
}

// mutC13MetaStore is the store of the meta blobs. It tells when meta
// blobs get removed (which happens at the end of a meta compaction).
type mutC13MetaStore struct {
	*memory.Storage
	removed chan struct{}
	once    sync.Once
}

func (m *mutC13MetaStore) RemoveBlobs(ctx context.Context, blobs []blob.Ref) error {
	err := m.Storage.RemoveBlobs(ctx, blobs)
	m.once.Do(func() { close(m.removed) })
	return err
}

// More than SmallMetaCountLimit blobs are stored (and acknowledged), so a
// compaction of the small meta blobs starts in the background; one single
// lookup in the index fails while it runs. Afterwards, the store must
// still be rebuildable by its own recovery procedure: the scan of the meta
// blobs that newFromConfig runs on start-up must find every acknowledged
// blob again.
func TestMutC13IndexFaultDuringMetaCompactionThenMetaRescan(t *testing.T) {
	ctx := context.Background()
	identity, err := age.GenerateX25519Identity()
	if err != nil {
		t.Fatal(err)
	}
	blobs := &memory.Storage{}
	meta := &mutC13MetaStore{Storage: &memory.Storage{}, removed: make(chan struct{})}
	index := &mutC13FlakyKV{KeyValue: sorted.NewMemoryKeyValue(), fired: make(chan struct{})}
	sto := &storage{
		index:     index,
		smallMeta: &metaBlobHeap{},
		identity:  identity,
		blobs:     blobs,
		meta:      meta,
	}

	contents := func(i int) string { return fmt.Sprintf("acknowledged blob number %d", i) }
	n := SmallMetaCountLimit + 1
	for i := 0; i < n; i++ {
		if i == n-1 {
			// The last upload triggers the compaction. Its own
			// duplicate check is the 1st Get from now on; the 2nd Get
			// is the first lookup of the compaction.
			index.failGetAt.Store(2)
		}
		if _, err := blobserver.ReceiveString(ctx, sto, contents(i)); err != nil {
			t.Fatalf("upload %d: %v", i, err)
		}
	}
	select {
	case <-index.fired:
	case <-time.After(10 * time.Second):
		t.Fatal("the fault was not reached: no compaction of the meta blobs?")
	}
	// Let the compaction finish (it ends by removing the small meta
	// blobs) or be abandoned.
	select {
	case <-meta.removed:
		t.Log("the compaction went on and removed the small meta blobs")
	case <-time.After(1500 * time.Millisecond):
		t.Log("the compaction was abandoned")
	}

	// While the index is there, everything is served.
	for i := 0; i < n; i++ {
		if _, _, err := sto.Fetch(ctx, blob.RefFromString(contents(i))); err != nil {
			t.Errorf("before recovery: fetch of blob %d: %v", i, err)
		}
	}

	// Recovery: the index is lost; rebuild it from the meta blobs.
	recovered := &storage{
		index:     sorted.NewMemoryKeyValue(),
		smallMeta: &metaBlobHeap{},
		identity:  identity,
		blobs:     blobs,
		meta:      meta.Storage,
	}
	if err := recovered.readAllMetaBlobs(); err != nil {
		t.Fatalf("meta re-scan failed: %v", err)
	}
	lost := 0
	for i := 0; i < n; i++ {
		br := blob.RefFromString(contents(i))
		rc, _, err := recovered.Fetch(ctx, br)
		if err != nil {
			lost++
			t.Errorf("after the meta re-scan: acknowledged blob %d (%v) is lost: %v", i, br, err)
			continue
		}
		got, _ := io.ReadAll(rc)
		rc.Close()
		if string(got) != contents(i) {
			t.Errorf("after the meta re-scan: blob %d = %q; want %q", i, got, contents(i))
		}
	}
	if lost > 0 {
		t.Errorf("%d of %d acknowledged blobs are not found by the recovery procedure", lost, n)
	}
}
