package cond_test

import (
	"bytes"
	"context"
	"io"
	"testing"

	"perkeep.org/pkg/blob"
	"perkeep.org/pkg/blobserver"
	_ "perkeep.org/pkg/blobserver/cond"
	"perkeep.org/pkg/blobserver/replica"
	"perkeep.org/pkg/test"
)

// TestMutC01Bug2LargeBlobThroughIsSchemaCond stores blobs of various sizes
// (up to a few MiB; the blob size limit is 16 MiB) through a "cond" storage
// that routes on isSchema, and reads them back.
func TestMutC01Bug2LargeBlobThroughIsSchemaCond(t *testing.T) {
	ctx := context.Background()
	ld := test.NewLoader()
	s1, _ := ld.GetStorage("/good-schema/")
	s2, _ := ld.GetStorage("/good-other/")
	ld.SetStorage("/replica-all/", replica.NewForTest([]blobserver.Storage{s1, s2}))
	sto, err := blobserver.CreateStorage("cond", ld, map[string]any{
		"write": map[string]any{
			"if":   "isSchema",
			"then": "/good-schema/",
			"else": "/good-other/",
		},
		"read":   "/replica-all/",
		"remove": "/replica-all/",
	})
	if err != nil {
		t.Fatal(err)
	}

	for _, size := range []int{0, 1, 64 << 10, 1 << 20, 1<<20 + 1, 1<<20 + 2, 3 << 20} {
		data := make([]byte, size)
		for i := range data {
			data[i] = byte('a' + (i*7+size)%23)
		}
		h := blob.NewHash()
		h.Write(data)
		br := blob.RefFromHash(h)

		// Both through the hash-checking helper and directly.
		sb, err := blobserver.Receive(ctx, sto, br, bytes.NewReader(data))
		if err != nil {
			t.Fatalf("size %d: Receive: %v", size, err)
		}
		if int(sb.Size) != size || sb.Ref != br {
			t.Fatalf("size %d: Receive returned %v", size, sb)
		}
		rc, fsize, err := sto.Fetch(ctx, br)
		if err != nil {
			t.Fatalf("size %d: Fetch: %v", size, err)
		}
		got, err := io.ReadAll(rc)
		rc.Close()
		if err != nil {
			t.Fatalf("size %d: reading: %v", size, err)
		}
		if int(fsize) != size || !bytes.Equal(got, data) {
			t.Fatalf("size %d: fetched %d bytes (reported size %d), content equal = %v", size, len(got), fsize, bytes.Equal(got, data))
		}
	}
}
