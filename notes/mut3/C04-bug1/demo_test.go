package blobpacked

import (
	"bytes"
	"context"
	"fmt"
	"io"
	"log"
	"math/rand"
	"testing"

	"perkeep.org/pkg/blob"
	"perkeep.org/pkg/blobserver"
	"perkeep.org/pkg/schema"
	"perkeep.org/pkg/sorted"
	"perkeep.org/pkg/test"
)

// TestMut3PagedEnumerateMixed packs one file (so that its chunks and schema
// blobs are only known through the meta index), adds a number of loose blobs
// that stay in "small", and then enumerates the logical store page by page
// with several page sizes. Every acknowledged blob must show up exactly once,
// whatever the page size.
func TestMut3PagedEnumerateMixed(t *testing.T) {
	ctx := context.Background()

	write := func(sto blobserver.Storage) {
		data := make([]byte, 2<<20)
		rand.New(rand.NewSource(7)).Read(data)
		if _, err := schema.WriteFileFromReader(ctx, sto, "mut3.dat", bytes.NewReader(data)); err != nil {
			t.Fatal(err)
		}
		for i := 0; i < 8; i++ {
			b := &test.Blob{Contents: fmt.Sprintf("mut3 loose blob %d", i)}
			if _, err := blobserver.Receive(ctx, sto, b.BlobRef(), b.Reader()); err != nil {
				t.Fatal(err)
			}
		}
	}

	logical := new(test.Fetcher)
	write(logical)
	want := map[blob.Ref]uint32{}
	if err := blobserver.EnumerateAll(ctx, logical, func(sb blob.SizedRef) error {
		want[sb.Ref] = sb.Size
		return nil
	}); err != nil {
		t.Fatal(err)
	}

	small, large := new(test.Fetcher), new(test.Fetcher)
	s := &storage{
		small: small,
		large: large,
		meta:  sorted.NewMemoryKeyValue(),
		log:   log.New(io.Discard, "", 0),
	}
	s.init()
	write(s)
	if large.NumBlobs() != 1 {
		t.Fatalf("expected the file to be packed in 1 zip; got %d zips", large.NumBlobs())
	}
	t.Logf("%d logical blobs: %d loose, %d packed", len(want), small.NumBlobs(), len(want)-small.NumBlobs())

	for _, limit := range []int{2, 3, 4, 5, 7, 10} {
		got := map[blob.Ref]int{}
		after := ""
		pages := 0
		for {
			ch := make(chan blob.SizedRef, limit)
			if err := s.EnumerateBlobs(ctx, ch, after, limit); err != nil {
				t.Fatalf("limit %d: EnumerateBlobs(after=%q): %v", limit, after, err)
			}
			n := 0
			for sb := range ch {
				n++
				if sb.Ref.String() <= after {
					t.Errorf("limit %d: got %v which is not after %q", limit, sb.Ref, after)
				}
				if wsize, ok := want[sb.Ref]; !ok {
					t.Errorf("limit %d: enumerated unknown blob %v", limit, sb.Ref)
				} else if wsize != sb.Size {
					t.Errorf("limit %d: blob %v enumerated with size %d; want %d", limit, sb.Ref, sb.Size, wsize)
				}
				got[sb.Ref]++
				after = sb.Ref.String()
			}
			if n == 0 {
				break // an empty page is the only certain end
			}
			if n > limit {
				t.Errorf("limit %d: page of %d blobs", limit, n)
			}
			pages++
			if pages > 10*len(want) {
				t.Fatalf("limit %d: enumeration doesn't end", limit)
			}
		}
		missing := 0
		for br := range want {
			switch got[br] {
			case 1:
			case 0:
				missing++
				m, _ := s.getMetaRow(br)
				t.Errorf("limit %d: blob %v (packed=%v) was never enumerated", limit, br, m.isPacked())
			default:
				t.Errorf("limit %d: blob %v enumerated %d times", limit, br, got[br])
			}
		}
		if missing > 0 {
			t.Errorf("limit %d: %d of %d blobs missing from the paged enumeration", limit, missing, len(want))
		}
	}
}
