package blobserver_test

import (
	"bytes"
	"context"
	"encoding/json"
	"errors"
	"io"
	"mime/multipart"
	"net/http/httptest"
	"testing"
	"testing/iotest"
	"time"

	"perkeep.org/pkg/blob"
	"perkeep.org/pkg/blobserver"
	"perkeep.org/pkg/blobserver/handlers"
	"perkeep.org/pkg/blobserver/memory"
	"perkeep.org/pkg/blobserver/protocol"
)

// oversized returns MaxBlobSize+extra bytes and the blobref of their first
// MaxBlobSize bytes (i.e. the ref under which a silently truncated upload
// would look genuine).
func mutOversized(extra int) (data []byte, prefixRef blob.Ref) {
	data = make([]byte, blobserver.MaxBlobSize+extra)
	for i := range data {
		data[i] = byte(i*7 + i>>11)
	}
	return data, blob.RefFromBytes(data[:blobserver.MaxBlobSize])
}

func mutAssertAbsent(t *testing.T, sto blobserver.Storage, br blob.Ref) {
	t.Helper()
	ctx := context.Background()
	if rc, _, err := sto.Fetch(ctx, br); err == nil {
		rc.Close()
		t.Errorf("rejected blob %v is fetchable", br)
	}
	if sb, err := blobserver.StatBlob(ctx, sto, br); err == nil && sb.Valid() {
		t.Errorf("rejected blob is stat-able: %v", sb)
	}
	ch := make(chan blob.SizedRef, 16)
	errc := make(chan error, 1)
	go func() { errc <- sto.EnumerateBlobs(ctx, ch, "", 10) }()
	for sb := range ch {
		t.Errorf("rejected blob is enumerated: %v", sb)
	}
	if err := <-errc; err != nil {
		t.Errorf("enumerate: %v", err)
	}
}

// An upload of MaxBlobSize+1 bytes must be refused as too large however the
// source delivers its bytes; here the source hands out its very last byte
// together with io.EOF (as iotest.DataErrReader, HTTP bodies and multipart
// parts do).
func TestMutOversizedLastByteWithEOF(t *testing.T) {
	ctx := context.Background()
	data, prefixRef := mutOversized(1)

	for _, tt := range []struct {
		name string
		src  func() io.Reader
	}{
		{"plain", func() io.Reader { return bytes.NewReader(data) }},
		{"half", func() io.Reader { return iotest.HalfReader(bytes.NewReader(data)) }},
		{"dataerr", func() io.Reader { return iotest.DataErrReader(bytes.NewReader(data)) }},
	} {
		t.Run(tt.name, func(t *testing.T) {
			sto := new(memory.Storage)
			notified := make(chan blob.Ref, 1)
			hub := blobserver.GetHub(sto)
			hub.RegisterListener(notified)
			defer hub.UnregisterListener(notified)

			sb, err := blobserver.Receive(ctx, sto, prefixRef, tt.src())
			if err == nil {
				t.Errorf("Receive of %d bytes under the ref of their first %d bytes = %v, nil; want an error", len(data), blobserver.MaxBlobSize, sb)
			} else if !errors.Is(err, blobserver.ErrBlobTooLarge) {
				t.Errorf("Receive error = %v; want ErrBlobTooLarge", err)
			}
			mutAssertAbsent(t, sto, prefixRef)
			select {
			case br := <-notified:
				t.Errorf("observers were notified of rejected blob %v", br)
			case <-time.After(100 * time.Millisecond):
			}
		})
	}
}

type mutStorageAndConfig struct {
	blobserver.Storage
}

func (mutStorageAndConfig) Config() *blobserver.Config { return &blobserver.Config{Writable: true} }

// The same through the multipart upload endpoint: the response reports an
// error for the oversized part, so nothing of it may have been stored.
func TestMutOversizedMultipartLeavesNoTrace(t *testing.T) {
	data, prefixRef := mutOversized(1)
	mem := new(memory.Storage)
	sto := mutStorageAndConfig{mem}

	var body bytes.Buffer
	mw := multipart.NewWriter(&body)
	w, err := mw.CreateFormFile(prefixRef.String(), prefixRef.String())
	if err != nil {
		t.Fatal(err)
	}
	w.Write(data)
	mw.Close()

	req := httptest.NewRequest("POST", "/camli/upload", &body)
	req.Header.Set("Content-Type", mw.FormDataContentType())
	rec := httptest.NewRecorder()
	handlers.CreateBatchUploadHandler(sto).ServeHTTP(rec, req)

	var res protocol.UploadResponse
	if err := json.Unmarshal(rec.Body.Bytes(), &res); err != nil {
		t.Fatalf("bad response %q: %v", rec.Body.String(), err)
	}
	if len(res.Received) != 0 {
		t.Errorf("oversized part listed as received: %v", res.Received)
	}
	if res.ErrorText == "" {
		t.Errorf("no error reported for the oversized part")
	}
	mutAssertAbsent(t, mem, prefixRef)
}
