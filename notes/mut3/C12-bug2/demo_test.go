package replica

import (
	"context"
	"fmt"
	"sort"
	"testing"

	"perkeep.org/pkg/blob"
	"perkeep.org/pkg/blobserver"
	"perkeep.org/pkg/test"
)

func mut2Enumerate(t *testing.T, sto blobserver.Storage) []string {
	t.Helper()
	ch := make(chan blob.SizedRef, 1000)
	if err := sto.EnumerateBlobs(context.Background(), ch, "", 1000); err != nil {
		t.Fatalf("EnumerateBlobs: %v", err)
	}
	var got []string
	for sb := range ch {
		got = append(got, sb.Ref.String())
	}
	return got
}

// TestMut2EnumerateOverlapDefaultConfig: a replica storage built from a
// plain config (default minWritesForSuccess, no readBackends) over three
// replicas whose contents overlap in every possible way must enumerate
// every blob held by at least one replica, exactly once.
func TestMut2EnumerateOverlapDefaultConfig(t *testing.T) {
	ld := test.NewLoader()
	backends := []any{"/good-0/", "/good-1/", "/good-2/"}
	sto, err := newFromConfig(ld, map[string]any{"backends": backends})
	if err != nil {
		t.Fatal(err)
	}
	var want []string
	for mask := 1; mask < 8; mask++ {
		tb := &test.Blob{Contents: fmt.Sprintf("blob held by replicas %03b", mask)}
		want = append(want, tb.BlobRef().String())
		for i := 0; i < 3; i++ {
			if mask&(1<<i) == 0 {
				continue
			}
			rep, _ := ld.GetStorage(backends[i].(string))
			if _, err := blobserver.Receive(context.Background(), rep, tb.BlobRef(), tb.Reader()); err != nil {
				t.Fatal(err)
			}
		}
	}
	sort.Strings(want)
	got := mut2Enumerate(t, sto)
	if fmt.Sprint(got) != fmt.Sprint(want) {
		t.Errorf("enumerate mismatch:\n got %d: %v\nwant %d: %v", len(got), got, len(want), want)
	}
}

// TestMut2EnumerateAfterFailedWrite: the first replica fails a write, so
// the receive is (rightly) not acknowledged, but the second replica holds
// the blob: it's stat-able and fetchable through the replica storage, and
// so must be enumerated too.
func TestMut2EnumerateAfterFailedWrite(t *testing.T) {
	ld := test.NewLoader()
	sto, err := newFromConfig(ld, map[string]any{"backends": []any{"/fail-0/", "/good-1/"}})
	if err != nil {
		t.Fatal(err)
	}
	tb := &test.Blob{Contents: "written to one replica out of two"}
	if _, err := blobserver.Receive(context.Background(), sto, tb.BlobRef(), tb.Reader()); err == nil {
		t.Fatal("receive with a failing replica and minWritesForSuccess=2 was acknowledged")
	}
	if _, err := blobserver.StatBlob(context.Background(), sto, tb.BlobRef()); err != nil {
		t.Fatalf("stat: %v", err)
	}
	rc, _, err := sto.Fetch(context.Background(), tb.BlobRef())
	if err != nil {
		t.Fatalf("fetch: %v", err)
	}
	rc.Close()
	got := mut2Enumerate(t, sto)
	if len(got) != 1 || got[0] != tb.BlobRef().String() {
		t.Errorf("enumerate = %v; want [%v] (blob is reported by stat and fetch)", got, tb.BlobRef())
	}
}
