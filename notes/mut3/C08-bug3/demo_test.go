package search_test

import (
	"testing"

	. "perkeep.org/pkg/search"
)

// A permanode gets the same tag value added twice (with another value in
// between), and then a del-attribute claim for that value, which removes all
// of its occurrences. A later, unrelated claim makes "At = time of the
// deletion" a query about the past. The past view must agree with what the
// present view said back then: the tag is gone and exactly one value remains.
func TestMutC08AttrAtTimeAfterDelOfRepeatedValue(t *testing.T) {
	testQueryTypes(t, memIndexTypes, func(qt *queryTest) {
		id := qt.id

		pn := id.NewPlannedPermanode("pn")
		id.AddAttribute(pn, "tag", "x")
		id.AddAttribute(pn, "tag", "y")
		id.AddAttribute(pn, "tag", "x")
		id.DelAttribute(pn, "tag", "x")
		atDel := id.LastTime()

		hasX := func() *SearchQuery {
			return &SearchQuery{Constraint: &Constraint{Permanode: &PermanodeConstraint{
				Attr: "tag", Value: "x",
			}}}
		}
		oneValue := func() *SearchQuery {
			return &SearchQuery{Constraint: &Constraint{Permanode: &PermanodeConstraint{
				Attr: "tag", NumValue: &IntConstraint{Min: 1, Max: 1},
			}}}
		}

		// Something else happens to the permanode later on.
		id.SetAttribute(pn, "title", "later")

		// Present view: "x" is gone, only "y" remains.
		qt.wantRes(hasX())
		qt.wantRes(oneValue(), pn)

		// The view at the time of the deletion says the same.
		q := hasX()
		q.Constraint.Permanode.At = atDel
		qt.wantRes(q)

		q = oneValue()
		q.Constraint.Permanode.At = atDel
		qt.wantRes(q, pn)
	})
}
