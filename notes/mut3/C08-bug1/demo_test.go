package search_test

import (
	"testing"
	"time"

	"perkeep.org/pkg/blob"
	"perkeep.org/pkg/index"
	"perkeep.org/pkg/index/indextest"
	. "perkeep.org/pkg/search"
)

// A permanode's "created" time is the time of its camliContent file, if that
// file is indexed. Here the camliContent claim is indexed before the file it
// points to (out-of-order arrival, as with a sync), and a created-sorted
// search runs in between. After the file arrives, a created-sorted search must
// order (and limit) by the file's time.
func TestMutC08StaleCreatedOrderAfterLateContent(t *testing.T) {
	testQueryTypes(t, []indexType{indexCorpusBuild}, func(qt *queryTest) {
		id := qt.id

		// Compute the ref of the file without indexing it in qt's index.
		fileTime := time.Date(2030, 1, 2, 3, 4, 5, 0, time.UTC)
		scratch := indextest.NewIndexDeps(index.NewMemoryIndex())
		scratch.Fataler = t
		fileRef, _ := scratch.UploadFile("late.txt", "late content", fileTime)

		p1 := id.NewPlannedPermanode("p1")
		id.SetAttribute(p1, "camliContent", fileRef.String()) // file not indexed yet
		p2 := id.NewPlannedPermanode("p2")
		id.SetAttribute(p2, "tag", "later")

		query := func(limit int) []blob.Ref {
			res, err := qt.Handler().Query(ctxbg, &SearchQuery{
				Constraint: &Constraint{Permanode: &PermanodeConstraint{SkipHidden: true}},
				Sort:       CreatedDesc,
				Limit:      limit,
			})
			if err != nil {
				t.Fatal(err)
			}
			var got []blob.Ref
			for _, b := range res.Blobs {
				got = append(got, b.Blob)
			}
			return got
		}
		eq := func(a, b []blob.Ref) bool {
			if len(a) != len(b) {
				return false
			}
			for i := range a {
				if a[i] != b[i] {
					return false
				}
			}
			return true
		}

		// Before the file is known, p1 is dated by its claim, which is older than p2's.
		if got, want := query(-1), []blob.Ref{p2, p1}; !eq(got, want) {
			t.Fatalf("before file arrival: got %v, want %v", got, want)
		}

		// Now the file arrives; it is dated 2030, i.e. newer than anything else.
		gotRef, _ := id.UploadFile("late.txt", "late content", fileTime)
		if gotRef != fileRef {
			t.Fatalf("test bug: file ref %v != planned %v", gotRef, fileRef)
		}

		if got, want := query(-1), []blob.Ref{p1, p2}; !eq(got, want) {
			t.Errorf("after file arrival, sort=-created: got %v, want %v", got, want)
		}
		if got, want := query(1), []blob.Ref{p1}; !eq(got, want) {
			t.Errorf("after file arrival, sort=-created limit=1: got %v, want %v", got, want)
		}
	})
}
