package schema_test

import (
	"context"
	"encoding/json"
	"fmt"
	"runtime"
	"strings"
	"sync"
	"sync/atomic"
	"testing"
	"time"

	"perkeep.org/pkg/blob"
	"perkeep.org/pkg/jsonsign"
	"perkeep.org/pkg/schema"
	"perkeep.org/pkg/test"
)

// TestMutDemoConcurrentSignJSON has several goroutines sign different
// documents at the same time through one shared *schema.Signer (which is
// how the server uses its signer: one instance for the UI, the importers,
// the share handler, ...). Every caller must get back its own document,
// signed: valid JSON, verifying, and exposing exactly the fields it passed in.
func TestMutDemoConcurrentSignJSON(t *testing.T) {
	if runtime.GOMAXPROCS(0) < 2 {
		t.Skip("needs at least 2 CPUs to interleave signers")
	}
	ctx := context.Background()
	ent, err := jsonsign.NewEntity()
	if err != nil {
		t.Fatal(err)
	}
	armorPub, err := jsonsign.ArmoredPublicKey(ent)
	if err != nil {
		t.Fatal(err)
	}
	pubRef := blob.RefFromString(armorPub)
	signer, err := schema.NewSigner(pubRef, strings.NewReader(armorPub), ent)
	if err != nil {
		t.Fatalf("NewSigner: %v", err)
	}
	fetcher := &test.Fetcher{}
	fetcher.AddBlob(&test.Blob{Contents: armorPub})

	const (
		workers = 8
		rounds  = 400
	)
	var (
		wrongDoc  atomic.Int64
		badVerify atomic.Int64
		firstMu   sync.Mutex
		firstMsg  string
	)
	note := func(msg string) {
		firstMu.Lock()
		defer firstMu.Unlock()
		if firstMsg == "" {
			firstMsg = msg
		}
	}

	for r := 0; r < rounds; r++ {
		var (
			wg    sync.WaitGroup
			ready atomic.Int32
			gate  atomic.Bool
		)
		for w := 0; w < workers; w++ {
			wg.Add(1)
			go func(w int) {
				defer wg.Done()
				// All documents have the same length; they differ
				// in the "who" and "round" fields.
				who := fmt.Sprintf("worker-%02d", w)
				unsigned := fmt.Sprintf(`{"camliVersion": 1, "camliSigner": %q, "who": %q, "round": "%06d"}`,
					pubRef.String(), who, r)
				sigTime := time.Unix(1300000000+int64(w)*1000+int64(r), 0)

				ready.Add(1)
				for !gate.Load() { // spin so that all workers call SignJSON together
				}
				signed, err := signer.SignJSON(ctx, unsigned, sigTime)
				if err != nil {
					note(fmt.Sprintf("round %d %s: SignJSON: %v", r, who, err))
					badVerify.Add(1)
					return
				}
				var got map[string]any
				if err := json.Unmarshal([]byte(signed), &got); err != nil {
					note(fmt.Sprintf("round %d %s: signed doc is not JSON: %v", r, who, err))
					badVerify.Add(1)
					return
				}
				vr := jsonsign.NewVerificationRequest(signed, fetcher)
				if _, err := vr.Verify(ctx); err != nil {
					note(fmt.Sprintf("round %d %s: signed doc does not verify: %v", r, who, err))
					badVerify.Add(1)
					return
				}
				if vr.PayloadMap["who"] != who || vr.PayloadMap["round"] != fmt.Sprintf("%06d", r) {
					wrongDoc.Add(1)
					note(fmt.Sprintf("round %d: %s asked to sign\n\t%s\nbut was handed the signed document\n\t%s",
						r, who, unsigned, strings.TrimSpace(signed)))
				}
			}(w)
		}
		for ready.Load() < workers {
			runtime.Gosched()
		}
		gate.Store(true)
		wg.Wait()
	}

	if n := badVerify.Load(); n > 0 {
		t.Errorf("%d of %d concurrently signed documents failed to sign/parse/verify", n, workers*rounds)
	}
	if n := wrongDoc.Load(); n > 0 {
		t.Errorf("%d of %d SignJSON calls returned a signed document that is not the caller's document", n, workers*rounds)
	}
	if firstMsg != "" {
		t.Logf("first problem seen: %s", firstMsg)
	}
}
