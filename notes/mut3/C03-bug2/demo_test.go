package diskpacked_test

import (
	"context"
	"io"
	"os"
	"path/filepath"
	"sort"
	"testing"

	"perkeep.org/pkg/blob"
	"perkeep.org/pkg/blobserver"
	"perkeep.org/pkg/blobserver/diskpacked"
	"perkeep.org/pkg/test"
)

func mutEnumerate(t *testing.T, sto blobserver.Storage) []blob.SizedRef {
	t.Helper()
	var got []blob.SizedRef
	ch := make(chan blob.SizedRef)
	errc := make(chan error, 1)
	go func() { errc <- sto.EnumerateBlobs(context.Background(), ch, "", 1000) }()
	for sb := range ch {
		got = append(got, sb)
	}
	if err := <-errc; err != nil {
		t.Fatalf("EnumerateBlobs: %v", err)
	}
	return got
}

func mutStream(t *testing.T, sto blobserver.Storage) []blob.SizedRef {
	t.Helper()
	var got []blob.SizedRef
	ch := make(chan blobserver.BlobAndToken)
	errc := make(chan error, 1)
	go func() {
		errc <- sto.(blobserver.BlobStreamer).StreamBlobs(context.Background(), ch, "")
	}()
	for bt := range ch {
		got = append(got, bt.Blob.SizedRef())
	}
	if err := <-errc; err != nil {
		t.Fatalf("StreamBlobs: %v", err)
	}
	sort.Slice(got, func(i, j int) bool { return got[i].Ref.Less(got[j].Ref) })
	return got
}

func mutSameRefs(a, b []blob.SizedRef) bool {
	if len(a) != len(b) {
		return false
	}
	for i := range a {
		if a[i] != b[i] {
			return false
		}
	}
	return true
}

// TestMutRemovedBlobsStayRemovedAfterReindex: after blobs have been removed,
// the index is lost (e.g. the machine died and the index is rebuilt from the
// pack files). The rebuilt store must hold exactly the non-removed blobs.
func TestMutRemovedBlobsStayRemovedAfterReindex(t *testing.T) {
	ctx := context.Background()
	dir := t.TempDir()
	sto, err := diskpacked.New(dir)
	if err != nil {
		t.Fatal(err)
	}

	var (
		a     = &test.Blob{Contents: "first blob"}
		empty = &test.Blob{Contents: ""}
		b     = &test.Blob{Contents: "a blob that will be removed"}
		c     = &test.Blob{Contents: "last blob"}
	)
	for _, tb := range []*test.Blob{a, empty, b, c} {
		if _, err := sto.ReceiveBlob(ctx, tb.BlobRef(), tb.Reader()); err != nil {
			t.Fatalf("ReceiveBlob(%v): %v", tb.BlobRef(), err)
		}
	}
	if err := sto.RemoveBlobs(ctx, []blob.Ref{b.BlobRef(), empty.BlobRef()}); err != nil {
		t.Fatalf("RemoveBlobs: %v", err)
	}

	want := []blob.SizedRef{a.SizedRef(), c.SizedRef()}
	sort.Slice(want, func(i, j int) bool { return want[i].Ref.Less(want[j].Ref) })

	if got := mutEnumerate(t, sto); !mutSameRefs(got, want) {
		t.Errorf("before restart: enumerate = %v; want %v", got, want)
	}
	if got := mutStream(t, sto); !mutSameRefs(got, want) {
		t.Errorf("before restart: stream = %v; want %v", got, want)
	}
	if err := sto.(io.Closer).Close(); err != nil {
		t.Fatal(err)
	}

	// The index is lost; rebuild it from the pack files alone.
	idx, _ := filepath.Glob(filepath.Join(dir, "index.*"))
	if len(idx) == 0 {
		t.Fatal("no index file found")
	}
	for _, f := range idx {
		if err := os.RemoveAll(f); err != nil {
			t.Fatal(err)
		}
	}
	if err := diskpacked.Reindex(ctx, dir, true, nil); err != nil {
		t.Fatalf("Reindex: %v", err)
	}

	sto, err = diskpacked.New(dir)
	if err != nil {
		t.Fatal(err)
	}
	defer sto.(io.Closer).Close()

	if got := mutEnumerate(t, sto); !mutSameRefs(got, want) {
		t.Errorf("after reindex: enumerate = %v; want %v", got, want)
	}
	if got := mutStream(t, sto); !mutSameRefs(got, want) {
		t.Errorf("after reindex: stream = %v; want %v", got, want)
	}
	for _, tb := range []*test.Blob{empty, b} {
		if rc, _, err := sto.Fetch(ctx, tb.BlobRef()); err == nil {
			rc.Close()
			t.Errorf("after reindex: removed blob %v (%d bytes) is fetchable again", tb.BlobRef(), tb.Size())
		}
	}
	for _, tb := range []*test.Blob{a, c} {
		rc, _, err := sto.Fetch(ctx, tb.BlobRef())
		if err != nil {
			t.Errorf("after reindex: Fetch(%v): %v", tb.BlobRef(), err)
			continue
		}
		data, _ := io.ReadAll(rc)
		rc.Close()
		if string(data) != tb.Contents {
			t.Errorf("after reindex: Fetch(%v) = %q; want %q", tb.BlobRef(), data, tb.Contents)
		}
	}
}
