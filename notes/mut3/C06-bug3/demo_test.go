package index_test

import (
	"context"
	"fmt"
	"path/filepath"
	"sort"
	"strings"
	"testing"
	"time"

	"perkeep.org/pkg/blob"
	"perkeep.org/pkg/index"
	"perkeep.org/pkg/index/indextest"
	"perkeep.org/pkg/sorted"
	"perkeep.org/pkg/sorted/kvfile"
	"perkeep.org/pkg/types/camtypes"
)

// mutC06B3Summary renders what a corpus answers about the given permanodes
// and claims.
func mutC06B3Summary(c *index.Corpus, pns, claims []blob.Ref) string {
	ctx := context.Background()
	short := func(s string) string {
		if len(s) > 20 {
			return fmt.Sprintf("%s...(%d bytes)", s[:20], len(s))
		}
		return s
	}
	var sb strings.Builder
	for i, pn := range pns {
		fmt.Fprintf(&sb, "pn%d: title=%q tag=%q", i,
			short(c.PermanodeAttrValue(pn, "title", time.Time{}, "")),
			short(c.PermanodeAttrValue(pn, "tag", time.Time{}, "")))
		mt, ok := c.PermanodeModtime(pn)
		fmt.Fprintf(&sb, " modtime=%v,%v", mt.UTC().Format(time.RFC3339), ok)
		var cls []string
		c.ForeachClaim(pn, time.Time{}, func(cl *camtypes.Claim) bool {
			cls = append(cls, fmt.Sprintf("%s %s=%s", cl.Type, cl.Attr, short(cl.Value)))
			return true
		})
		sort.Strings(cls)
		fmt.Fprintf(&sb, " claims=%q\n", cls)
	}
	for i, cl := range claims {
		bm, err := c.GetBlobMeta(ctx, cl)
		fmt.Fprintf(&sb, "claim%d: meta=%v/%v err=%v\n", i, bm.Size, bm.CamliType, err)
	}
	var byTime []string
	c.EnumeratePermanodesLastModified(func(bm camtypes.BlobMeta) bool {
		for i, pn := range pns {
			if pn == bm.Ref {
				byTime = append(byTime, fmt.Sprintf("pn%d", i))
			}
		}
		return true
	})
	fmt.Fprintf(&sb, "permanodes by modtime: %v\n", byTime)
	return sb.String()
}

func mutC06B3Run(t *testing.T, kv sorted.KeyValue) {
	index.SetVerboseCorpusLogging(false)
	idx := indextest.MustNew(t, kv)
	id := indextest.NewIndexDeps(idx)
	id.Fataler = t
	live, err := idx.KeepInMemory()
	if err != nil {
		t.Fatal(err)
	}

	var pns, claims []blob.Ref
	check := func(step string) {
		t.Helper()
		idx.RLock()
		got := mutC06B3Summary(live, pns, claims)
		idx.RUnlock()
		fresh, err := index.NewCorpusFromStorage(idx.Storage())
		if err != nil {
			t.Fatalf("%s: loading a fresh corpus: %v", step, err)
		}
		want := mutC06B3Summary(fresh, pns, claims)
		if got != want {
			// Only show the answers that differ.
			var diff strings.Builder
			gl, wl := strings.Split(got, "\n"), strings.Split(want, "\n")
			for i := range gl {
				if i < len(wl) && gl[i] != wl[i] {
					fmt.Fprintf(&diff, "  live : %s\n  fresh: %s\n", gl[i], wl[i])
				}
			}
			t.Fatalf("after %s: live corpus differs from a freshly loaded one:\n%s", step, diff.String())
		}
	}

	// Titles and tags are "indexed attributes": their value also goes into
	// the key of a signerattrvalue row. With a value of 700 bytes that key
	// is over sorted.MaxKeySize, and the key/value stores skip (only) that row.
	for i := 0; i < 24; i++ {
		pn := id.NewPlannedPermanode(fmt.Sprintf("mutC06B3-%d", i))
		pns = append(pns, pn)
		claims = append(claims, id.SetAttribute(pn, "tag", fmt.Sprintf("short%d", i)))
		check(fmt.Sprintf("permanode %d with a short tag", i))
		long := strings.Repeat(fmt.Sprintf("%d", i%10), 700)
		claims = append(claims, id.SetAttribute(pn, "title", long))
		check(fmt.Sprintf("set-attribute claim with a 700 bytes title on permanode %d", i))
	}
}

func TestMutC06B3LongIndexedAttrValue(t *testing.T) {
	t.Run("memory", func(t *testing.T) {
		mutC06B3Run(t, sorted.NewMemoryKeyValue())
	})
	t.Run("kvfile", func(t *testing.T) {
		kv, err := kvfile.NewStorage(filepath.Join(t.TempDir(), "index.kv"))
		if err != nil {
			t.Fatal(err)
		}
		defer kv.Close()
		mutC06B3Run(t, kv)
	})
}
