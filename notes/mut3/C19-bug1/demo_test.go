package server

import (
	"context"
	"fmt"
	"io"
	"strings"
	"testing"
	"time"

	"perkeep.org/pkg/blob"
	"perkeep.org/pkg/blobserver"
	"perkeep.org/pkg/sorted"
	"perkeep.org/pkg/test"
)

// m3c19b1Dest is a destination that is unresponsive until its gate is
// opened (a transient outage), and then takes a little while per write, as
// any real destination does.
type m3c19b1Dest struct {
	*test.Fetcher
	gate  chan struct{} // closed when the outage is over
	delay time.Duration
}

func (d *m3c19b1Dest) ReceiveBlob(ctx context.Context, br blob.Ref, r io.Reader) (blob.SizedRef, error) {
	<-d.gate
	time.Sleep(d.delay)
	return d.Fetcher.ReceiveBlob(ctx, br, r)
}

// TestM3C19B1LargeBacklog uploads 1300 blobs to the source while the
// destination is unresponsive, so that they all pile up in the pending
// queue. Once the destination is back, every one of them must get there.
func TestM3C19B1LargeBacklog(t *testing.T) {
	const nBlobs = 1300

	src := new(test.Fetcher)
	dstSto := new(test.Fetcher)
	dst := &m3c19b1Dest{Fetcher: dstSto, gate: make(chan struct{}), delay: 2 * time.Millisecond}
	queue := sorted.NewMemoryKeyValue()
	NewSyncHandler("/src/", "/dst/", src, dst, queue)

	ctx := context.Background()
	var refs []blob.Ref
	for i := range nBlobs {
		contents := fmt.Sprintf("m3c19b1 blob %d", i)
		sb, err := blobserver.Receive(ctx, src, blob.RefFromString(contents), strings.NewReader(contents))
		if err != nil {
			t.Fatalf("upload %d: %v", i, err)
		}
		refs = append(refs, sb.Ref)
	}

	// End of the outage.
	close(dst.gate)

	deadline := time.Now().Add(4*queueSyncInterval + 5*time.Second)
	for {
		n := dstSto.NumBlobs()
		if n == nBlobs {
			break
		}
		if time.Now().After(deadline) {
			inQueue := 0
			sorted.Foreach(queue, func(k, v string) error { inQueue++; return nil })
			t.Fatalf("only %d of %d blobs were delivered %v after the destination came back; %d still in the pending queue",
				n, nBlobs, 4*queueSyncInterval+5*time.Second, inQueue)
		}
		time.Sleep(50 * time.Millisecond)
	}

	// Bit-identical, and the queue drains.
	for i, br := range refs {
		rc, _, err := dstSto.Fetch(ctx, br)
		if err != nil {
			t.Fatalf("blob %d: %v", i, err)
		}
		got, _ := io.ReadAll(rc)
		rc.Close()
		if want := fmt.Sprintf("m3c19b1 blob %d", i); string(got) != want {
			t.Fatalf("blob %d: destination has %q, want %q", i, got, want)
		}
	}
	deadline = time.Now().Add(5 * time.Second)
	for {
		inQueue := 0
		sorted.Foreach(queue, func(k, v string) error { inQueue++; return nil })
		if inQueue == 0 {
			break
		}
		if time.Now().After(deadline) {
			t.Fatalf("%d rows left in the pending queue after everything was delivered", inQueue)
		}
		time.Sleep(50 * time.Millisecond)
	}
}
