package jsonsign_test

import (
	"encoding/json"
	"fmt"
	"testing"

	. "perkeep.org/pkg/jsonsign"
)

// TestMutDemoNestedTail signs compact JSON objects whose last top-level
// member is itself an object (so the document ends in "}}" or "}}}") and
// checks that the signed result is valid JSON, verifies, and exposes the
// original fields.
func TestMutDemoNestedTail(t *testing.T) {
	signer := pubKeyBlob1.BlobRef().String()
	docs := []string{
		// control: ends in a single brace
		fmt.Sprintf(`{"camliVersion":1,"camliSigner":%q,"zz":"flat"}`, signer),
		// last member is an object
		fmt.Sprintf(`{"camliVersion":1,"camliSigner":%q,"zz":{"a":1}}`, signer),
		// last member is a doubly nested object
		fmt.Sprintf(`{"camliVersion":1,"camliSigner":%q,"zz":{"a":{"b":"c"}}}`, signer),
		// last member is an empty object
		fmt.Sprintf(`{"camliVersion":1,"camliSigner":%q,"zz":{}}`, signer),
		// nested, but whitespace separates the closing braces
		fmt.Sprintf("{\"camliVersion\":1,\"camliSigner\":%q,\"zz\":{\"a\":1}\n}", signer),
	}
	for i, unsigned := range docs {
		sr := newRequest(1)
		sr.UnsignedJSON = unsigned
		signed, err := sr.Sign(ctxbg)
		if err != nil {
			t.Errorf("doc %d: Sign(%s): %v", i, unsigned, err)
			continue
		}
		var got map[string]any
		if err := json.Unmarshal([]byte(signed), &got); err != nil {
			t.Errorf("doc %d: signed document is not valid JSON: %v\nunsigned: %s\nsigned:   %s", i, err, unsigned, signed)
			continue
		}
		vr := NewVerificationRequest(signed, testFetcher)
		if _, err := vr.Verify(ctxbg); err != nil {
			t.Errorf("doc %d: freshly signed document does not verify: %v (%v)\nsigned: %s", i, err, vr.Err, signed)
			continue
		}
		var want map[string]any
		if err := json.Unmarshal([]byte(unsigned), &want); err != nil {
			t.Fatal(err)
		}
		for k, v := range want {
			if fmt.Sprint(vr.PayloadMap[k]) != fmt.Sprint(v) {
				t.Errorf("doc %d: PayloadMap[%q] = %v, want %v", i, k, vr.PayloadMap[k], v)
			}
		}
	}
}
