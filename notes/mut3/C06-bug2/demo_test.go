package index_test

import (
	"context"
	"fmt"
	"strings"
	"testing"
	"time"

	"perkeep.org/pkg/blob"
	"perkeep.org/pkg/index"
	"perkeep.org/pkg/index/indextest"
	"perkeep.org/pkg/schema"
	"perkeep.org/pkg/test"
	"perkeep.org/pkg/types/camtypes"
)

// mutC06B2Index renders what an index (without looking at its corpus)
// answers about the deletion status of refs and about permanode lookups.
func mutC06B2Index(t *testing.T, ix *index.Index, signer blob.Ref, refs map[string]blob.Ref, names []string) string {
	ctx := context.Background()
	var sb strings.Builder
	for _, n := range names {
		fmt.Fprintf(&sb, "IsDeleted(%s)=%v\n", n, ix.IsDeleted(refs[n]))
	}
	ch := make(chan blob.Ref, 10)
	if err := ix.SearchPermanodesWithAttr(ctx, ch, &camtypes.PermanodeByAttrRequest{
		Signer:    signer,
		Attribute: "tag",
		Query:     "mutc06b2",
	}); err != nil {
		t.Fatalf("SearchPermanodesWithAttr: %v", err)
	}
	var found []string
	for br := range ch {
		found = append(found, br.String())
	}
	fmt.Fprintf(&sb, "SearchPermanodesWithAttr(tag=mutc06b2)=%v\n", found)

	rch := make(chan camtypes.RecentPermanode, 10)
	if err := ix.GetRecentPermanodes(ctx, rch, signer, 10, time.Time{}); err != nil {
		t.Fatalf("GetRecentPermanodes: %v", err)
	}
	var recent []string
	for rp := range rch {
		recent = append(recent, rp.Permanode.String())
	}
	fmt.Fprintf(&sb, "GetRecentPermanodes=%v\n", recent)
	return sb.String()
}

func mutC06B2Corpus(c *index.Corpus, refs map[string]blob.Ref, names []string) string {
	var sb strings.Builder
	for _, n := range names {
		fmt.Fprintf(&sb, "Corpus.IsDeleted(%s)=%v\n", n, c.IsDeleted(refs[n]))
	}
	return sb.String()
}

// History: a delete claim D1 of permanode P is received before P, then a
// claim D2 deleting D1, then P itself (at which point D1 gets indexed for
// good), and finally D3, which deletes D2 and so revives D1. At every step
// the running index and corpus must answer like ones freshly opened over the
// same rows.
func TestMutC06B2DeleteChainWithEarlyDelete(t *testing.T) {
	index.SetVerboseCorpusLogging(false)
	idx := index.NewMemoryIndex()
	id := indextest.NewIndexDeps(idx)
	id.Fataler = t
	live, err := idx.KeepInMemory()
	if err != nil {
		t.Fatal(err)
	}

	t0 := test.ClockOrigin
	claim := func(b *schema.Builder, sec int) *test.Blob {
		b.SetClaimDate(t0.Add(time.Duration(sec) * time.Second))
		return id.Sign(b)
	}

	pn := id.Sign(schema.NewPlannedPermanode("mutC06B2"))
	tag := claim(schema.NewSetAttributeClaim(pn.BlobRef(), "tag", "mutc06b2"), 10)
	d1 := claim(schema.NewDeleteClaim(pn.BlobRef()), 20)
	d2 := claim(schema.NewDeleteClaim(d1.BlobRef()), 30)
	d3 := claim(schema.NewDeleteClaim(d2.BlobRef()), 40)

	refs := map[string]blob.Ref{"P": pn.BlobRef(), "tag": tag.BlobRef(), "D1": d1.BlobRef(), "D2": d2.BlobRef(), "D3": d3.BlobRef()}
	names := []string{"P", "tag", "D1", "D2", "D3"}

	// Out-of-order blobs are indexed asynchronously once their dependency
	// shows up: wait until every received blob whose target was received
	// too is fully indexed.
	target := map[blob.Ref]blob.Ref{d1.BlobRef(): pn.BlobRef(), d2.BlobRef(): d1.BlobRef(), d3.BlobRef(): d2.BlobRef()}
	received := map[blob.Ref]bool{}
	awaitIndexed := func() {
		t.Helper()
		deadline := time.Now().Add(10 * time.Second)
		for {
			pending := 0
			for br := range received {
				if tg, ok := target[br]; ok && !received[tg] {
					continue
				}
				if v, _ := idx.Storage().Get("have:" + br.String()); !strings.HasSuffix(v, "|indexed") {
					pending++
				}
			}
			if pending == 0 {
				// Let the goroutine that indexed it return.
				time.Sleep(20 * time.Millisecond)
				return
			}
			if time.Now().After(deadline) {
				t.Fatalf("timeout waiting for %d blobs to be indexed", pending)
			}
			time.Sleep(5 * time.Millisecond)
		}
	}

	check := func(step string) {
		t.Helper()
		awaitIndexed()

		got := mutC06B2Index(t, idx, id.SignerBlobRef, refs, names)
		freshIdx, err := index.New(idx.Storage())
		if err != nil {
			t.Fatalf("%s: re-opening the index: %v", step, err)
		}
		want := mutC06B2Index(t, freshIdx, id.SignerBlobRef, refs, names)
		if got != want {
			t.Errorf("after %s: running index differs from a re-opened one.\n--- running:\n%s--- re-opened:\n%s", step, got, want)
		}

		idx.RLock()
		gotc := mutC06B2Corpus(live, refs, names)
		idx.RUnlock()
		freshCorpus, err := index.NewCorpusFromStorage(idx.Storage())
		if err != nil {
			t.Fatalf("%s: loading a fresh corpus: %v", step, err)
		}
		wantc := mutC06B2Corpus(freshCorpus, refs, names)
		if gotc != wantc {
			t.Errorf("after %s: live corpus differs from a freshly loaded one.\n--- live:\n%s--- fresh:\n%s", step, gotc, wantc)
		}
	}

	for _, step := range []struct {
		name string
		b    *test.Blob
	}{
		{"D1 (deletes P, which is not there yet)", d1},
		{"tag claim on P", tag},
		{"D2 (deletes D1)", d2},
		{"P (D1 now gets indexed)", pn},
		{"D3 (deletes D2: D1 is live again, so P is deleted)", d3},
	} {
		id.Upload(step.b)
		received[step.b.BlobRef()] = true
		check(step.name)
	}

	// Sanity: the persisted state says P is deleted at the end.
	freshIdx, err := index.New(idx.Storage())
	if err != nil {
		t.Fatal(err)
	}
	if !freshIdx.IsDeleted(pn.BlobRef()) {
		t.Fatalf("test is broken: a re-opened index should consider P deleted")
	}
}
