package blob_test

import (
	"bytes"
	"fmt"
	"testing"

	"perkeep.org/pkg/blob"
)

// The binary encoding of a ref must keep round-tripping to that ref, also
// when other refs are encoded or printed before it is decoded (as when a
// batch of keys is built first and consumed afterwards).
func TestMutC20BinaryEncodingBatch(t *testing.T) {
	var refs []blob.Ref
	for _, name := range blob.HashFuncs() {
		for i := 0; i < 8; i++ {
			h, err := blob.NewHashOfType(name)
			if err != nil {
				t.Fatal(err)
			}
			fmt.Fprintf(h, "mut-c20 content %d", i)
			refs = append(refs, blob.RefFromHash(h))
		}
	}

	// Encode the whole batch first ...
	encs := make([][]byte, len(refs))
	snap := make([][]byte, len(refs))
	for i, r := range refs {
		data, err := r.MarshalBinary()
		if err != nil {
			t.Fatalf("MarshalBinary(%v): %v", r, err)
		}
		encs[i] = data
		snap[i] = bytes.Clone(data)
	}
	// ... look at the refs' text forms in between ...
	for _, r := range refs {
		if got, ok := blob.Parse(r.String()); !ok || got != r {
			t.Fatalf("Parse(String(%v)) = %v, %v", r, got, ok)
		}
	}
	// ... and decode afterwards.
	for i, r := range refs {
		if !bytes.Equal(encs[i], snap[i]) {
			t.Errorf("encoding of %v changed after it was returned:\n  was %q\n  now %q", r, snap[i], encs[i])
		}
		var got blob.Ref
		if err := got.UnmarshalBinary(encs[i]); err != nil {
			t.Errorf("UnmarshalBinary(MarshalBinary(%v)): %v", r, err)
			continue
		}
		if got != r {
			t.Errorf("UnmarshalBinary(MarshalBinary(%v)) = %v", r, got)
		}
	}
}
