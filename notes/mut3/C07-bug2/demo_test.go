package index_test

import (
	"context"
	"testing"

	"perkeep.org/pkg/index"
	"perkeep.org/pkg/index/indextest"
)

// A claim (or permanode) that is the target of two delete claims stays
// deleted as long as at least one of the two delete claims is not itself
// deleted, whichever of the two it is. The answer must be the same from the
// sorted index rows (no corpus) and from a corpus loaded from those rows.
func TestMutC07TwoDeletersNewestUndeleted(t *testing.T) {
	ctx := context.Background()
	index.SetVerboseCorpusLogging(false)
	defer index.SetVerboseCorpusLogging(true)
	idx := index.NewMemoryIndex()
	id := indextest.NewIndexDeps(idx)
	id.Fataler = t

	pn := id.NewPermanode()
	id.SetAttribute(pn, "title", "kept")
	cl := id.SetAttribute(pn, "tag", "foo")

	delOld := id.Delete(cl) // older deletion of cl
	delNew := id.Delete(cl) // newer deletion of cl
	if !idx.IsDeleted(cl) {
		t.Fatalf("claim should be deleted after two delete claims")
	}

	// Undelete only the NEWER deletion. delOld still stands.
	undel := id.Delete(delNew)
	t.Logf("cl=%v delOld=%v delNew=%v undel=%v", cl, delOld, delNew, undel)

	if !idx.IsDeleted(delNew) {
		t.Errorf("index: newer delete claim should be deleted")
	}
	if idx.IsDeleted(delOld) {
		t.Errorf("index: older delete claim should not be deleted")
	}
	if !idx.IsDeleted(cl) {
		t.Errorf("index (sorted rows): claim is reported as not deleted, but an undeleted delete claim (%v) still targets it", delOld)
	}
	claims, err := idx.AppendClaims(ctx, nil, pn, indextest.KeyID, "")
	if err != nil {
		t.Fatal(err)
	}
	for _, c := range claims {
		if c.BlobRef == cl {
			t.Errorf("index (sorted rows): AppendClaims returned the deleted claim %v (tag=%q)", cl, c.Value)
		}
	}

	// Same question to a corpus loaded from the very same rows.
	corpus, err := index.NewCorpusFromStorage(idx.Storage())
	if err != nil {
		t.Fatal(err)
	}
	if !corpus.IsDeleted(cl) {
		t.Errorf("corpus: claim should be deleted")
	}
	cclaims, err := corpus.AppendClaims(ctx, nil, pn, indextest.KeyID, "")
	if err != nil {
		t.Fatal(err)
	}
	if len(cclaims) != len(claims) {
		t.Errorf("sorted rows path returned %d claims, corpus loaded from the same rows returned %d", len(claims), len(cclaims))
	}

	// The same on a permanode as target.
	pn2 := id.NewPermanode()
	id.Delete(pn2)
	newer := id.Delete(pn2)
	id.Delete(newer)
	if !idx.IsDeleted(pn2) {
		t.Errorf("index (sorted rows): permanode with a standing delete claim is reported as not deleted")
	}
}
