package diskpacked_test

import (
	"context"
	"fmt"
	"io"
	"os"
	"path/filepath"
	"strings"
	"testing"

	"perkeep.org/pkg/blobserver"
	"perkeep.org/pkg/blobserver/diskpacked"
	"perkeep.org/pkg/test"
)

func mutFetch(sto blobserver.Storage, tb *test.Blob) (string, error) {
	rc, _, err := sto.Fetch(context.Background(), tb.BlobRef())
	if err != nil {
		return "", err
	}
	defer rc.Close()
	data, err := io.ReadAll(rc)
	return string(data), err
}

// TestMutRetryAfterTornBody: the process dies while the body of a blob is
// being appended to the pack. After the restart the client retries the
// upload, which was never acknowledged. Once that retry is acknowledged the
// blob must be fetched back intact.
//
// Two recovery paths are exercised:
//   - "reindex": the index has no row for the torn blob; the operator
//     rebuilds the index from the pack files before restarting.
//   - "index-ahead": the index already has the row of the blob, but the tail
//     of the pack did not survive (the pack is shorter than the index says).
func TestMutRetryAfterTornBody(t *testing.T) {
	ctx := context.Background()
	for _, mode := range []string{"reindex", "index-ahead"} {
		t.Run(mode, func(t *testing.T) {
			dir := t.TempDir()
			pack := filepath.Join(dir, "pack-00000.blobs")
			sto, err := diskpacked.New(dir)
			if err != nil {
				t.Fatal(err)
			}
			acked := &test.Blob{Contents: "a blob that was acknowledged before the crash"}
			torn := &test.Blob{Contents: strings.Repeat("the body of this blob is torn. ", 20)}
			if _, err := sto.ReceiveBlob(ctx, acked.BlobRef(), acked.Reader()); err != nil {
				t.Fatal(err)
			}

			switch mode {
			case "reindex":
				// Crash: the header and 2/3 of the body reached the pack,
				// the index was not updated.
				if err := sto.(io.Closer).Close(); err != nil {
					t.Fatal(err)
				}
				rec := fmt.Sprintf("[%v %d]%s", torn.BlobRef(), torn.Size(), torn.Contents)
				f, err := os.OpenFile(pack, os.O_WRONLY|os.O_APPEND, 0)
				if err != nil {
					t.Fatal(err)
				}
				if _, err := f.WriteString(rec[:len(rec)-len(torn.Contents)/3]); err != nil {
					t.Fatal(err)
				}
				f.Close()
				if err := diskpacked.Reindex(ctx, dir, true, nil); err != nil {
					t.Fatalf("Reindex: %v", err)
				}
			case "index-ahead":
				if _, err := sto.ReceiveBlob(ctx, torn.BlobRef(), torn.Reader()); err != nil {
					t.Fatal(err)
				}
				if err := sto.(io.Closer).Close(); err != nil {
					t.Fatal(err)
				}
				fi, err := os.Stat(pack)
				if err != nil {
					t.Fatal(err)
				}
				if err := os.Truncate(pack, fi.Size()-int64(len(torn.Contents)/3)); err != nil {
					t.Fatal(err)
				}
			}

			// Restart.
			sto, err = diskpacked.New(dir)
			if err != nil {
				t.Fatal(err)
			}
			defer sto.(io.Closer).Close()

			if got, err := mutFetch(sto, acked); err != nil || got != acked.Contents {
				t.Errorf("acknowledged blob after restart: %q, %v", got, err)
			}

			// The client retries the upload.
			sb, err := sto.ReceiveBlob(ctx, torn.BlobRef(), torn.Reader())
			if err != nil {
				t.Fatalf("retry of the interrupted upload: %v", err)
			}
			if sb != torn.SizedRef() {
				t.Errorf("retry acknowledged %v; want %v", sb, torn.SizedRef())
			}
			got, err := mutFetch(sto, torn)
			if err != nil {
				t.Fatalf("Fetch after the acknowledged retry: %v", err)
			}
			if got != torn.Contents {
				t.Errorf("Fetch after the acknowledged retry returned %d bytes (%q...); want the %d bytes that were uploaded",
					len(got), got[max(0, len(got)-20):], len(torn.Contents))
			}
		})
	}
}
