package files_test

import (
	"context"
	"errors"
	"io"
	"os"
	"strings"
	"sync/atomic"
	"testing"

	"perkeep.org/pkg/blob"
	"perkeep.org/pkg/blobserver"
	"perkeep.org/pkg/blobserver/files"
)

// mutC13FaultFS is the OS file system, except that its k-th Lstat call
// (counted from the moment the fault is armed) fails once with a
// transient I/O error.
type mutC13FaultFS struct {
	files.VFS
	failLstatAt atomic.Int64 // 0: disarmed; n: fail the n-th Lstat from now
	fired       atomic.Bool
}

var errMutC13Transient = errors.New("injected transient I/O error")

func (fs *mutC13FaultFS) Lstat(name string) (os.FileInfo, error) {
	if n := fs.failLstatAt.Load(); n > 0 {
		if fs.failLstatAt.Add(-1) == 0 {
			fs.fired.Store(true)
			return nil, &os.PathError{Op: "lstat", Path: name, Err: errMutC13Transient}
		}
	}
	return fs.VFS.Lstat(name)
}

// A blob is stored and acknowledged. It is then uploaded again (as any
// client that didn't stat first would do) and one single lower-layer call
// of that second upload fails. Whatever the second call returns, the blob
// that was acknowledged before must still be there once the fault is gone.
func TestMutC13ReuploadFaultKeepsAcknowledgedBlob(t *testing.T) {
	ctx := context.Background()
	const contents = "previously acknowledged blob"
	br := blob.RefFromString(contents)

	// ReceiveBlob does two Lstat calls: one on the temp file, one on the
	// final file after the rename. Inject the fault at each of them.
	for k := int64(1); k <= 2; k++ {
		fs := &mutC13FaultFS{VFS: files.OSFS()}
		sto := files.NewStorage(fs, t.TempDir())

		if _, err := sto.ReceiveBlob(ctx, br, strings.NewReader(contents)); err != nil {
			t.Fatalf("k=%d: first upload: %v", k, err)
		}
		if _, err := blobserver.StatBlob(ctx, sto, br); err != nil {
			t.Fatalf("k=%d: stat after first upload: %v", k, err)
		}

		fs.failLstatAt.Store(k)
		_, err := sto.ReceiveBlob(ctx, br, strings.NewReader(contents))
		if !fs.fired.Load() {
			t.Fatalf("k=%d: fault not reached (ReceiveBlob = %v)", k, err)
		}
		t.Logf("k=%d: faulted re-upload returned: %v", k, err)

		// Faults have stopped.
		sb, err := blobserver.StatBlob(ctx, sto, br)
		if err != nil {
			t.Errorf("k=%d: acknowledged blob lost after a faulted re-upload: stat: %v", k, err)
			continue
		}
		if int(sb.Size) != len(contents) {
			t.Errorf("k=%d: stat size = %d; want %d", k, sb.Size, len(contents))
		}
		rc, _, err := sto.Fetch(ctx, br)
		if err != nil {
			t.Errorf("k=%d: acknowledged blob lost after a faulted re-upload: fetch: %v", k, err)
			continue
		}
		got, _ := io.ReadAll(rc)
		rc.Close()
		if string(got) != contents {
			t.Errorf("k=%d: fetched %q; want %q", k, got, contents)
		}
	}
}
