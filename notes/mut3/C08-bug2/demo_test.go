package search_test

import (
	"testing"

	. "perkeep.org/pkg/search"
)

// A set permanode has two members. The first member does not carry the wanted
// tag (but has two other tag values), the second one does. The set must match
// "has a camliMember that is a permanode tagged x", whatever the order in
// which the members are tested and however the valueInSet sub-query is
// spelled (here: wrapped in a logical "and").
func TestMutC08ValueInSetLogicalSubquery(t *testing.T) {
	testQueryTypes(t, memIndexTypes, func(qt *queryTest) {
		id := qt.id

		m1 := id.NewPlannedPermanode("member1")
		id.AddAttribute(m1, "tag", "u")
		id.AddAttribute(m1, "tag", "v")
		m2 := id.NewPlannedPermanode("member2")
		id.AddAttribute(m2, "tag", "x")

		set := id.NewPlannedPermanode("set")
		id.AddAttribute(set, "camliMember", m1.String())
		id.AddAttribute(set, "camliMember", m2.String())

		taggedX := &Constraint{Permanode: &PermanodeConstraint{Attr: "tag", Value: "x"}}

		// Plain permanode sub-query.
		qt.wantRes(&SearchQuery{
			Constraint: &Constraint{Permanode: &PermanodeConstraint{
				Attr:       "camliMember",
				ValueInSet: taggedX,
			}},
		}, set)

		// Same meaning, sub-query wrapped in a logical constraint.
		qt.wantRes(&SearchQuery{
			Constraint: &Constraint{Permanode: &PermanodeConstraint{
				Attr: "camliMember",
				ValueInSet: &Constraint{Logical: &LogicalConstraint{
					Op: "and",
					A:  &Constraint{CamliType: "permanode"},
					B:  taggedX,
				}},
			}},
		}, set)
	})
}
