package schema

import (
	"bytes"
	"context"
	"io"
	"math/rand"
	"testing"

	"perkeep.org/pkg/test"
)

func mutC15AddBytes(t *testing.T, sto *test.Fetcher, typ CamliType, parts []BytesPart) *test.Blob {
	t.Helper()
	var bb *Builder
	if typ == TypeFile {
		bb = NewFileMap("mutc15")
	} else {
		bb = newBytes()
	}
	var size int64
	for _, p := range parts {
		size += int64(p.Size)
	}
	if err := bb.PopulateParts(size, parts); err != nil {
		t.Fatal(err)
	}
	js, err := bb.JSON()
	if err != nil {
		t.Fatal(err)
	}
	tb := &test.Blob{Contents: js}
	sto.AddBlob(tb)
	return tb
}

// TestMutC15Bug3Reread reads nested "bytes" parts more than once through the
// same FileReader: a second pass after seeking back, a ReadAt at the start of
// a nested part after it was consumed, and a file in which the same "bytes"
// blob occurs twice.
func TestMutC15Bug3Reread(t *testing.T) {
	ctx := context.Background()

	t.Run("written-file-second-pass", func(t *testing.T) {
		const size = 3 << 20
		data := make([]byte, size)
		rnd := rand.New(rand.NewSource(7))
		for i := range data {
			data[i] = byte(rnd.Intn(256))
		}
		sto := new(test.Fetcher)
		br, err := WriteFileMap(ctx, sto, NewFileMap("big"), bytes.NewReader(data))
		if err != nil {
			t.Fatal(err)
		}
		fr, err := NewFileReader(ctx, sto, br)
		if err != nil {
			t.Fatal(err)
		}
		for pass := 1; pass <= 2; pass++ {
			if _, err := fr.Seek(0, io.SeekStart); err != nil {
				t.Fatal(err)
			}
			got, err := io.ReadAll(fr)
			if err != nil {
				t.Errorf("pass %d: ReadAll: %v (after %d bytes)", pass, err, len(got))
			}
			if !bytes.Equal(got, data) {
				t.Errorf("pass %d: read back %d bytes, differ from the %d written", pass, len(got), len(data))
			}
		}
	})

	a := &test.Blob{Contents: "AAAAAaaaaa"}
	b := &test.Blob{Contents: "BBBBBbbbbb"}
	c := &test.Blob{Contents: "CCCCCccccc"}

	t.Run("readat-start-of-nested-part-again", func(t *testing.T) {
		sto := new(test.Fetcher)
		sto.AddBlob(a)
		sto.AddBlob(b)
		sto.AddBlob(c)
		inner := mutC15AddBytes(t, sto, TypeBytes, []BytesPart{
			{BlobRef: b.BlobRef(), Size: 10},
			{BlobRef: c.BlobRef(), Size: 10},
		})
		top := mutC15AddBytes(t, sto, TypeFile, []BytesPart{
			{BlobRef: a.BlobRef(), Size: 10},
			{BytesRef: inner.BlobRef(), Size: 20},
			{BlobRef: a.BlobRef(), Size: 5, Offset: 5},
		})
		const want = "AAAAAaaaaa" + "BBBBBbbbbb" + "CCCCCccccc" + "aaaaa"
		fr, err := NewFileReader(ctx, sto, top.BlobRef())
		if err != nil {
			t.Fatal(err)
		}
		// Touch the middle of the nested part first, then its start.
		for _, rd := range []struct{ off, n int }{{17, 6}, {10, 5}, {0, 35}, {10, 20}, {8, 4}} {
			buf := make([]byte, rd.n)
			n, err := fr.ReadAt(buf, int64(rd.off))
			if err != nil || string(buf[:n]) != want[rd.off:rd.off+rd.n] {
				t.Errorf("ReadAt(off=%d, len=%d) = %q, %v; want %q", rd.off, rd.n, buf[:n], err, want[rd.off:rd.off+rd.n])
			}
		}
	})

	t.Run("same-bytes-blob-twice", func(t *testing.T) {
		sto := new(test.Fetcher)
		sto.AddBlob(a)
		sto.AddBlob(b)
		inner := mutC15AddBytes(t, sto, TypeBytes, []BytesPart{
			{BlobRef: a.BlobRef(), Size: 10},
			{BlobRef: b.BlobRef(), Size: 10},
		})
		top := mutC15AddBytes(t, sto, TypeFile, []BytesPart{
			{BytesRef: inner.BlobRef(), Size: 20},
			{BytesRef: inner.BlobRef(), Size: 20},
		})
		const want = "AAAAAaaaaaBBBBBbbbbb" + "AAAAAaaaaaBBBBBbbbbb"
		fr, err := NewFileReader(ctx, sto, top.BlobRef())
		if err != nil {
			t.Fatal(err)
		}
		got, err := io.ReadAll(fr)
		if err != nil || string(got) != want {
			t.Errorf("ReadAll = %q, %v; want %q", got, err, want)
		}
	})
}
