package server

import (
	"fmt"
	"strings"
	"testing"

	"perkeep.org/pkg/blob"
	"perkeep.org/pkg/schema"
)

// TestMutC17AssembleNonTransitive checks that a non-transitive share of a
// file schema blob does not give away the file's contents (which live in
// other blobs, reachable only through a transitive share) when the request
// asks the share handler to assemble the file.
func TestMutC17AssembleNonTransitive(t *testing.T) {
	st := newShareTester(t)
	defer st.done()

	content := "monkey-the-secret"
	contentRef := blob.RefFromString(content)
	link := fmt.Sprintf(`{"camliVersion": 1,
"camliType": "file",
"fileName": "secret.txt",
"parts": [
   {"blobRef": "%v", "size": %d}
]}`, contentRef, len(content))
	linkRef := blob.RefFromString(link)
	st.putRaw(contentRef, content)
	st.putRaw(linkRef, link)

	share := schema.NewShareRef(schema.ShareHaveRef, false).
		SetShareTarget(linkRef).
		SetSigner(blob.RefFromString("irrelevant")).
		SetRawStringField("camliSig", "alsounused")
	st.put(share.Blob())
	shareRef := share.Blob().BlobRef()

	// The file schema blob itself is what is shared.
	st.testGet(fmt.Sprintf("%s?via=%s", linkRef, shareRef), noError)
	// Its part is not: the share is not transitive.
	st.testGet(fmt.Sprintf("%s?via=%s,%s", contentRef, shareRef, linkRef), shareNotTransitive)

	// Assembling the file would serve the bytes of its parts.
	for _, v := range []string{"1", "true", "T"} {
		st.testGet(fmt.Sprintf("%s?via=%s&assemble=%s", linkRef, shareRef, v), assembleNonTransitive)
		if st.rec.Code == 200 || strings.Contains(st.rec.Body.String(), content) {
			t.Errorf("assemble=%s on a non-transitive share: HTTP %d, body %q", v, st.rec.Code, st.rec.Body.String())
		}
	}

	// Sanity: a transitive share of the same file may be assembled.
	tshare := schema.NewShareRef(schema.ShareHaveRef, true).
		SetShareTarget(linkRef).
		SetSigner(blob.RefFromString("irrelevant")).
		SetRawStringField("camliSig", "alsounused")
	st.put(tshare.Blob())
	st.testGet(fmt.Sprintf("%s?via=%s&assemble=1", linkRef, tshare.Blob().BlobRef()), noError)
	if st.rec.Code != 200 || st.rec.Body.String() != content {
		t.Errorf("assemble on a transitive share: HTTP %d, body %q; want 200, %q", st.rec.Code, st.rec.Body.String(), content)
	}
}
