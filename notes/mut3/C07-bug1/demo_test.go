package index_test

import (
	"reflect"
	"testing"
	"time"

	"perkeep.org/pkg/blob"
	"perkeep.org/pkg/index"
	"perkeep.org/pkg/index/indextest"
	"perkeep.org/pkg/types/camtypes"
)

// A multi-valued attribute that holds the same value more than once loses
// every occurrence of that value on a del-attribute with that value. This must
// hold for a historical query time (answered from the claim list) exactly as
// it does for the present time (answered from the cached attributes).
func TestMutC07RepeatedValueDelHistorical(t *testing.T) {
	c := index.ExpNewCorpus()
	pn := blob.MustParse("abc-123")
	sig := indextest.PubKey.BlobRef()
	if err := c.Exp_AddKeyID(sig, indextest.KeyID); err != nil {
		t.Fatal(err)
	}
	claim := func(sec int64, verb, attr, val string) *camtypes.Claim {
		return &camtypes.Claim{
			Type:   verb + "-attribute",
			Attr:   attr,
			Value:  val,
			Date:   time.Unix(sec, 0),
			Signer: sig,
		}
	}
	c.SetClaims(pn, []*camtypes.Claim{
		claim(100, "add", "tag", "a"),
		claim(101, "add", "tag", "b"),
		claim(102, "add", "tag", "a"),
		claim(103, "del", "tag", "a"),
		// A later claim, so that queries at time 105 can not be
		// answered from the cached (present time) attributes.
		claim(110, "add", "other", "z"),
	})

	want := []string{"b"}
	for _, signer := range []string{"", indextest.KeyID} {
		present := c.AppendPermanodeAttrValues(nil, pn, "tag", time.Time{}, signer)
		if !reflect.DeepEqual(present, want) {
			t.Errorf("signer %q, present time: tag = %q; want %q", signer, present, want)
		}
		after := c.AppendPermanodeAttrValues(nil, pn, "tag", time.Unix(110, 0), signer)
		if !reflect.DeepEqual(after, want) {
			t.Errorf("signer %q, time 110: tag = %q; want %q", signer, after, want)
		}
		historical := c.AppendPermanodeAttrValues(nil, pn, "tag", time.Unix(105, 0), signer)
		if !reflect.DeepEqual(historical, want) {
			t.Errorf("signer %q, time 105: tag = %q; want %q", signer, historical, want)
		}
	}
	if c.PermanodeHasAttrValue(pn, time.Unix(105, 0), "tag", "a") {
		t.Errorf("PermanodeHasAttrValue(tag, a) at time 105 = true; want false")
	}
}
