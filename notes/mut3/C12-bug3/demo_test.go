package replica

import (
	"context"
	"fmt"
	"io"
	"testing"
	"time"

	"perkeep.org/pkg/blob"
	"perkeep.org/pkg/blobserver"
	"perkeep.org/pkg/test"
)

// mut3ShortStorage is a backend that loses the last byte of what it's
// given: it consistently reports (on receive, stat and enumerate) one
// byte less than the actual blob size.
type mut3ShortStorage struct {
	blobserver.Storage
}

func (s mut3ShortStorage) ReceiveBlob(ctx context.Context, br blob.Ref, src io.Reader) (blob.SizedRef, error) {
	sb, err := s.Storage.ReceiveBlob(ctx, br, src)
	if err == nil {
		sb.Size--
	}
	return sb, err
}

func (s mut3ShortStorage) StatBlobs(ctx context.Context, blobs []blob.Ref, fn func(blob.SizedRef) error) error {
	return s.Storage.StatBlobs(ctx, blobs, func(sb blob.SizedRef) error {
		sb.Size--
		return fn(sb)
	})
}

func (s mut3ShortStorage) EnumerateBlobs(ctx context.Context, dest chan<- blob.SizedRef, after string, limit int) error {
	ch := make(chan blob.SizedRef)
	errc := make(chan error, 1)
	go func() { errc <- s.Storage.EnumerateBlobs(ctx, ch, after, limit) }()
	for sb := range ch {
		sb.Size--
		dest <- sb
	}
	close(dest)
	return <-errc
}

// TestMut3EnumerateOnceWithWrongSizeReplica: for n=3 replicas, every
// minWritesForSuccess and every subset of replicas storing the blobs with
// the wrong size, a blob written through the replica storage (whether the
// write is acknowledged or not) is enumerated exactly once, as long as
// a replica holds it.
func TestMut3EnumerateOnceWithWrongSizeReplica(t *testing.T) {
	const n = 3
	ctx := context.Background()
	for min := 1; min <= n; min++ {
		for mask := 0; mask < 1<<n; mask++ {
			ld := test.NewLoader()
			var backends []any
			nGood := 0
			for i := 0; i < n; i++ {
				pfx := fmt.Sprintf("/r%d/", i)
				var s blobserver.Storage = &test.Fetcher{}
				if mask&(1<<i) != 0 {
					s = mut3ShortStorage{s}
				} else {
					nGood++
				}
				ld.SetStorage(pfx, s)
				backends = append(backends, pfx)
			}
			sto, err := newFromConfig(ld, map[string]any{
				"backends":            backends,
				"minWritesForSuccess": float64(min),
			})
			if err != nil {
				t.Fatal(err)
			}
			want := map[blob.Ref]bool{}
			for i := 0; i < 3; i++ {
				tb := &test.Blob{Contents: fmt.Sprintf("replicated blob number %d", i)}
				_, err := blobserver.Receive(ctx, sto, tb.BlobRef(), tb.Reader())
				if (err == nil) != (nGood >= min) {
					t.Errorf("min=%d wrongsize=%03b: receive error = %v with %d good replicas", min, mask, err, nGood)
				}
				want[tb.BlobRef()] = true
			}

			// With minWritesForSuccess < n a receive returns before the
			// slowest replicas are done; wait for them so that the
			// enumeration below is deterministic.
			for _, pfx := range backends {
				rep, _ := ld.GetStorage(pfx.(string))
				for br := range want {
					for try := 0; ; try++ {
						if _, err := blobserver.StatBlob(ctx, rep, br); err == nil {
							break
						}
						if try > 5000 {
							t.Fatalf("replica %v never got blob %v", pfx, br)
						}
						time.Sleep(time.Millisecond)
					}
				}
			}

			ch := make(chan blob.SizedRef, 100)
			if err := sto.EnumerateBlobs(ctx, ch, "", 100); err != nil {
				t.Fatalf("min=%d wrongsize=%03b: enumerate: %v", min, mask, err)
			}
			seen := map[blob.Ref]int{}
			for sb := range ch {
				seen[sb.Ref]++
			}
			for br := range want {
				if seen[br] != 1 {
					t.Errorf("min=%d wrongsize=%03b: blob %v enumerated %d times; want once", min, mask, br, seen[br])
				}
			}

			// And stat agrees.
			for br := range want {
				nStat := 0
				if err := sto.StatBlobs(ctx, []blob.Ref{br}, func(blob.SizedRef) error { nStat++; return nil }); err != nil {
					t.Fatalf("stat: %v", err)
				}
				if nStat != 1 {
					t.Errorf("min=%d wrongsize=%03b: blob %v stat'ed %d times; want once", min, mask, br, nStat)
				}
			}
		}
	}
}
