package schema

import (
	"bytes"
	"context"
	"errors"
	"io"
	"math/rand"
	"sync"
	"testing"
	"time"

	"perkeep.org/pkg/blob"
	"perkeep.org/pkg/test"
)

// mutC15FlakyStore fails exactly one ReceiveBlob (the failAt-th one) with a
// transient error and behaves normally otherwise.
type mutC15FlakyStore struct {
	*test.Fetcher
	mu     sync.Mutex
	calls  int
	failAt int
	failed chan struct{} // closed once the injected failure was returned
}

var errMutC15Transient = errors.New("injected transient write failure")

func (s *mutC15FlakyStore) ReceiveBlob(ctx context.Context, br blob.Ref, src io.Reader) (blob.SizedRef, error) {
	s.mu.Lock()
	s.calls++
	fail := s.calls == s.failAt
	s.mu.Unlock()
	if fail {
		io.Copy(io.Discard, src)
		defer close(s.failed)
		return blob.SizedRef{}, errMutC15Transient
	}
	return s.Fetcher.ReceiveBlob(ctx, br, src)
}

// mutC15GatedReader delivers the first `before` bytes, then waits until the
// store has failed a write (plus a little), then delivers the rest. This only
// makes the interleaving deterministic: the failing chunk upload completes
// while plenty of the stream is still to come.
type mutC15GatedReader struct {
	r      *bytes.Reader
	before int64
	done   int64
	gate   <-chan struct{}
	waited bool
}

func (g *mutC15GatedReader) Read(p []byte) (int, error) {
	if !g.waited && g.done >= g.before {
		select {
		case <-g.gate:
		case <-time.After(10 * time.Second):
		}
		time.Sleep(50 * time.Millisecond)
		g.waited = true
	}
	if !g.waited && int64(len(p)) > g.before-g.done {
		p = p[:g.before-g.done]
	}
	n, err := g.r.Read(p)
	g.done += int64(n)
	return n, err
}

// TestMutC15Bug2TransientChunkFailure: the upload of an early chunk fails once
// while the stream still has megabytes to go. WriteFileMap must either report
// the failure, or return a file that reads back completely.
func TestMutC15Bug2TransientChunkFailure(t *testing.T) {
	ctx := context.Background()
	const size = 3 << 20
	data := make([]byte, size)
	rnd := rand.New(rand.NewSource(42))
	for i := range data {
		data[i] = byte(rnd.Intn(256))
	}

	sto := &mutC15FlakyStore{Fetcher: new(test.Fetcher), failAt: 1, failed: make(chan struct{})}
	src := &mutC15GatedReader{r: bytes.NewReader(data), before: 400 << 10, gate: sto.failed}

	br, err := WriteFileMap(ctx, sto, NewFileMap("flaky"), src)
	if err != nil {
		t.Logf("WriteFileMap reported the failure, as it must: %v", err)
		// A retry of the whole write against the now healthy store has to give a good file.
		br, err = WriteFileMap(ctx, sto, NewFileMap("flaky"), bytes.NewReader(data))
		if err != nil {
			t.Fatalf("retry: WriteFileMap: %v", err)
		}
	} else {
		t.Logf("WriteFileMap returned success (%v) although one chunk upload failed", br)
	}

	// Whatever was returned with a nil error must be a complete, readable file.
	fr, err := NewFileReader(ctx, sto, br)
	if err != nil {
		t.Fatalf("NewFileReader(%v): %v", br, err)
	}
	if fr.Size() != size {
		t.Errorf("file %v has size %d; wrote %d bytes", br, fr.Size(), size)
	}
	missing := 0
	if err := fr.ForeachChunk(ctx, func(_ []blob.Ref, p BytesPart) error {
		if !p.BlobRef.Valid() {
			return nil
		}
		rc, _, err := sto.Fetch(ctx, p.BlobRef)
		if err != nil {
			missing++
			t.Errorf("file schema references chunk %v (size %d) which was never stored: %v", p.BlobRef, p.Size, err)
			return nil
		}
		rc.Close()
		return nil
	}); err != nil {
		t.Errorf("ForeachChunk: %v", err)
	}
	got, err := io.ReadAll(fr)
	if err != nil {
		t.Errorf("reading back: %v (after %d bytes)", err, len(got))
	}
	if !bytes.Equal(got, data) {
		t.Errorf("read back %d bytes which differ from the %d bytes written", len(got), len(data))
	}
}
