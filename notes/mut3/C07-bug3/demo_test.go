package index_test

import (
	"context"
	"fmt"
	"sort"
	"testing"

	"perkeep.org/pkg/blob"
	"perkeep.org/pkg/index"
	"perkeep.org/pkg/index/indextest"
	"perkeep.org/pkg/sorted"
	"perkeep.org/pkg/types/camtypes"
)

// The deletion status of claims and permanodes, and hence the set of claims
// that define a permanode's attributes, must be the same whether it is asked
// to the running index (sorted rows + corpus kept up to date incrementally)
// or, after a restart, to an index and a corpus loaded from the same rows.
func TestMutC07DeletesSurviveRestart(t *testing.T) {
	ctx := context.Background()
	index.SetVerboseCorpusLogging(false)
	defer index.SetVerboseCorpusLogging(true)

	kv := sorted.NewMemoryKeyValue()
	idx, err := index.New(kv)
	if err != nil {
		t.Fatal(err)
	}
	id := indextest.NewIndexDeps(idx)
	id.Fataler = t
	liveCorpus, err := idx.KeepInMemory()
	if err != nil {
		t.Fatal(err)
	}

	pn := id.NewPermanode()
	id.SetAttribute(pn, "title", "hello")
	tagFoo := id.AddAttribute(pn, "tag", "foo")
	id.AddAttribute(pn, "tag", "bar")

	// Delete the "add tag foo" claim.
	delTagFoo := id.Delete(tagFoo)

	// Delete the permanode, then change our mind and undelete it
	// (by deleting the delete claim).
	delPn := id.Delete(pn)
	undelPn := id.Delete(delPn)
	t.Logf("pn=%v tagFoo=%v delTagFoo=%v delPn=%v undelPn=%v", pn, tagFoo, delTagFoo, delPn, undelPn)

	type view struct {
		name      string
		isDeleted func(blob.Ref) bool
		claims    func() ([]camtypes.Claim, error)
	}
	claimsStr := func(cls []camtypes.Claim) string {
		var ss []string
		for _, cl := range cls {
			ss = append(ss, fmt.Sprintf("%s %s=%q", cl.Type, cl.Attr, cl.Value))
		}
		sort.Strings(ss)
		return fmt.Sprint(ss)
	}
	check := func(v view) {
		t.Helper()
		if v.isDeleted(pn) {
			t.Errorf("%s: permanode is deleted; want undeleted (its delete claim was itself deleted)", v.name)
		}
		if !v.isDeleted(delPn) {
			t.Errorf("%s: delete claim of the permanode is not deleted; want deleted", v.name)
		}
		if !v.isDeleted(tagFoo) {
			t.Errorf("%s: claim 'add tag foo' is not deleted; want deleted", v.name)
		}
		cls, err := v.claims()
		if err != nil {
			t.Fatalf("%s: AppendClaims: %v", v.name, err)
		}
		var attrClaims []camtypes.Claim
		for _, cl := range cls {
			if cl.Type == "delete" {
				continue
			}
			attrClaims = append(attrClaims, cl)
		}
		want := `[add-attribute tag="bar" set-attribute title="hello"]`
		if got := claimsStr(attrClaims); got != want {
			t.Errorf("%s: non-deleted attribute claims = %s; want %s", v.name, got, want)
		}
	}

	// 1. The running index (corpus built incrementally).
	check(view{
		name:      "live index with incremental corpus",
		isDeleted: liveCorpus.IsDeleted,
		claims: func() ([]camtypes.Claim, error) {
			idx.RLock()
			defer idx.RUnlock()
			return idx.AppendClaims(ctx, nil, pn, indextest.KeyID, "")
		},
	})
	check(view{
		name:      "live index deletes cache",
		isDeleted: idx.IsDeleted,
		claims: func() ([]camtypes.Claim, error) {
			idx.RLock()
			defer idx.RUnlock()
			return idx.AppendClaims(ctx, nil, pn, indextest.KeyID, "")
		},
	})

	// 2. "Restart": a new Index on the same sorted rows, without corpus.
	idx2, err := index.New(kv)
	if err != nil {
		t.Fatal(err)
	}
	check(view{
		name:      "reopened index (sorted rows)",
		isDeleted: idx2.IsDeleted,
		claims: func() ([]camtypes.Claim, error) {
			return idx2.AppendClaims(ctx, nil, pn, indextest.KeyID, "")
		},
	})

	// 3. "Restart": a corpus loaded at start from the same sorted rows.
	corpus2, err := index.NewCorpusFromStorage(kv)
	if err != nil {
		t.Fatal(err)
	}
	check(view{
		name:      "corpus loaded at start",
		isDeleted: corpus2.IsDeleted,
		claims: func() ([]camtypes.Claim, error) {
			return corpus2.AppendClaims(ctx, nil, pn, indextest.KeyID, "")
		},
	})
}
