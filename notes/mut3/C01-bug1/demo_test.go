package files_test

import (
	"context"
	"fmt"
	"reflect"
	"sort"
	"strings"
	"testing"

	"perkeep.org/pkg/blob"
	"perkeep.org/pkg/blobserver/files"
)

// TestMutC01Bug1EnumerateNonRefCursor checks that EnumerateBlobs honours
// cursors that are not themselves blobrefs: the listing must contain exactly
// the blobs whose blobref text is strictly greater than the cursor.
func TestMutC01Bug1EnumerateNonRefCursor(t *testing.T) {
	ctx := context.Background()
	ds := files.NewStorage(files.OSFS(), t.TempDir())

	var all []string
	for i := 0; i < 12; i++ {
		data := fmt.Sprintf("mut-c01-bug1-blob-%d", i)
		br := blob.RefFromString(data)
		if _, err := ds.ReceiveBlob(ctx, br, strings.NewReader(data)); err != nil {
			t.Fatal(err)
		}
		all = append(all, br.String())
	}
	sort.Strings(all)

	enumerate := func(after string) []string {
		ch := make(chan blob.SizedRef)
		errc := make(chan error, 1)
		go func() { errc <- ds.EnumerateBlobs(ctx, ch, after, 1000) }()
		var got []string
		for sb := range ch {
			got = append(got, sb.Ref.String())
		}
		if err := <-errc; err != nil {
			t.Fatalf("EnumerateBlobs(after=%q): %v", after, err)
		}
		return got
	}

	var cursors []string
	for _, s := range all {
		cursors = append(cursors,
			s,                  // a real blobref
			s+"0",              // just after a stored blob, but not a blobref
			s[:len(s)-1]+"z",   // same, non-hex last character
			s[:len(s)-3]+"~",   // partial digest
			s[:len(s)/2],       // prefix of a stored blobref
			strings.ToUpper(s), // sorts before every "sha..." name
		)
	}
	for _, after := range cursors {
		var want []string
		for _, s := range all {
			if s > after {
				want = append(want, s)
			}
		}
		got := enumerate(after)
		if !reflect.DeepEqual(got, want) {
			t.Fatalf("EnumerateBlobs(after=%q):\n got %q\nwant %q", after, got, want)
		}
	}
}
