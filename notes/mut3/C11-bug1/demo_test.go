package encrypt

import (
	"context"
	"fmt"
	"sync"
	"testing"
	"time"

	"perkeep.org/pkg/blob"
	"perkeep.org/pkg/sorted"
	"perkeep.org/pkg/test"
)

// mut3b1SlowIndex is a meta index whose Set for one chosen key is slow (as
// a disk-backed index can be): it does not take effect before release is
// closed. It reports the first Get of that key on sawGet.
type mut3b1SlowIndex struct {
	sorted.KeyValue
	slowKey string
	sawGet  chan struct{}
	getOnce sync.Once
	release chan struct{}
}

func (x *mut3b1SlowIndex) Get(key string) (string, error) {
	if key == x.slowKey {
		x.getOnce.Do(func() { close(x.sawGet) })
	}
	return x.KeyValue.Get(key)
}

func (x *mut3b1SlowIndex) Set(key, value string) error {
	if key == x.slowKey {
		<-x.release
	}
	return x.KeyValue.Set(key, value)
}

// mut3b1Meta reports the RemoveBlobs calls made on the meta store.
type mut3b1Meta struct {
	*test.Fetcher
	removed chan struct{}
	once    sync.Once
}

func (m *mut3b1Meta) RemoveBlobs(ctx context.Context, blobs []blob.Ref) error {
	err := m.Fetcher.RemoveBlobs(ctx, blobs)
	m.once.Do(func() { close(m.removed) })
	return err
}

// The upload that triggers a meta compaction has its index row written
// slowly, so the compaction goroutine looks the row up before it exists.
// Every acknowledged blob must still be recoverable from the wrapped stores
// alone.
func TestMut3B1CompactionRacesIndexSet(t *testing.T) {
	ts := newTestStorage()
	idx := &mut3b1SlowIndex{
		KeyValue: ts.sto.index,
		sawGet:   make(chan struct{}),
		release:  make(chan struct{}),
	}
	meta := &mut3b1Meta{Fetcher: ts.meta, removed: make(chan struct{})}
	ts.sto.index = idx
	ts.sto.meta = meta

	var blobs []*test.Blob
	for i := 0; i < SmallMetaCountLimit; i++ {
		tb := &test.Blob{Contents: fmt.Sprintf("mut3b1 blob %d", i)}
		tb.MustUpload(t, ts.sto)
		blobs = append(blobs, tb)
	}

	// The next upload makes the heap overflow and starts the compaction.
	last := &test.Blob{Contents: "mut3b1 the blob whose upload triggers compaction"}
	idx.slowKey = last.BlobRef().String()
	blobs = append(blobs, last)

	go func() {
		// Let the slow Set finish once the packer has looked for the row and
		// has either given up (nothing more happens) or completed its work
		// (the small meta blobs are removed).
		select {
		case <-idx.sawGet:
		case <-time.After(10 * time.Second):
		}
		select {
		case <-meta.removed:
		case <-time.After(2 * time.Second):
		}
		close(idx.release)
	}()
	last.MustUpload(t, ts.sto) // acknowledged

	for _, tb := range blobs {
		if got := ts.fetchOrErrorString(tb.BlobRef()); got != tb.Contents {
			t.Fatalf("before restart: fetch %v = %q; want %q", tb.BlobRef(), got, tb.Contents)
		}
	}

	// Restart with the meta index lost.
	ts2 := newTestStorage()
	ts2.meta, ts2.blobs = ts.meta, ts.blobs
	ts2.sto.meta, ts2.sto.blobs = ts.meta, ts.blobs
	if err := ts2.sto.readAllMetaBlobs(); err != nil {
		t.Fatalf("restart: %v", err)
	}
	for i, tb := range blobs {
		if got := ts2.fetchOrErrorString(tb.BlobRef()); got != tb.Contents {
			t.Errorf("after restart: fetch of blob #%d %v = %q; want %q", i, tb.BlobRef(), got, tb.Contents)
		}
	}
}
