package index_test

import (
	"context"
	"errors"
	"fmt"
	"io"
	"os"
	"strings"
	"sync"
	"testing"
	"time"

	"perkeep.org/pkg/blob"
	"perkeep.org/pkg/index"
	"perkeep.org/pkg/sorted"
	"perkeep.org/pkg/test"
)

// mutC14RaceFetcher is a blob source on which the first miss of the blob
// "gate" is held back (the miss is still reported, but only after the test let
// it go), to reproduce the schedule: indexer of F looks for its chunk D, D is
// absent; D is then stored and completely indexed; only then does the indexer
// of F record "F needs D".
type mutC14RaceFetcher struct {
	*test.Fetcher
	gate    blob.Ref
	once    sync.Once
	missed  chan struct{} // closed when the miss of gate happened
	release chan struct{} // closed to let the miss return
}

func (f *mutC14RaceFetcher) Fetch(ctx context.Context, br blob.Ref) (io.ReadCloser, uint32, error) {
	rc, size, err := f.Fetcher.Fetch(ctx, br)
	if br == f.gate && errors.Is(err, os.ErrNotExist) {
		f.once.Do(func() {
			close(f.missed)
			<-f.release
		})
	}
	return rc, size, err
}

func TestMutC14ConcurrentFileAndChunk(t *testing.T) {
	ctx := context.Background()
	chunk := &test.Blob{Contents: "mutC14-chunk-contents"}
	file := &test.Blob{Contents: fmt.Sprintf(`{"camliVersion": 1,
"camliType": "file",
"fileName": "mutc14.txt",
"parts": [
  {"blobRef": "%s", "size": %d}
]}`, chunk.BlobRef(), len(chunk.Contents))}

	s := sorted.NewMemoryKeyValue()
	ix, err := index.New(s)
	if err != nil {
		t.Fatal(err)
	}
	src := &mutC14RaceFetcher{
		Fetcher: new(test.Fetcher),
		gate:    chunk.BlobRef(),
		missed:  make(chan struct{}),
		release: make(chan struct{}),
	}
	ix.InitBlobSource(src)

	// Client 1: uploads the file schema blob (storage, then index).
	src.AddBlob(file)
	fileDone := make(chan error, 1)
	go func() {
		_, err := ix.ReceiveBlob(ctx, file.BlobRef(), file.Reader())
		fileDone <- err
	}()

	select {
	case <-src.missed:
	case <-time.After(10 * time.Second):
		t.Fatal("the indexer never looked for the chunk")
	}

	// Client 2: meanwhile uploads the chunk (storage, then index), completely.
	src.AddBlob(chunk)
	if _, err := ix.ReceiveBlob(ctx, chunk.BlobRef(), chunk.Reader()); err != nil {
		t.Fatalf("indexing chunk: %v", err)
	}

	// Now client 1's indexing goes on.
	close(src.release)
	if err := <-fileDone; err != nil {
		t.Fatalf("indexing file: %v", err)
	}
	ix.Exp_AwaitAsyncIndexing(t)

	// Both uploads were acknowledged and both blobs are in the blob source:
	// the file must be indexed, as it is in any sequential order of the two
	// uploads.
	have, err := s.Get("have:" + file.BlobRef().String())
	if err != nil {
		t.Fatalf("no have row for the file: %v", err)
	}
	if !strings.HasSuffix(have, "|indexed") {
		t.Errorf("have row of file = %q; want it to end in |indexed", have)
	}
	if _, err := ix.GetFileInfo(ctx, file.BlobRef()); err != nil {
		t.Errorf("GetFileInfo(file) = %v; want the file indexed", err)
	}
	ix.WithNeededMapsForTest(func(needs, neededBy map[blob.Ref][]blob.Ref, ready map[blob.Ref]bool) {
		if len(needs) != 0 || len(neededBy) != 0 || len(ready) != 0 {
			t.Errorf("file left waiting forever: needs=%v neededBy=%v ready=%v", needs, neededBy, ready)
		}
	})
}
