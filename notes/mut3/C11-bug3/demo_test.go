package encrypt

import (
	"context"
	"errors"
	"fmt"
	"io"
	"sync"
	"testing"

	"perkeep.org/pkg/blob"
	"perkeep.org/pkg/blobserver"
	"perkeep.org/pkg/blobserver/localdisk"
	"perkeep.org/pkg/test"
)

// mut3b3Meta is a meta store (a localdisk store underneath, as in a typical
// deployment) with one transient write fault: when armed, the
// next ReceiveBlob reads the whole body (as a disk store does into its
// temporary file, or a remote store does over the wire) and then fails
// without storing anything.
type mut3b3Meta struct {
	blobserver.Storage
	mu     sync.Mutex
	armed  bool
	faults int
}

func (m *mut3b3Meta) ReceiveBlob(ctx context.Context, br blob.Ref, src io.Reader) (blob.SizedRef, error) {
	m.mu.Lock()
	fail := m.armed
	m.armed = false
	if fail {
		m.faults++
	}
	m.mu.Unlock()
	if fail {
		io.Copy(io.Discard, src)
		return blob.SizedRef{}, errors.New("mut3b3: transient meta store failure (after the body was read)")
	}
	return m.Storage.ReceiveBlob(ctx, br, src)
}

// One meta write fails transiently, after the store consumed the body. The
// client retries the upload if it is refused. Whatever was acknowledged must
// be recoverable from the wrapped stores after the meta index is lost.
func TestMut3B3TransientMetaWriteFault(t *testing.T) {
	ts := newTestStorage()
	disk, err := localdisk.New(t.TempDir())
	if err != nil {
		t.Fatal(err)
	}
	meta := &mut3b3Meta{Storage: disk}
	ts.sto.meta = meta

	var blobs []*test.Blob
	upload := func(contents string) {
		tb := &test.Blob{Contents: contents}
		var err error
		for try := 0; try < 3; try++ { // a client retries refused uploads
			if _, err = ts.sto.ReceiveBlob(ctxbg, tb.BlobRef(), tb.Reader()); err == nil {
				break
			}
			t.Logf("upload of %q refused (%v); client retries", contents, err)
		}
		if err != nil {
			t.Fatalf("upload of %q: %v", contents, err)
		}
		blobs = append(blobs, tb)
	}

	for i := 0; i < 5; i++ {
		upload(fmt.Sprintf("mut3b3 blob %d", i))
	}
	meta.mu.Lock()
	meta.armed = true
	meta.mu.Unlock()
	upload("mut3b3 the blob whose meta write hits the fault")
	for i := 5; i < 8; i++ {
		upload(fmt.Sprintf("mut3b3 blob %d", i))
	}
	if meta.faults != 1 {
		t.Fatalf("faults injected = %d; want 1", meta.faults)
	}
	for _, tb := range blobs {
		if got := ts.fetchOrErrorString(tb.BlobRef()); got != tb.Contents {
			t.Fatalf("before restart: fetch %v = %q; want %q", tb.BlobRef(), got, tb.Contents)
		}
	}

	// Restart with the meta index lost.
	ts2 := newTestStorage()
	ts2.blobs = ts.blobs
	ts2.sto.meta, ts2.sto.blobs = disk, ts.blobs
	if err := ts2.sto.readAllMetaBlobs(); err != nil {
		t.Errorf("restart: the meta index cannot be rebuilt from the wrapped stores: %v", err)
	}
	for _, tb := range blobs {
		if got := ts2.fetchOrErrorString(tb.BlobRef()); got != tb.Contents {
			t.Errorf("after restart: fetch %v = %q; want %q", tb.BlobRef(), got, tb.Contents)
		}
	}
}
