package replica

import (
	"context"
	"fmt"
	"io"
	"testing"

	"perkeep.org/pkg/blob"
	"perkeep.org/pkg/blobserver"
	"perkeep.org/pkg/test"
)

// mut1MisreportingStorage stores the blob but acknowledges it with a
// wrong size (as a truncating or buggy backend would).
type mut1MisreportingStorage struct {
	blobserver.Storage
}

func (s mut1MisreportingStorage) ReceiveBlob(ctx context.Context, br blob.Ref, src io.Reader) (blob.SizedRef, error) {
	sb, err := s.Storage.ReceiveBlob(ctx, br, src)
	if err != nil {
		return sb, err
	}
	sb.Size--
	return sb, nil
}

// TestMut1QuorumWithMisreportingReplicas: for n=3, every
// minWritesForSuccess and every subset of replicas acknowledging with
// the wrong size (none returning an error), a receive must succeed iff
// at least minWritesForSuccess replicas acknowledged the right size.
func TestMut1QuorumWithMisreportingReplicas(t *testing.T) {
	const n = 3
	for min := 1; min <= n; min++ {
		for mask := 0; mask < 1<<n; mask++ {
			ld := test.NewLoader()
			var backends []any
			nGood := 0
			for i := 0; i < n; i++ {
				pfx := fmt.Sprintf("/r%d/", i)
				var s blobserver.Storage = &test.Fetcher{}
				if mask&(1<<i) != 0 {
					s = mut1MisreportingStorage{s}
				} else {
					nGood++
				}
				ld.SetStorage(pfx, s)
				backends = append(backends, pfx)
			}
			sto, err := newFromConfig(ld, map[string]any{
				"backends":            backends,
				"minWritesForSuccess": float64(min),
			})
			if err != nil {
				t.Fatal(err)
			}
			tb := &test.Blob{Contents: "some replicated blob"}
			sb, err := blobserver.Receive(context.Background(), sto, tb.BlobRef(), tb.Reader())
			wantOK := nGood >= min
			if wantOK && err != nil {
				t.Errorf("min=%d misreporting=%03b: receive failed: %v", min, mask, err)
			}
			if !wantOK && err == nil {
				t.Errorf("min=%d misreporting=%03b: receive acknowledged (%v) with only %d good replicas", min, mask, sb, nGood)
			}
		}
	}
}
