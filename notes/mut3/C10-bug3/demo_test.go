package leveldb_test

import (
	"path/filepath"
	"testing"

	"perkeep.org/pkg/sorted"
	"perkeep.org/pkg/sorted/leveldb"
)

// A key set to the empty value is present: Get returns "" with a nil error
// (not ErrNotFound), consistently with what a range scan shows, before and
// after reopening the store, and whether it was written by Set or a batch.
func TestMutDemoEmptyValueIsPresent(t *testing.T) {
	dir := filepath.Join(t.TempDir(), "db")
	kv, err := leveldb.NewStorage(dir)
	if err != nil {
		t.Fatal(err)
	}
	if err := kv.Set("recpn|1", ""); err != nil {
		t.Fatal(err)
	}
	bm := kv.BeginBatch()
	bm.Set("recpn|2", "x")
	bm.Set("recpn|2", "")
	if err := kv.CommitBatch(bm); err != nil {
		t.Fatal(err)
	}
	check := func(when string, kv sorted.KeyValue) {
		n := 0
		it := kv.Find("recpn|", "recpn}")
		for it.Next() {
			n++
			if it.Value() != "" {
				t.Errorf("%s: scan: %q = %q; want empty value", when, it.Key(), it.Value())
			}
		}
		if err := it.Close(); err != nil {
			t.Fatal(err)
		}
		if n != 2 {
			t.Errorf("%s: scan found %d keys; want 2", when, n)
		}
		for _, k := range []string{"recpn|1", "recpn|2"} {
			if v, err := kv.Get(k); err != nil || v != "" {
				t.Errorf("%s: Get(%q) = %q, %v; want \"\", nil", when, k, v, err)
			}
		}
		if _, err := kv.Get("recpn|3"); err != sorted.ErrNotFound {
			t.Errorf("%s: Get(recpn|3) err = %v; want ErrNotFound", when, err)
		}
	}
	check("before reopen", kv)
	if err := kv.Close(); err != nil {
		t.Fatal(err)
	}
	kv, err = leveldb.NewStorage(dir)
	if err != nil {
		t.Fatal(err)
	}
	defer kv.Close()
	check("after reopen", kv)
}
