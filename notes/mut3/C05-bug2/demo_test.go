package index_test

import (
	"context"
	"fmt"
	"io"
	"os"
	"strings"
	"sync"
	"testing"
	"time"

	"perkeep.org/pkg/blob"
	"perkeep.org/pkg/index"
	"perkeep.org/pkg/sorted"
	"perkeep.org/pkg/test"
)

// mut3C05Bug2Miss is a fetch of a blob that is not (yet) in the blob source.
// The "not found" answer is held back until release is closed.
type mut3C05Bug2Miss struct {
	br      blob.Ref
	release chan struct{}
}

// mut3C05Bug2Source is a blob source whose misses can be delayed: this
// models an upload that looked for its dependency just before it arrived.
type mut3C05Bug2Source struct {
	*test.Fetcher
	misses chan *mut3C05Bug2Miss
}

func (s *mut3C05Bug2Source) Fetch(ctx context.Context, br blob.Ref) (io.ReadCloser, uint32, error) {
	rc, size, err := s.Fetcher.Fetch(ctx, br)
	if err == nil {
		return rc, size, nil
	}
	m := &mut3C05Bug2Miss{br: br, release: make(chan struct{})}
	s.misses <- m
	<-m.release
	return nil, 0, os.ErrNotExist
}

// mut3C05Bug2SlowReader is an upload body that only starts flowing once
// release is closed. started is closed at the first Read, i.e. once the index
// has begun to work on the upload.
type mut3C05Bug2SlowReader struct {
	r       io.Reader
	release chan struct{}
	started chan struct{}
	once    sync.Once
}

func (r *mut3C05Bug2SlowReader) Read(p []byte) (int, error) {
	r.once.Do(func() { close(r.started) })
	<-r.release
	return r.r.Read(p)
}

func mut3C05Bug2Rows(t *testing.T, s sorted.KeyValue) map[string]string {
	t.Helper()
	rows := make(map[string]string)
	it := s.Find("", "")
	for it.Next() {
		rows[it.Key()] = it.Value()
	}
	if err := it.Close(); err != nil {
		t.Fatal(err)
	}
	return rows
}

// Three concurrent uploads of the same file schema blob (think: several sync
// workers, or a client retrying) while its chunk has not arrived yet, then
// the chunk arrives. Whatever the interleaving, once everything has settled
// the index must be in the same state as if the chunk and then the file had
// been uploaded once: file indexed, nothing recorded as missing.
func TestMut3C05Bug2ConcurrentDuplicates(t *testing.T) {
	ctx := context.Background()
	c1 := &test.Blob{Contents: "mut3c05bug2-chunk-one"}
	file := &test.Blob{Contents: fmt.Sprintf(`{"camliVersion": 1,
"camliType": "file",
"fileName": "bug2.txt",
"parts": [
  {"blobRef": "%s", "size": %d}
]}`, c1.BlobRef(), len(c1.Contents))}

	// Reference state: in-order, sequential arrival.
	var want map[string]string
	{
		s := sorted.NewMemoryKeyValue()
		ix, err := index.New(s)
		if err != nil {
			t.Fatal(err)
		}
		bs := new(test.Fetcher)
		ix.InitBlobSource(bs)
		for _, b := range []*test.Blob{c1, file} {
			bs.AddBlob(b)
			if _, err := ix.ReceiveBlob(ctx, b.BlobRef(), b.Reader()); err != nil {
				t.Fatal(err)
			}
		}
		ix.Exp_AwaitAsyncIndexing(t)
		want = mut3C05Bug2Rows(t, s)
	}

	s := sorted.NewMemoryKeyValue()
	ix, err := index.New(s)
	if err != nil {
		t.Fatal(err)
	}
	src := &mut3C05Bug2Source{Fetcher: new(test.Fetcher), misses: make(chan *mut3C05Bug2Miss, 16)}
	ix.InitBlobSource(src)
	src.AddBlob(file)

	nextMiss := func(d time.Duration) *mut3C05Bug2Miss {
		select {
		case m := <-src.misses:
			if m.br != c1.BlobRef() {
				t.Fatalf("unexpected fetch miss of %v", m.br)
			}
			return m
		case <-time.After(d):
			return nil
		}
	}

	done := make(chan error, 3)
	upload := func(r io.Reader) {
		go func() {
			_, err := ix.ReceiveBlob(ctx, file.BlobRef(), r)
			done <- err
		}()
	}
	waitUpload := func(what string) {
		t.Helper()
		select {
		case err := <-done:
			if err != nil {
				t.Fatalf("%s: ReceiveBlob: %v", what, err)
			}
		case <-time.After(10 * time.Second):
			t.Fatalf("%s: timeout", what)
		}
	}

	// Upload A is being worked on (slow client)...
	slow := &mut3C05Bug2SlowReader{r: strings.NewReader(file.Contents), release: make(chan struct{}), started: make(chan struct{})}
	upload(slow)
	<-slow.started
	// ... when uploads B and C of the same blob come in. They have to wait for A.
	upload(file.Reader())
	upload(file.Reader())
	time.Sleep(200 * time.Millisecond)

	// A goes on: the chunk is missing, A records that and is done.
	close(slow.release)
	m := nextMiss(10 * time.Second)
	if m == nil {
		t.Fatal("upload A never looked for the chunk")
	}
	close(m.release)
	waitUpload("upload A")

	// B and C take over. Call X the first one that looks for the chunk, and
	// Y the other one. Both find that the chunk is missing; Y is slow to
	// act upon that.
	mX := nextMiss(10 * time.Second)
	if mX == nil {
		t.Fatal("neither upload B nor upload C looked for the chunk")
	}
	mY := nextMiss(500 * time.Millisecond)
	if mY != nil {
		t.Logf("note: uploads B and C of %v are being indexed at the same time", file.BlobRef())
	}
	close(mX.release)
	waitUpload("upload X")
	if mY == nil {
		if mY = nextMiss(10 * time.Second); mY == nil {
			t.Fatal("upload Y never looked for the chunk")
		}
	}

	// The chunk arrives while Y is still busy.
	src.AddBlob(c1)
	if _, err := ix.ReceiveBlob(ctx, c1.BlobRef(), c1.Reader()); err != nil {
		t.Fatal(err)
	}
	time.Sleep(300 * time.Millisecond)

	// Y finishes: it records that the file waits for the chunk.
	close(mY.release)
	waitUpload("upload Y")

	// Let everything settle (releasing any further delayed miss at once).
	stop := make(chan struct{})
	go func() {
		for {
			select {
			case m := <-src.misses:
				close(m.release)
			case <-stop:
				return
			}
		}
	}()
	ix.Exp_AwaitAsyncIndexing(t)
	time.Sleep(100 * time.Millisecond)
	ix.Exp_AwaitAsyncIndexing(t)
	close(stop)

	got := mut3C05Bug2Rows(t, s)
	for k, v := range want {
		if gv, ok := got[k]; !ok {
			t.Errorf("row %q = %q is missing", k, v)
		} else if gv != v {
			t.Errorf("row %q = %q; want %q", k, gv, v)
		}
	}
	for k, v := range got {
		if _, ok := want[k]; !ok {
			t.Errorf("unexpected row %q = %q", k, v)
		}
	}
	ix.WithNeededMapsForTest(func(needs, neededBy map[blob.Ref][]blob.Ref, ready map[blob.Ref]bool) {
		if len(needs) != 0 || len(neededBy) != 0 || len(ready) != 0 {
			t.Errorf("all blobs have arrived, but needs = %v, neededBy = %v, ready = %v; want all empty", needs, neededBy, ready)
		}
	})
}
