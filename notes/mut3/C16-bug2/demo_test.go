package jsonsign_test

import (
	"fmt"
	"strings"
	"testing"

	. "perkeep.org/pkg/jsonsign"
)

// TestMutDemoLeadingBytes checks both directions of the property at the
// very beginning of the signed payload:
//
//  1. a document whose unsigned form starts with JSON whitespace signs
//     and verifies (the leading whitespace is part of the signed payload);
//  2. inserting a byte in front of an already signed document, or deleting
//     a leading whitespace byte of one, changes the signed payload and must
//     make verification fail.
func TestMutDemoLeadingBytes(t *testing.T) {
	signer := pubKeyBlob1.BlobRef().String()
	body := fmt.Sprintf(`{"camliVersion": 1, "foo": "fooVal", "camliSigner": %q}`, signer)

	verify := func(sjson string) error {
		vr := NewVerificationRequest(sjson, testFetcher)
		_, err := vr.Verify(ctxbg)
		return err
	}

	// Part 1: leading whitespace in the unsigned document.
	for _, lead := range []string{"", " ", "\n", "\t", "\r\n", " \n\t "} {
		sr := newRequest(1)
		sr.UnsignedJSON = lead + body
		signed, err := sr.Sign(ctxbg)
		if err != nil {
			t.Fatalf("Sign with lead %q: %v", lead, err)
		}
		if !strings.HasPrefix(signed, lead+"{") {
			t.Fatalf("lead %q: signed doc does not start with the original bytes: %q", lead, signed[:10])
		}
		if err := verify(signed); err != nil {
			t.Errorf("lead %q: freshly signed document does not verify: %v", lead, err)
		}

		// Part 2b: deleting one byte of leading whitespace is a
		// payload change.
		if lead != "" {
			if err := verify(signed[1:]); err == nil {
				t.Errorf("lead %q: document still verifies after deleting its first (signed) byte", lead)
			}
		}
	}

	// Part 2a: single byte insertions at offset 0 of a signed document.
	sr := newRequest(1)
	sr.UnsignedJSON = body
	signed, err := sr.Sign(ctxbg)
	if err != nil {
		t.Fatal(err)
	}
	if err := verify(signed); err != nil {
		t.Fatalf("control: %v", err)
	}
	for b := 0; b < 256; b++ {
		tampered := string([]byte{byte(b)}) + signed
		if err := verify(tampered); err == nil {
			t.Errorf("document still verifies after inserting byte 0x%02x at offset 0 of the signed payload", b)
		}
	}
}
