package encrypt

import (
	"fmt"
	"testing"
	"time"

	"perkeep.org/pkg/test"
)

// History: some uploads; an ordinary restart where the meta index SURVIVES
// (a persistent leveldb/kvfile index, not wiped); enough further uploads to
// trigger one meta compaction; then a restart where the meta index is LOST.
// All blobs must be recoverable from the wrapped stores alone.
func TestMut3B2KeptIndexThenCompactionThenWipe(t *testing.T) {
	const before = 30 // uploaded before the index-preserving restart

	ts := newTestStorage()
	var blobs []*test.Blob
	for i := 0; i < before; i++ {
		tb := &test.Blob{Contents: fmt.Sprintf("mut3b2 old blob %d", i)}
		tb.MustUpload(t, ts.sto)
		blobs = append(blobs, tb)
	}

	// Restart #1: same wrapped stores, and the meta index kept.
	ts1 := newTestStorage()
	ts1.meta, ts1.blobs = ts.meta, ts.blobs
	ts1.sto.meta, ts1.sto.blobs = ts.meta, ts.blobs
	ts1.sto.index = ts.sto.index
	if err := ts1.sto.readAllMetaBlobs(); err != nil {
		t.Fatalf("restart 1: %v", err)
	}

	// Enough uploads for the small-meta heap to overflow once.
	for i := 0; i < SmallMetaCountLimit+1-before; i++ {
		tb := &test.Blob{Contents: fmt.Sprintf("mut3b2 new blob %d", i)}
		tb.MustUpload(t, ts1.sto)
		blobs = append(blobs, tb)
	}
	// Wait for the background compaction to finish: one packed meta blob.
	deadline := time.Now().Add(20 * time.Second)
	for ts1.meta.NumBlobs() != 1 {
		if time.Now().After(deadline) {
			t.Fatalf("compaction did not complete; %d meta blobs", ts1.meta.NumBlobs())
		}
		time.Sleep(10 * time.Millisecond)
	}
	for _, tb := range blobs {
		if got := ts1.fetchOrErrorString(tb.BlobRef()); got != tb.Contents {
			t.Fatalf("before restart 2: fetch %v = %q; want %q", tb.BlobRef(), got, tb.Contents)
		}
	}

	// Restart #2: the meta index is lost.
	ts2 := newTestStorage()
	ts2.meta, ts2.blobs = ts.meta, ts.blobs
	ts2.sto.meta, ts2.sto.blobs = ts.meta, ts.blobs
	if err := ts2.sto.readAllMetaBlobs(); err != nil {
		t.Fatalf("restart 2: %v", err)
	}
	lost := 0
	for _, tb := range blobs {
		if got := ts2.fetchOrErrorString(tb.BlobRef()); got != tb.Contents {
			lost++
			if lost <= 3 {
				t.Errorf("after restart 2: fetch %v = %q; want %q", tb.BlobRef(), got, tb.Contents)
			}
		}
	}
	if lost > 0 {
		t.Errorf("%d of %d acknowledged blobs are not recoverable from the wrapped stores", lost, len(blobs))
	}
}
