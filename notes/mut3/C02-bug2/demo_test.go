package replica_test

import (
	"bytes"
	"context"
	"encoding/json"
	"io"
	"mime/multipart"
	"net/http/httptest"
	"testing"

	"perkeep.org/pkg/blob"
	"perkeep.org/pkg/blobserver"
	"perkeep.org/pkg/blobserver/handlers"
	"perkeep.org/pkg/blobserver/localdisk"
	"perkeep.org/pkg/blobserver/protocol"
	"perkeep.org/pkg/blobserver/replica"
)

func mutNewReplica(t *testing.T) blobserver.Storage {
	t.Helper()
	var backends []blobserver.Storage
	for i := 0; i < 2; i++ {
		ds, err := localdisk.New(t.TempDir())
		if err != nil {
			t.Fatal(err)
		}
		backends = append(backends, ds)
	}
	return replica.NewForTest(backends)
}

func mutGarbage(n int) []byte {
	b := make([]byte, n)
	for i := range b {
		b[i] = byte(i*13 + i>>9)
	}
	return b
}

func mutAssertAbsent(t *testing.T, sto blobserver.Storage, br blob.Ref) {
	t.Helper()
	ctx := context.Background()
	if rc, size, err := sto.Fetch(ctx, br); err == nil {
		h := br.Hash()
		io.Copy(h, rc)
		rc.Close()
		t.Errorf("rejected blob %v is fetchable (%d bytes; content matches ref: %v)", br, size, br.HashMatches(h))
	}
	if sb, err := blobserver.StatBlob(ctx, sto, br); err == nil && sb.Valid() {
		t.Errorf("rejected blob is stat-able: %v", sb)
	}
	ch := make(chan blob.SizedRef, 16)
	errc := make(chan error, 1)
	go func() { errc <- sto.EnumerateBlobs(ctx, ch, "", 10) }()
	for sb := range ch {
		t.Errorf("rejected blob is enumerated: %v", sb)
	}
	if err := <-errc; err != nil {
		t.Errorf("enumerate: %v", err)
	}
}

// Bytes that don't hash to the blobref they are offered under must be
// refused by a replica of plain disk stores, whatever their length.
func TestMutReplicaRefusesCorruptBlobs(t *testing.T) {
	ctx := context.Background()
	// The ref of some other (small) blob.
	otherRef := blob.RefFromString("some other blob")

	for _, tt := range []struct {
		name string
		size int
	}{
		{"small", 1 << 10},
		{"max-minus-1", blobserver.MaxBlobSize - 1},
		{"max", blobserver.MaxBlobSize},
		{"max-plus-1", blobserver.MaxBlobSize + 1},
		{"max-plus-1MiB", blobserver.MaxBlobSize + 1<<20},
	} {
		t.Run(tt.name, func(t *testing.T) {
			sto := mutNewReplica(t)
			notified := make(chan blob.Ref, 1)
			hub := blobserver.GetHub(sto)
			hub.RegisterListener(notified)
			defer hub.UnregisterListener(notified)

			data := mutGarbage(tt.size)
			sb, err := blobserver.Receive(ctx, sto, otherRef, bytes.NewReader(data))
			if err == nil {
				t.Errorf("Receive(%v, %d garbage bytes) = %v, nil; want an error", otherRef, len(data), sb)
			}
			mutAssertAbsent(t, sto, otherRef)
			select {
			case br := <-notified:
				t.Errorf("observers were notified of rejected blob %v", br)
			default:
			}
		})
	}
}

type mutStorageAndConfig struct {
	blobserver.Storage
}

func (mutStorageAndConfig) Config() *blobserver.Config { return &blobserver.Config{Writable: true} }

// The same through the multipart upload endpoint in front of the replica: a
// part of MaxBlobSize+1 bytes of garbage, named after another blob's ref.
func TestMutReplicaMultipartRefusesCorruptBlob(t *testing.T) {
	rep := mutNewReplica(t)
	otherRef := blob.RefFromString("some other blob")
	data := mutGarbage(blobserver.MaxBlobSize + 1)

	var body bytes.Buffer
	mw := multipart.NewWriter(&body)
	w, err := mw.CreateFormFile(otherRef.String(), otherRef.String())
	if err != nil {
		t.Fatal(err)
	}
	w.Write(data)
	mw.Close()

	req := httptest.NewRequest("POST", "/camli/upload", &body)
	req.Header.Set("Content-Type", mw.FormDataContentType())
	rec := httptest.NewRecorder()
	handlers.CreateBatchUploadHandler(mutStorageAndConfig{rep}).ServeHTTP(rec, req)

	var res protocol.UploadResponse
	if err := json.Unmarshal(rec.Body.Bytes(), &res); err != nil {
		t.Fatalf("bad response %q: %v", rec.Body.String(), err)
	}
	if len(res.Received) != 0 {
		t.Errorf("corrupt part listed as received: %v", res.Received)
	}
	if res.ErrorText == "" {
		t.Errorf("no error reported for the corrupt part")
	}
	mutAssertAbsent(t, rep, otherRef)
}
