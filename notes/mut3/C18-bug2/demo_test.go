package serverinit_test

import (
	"context"
	"encoding/json"
	"fmt"
	"io"
	"log"
	"net/http"
	"net/http/httptest"
	"net/url"
	"os"
	"path/filepath"
	"sort"
	"strings"
	"testing"
	"time"

	"perkeep.org/internal/osutil"
	"perkeep.org/pkg/auth"
	"perkeep.org/pkg/blob"
	"perkeep.org/pkg/client"
	"perkeep.org/pkg/serverinit"

	_ "perkeep.org/pkg/blobserver/blobpacked"
	_ "perkeep.org/pkg/blobserver/cond"
	_ "perkeep.org/pkg/blobserver/diskpacked"
	_ "perkeep.org/pkg/blobserver/localdisk"
	_ "perkeep.org/pkg/blobserver/memory"
	_ "perkeep.org/pkg/blobserver/replica"
	_ "perkeep.org/pkg/search"
	_ "perkeep.org/pkg/server"
)

// mutC18B2World starts an in-process perkeepd from a high-level configuration
// (memory index; storage selected by kind) and returns its base URL.
func mutC18B2World(t *testing.T, kind string) string {
	t.Helper()
	srcRoot, err := osutil.PkSourceRoot()
	if err != nil {
		t.Fatalf("source root folder not found: %v", err)
	}
	t.Setenv("CAMLI_CONFIG_DIR", "whatever")
	hi := map[string]any{
		"auth":               "none",
		"https":              false,
		"identity":           "26F5ABDA",
		"identitySecretRing": filepath.Join(srcRoot, filepath.FromSlash("pkg/jsonsign/testdata/test-secring.gpg")),
		"memoryIndex":        true,
	}
	dir := t.TempDir()
	for _, sub := range []string{"", "packed", "cache"} {
		if err := os.MkdirAll(filepath.Join(dir, sub), 0700); err != nil {
			t.Fatal(err)
		}
	}
	switch kind {
	case "memory":
		hi["memoryStorage"] = true
	case "localdisk":
		hi["blobPath"] = dir
	case "diskpacked":
		hi["blobPath"] = dir
		hi["packBlobs"] = true
	case "blobpacked":
		hi["blobPath"] = dir
		hi["packRelated"] = true
	default:
		t.Fatalf("unknown world kind %q", kind)
	}
	mux := http.NewServeMux()
	srv := httptest.NewUnstartedServer(mux)
	baseURL := "http://" + srv.Listener.Addr().String()
	hi["listen"] = srv.Listener.Addr().String()
	hi["baseURL"] = baseURL
	confData, err := json.Marshal(hi)
	if err != nil {
		t.Fatal(err)
	}
	conf, err := serverinit.Load(confData)
	if err != nil {
		t.Fatalf("Load(%s): %v", kind, err)
	}
	shutdown, err := conf.InstallHandlers(mux, baseURL)
	if err != nil {
		t.Fatalf("InstallHandlers(%s): %v", kind, err)
	}
	auth.SetMode(auth.None{})
	srv.Start()
	t.Cleanup(func() {
		srv.Close()
		shutdown.Close()
	})
	return baseURL
}

// mutC18B2Stat does a raw batch stat (POST, form-encoded) and returns the
// blobrefs of the "stat" array of the response, in the order received.
func mutC18B2Stat(t *testing.T, blobRoot string, maxWaitSec int, refs ...blob.Ref) []string {
	t.Helper()
	form := url.Values{"camliversion": {"1"}}
	if maxWaitSec > 0 {
		form.Set("maxwaitsec", fmt.Sprint(maxWaitSec))
	}
	for i, br := range refs {
		form.Set(fmt.Sprintf("blob%d", i+1), br.String())
	}
	res, err := http.Post(blobRoot+"/camli/stat", "application/x-www-form-urlencoded", strings.NewReader(form.Encode()))
	if err != nil {
		t.Fatal(err)
	}
	defer res.Body.Close()
	if res.StatusCode != 200 {
		t.Fatalf("stat: HTTP status %d", res.StatusCode)
	}
	var sr struct {
		Stat []struct {
			BlobRef string `json:"blobRef"`
			Size    int64  `json:"size"`
		} `json:"stat"`
	}
	if err := json.NewDecoder(res.Body).Decode(&sr); err != nil {
		t.Fatalf("stat: decoding response: %v", err)
	}
	var got []string
	for _, e := range sr.Stat {
		got = append(got, e.BlobRef)
	}
	sort.Strings(got)
	return got
}

// TestMutC18Bug2LongPollStat checks that a long-polling batch stat
// (maxwaitsec) reports each present blob exactly once, like a plain batch
// stat and like blobserver.BlobStatter do, both when the awaited blob never
// shows up and when it arrives while the request is parked.
func TestMutC18Bug2LongPollStat(t *testing.T) {
	log.SetOutput(io.Discard)
	defer log.SetOutput(os.Stderr)
	ctx := context.Background()
	for _, kind := range []string{"memory", "localdisk"} {
		t.Run(kind, func(t *testing.T) {
			base := mutC18B2World(t, kind)
			blobRoot := base + "/bs-and-maybe-also-index"
			cl, err := client.New(client.OptionServer(blobRoot), client.OptionNoExternalConfig())
			if err != nil {
				t.Fatal(err)
			}
			cl.Logger.SetOutput(io.Discard)

			const a, b, c = "blob A, uploaded first", "blob B, uploaded while the stat waits", "blob C, never uploaded"
			refA, refB, refC := blob.RefFromString(a), blob.RefFromString(b), blob.RefFromString(c)
			if _, err := cl.Upload(ctx, client.NewUploadHandleFromString(a)); err != nil {
				t.Fatalf("upload: %v", err)
			}
			wantA := []string{refA.String()}

			// Without long-polling.
			if got := mutC18B2Stat(t, blobRoot, 0, refA, refC); fmt.Sprint(got) != fmt.Sprint(wantA) {
				t.Errorf("stat(A, C) = %v; want %v", got, wantA)
			}
			// Long-polling for a blob that never arrives.
			if got := mutC18B2Stat(t, blobRoot, 1, refA, refC); fmt.Sprint(got) != fmt.Sprint(wantA) {
				t.Errorf("stat(A, C; maxwaitsec=1) = %v; want %v", got, wantA)
			}
			// Long-polling for a blob that arrives during the wait.
			go func() {
				time.Sleep(300 * time.Millisecond)
				if _, err := cl.Upload(ctx, client.NewUploadHandleFromString(b)); err != nil {
					t.Errorf("upload of B: %v", err)
				}
			}()
			wantAB := []string{refA.String(), refB.String()}
			sort.Strings(wantAB)
			t0 := time.Now()
			got := mutC18B2Stat(t, blobRoot, 10, refA, refB)
			if fmt.Sprint(got) != fmt.Sprint(wantAB) {
				t.Errorf("stat(A, B; maxwaitsec=10) with B arriving meanwhile = %v; want %v", got, wantAB)
			}
			if d := time.Since(t0); d > 8*time.Second {
				t.Errorf("long-poll stat took %v; B arrived after ~300ms", d)
			}
			// pkg/client view.
			var n int
			err = cl.StatBlobs(ctx, []blob.Ref{refA, refB, refC}, func(sb blob.SizedRef) error { n++; return nil })
			if err != nil || n != 2 {
				t.Errorf("client.StatBlobs(A, B, C): %d results, err %v; want 2, nil", n, err)
			}
		})
	}
}
