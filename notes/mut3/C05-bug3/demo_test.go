package index_test

import (
	"context"
	"fmt"
	"strings"
	"testing"

	"perkeep.org/pkg/blob"
	"perkeep.org/pkg/index"
	"perkeep.org/pkg/index/indextest"
	"perkeep.org/pkg/schema"
	"perkeep.org/pkg/sorted"
	"perkeep.org/pkg/test"
)

// A claim with a broken signature that arrives before its public key is
// remembered as waiting for the key. Once the key arrives its re-indexing
// fails (bad signature) and it stays in the out-of-order queue forever.
// That must not prevent blobs which become ready later (here a file whose
// chunks arrive after it) from being indexed.
func TestMut3C05Bug3PoisonedOutOfOrderQueue(t *testing.T) {
	ctx := context.Background()

	// Throwaway index, only used to sign blobs.
	signIdx, err := index.New(sorted.NewMemoryKeyValue())
	if err != nil {
		t.Fatal(err)
	}
	id := indextest.NewIndexDeps(signIdx)
	id.Fataler = t

	pn := id.Sign(schema.NewPlannedPermanode("mut3c05bug3"))
	goodClaim := id.Sign(schema.NewSetAttributeClaim(pn.BlobRef(), "tag", "replaceme"))
	badClaim := &test.Blob{Contents: strings.ReplaceAll(goodClaim.Contents, "replaceme", "replaced")}

	c1 := &test.Blob{Contents: "mut3c05bug3-chunk-one"}
	c2 := &test.Blob{Contents: "mut3c05bug3-chunk-two"}
	file := &test.Blob{Contents: fmt.Sprintf(`{"camliVersion": 1,
"camliType": "file",
"fileName": "bug3.txt",
"parts": [
  {"blobRef": "%s", "size": %d},
  {"blobRef": "%s", "size": %d}
]}`, c1.BlobRef(), len(c1.Contents), c2.BlobRef(), len(c2.Contents))}

	// The index under test: its key fetcher is its blob source, so a claim
	// received before the public key blob has a missing dependency.
	s := sorted.NewMemoryKeyValue()
	ix, err := index.New(s)
	if err != nil {
		t.Fatal(err)
	}
	bs := new(test.Fetcher)
	ix.InitBlobSource(bs)

	add := func(b *test.Blob) {
		t.Helper()
		bs.AddBlob(b)
		if _, err := ix.ReceiveBlob(ctx, b.BlobRef(), b.Reader()); err != nil {
			t.Fatalf("ReceiveBlob(%v): %v", b.BlobRef(), err)
		}
		ix.Exp_AwaitAsyncIndexing(t)
	}

	add(badClaim)         // waits for the key
	add(indextest.PubKey) // key arrives: re-indexing of badClaim fails for good
	add(file)             // waits for c1
	add(c1)               // file re-indexed, now waits for c2
	add(c2)               // file must get indexed now

	if _, err := s.Get("fileinfo|" + file.BlobRef().String()); err != nil {
		t.Errorf("file %v was never indexed although all its chunks arrived: no fileinfo row (%v)", file.BlobRef(), err)
	}
	if v, err := s.Get("have:" + file.BlobRef().String()); err != nil || !strings.HasSuffix(v, "|indexed") {
		t.Errorf("have row of file = %q, %v; want ...|indexed", v, err)
	}
	it := s.Find("missing|", "missing}")
	for it.Next() {
		t.Errorf("leftover row %q", it.Key())
	}
	it.Close()
	ix.WithNeededMapsForTest(func(needs, neededBy map[blob.Ref][]blob.Ref, ready map[blob.Ref]bool) {
		if len(needs) != 0 || len(neededBy) != 0 {
			t.Errorf("needs = %v, neededBy = %v; want both empty", needs, neededBy)
		}
		if ready[file.BlobRef()] {
			t.Errorf("file %v is still sitting in the ready-to-reindex queue", file.BlobRef())
		}
	})
}
