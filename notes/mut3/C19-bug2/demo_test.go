package server

import (
	"bytes"
	"context"
	"io"
	"testing"
	"time"

	"perkeep.org/pkg/blob"
	"perkeep.org/pkg/blobserver"
	"perkeep.org/pkg/sorted"
	"perkeep.org/pkg/test"
)

// TestM3C19B2MaxSizeBlob uploads, to a source that has an asynchronous sync
// destination, blobs of MaxBlobSize-1 and of exactly MaxBlobSize bytes (the
// largest blob a blobserver accepts). Both must get to the destination,
// bit-identical, and leave the pending queue.
func TestM3C19B2MaxSizeBlob(t *testing.T) {
	src := new(test.Fetcher)
	dst := new(test.Fetcher)
	queue := sorted.NewMemoryKeyValue()
	NewSyncHandler("/src/", "/dst/", src, dst, queue)

	ctx := context.Background()
	for _, size := range []int{blobserver.MaxBlobSize - 1, blobserver.MaxBlobSize} {
		data := make([]byte, size)
		for i := range data {
			data[i] = byte(i*7 + size)
		}
		br := blob.RefFromBytes(data)
		sb, err := blobserver.Receive(ctx, src, br, bytes.NewReader(data))
		if err != nil {
			t.Fatalf("upload of a %d byte blob to the source: %v", size, err)
		}
		if int(sb.Size) != size {
			t.Fatalf("source stored %d bytes, want %d", sb.Size, size)
		}

		deadline := time.Now().Add(3*queueSyncInterval + 2*time.Second)
		for {
			rc, _, err := dst.Fetch(ctx, br)
			if err == nil {
				got, _ := io.ReadAll(rc)
				rc.Close()
				if !bytes.Equal(got, data) {
					t.Fatalf("%d byte blob: destination content differs from the source's", size)
				}
				break
			}
			if time.Now().After(deadline) {
				v, qerr := queue.Get(br.String())
				t.Fatalf("%d byte blob %v never delivered to the destination (pending queue row: %q, %v)", size, br, v, qerr)
			}
			time.Sleep(20 * time.Millisecond)
		}

		deadline = time.Now().Add(5 * time.Second)
		for {
			if _, err := queue.Get(br.String()); err == sorted.ErrNotFound {
				break
			}
			if time.Now().After(deadline) {
				t.Fatalf("%d byte blob delivered but still in the pending queue", size)
			}
			time.Sleep(20 * time.Millisecond)
		}
		t.Logf("%d byte blob delivered", size)
	}
}
