package search_test

import (
	"testing"

	"perkeep.org/pkg/blob"
	. "perkeep.org/pkg/search"
)

// Scrolling through permanodes sorted by modification time, when some of the
// permanodes also have a (different) creation time.
func TestMutC09Bug2_ModtimeScrollWithCreationTimes(t *testing.T) {
	testQueryTypes(t, memIndexTypes, func(qt *queryTest) {
		id := qt.id

		var pns []blob.Ref // oldest modification first
		for _, key := range []string{"a", "b", "c", "d", "e", "f"} {
			pn := id.NewPlannedPermanode(key)
			id.SetAttribute(pn, "tag", "x")
			pns = append(pns, pn)
		}
		// c was "created" long before it was last modified, and e long after
		// (e.g. an event which has not started yet).
		id.SetAttribute(pns[2], "dateCreated", "1999-01-01T00:00:00Z")
		id.SetAttribute(pns[4], "startDate", "2037-01-01T00:00:00Z")
		// Last modified first: e, c, f, d, b, a.
		want := []blob.Ref{pns[4], pns[2], pns[5], pns[3], pns[1], pns[0]}

		h := qt.Handler()
		for _, limit := range []int{1, 2, 3, 4, 5, 6, 7} {
			var got []blob.Ref
			cont := ""
			for page := 0; ; page++ {
				if page > 20 {
					t.Errorf("limit %d: scroll does not end; got so far %v", limit, got)
					break
				}
				res, err := h.Query(ctxbg, &SearchQuery{
					Constraint: &Constraint{Permanode: &PermanodeConstraint{
						Attr:  "tag",
						Value: "x",
					}},
					Sort:     LastModifiedDesc,
					Limit:    limit,
					Continue: cont,
				})
				if err != nil {
					t.Fatalf("query: %v", err)
				}
				for _, sb := range res.Blobs {
					got = append(got, sb.Blob)
				}
				cont = res.Continue
				if cont == "" {
					break
				}
			}
			ok := len(got) == len(want)
			for i := 0; ok && i < len(got); i++ {
				ok = got[i] == want[i]
			}
			if !ok {
				t.Errorf("limit %d: scrolled through\n%v\nwant\n%v", limit, got, want)
			}
		}
	})
}
