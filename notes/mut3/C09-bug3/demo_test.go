package search_test

import (
	"testing"

	"perkeep.org/pkg/blob"
	. "perkeep.org/pkg/search"
)

// A client scrolls through the same result set several times (with different
// page sizes), and then asks for a window around one result, always with the
// same Constraint value, as any Go client keeping its query around would.
func TestMutC09Bug3_RescrollSameConstraint(t *testing.T) {
	testQueryTypes(t, memIndexTypes, func(qt *queryTest) {
		id := qt.id

		var want []blob.Ref // newest first
		for _, key := range []string{"a", "b", "c", "d", "e"} {
			pn := id.NewPlannedPermanode(key)
			id.SetAttribute(pn, "tag", "x")
			want = append([]blob.Ref{pn}, want...)
		}

		h := qt.Handler()
		for _, sortType := range []SortType{CreatedDesc, LastModifiedDesc} {
			constraint := &Constraint{Permanode: &PermanodeConstraint{
				Attr:  "tag",
				Value: "x",
			}}
			for _, limit := range []int{2, 3, 1, 10} {
				var got []blob.Ref
				cont := ""
				for page := 0; ; page++ {
					if page > 20 {
						t.Fatalf("sort %v, limit %d: scroll does not end", sortType, limit)
					}
					res, err := h.Query(ctxbg, &SearchQuery{
						Constraint: constraint,
						Sort:       sortType,
						Limit:      limit,
						Continue:   cont,
					})
					if err != nil {
						t.Fatalf("query: %v", err)
					}
					for _, sb := range res.Blobs {
						got = append(got, sb.Blob)
					}
					cont = res.Continue
					if cont == "" {
						break
					}
				}
				ok := len(got) == len(want)
				for i := 0; ok && i < len(got); i++ {
					ok = got[i] == want[i]
				}
				if !ok {
					t.Errorf("sort %v, limit %d: scrolled through\n%v\nwant\n%v", sortType, limit, got, want)
				}
			}

			// The window around the newest permanode must contain it.
			res, err := h.Query(ctxbg, &SearchQuery{
				Constraint: constraint,
				Sort:       sortType,
				Limit:      3,
				Around:     want[0],
			})
			if err != nil {
				t.Fatalf("around query: %v", err)
			}
			if len(res.Blobs) != 3 || res.Blobs[0].Blob != want[0] || res.Blobs[1].Blob != want[1] || res.Blobs[2].Blob != want[2] {
				var got []blob.Ref
				for _, sb := range res.Blobs {
					got = append(got, sb.Blob)
				}
				t.Errorf("sort %v: around %v: got %v; want %v", sortType, want[0], got, want[:3])
			}
		}
	})
}
