package kvfile_test

import (
	"path/filepath"
	"reflect"
	"strings"
	"testing"

	"perkeep.org/pkg/sorted"
	"perkeep.org/pkg/sorted/kvfile"
)

// An over-sized value in the middle of a batch must be skipped on its own:
// the other sets and deletes of the batch still apply, in order.
func TestMutDemoBatchSkipsOnlyOversized(t *testing.T) {
	file := filepath.Join(t.TempDir(), "kv.db")
	kv, err := kvfile.NewStorage(file)
	if err != nil {
		t.Fatal(err)
	}
	if err := kv.Set("old", "x"); err != nil {
		t.Fatal(err)
	}
	bm := kv.BeginBatch()
	bm.Set("a", "1")
	bm.Delete("old")
	bm.Set("big", strings.Repeat("A", sorted.MaxValueSize+1))
	bm.Set("b", "2")
	bm.Set(strings.Repeat("k", sorted.MaxKeySize+1), "v")
	bm.Set("a", "3")
	if err := kv.CommitBatch(bm); err != nil {
		t.Fatalf("CommitBatch = %v; want nil (oversized entries are silently skipped)", err)
	}
	contents := func(kv sorted.KeyValue) []string {
		var got []string
		if err := sorted.Foreach(kv, func(k, v string) error {
			got = append(got, k+"="+v)
			return nil
		}); err != nil {
			t.Fatal(err)
		}
		return got
	}
	want := []string{"a=3", "b=2"}
	if got := contents(kv); !reflect.DeepEqual(got, want) {
		t.Errorf("after batch, contents = %q; want %q", got, want)
	}
	// The store must remain usable and durable afterwards.
	if err := kv.Set("c", "4"); err != nil {
		t.Fatal(err)
	}
	if err := kv.Close(); err != nil {
		t.Fatal(err)
	}
	kv, err = kvfile.NewStorage(file)
	if err != nil {
		t.Fatal(err)
	}
	defer kv.Close()
	want = []string{"a=3", "b=2", "c=4"}
	if got := contents(kv); !reflect.DeepEqual(got, want) {
		t.Errorf("after reopen, contents = %q; want %q", got, want)
	}
}
