package blobpacked

import (
	"bytes"
	"context"
	"errors"
	"io"
	"log"
	"math/rand"
	"os"
	"testing"

	"perkeep.org/pkg/blob"
	"perkeep.org/pkg/blobserver"
	"perkeep.org/pkg/schema"
	"perkeep.org/pkg/sorted"
	"perkeep.org/pkg/test"
)

// mut3CrashingLarge is a "large" store that stops accepting writes from its
// failAt-th zip on (1-based): the process "crashes" right before that zip is
// stored.
type mut3CrashingLarge struct {
	*test.Fetcher
	failAt int
	writes int
}

var errMut3Crash = errors.New("mut3: simulated crash before storing the zip")

func (l *mut3CrashingLarge) ReceiveBlob(ctx context.Context, br blob.Ref, r io.Reader) (blob.SizedRef, error) {
	l.writes++
	if l.failAt > 0 && l.writes >= l.failAt {
		return blob.SizedRef{}, errMut3Crash
	}
	return l.Fetcher.ReceiveBlob(ctx, br, r)
}

// TestMut3CrashBetweenZipsKeepsAllBlobs packs a file that needs many zips,
// interrupts the pack before the k-th zip is stored (for each k), "restarts"
// the store on the same small/large/meta, and checks that every logical blob
// that was acknowledged is still fetched and stat-ed with identical bytes.
func TestMut3CrashBetweenZipsKeepsAllBlobs(t *testing.T) {
	ctx := context.Background()
	log.SetOutput(io.Discard) // checkLargeIntegrity is chatty
	defer log.SetOutput(os.Stderr)
	const fileSize = 5 << 20
	const zipMax = 400 << 10
	data := make([]byte, fileSize)
	rand.New(rand.NewSource(11)).Read(data)

	// The logical baseline.
	logical := new(test.Fetcher)
	fileRef, err := schema.WriteFileFromReader(ctx, logical, "mut3-multi.dat", bytes.NewReader(data))
	if err != nil {
		t.Fatal(err)
	}
	want := map[blob.Ref][]byte{}
	if err := blobserver.EnumerateAll(ctx, logical, func(sb blob.SizedRef) error {
		rc, _, err := logical.Fetch(ctx, sb.Ref)
		if err != nil {
			return err
		}
		defer rc.Close()
		b, err := io.ReadAll(rc)
		want[sb.Ref] = b
		return err
	}); err != nil {
		t.Fatal(err)
	}

	// How many zips does an uninterrupted pack make?
	totalZips := 0
	{
		large := new(test.Fetcher)
		s := &storage{small: new(test.Fetcher), large: large, meta: sorted.NewMemoryKeyValue(), log: log.New(io.Discard, "", 0), forceMaxZipBlobSize: zipMax}
		s.init()
		if _, err := schema.WriteFileFromReader(ctx, s, "mut3-multi.dat", bytes.NewReader(data)); err != nil {
			t.Fatal(err)
		}
		totalZips = large.NumBlobs()
		t.Logf("file %v: %d logical blobs, packed in %d zips", fileRef, len(want), totalZips)
		if totalZips < 3 {
			t.Fatalf("want a multi-zip file; got %d zips", totalZips)
		}
	}

	for failAt := 2; failAt <= totalZips; failAt++ {
		small := new(test.Fetcher)
		large := &mut3CrashingLarge{Fetcher: new(test.Fetcher), failAt: failAt}
		meta := sorted.NewMemoryKeyValue()
		s := &storage{small: small, large: large, meta: meta, log: log.New(io.Discard, "", 0), forceMaxZipBlobSize: zipMax}
		s.init()
		// All uploads are acknowledged: a failing pack is not reported to
		// the client, the blobs are supposed to be safe already.
		if _, err := schema.WriteFileFromReader(ctx, s, "mut3-multi.dat", bytes.NewReader(data)); err != nil {
			t.Fatalf("failAt %d: upload: %v", failAt, err)
		}
		if got := large.NumBlobs(); got != failAt-1 {
			t.Fatalf("failAt %d: %d zips stored; want %d", failAt, got, failAt-1)
		}

		// "Restart": a new storage on the same three components. The
		// meta index is consistent with large (every stored zip was
		// indexed), so no recovery is needed.
		large.failAt = 0
		s2 := &storage{small: small, large: large, meta: meta, log: log.New(io.Discard, "", 0), forceMaxZipBlobSize: zipMax}
		s2.init()
		if mode, err := s2.checkLargeIntegrity(); err != nil || mode != NoRecovery {
			t.Fatalf("failAt %d: checkLargeIntegrity = %v, %v", failAt, mode, err)
		}

		lost := 0
		for br, wantBytes := range want {
			rc, size, err := s2.Fetch(ctx, br)
			if err != nil {
				lost++
				typ := "data chunk"
				if b, berr := schema.BlobFromReader(br, bytes.NewReader(wantBytes)); berr == nil {
					typ = "schema blob of type " + string(b.Type())
				}
				if lost <= 2 {
					t.Errorf("failAt %d: acknowledged blob %v (%s) can't be fetched after the interrupted pack: %v", failAt, br, typ, err)
				}
				continue
			}
			got, err := io.ReadAll(rc)
			rc.Close()
			if err != nil {
				t.Errorf("failAt %d: reading %v: %v", failAt, br, err)
				continue
			}
			if int(size) != len(wantBytes) || !bytes.Equal(got, wantBytes) {
				t.Errorf("failAt %d: blob %v differs after the interrupted pack (size %d, want %d)", failAt, br, size, len(wantBytes))
			}
			if sb, err := blobserver.StatBlob(ctx, s2, br); err != nil || int(sb.Size) != len(wantBytes) {
				t.Errorf("failAt %d: stat of %v = %v, %v", failAt, br, sb, err)
			}
		}
		if lost > 0 {
			t.Errorf("failAt %d: %d of %d acknowledged blobs lost", failAt, lost, len(want))
		}

		// And the file is still readable as a whole through its schema.
		fr, err := schema.NewFileReader(ctx, s2, fileRef)
		if err != nil {
			t.Errorf("failAt %d: NewFileReader: %v", failAt, err)
			continue
		}
		got, err := io.ReadAll(fr)
		if err != nil || !bytes.Equal(got, data) {
			t.Errorf("failAt %d: file contents differ after the interrupted pack (err=%v)", failAt, err)
		}
	}
}
