package server

import (
	"context"
	"fmt"
	"strings"
	"testing"
	"time"

	"go4.org/jsonconfig"
	"perkeep.org/pkg/blob"
	"perkeep.org/pkg/blobserver"
	"perkeep.org/pkg/test"
)

// TestM3C19B3SingleCopier configures a sync handler with "copierPoolSize": 1
// (copies to the destination are serialized), as well as one with the default
// pool size, and checks that blobs uploaded to the source get to the
// destination in both cases.
func TestM3C19B3SingleCopier(t *testing.T) {
	for _, poolSize := range []int{0, 2, 1} { // 0: not configured (default)
		src := new(test.Fetcher)
		dst := new(test.Fetcher)
		ld := test.NewLoader()
		ld.SetStorage("/src/", src)
		ld.SetStorage("/dst/", dst)
		conf := jsonconfig.Obj{
			"from":  "/src/",
			"to":    "/dst/",
			"queue": map[string]any{"type": "memory"},
		}
		if poolSize != 0 {
			conf["copierPoolSize"] = float64(poolSize) // as decoded from JSON
		}
		h, err := newSyncFromConfig(ld, conf)
		if err != nil {
			t.Fatal(err)
		}
		sh := h.(*SyncHandler)

		ctx := context.Background()
		const nBlobs = 3
		for i := range nBlobs {
			contents := fmt.Sprintf("m3c19b3 pool=%d blob %d", poolSize, i)
			if _, err := blobserver.Receive(ctx, src, blob.RefFromString(contents), strings.NewReader(contents)); err != nil {
				t.Fatalf("upload: %v", err)
			}
		}

		deadline := time.Now().Add(3*queueSyncInterval + 2*time.Second)
		for dst.NumBlobs() != nBlobs {
			if time.Now().After(deadline) {
				st := sh.currentStatus()
				t.Fatalf("copierPoolSize=%d: %d of %d blobs delivered after %v; %d blobs still to copy",
					poolSize, dst.NumBlobs(), nBlobs, 3*queueSyncInterval+2*time.Second, st.BlobsToCopy)
			}
			time.Sleep(20 * time.Millisecond)
		}
		for i := range nBlobs {
			contents := fmt.Sprintf("m3c19b3 pool=%d blob %d", poolSize, i)
			if got, ok := dst.BlobContents(blob.RefFromString(contents)); !ok || got != contents {
				t.Fatalf("copierPoolSize=%d: destination has %q, %v for blob %d", poolSize, got, ok, i)
			}
		}
		t.Logf("copierPoolSize=%d: all %d blobs delivered", poolSize, nBlobs)
	}
}
