package serverinit_test

import (
	"bytes"
	"context"
	"encoding/json"
	"io"
	"log"
	"net/http"
	"net/http/httptest"
	"os"
	"path/filepath"
	"testing"

	"perkeep.org/internal/osutil"
	"perkeep.org/pkg/auth"
	"perkeep.org/pkg/blob"
	"perkeep.org/pkg/client"
	"perkeep.org/pkg/constants"
	"perkeep.org/pkg/serverinit"

	_ "perkeep.org/pkg/blobserver/blobpacked"
	_ "perkeep.org/pkg/blobserver/cond"
	_ "perkeep.org/pkg/blobserver/diskpacked"
	_ "perkeep.org/pkg/blobserver/localdisk"
	_ "perkeep.org/pkg/blobserver/memory"
	_ "perkeep.org/pkg/blobserver/replica"
	_ "perkeep.org/pkg/search"
	_ "perkeep.org/pkg/server"
)

// mutC18B3World starts an in-process perkeepd from a high-level configuration
// (memory index; storage selected by kind) and returns its base URL.
func mutC18B3World(t *testing.T, kind string) string {
	t.Helper()
	srcRoot, err := osutil.PkSourceRoot()
	if err != nil {
		t.Fatalf("source root folder not found: %v", err)
	}
	t.Setenv("CAMLI_CONFIG_DIR", "whatever")
	hi := map[string]any{
		"auth":               "none",
		"https":              false,
		"identity":           "26F5ABDA",
		"identitySecretRing": filepath.Join(srcRoot, filepath.FromSlash("pkg/jsonsign/testdata/test-secring.gpg")),
		"memoryIndex":        true,
	}
	dir := t.TempDir()
	for _, sub := range []string{"", "packed", "cache"} {
		if err := os.MkdirAll(filepath.Join(dir, sub), 0700); err != nil {
			t.Fatal(err)
		}
	}
	switch kind {
	case "memory":
		hi["memoryStorage"] = true
	case "localdisk":
		hi["blobPath"] = dir
	case "diskpacked":
		hi["blobPath"] = dir
		hi["packBlobs"] = true
	case "blobpacked":
		hi["blobPath"] = dir
		hi["packRelated"] = true
	default:
		t.Fatalf("unknown world kind %q", kind)
	}
	mux := http.NewServeMux()
	srv := httptest.NewUnstartedServer(mux)
	baseURL := "http://" + srv.Listener.Addr().String()
	hi["listen"] = srv.Listener.Addr().String()
	hi["baseURL"] = baseURL
	confData, err := json.Marshal(hi)
	if err != nil {
		t.Fatal(err)
	}
	conf, err := serverinit.Load(confData)
	if err != nil {
		t.Fatalf("Load(%s): %v", kind, err)
	}
	shutdown, err := conf.InstallHandlers(mux, baseURL)
	if err != nil {
		t.Fatalf("InstallHandlers(%s): %v", kind, err)
	}
	auth.SetMode(auth.None{})
	srv.Start()
	t.Cleanup(func() {
		srv.Close()
		shutdown.Close()
	})
	return baseURL
}

// mutC18B3Data returns n deterministic, incompressible-looking bytes.
func mutC18B3Data(n int, seed byte) []byte {
	b := make([]byte, n)
	x := uint32(seed) + 1
	for i := range b {
		x = x*1664525 + 1013904223
		b[i] = byte(x >> 24)
	}
	return b
}

// TestMutC18Bug3MaxSizeBlob checks that blobs of the maximum legal size
// (constants.MaxBlobSize, 16 MiB) and just below it can be uploaded with the
// multipart batch upload (pkg/client) as well as with PUT, and can then be
// stat'ed and fetched back byte for byte.
func TestMutC18Bug3MaxSizeBlob(t *testing.T) {
	log.SetOutput(io.Discard)
	defer log.SetOutput(os.Stderr)
	ctx := context.Background()
	for _, kind := range []string{"memory", "diskpacked"} {
		t.Run(kind, func(t *testing.T) {
			base := mutC18B3World(t, kind)
			blobRoot := base + "/bs-and-maybe-also-index"
			cl, err := client.New(client.OptionServer(blobRoot), client.OptionNoExternalConfig())
			if err != nil {
				t.Fatal(err)
			}
			cl.Logger.SetOutput(io.Discard)

			check := func(name string, data []byte) {
				t.Helper()
				br := blob.RefFromBytes(data)
				sb, err := mutC18B3Stat(ctx, cl, br)
				if err != nil || int(sb.Size) != len(data) {
					t.Errorf("%s: stat = %v, %v; want size %d", name, sb, err, len(data))
					return
				}
				rc, size, err := cl.Fetch(ctx, br)
				if err != nil {
					t.Errorf("%s: fetch: %v", name, err)
					return
				}
				defer rc.Close()
				got, err := io.ReadAll(rc)
				if err != nil || int(size) != len(data) || !bytes.Equal(got, data) {
					t.Errorf("%s: fetched %d bytes (declared %d), err %v; want the %d bytes uploaded", name, len(got), size, err, len(data))
				}
			}

			// Multipart batch upload, through pkg/client.
			for i, n := range []int{constants.MaxBlobSize - 1, constants.MaxBlobSize} {
				data := mutC18B3Data(n, byte(i))
				name := "multipart upload of " + mutC18B3SizeName(n)
				pr, err := cl.Upload(ctx, &client.UploadHandle{
					BlobRef:  blob.RefFromBytes(data),
					Size:     uint32(len(data)),
					Contents: bytes.NewReader(data),
					SkipStat: true,
				})
				if err != nil {
					t.Errorf("%s: %v", name, err)
				} else if int(pr.Size) != n {
					t.Errorf("%s: PutResult size %d", name, pr.Size)
				}
				check(name, data)
			}

			// PUT upload, raw protocol.
			for i, n := range []int{constants.MaxBlobSize - 1, constants.MaxBlobSize} {
				data := mutC18B3Data(n, byte(10+i))
				name := "PUT upload of " + mutC18B3SizeName(n)
				req, _ := http.NewRequest("PUT", blobRoot+"/camli/"+blob.RefFromBytes(data).String(), bytes.NewReader(data))
				res, err := http.DefaultClient.Do(req)
				if err != nil {
					t.Fatal(err)
				}
				res.Body.Close()
				if res.StatusCode/100 != 2 {
					t.Errorf("%s: HTTP status %d", name, res.StatusCode)
				}
				check(name, data)
			}
		})
	}
}

func mutC18B3SizeName(n int) string {
	if n == constants.MaxBlobSize {
		return "MaxBlobSize bytes"
	}
	return "MaxBlobSize-1 bytes"
}

func mutC18B3Stat(ctx context.Context, cl *client.Client, br blob.Ref) (sb blob.SizedRef, err error) {
	err = cl.StatBlobs(ctx, []blob.Ref{br}, func(got blob.SizedRef) error {
		sb = got
		return nil
	})
	if err == nil && !sb.Ref.Valid() {
		err = os.ErrNotExist
	}
	return
}
