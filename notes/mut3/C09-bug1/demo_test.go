package search_test

import (
	"testing"
	"time"

	"perkeep.org/pkg/blob"
	"perkeep.org/pkg/index"
	"perkeep.org/pkg/index/indextest"
	. "perkeep.org/pkg/search"
)

// A permanode's creation time is the time of its camliContent file, if that
// file is known. When the file is indexed only after the permanode (and after
// a first search), the permanode moves in the created-sorted list, and paging
// must follow.
func TestMutC09Bug1_LateFileInfoPaging(t *testing.T) {
	testQueryTypes(t, []indexType{indexCorpusBuild}, func(qt *queryTest) {
		id := qt.id

		// Learn the ref of the (not yet uploaded) file in a scratch index.
		const fileName, contents = "old-photo.txt", "some old contents"
		fileTime := time.Unix(915148800, 0) // 1999-01-01
		scratch := indextest.NewIndexDeps(index.NewMemoryIndex())
		scratch.Fataler = t
		fileRef, _ := scratch.UploadFile(fileName, contents, fileTime)

		a := id.NewPlannedPermanode("a")
		id.SetAttribute(a, "tag", "x")
		b := id.NewPlannedPermanode("b")
		id.SetAttribute(b, "tag", "x")
		p := id.NewPlannedPermanode("p")
		id.SetAttribute(p, "camliContent", fileRef.String())

		h := qt.Handler()
		scroll := func(limit int) []blob.Ref {
			var got []blob.Ref
			cont := ""
			for page := 0; page < 20; page++ {
				res, err := h.Query(ctxbg, &SearchQuery{
					Constraint: &Constraint{Permanode: &PermanodeConstraint{}},
					Sort:       CreatedDesc,
					Limit:      limit,
					Continue:   cont,
				})
				if err != nil {
					t.Fatalf("query: %v", err)
				}
				for _, sb := range res.Blobs {
					got = append(got, sb.Blob)
				}
				cont = res.Continue
				if cont == "" {
					return got
				}
			}
			t.Fatalf("scroll with limit %d does not end", limit)
			return nil
		}
		check := func(when string, want ...blob.Ref) {
			for _, limit := range []int{1, 2, 3, 10} {
				got := scroll(limit)
				if len(got) != len(want) {
					t.Errorf("%s, limit %d: got %v; want %v", when, limit, got, want)
					continue
				}
				for i := range got {
					if got[i] != want[i] {
						t.Errorf("%s, limit %d: got %v; want %v", when, limit, got, want)
						break
					}
				}
			}
		}

		// The file is unknown: p is the most recent (by its claim date).
		check("before file upload", p, b, a)

		// Now the file arrives, with its 1999 modtime: p becomes the oldest.
		gotRef, _ := id.UploadFile(fileName, contents, fileTime)
		if gotRef != fileRef {
			t.Fatalf("file ref = %v; want %v", gotRef, fileRef)
		}
		check("after file upload", b, a, p)
	})
}
