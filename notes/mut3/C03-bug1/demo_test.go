package files_test

import (
	"context"
	"errors"
	"io"
	"strings"
	"testing"

	"perkeep.org/pkg/blob"
	"perkeep.org/pkg/blobserver"
	"perkeep.org/pkg/blobserver/files"
	"perkeep.org/pkg/test"
)

// crashVFS is the host filesystem, except that, once armed, the process "dies"
// in the middle of the next Write to a temp file: half of the data reaches the
// disk, and from then on no VFS call has any effect (in particular the
// cleanup of the temp file never happens).
type crashVFS struct {
	files.VFS
	armed   bool
	crashed bool
}

var errCrashed = errors.New("process is dead")

func (v *crashVFS) Remove(p string) error {
	if v.crashed {
		return errCrashed
	}
	return v.VFS.Remove(p)
}

func (v *crashVFS) Rename(o, n string) error {
	if v.crashed {
		return errCrashed
	}
	return v.VFS.Rename(o, n)
}

func (v *crashVFS) TempFile(dir, prefix string) (files.WritableFile, error) {
	if v.crashed {
		return nil, errCrashed
	}
	f, err := v.VFS.TempFile(dir, prefix)
	if err != nil {
		return nil, err
	}
	return &crashFile{WritableFile: f, v: v}, nil
}

type crashFile struct {
	files.WritableFile
	v *crashVFS
}

func (f *crashFile) Write(p []byte) (int, error) {
	if f.v.crashed {
		return 0, errCrashed
	}
	if !f.v.armed {
		return f.WritableFile.Write(p)
	}
	n, _ := f.WritableFile.Write(p[:len(p)/2])
	f.WritableFile.Sync()
	f.v.crashed = true
	return n, errCrashed
}

func enumAll(t *testing.T, sto blobserver.BlobEnumerator) []blob.SizedRef {
	t.Helper()
	var got []blob.SizedRef
	ch := make(chan blob.SizedRef)
	errc := make(chan error, 1)
	go func() { errc <- sto.EnumerateBlobs(context.Background(), ch, "", 1000) }()
	for sb := range ch {
		got = append(got, sb)
	}
	if err := <-errc; err != nil {
		t.Fatalf("EnumerateBlobs: %v", err)
	}
	return got
}

// TestMutCrashMidReceiveNotEnumerated: a crash in the middle of a receive
// (temp file created and half written, never renamed) must not make the
// torn blob show up in an enumeration after the restart.
func TestMutCrashMidReceiveNotEnumerated(t *testing.T) {
	ctx := context.Background()
	root := t.TempDir()

	acked := &test.Blob{Contents: "an acknowledged blob"}
	torn := &test.Blob{Contents: strings.Repeat("this blob is torn by the crash. ", 8)}

	vfs := &crashVFS{VFS: files.OSFS()}
	sto := files.NewStorage(vfs, root)
	if _, err := sto.ReceiveBlob(ctx, acked.BlobRef(), acked.Reader()); err != nil {
		t.Fatalf("receive of the first blob: %v", err)
	}
	vfs.armed = true
	if _, err := sto.ReceiveBlob(ctx, torn.BlobRef(), torn.Reader()); err == nil {
		t.Fatalf("the receive interrupted by the crash was acknowledged")
	}

	// Restart on the same directory.
	sto = files.NewStorage(files.OSFS(), root)

	got := enumAll(t, sto)
	if len(got) != 1 || got[0] != acked.SizedRef() {
		t.Errorf("after the crash, enumerate = %v; want only %v", got, acked.SizedRef())
	}
	for _, sb := range got {
		rc, size, err := sto.Fetch(ctx, sb.Ref)
		if err != nil {
			t.Errorf("enumerated blob %v cannot be fetched: %v", sb, err)
			continue
		}
		data, _ := io.ReadAll(rc)
		rc.Close()
		h := sb.Ref.Hash()
		h.Write(data)
		if size != sb.Size || !sb.Ref.HashMatches(h) {
			t.Errorf("enumerated blob %v: fetched %d bytes that do not match", sb, len(data))
		}
	}

	// The client retries the upload that was never acknowledged; now the
	// blob must be listed exactly once, with its full size.
	if _, err := sto.ReceiveBlob(ctx, torn.BlobRef(), torn.Reader()); err != nil {
		t.Fatalf("retry of the interrupted receive: %v", err)
	}
	got = enumAll(t, sto)
	seen := map[blob.Ref]int{}
	for _, sb := range got {
		seen[sb.Ref]++
		if sb.Ref == torn.BlobRef() && sb.Size != torn.Size() {
			t.Errorf("after the retry, %v is enumerated with size %d; want %d", sb.Ref, sb.Size, torn.Size())
		}
	}
	if len(got) != 2 || seen[acked.BlobRef()] != 1 || seen[torn.BlobRef()] != 1 {
		t.Errorf("after the retry, enumerate = %v; want exactly %v and %v", got, acked.SizedRef(), torn.SizedRef())
	}
}
