package memory_test

import (
	"bytes"
	"context"
	"io"
	"testing"

	"perkeep.org/pkg/blob"
	"perkeep.org/pkg/blobserver/memory"
)

// TestMutC01Bug3SubFetchBoundaries compares every ranged fetch around the
// edges of a few small blobs (including the empty blob) with what slicing
// the blob's bytes gives: an offset up to and including the blob's size is
// valid (the range at offset == size is empty), anything beyond is an error.
func TestMutC01Bug3SubFetchBoundaries(t *testing.T) {
	ctx := context.Background()
	sto := &memory.Storage{}

	for _, data := range []string{"", "x", "hello", "Some big blob"} {
		br := blob.RefFromString(data)
		if _, err := sto.ReceiveBlob(ctx, br, bytes.NewReader([]byte(data))); err != nil {
			t.Fatal(err)
		}
		size := int64(len(data))
		for offset := int64(0); offset <= size+2; offset++ {
			for _, length := range []int64{0, 1, size, size + 5} {
				rc, err := sto.SubFetch(ctx, br, offset, length)
				if offset > size {
					if err == nil {
						rc.Close()
						t.Errorf("blob %q: SubFetch(off=%d, len=%d) succeeded; want an error", data, offset, length)
					}
					continue
				}
				if err != nil {
					t.Errorf("blob %q (size %d): SubFetch(off=%d, len=%d) = %v; want %q", data, size, offset, length, err, want(data, offset, length))
					continue
				}
				got, err := io.ReadAll(rc)
				rc.Close()
				if err != nil {
					t.Errorf("blob %q: reading SubFetch(off=%d, len=%d): %v", data, offset, length, err)
					continue
				}
				if string(got) != want(data, offset, length) {
					t.Errorf("blob %q: SubFetch(off=%d, len=%d) = %q; want %q", data, offset, length, got, want(data, offset, length))
				}
			}
		}
	}
}

func want(data string, offset, length int64) string {
	end := offset + length
	if end > int64(len(data)) {
		end = int64(len(data))
	}
	return data[offset:end]
}
