package blobpacked

import (
	"bytes"
	"io"
	"math/rand"
	"net/http"
	"net/http/httptest"
	"strings"
	"testing"

	"perkeep.org/pkg/blob"
	"perkeep.org/pkg/blobserver/handlers"
	"perkeep.org/pkg/schema"
	"perkeep.org/pkg/sorted"
	"perkeep.org/pkg/test"
)

// TestMutPackedFileWithRepeatedChunk uploads, over HTTP (PUT), a file whose
// content repeats a chunk (parts A, A, B), which gets packed into a zip, and
// then GETs every blob back: what was uploaded must come back byte-for-byte.
func TestMutPackedFileWithRepeatedChunk(t *testing.T) {
	small, large := new(test.Fetcher), new(test.Fetcher)
	sto := &storage{
		small: small,
		large: large,
		meta:  sorted.NewMemoryKeyValue(),
		log:   test.NewLogger(t, "blobpacked: "),
	}
	sto.init()

	mux := http.NewServeMux()
	mux.HandleFunc("/camli/", func(rw http.ResponseWriter, req *http.Request) {
		switch req.Method {
		case "PUT":
			handlers.CreatePutUploadHandler(sto).ServeHTTP(rw, req)
		default:
			handlers.CreateGetHandler(sto).ServeHTTP(rw, req)
		}
	})
	ts := httptest.NewServer(mux)
	defer ts.Close()

	put := func(br blob.Ref, data []byte) {
		t.Helper()
		req, err := http.NewRequest("PUT", ts.URL+"/camli/"+br.String(), bytes.NewReader(data))
		if err != nil {
			t.Fatal(err)
		}
		res, err := http.DefaultClient.Do(req)
		if err != nil {
			t.Fatal(err)
		}
		res.Body.Close()
		if res.StatusCode/100 != 2 {
			t.Fatalf("PUT %v: %v", br, res.Status)
		}
	}
	get := func(br blob.Ref) []byte {
		t.Helper()
		res, err := http.Get(ts.URL + "/camli/" + br.String())
		if err != nil {
			t.Fatal(err)
		}
		defer res.Body.Close()
		if res.StatusCode != 200 {
			t.Fatalf("GET %v: %v", br, res.Status)
		}
		data, err := io.ReadAll(res.Body)
		if err != nil {
			t.Fatalf("GET %v: %v", br, err)
		}
		return data
	}

	const chunkSize = 256 << 10
	rnd := rand.New(rand.NewSource(18))
	chunkA := make([]byte, chunkSize)
	chunkB := make([]byte, chunkSize)
	rnd.Read(chunkA)
	rnd.Read(chunkB)
	refA, refB := blob.RefFromBytes(chunkA), blob.RefFromBytes(chunkB)

	// The file is A A B: 768 KiB, over the 512 KiB pack threshold.
	fm := schema.NewFileMap("repeated.dat")
	if err := fm.PopulateParts(3*chunkSize, []schema.BytesPart{
		{Size: chunkSize, BlobRef: refA},
		{Size: chunkSize, BlobRef: refA},
		{Size: chunkSize, BlobRef: refB},
	}); err != nil {
		t.Fatal(err)
	}
	fileJSON, err := fm.JSON()
	if err != nil {
		t.Fatal(err)
	}
	fileRef := blob.RefFromString(fileJSON)

	put(refA, chunkA)
	put(refB, chunkB)
	put(fileRef, []byte(fileJSON)) // triggers the packing

	if large.NumBlobs() != 1 || small.NumBlobs() != 0 {
		t.Fatalf("file was not packed: %d large, %d small blobs", large.NumBlobs(), small.NumBlobs())
	}

	for _, tt := range []struct {
		name string
		br   blob.Ref
		want []byte
	}{
		{"chunk A", refA, chunkA},
		{"chunk B", refB, chunkB},
		{"file schema", fileRef, []byte(fileJSON)},
	} {
		got := get(tt.br)
		if len(got) != len(tt.want) {
			t.Errorf("%s (%v): GET returned %d bytes; uploaded %d", tt.name, tt.br, len(got), len(tt.want))
			continue
		}
		if !bytes.Equal(got, tt.want) {
			what := "other bytes"
			if bytes.Equal(got, chunkA) {
				what = "the bytes of chunk A"
			}
			t.Errorf("%s (%v): GET returned %s, not what was uploaded (digest of the body: %v)", tt.name, tt.br, what, blob.RefFromBytes(got))
		}
	}

	// And the whole file read back through the storage.
	fr, err := schema.NewFileReader(ctxbg, sto, fileRef)
	if err != nil {
		t.Fatal(err)
	}
	defer fr.Close()
	whole, err := io.ReadAll(fr)
	if err != nil {
		t.Fatal(err)
	}
	if want := strings.Join([]string{string(chunkA), string(chunkA), string(chunkB)}, ""); string(whole) != want {
		t.Errorf("file contents read back differ from A+A+B")
	}
}
