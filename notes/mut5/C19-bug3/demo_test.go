package server

import (
	"context"
	"fmt"
	"sync"
	"testing"
	"time"

	"perkeep.org/pkg/blob"
	"perkeep.org/pkg/blobserver"
	"perkeep.org/pkg/blobserver/memory"
	"perkeep.org/pkg/sorted"
)

// mutC19b3Src is a source store. It is a comparable *value* type with a
// large body, so that looking it up in the blob hub registry (a map keyed
// by the storage) takes a millisecond or so rather than nanoseconds: that
// makes the two concurrent first lookups of the test below overlap
// reliably instead of once in many thousand runs. The race itself does not
// depend on it.
type mutC19b3Src struct {
	*memory.Storage
	pad [2 << 20]byte
}

// A sync handler is attached to a source (NewSyncHandler, as the importers,
// tests and embedders of the package do) at the very moment the source
// receives its first blob ever. Whatever happens to that first blob, every
// blob uploaded to the source afterwards, once the handler exists, must reach the
// destination.
func TestMutC19Bug3HandlerAttachedWhileFirstUpload(t *testing.T) {
	ctx := context.Background()
	const rounds = 60
	for round := 0; round < rounds; round++ {
		// Converted to the interface once, so that the two goroutines
		// below do not start by copying the value.
		var src blobserver.Storage = mutC19b3Src{Storage: &memory.Storage{}}
		dst := &memory.Storage{}
		q := sorted.NewMemoryKeyValue()

		start := make(chan struct{})
		var wg sync.WaitGroup
		wg.Add(2)
		go func() {
			defer wg.Done()
			<-start
			NewSyncHandler("src", "dst", src, dst, q)
		}()
		go func() {
			defer wg.Done()
			<-start
			if _, err := blobserver.ReceiveString(ctx, src, fmt.Sprintf("C19 bug3 first blob of round %d", round)); err != nil {
				t.Error(err)
			}
		}()
		close(start)
		wg.Wait()

		// The handler exists and the first upload is over. Upload more.
		var want []blob.SizedRef
		for i := 0; i < 3; i++ {
			sb, err := blobserver.ReceiveString(ctx, src, fmt.Sprintf("C19 bug3 later blob %d of round %d", i, round))
			if err != nil {
				t.Fatal(err)
			}
			want = append(want, sb)
			// The receive hook is synchronous: once the upload has
			// returned, the blob is in the persistent queue, unless it
			// has already been delivered (the row is deleted after the
			// destination acknowledged).
			if _, qerr := q.Get(sb.Ref.String()); qerr != nil {
				if _, ok := dst.BlobContents(sb.Ref); !ok {
					t.Fatalf("round %d: blob %v, uploaded to the source after the sync handler was attached, is neither in the persistent queue (%v) nor at the destination: the handler never heard of it",
						round, sb.Ref, qerr)
				}
			}
		}

		// The copy loop polls every 5s (queueSyncInterval) when it misses a wake-up.
		deadline := time.Now().Add(12 * time.Second)
		for _, sb := range want {
			for {
				if got, ok := dst.BlobContents(sb.Ref); ok {
					if blob.RefFromString(got) != sb.Ref {
						t.Fatalf("round %d: %v differs at the destination", round, sb.Ref)
					}
					break
				}
				if time.Now().After(deadline) {
					_, qerr := q.Get(sb.Ref.String())
					t.Fatalf("round %d: blob %v, uploaded to the source after the sync handler was attached, was not delivered within 12s; in the persistent queue: %v (queue.Get error: %v)",
						round, sb.Ref, qerr == nil, qerr)
				}
				time.Sleep(5 * time.Millisecond)
			}
		}
	}
}

// Attaching the handler and uploading one after the other (what any
// sequential test does) works with and without the patch.
func TestMutC19Bug3ControlSequential(t *testing.T) {
	ctx := context.Background()
	var src blobserver.Storage = mutC19b3Src{Storage: &memory.Storage{}}
	dst := &memory.Storage{}
	q := sorted.NewMemoryKeyValue()
	NewSyncHandler("src", "dst", src, dst, q)
	sb, err := blobserver.ReceiveString(ctx, src, "C19 bug3 control blob")
	if err != nil {
		t.Fatal(err)
	}
	deadline := time.Now().Add(12 * time.Second)
	for {
		if _, ok := dst.BlobContents(sb.Ref); ok {
			return
		}
		if time.Now().After(deadline) {
			t.Fatalf("blob %v not delivered within 12s", sb.Ref)
		}
		time.Sleep(5 * time.Millisecond)
	}
}
