package blobpacked

// Demonstration for MUT/bug3: a pack is interrupted right before its last
// write (the final "w:<wholeref>" row). After the restart the file's schema
// blob and one of its chunks are removed, and uploaded again: the upload of
// the schema blob resumes the pack. Every acknowledged blob must still be
// fetched, stat-ed and enumerated exactly once afterwards.

import (
	"bytes"
	"errors"
	"io"
	"strings"
	"testing"

	"perkeep.org/pkg/blob"
	"perkeep.org/pkg/blobserver"
	"perkeep.org/pkg/schema"
	"perkeep.org/pkg/sorted"
	"perkeep.org/pkg/test"
)

// mut5CrashAtFinalRow is a meta index which fails the last write of a pack:
// the "w:<wholeref>" row is the only row written with a plain Set (everything
// else goes through batches).
type mut5CrashAtFinalRow struct {
	sorted.KeyValue
	crashed *bool
}

func (kv mut5CrashAtFinalRow) Set(key, value string) error {
	if strings.HasPrefix(key, wholeMetaPrefix) {
		*kv.crashed = true
		return errors.New("simulated crash before the final whole-file row")
	}
	return kv.KeyValue.Set(key, value)
}

func TestMut5C04Bug3RemoveAndReuploadAfterInterruptedPack(t *testing.T) {
	const fileSize = 1 << 20
	contents := randBytesSrc(fileSize, 31337)

	// The logical blobs of the file.
	logical := new(test.Fetcher)
	fileRef, err := schema.WriteFileFromReader(ctxbg, logical, "resume.dat", bytes.NewReader(contents))
	if err != nil {
		t.Fatal(err)
	}
	var all []blob.SizedRef
	var chunkRef blob.Ref // some data chunk of the file
	if err := blobserver.EnumerateAll(ctxbg, logical, func(sb blob.SizedRef) error {
		all = append(all, sb)
		if sb.Ref != fileRef && !chunkRef.Valid() {
			chunkRef = sb.Ref
		}
		return nil
	}); err != nil {
		t.Fatal(err)
	}
	bytesOf := func(br blob.Ref) []byte {
		rc, _, err := logical.Fetch(ctxbg, br)
		if err != nil {
			t.Fatal(err)
		}
		defer rc.Close()
		b, err := io.ReadAll(rc)
		if err != nil {
			t.Fatal(err)
		}
		return b
	}

	small, large := new(test.Fetcher), new(test.Fetcher)
	kv := sorted.NewMemoryKeyValue()
	newSto := func(meta sorted.KeyValue) *storage {
		s := &storage{
			small: small,
			large: large,
			meta:  meta,
			log:   test.NewLogger(t, "blobpacked: "),
		}
		s.init()
		return s
	}

	// First incarnation: the pack is interrupted right before its final row.
	crashed := false
	sto := newSto(mut5CrashAtFinalRow{kv, &crashed})
	if _, err := schema.WriteFileFromReader(ctxbg, sto, "resume.dat", bytes.NewReader(contents)); err != nil {
		t.Fatal(err)
	}
	if !crashed {
		t.Fatal("the pack didn't reach its final row")
	}
	if large.NumBlobs() != 1 || small.NumBlobs() != 0 {
		t.Fatalf("crash state: %d zips, %d loose blobs; want 1, 0", large.NumBlobs(), small.NumBlobs())
	}

	// Second incarnation (restart without recovery), on the same three stores.
	sto = newSto(kv)

	audit := func(when string) {
		t.Helper()
		seen := map[blob.Ref]int{}
		if err := blobserver.EnumerateAll(ctxbg, sto, func(sb blob.SizedRef) error {
			seen[sb.Ref]++
			return nil
		}); err != nil {
			t.Fatalf("%s: enumerate: %v", when, err)
		}
		for _, sb := range all {
			rc, size, err := sto.Fetch(ctxbg, sb.Ref)
			if err != nil {
				t.Errorf("%s: fetch of acknowledged blob %v: %v", when, sb.Ref, err)
			} else {
				got, err := io.ReadAll(rc)
				rc.Close()
				if err != nil || size != sb.Size || !bytes.Equal(got, bytesOf(sb.Ref)) {
					t.Errorf("%s: fetch of %v: size %d (want %d), read err %v, or wrong bytes", when, sb.Ref, size, sb.Size, err)
				}
			}
			if got, err := blobserver.StatBlob(ctxbg, sto, sb.Ref); err != nil || got != sb {
				t.Errorf("%s: stat of acknowledged blob %v = %v, %v", when, sb.Ref, got, err)
			}
			if n := seen[sb.Ref]; n != 1 {
				t.Errorf("%s: acknowledged blob %v enumerated %d times; want once", when, sb.Ref, n)
			}
		}
		if len(seen) != len(all) {
			t.Errorf("%s: %d blobs enumerated; want %d", when, len(seen), len(all))
		}
	}
	audit("after the restart")

	// Remove the file schema blob and one chunk...
	if err := sto.RemoveBlobs(ctxbg, []blob.Ref{fileRef, chunkRef}); err != nil {
		t.Fatal(err)
	}
	for _, br := range []blob.Ref{fileRef, chunkRef} {
		if _, _, err := sto.Fetch(ctxbg, br); err == nil {
			t.Fatalf("removed blob %v is still fetched", br)
		}
	}
	// ... and upload them again, the chunk first. Both uploads are acknowledged.
	for _, br := range []blob.Ref{chunkRef, fileRef} {
		if _, err := sto.ReceiveBlob(ctxbg, br, bytes.NewReader(bytesOf(br))); err != nil {
			t.Fatalf("upload of %v: %v", br, err)
		}
	}
	audit("after remove + upload again")
}
