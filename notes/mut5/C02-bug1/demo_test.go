package handlers_test

import (
	"bytes"
	"context"
	"encoding/json"
	"mime/multipart"
	"net/http"
	"net/http/httptest"
	"testing"
	"time"

	"perkeep.org/pkg/blob"
	"perkeep.org/pkg/blobserver"
	"perkeep.org/pkg/blobserver/handlers"
	"perkeep.org/pkg/blobserver/localdisk"
	"perkeep.org/pkg/blobserver/memory"
	"perkeep.org/pkg/blobserver/protocol"
)

// mutC02Sto gives a storage the Config method the batch upload handler wants.
type mutC02Sto struct {
	blobserver.Storage
}

func (mutC02Sto) Config() *blobserver.Config {
	return &blobserver.Config{Writable: true, Readable: true}
}

func mutC02NoTrace(t *testing.T, sto blobserver.Storage, ref blob.Ref) {
	t.Helper()
	ctx := context.Background()
	if rc, _, err := sto.Fetch(ctx, ref); err == nil {
		rc.Close()
		t.Errorf("rejected ref %v is fetchable", ref)
	}
	if err := sto.StatBlobs(ctx, []blob.Ref{ref}, func(sb blob.SizedRef) error {
		t.Errorf("rejected ref is stat-able: %v", sb)
		return nil
	}); err != nil {
		t.Errorf("StatBlobs: %v", err)
	}
	ch := make(chan blob.SizedRef, 16)
	errc := make(chan error, 1)
	go func() { errc <- sto.EnumerateBlobs(ctx, ch, "", 100) }()
	for sb := range ch {
		t.Errorf("store enumerates %v after a rejected upload", sb)
	}
	if err := <-errc; err != nil {
		t.Errorf("EnumerateBlobs: %v", err)
	}
}

// A ref whose hash function the server doesn't know can't be verified, so
// a blob offered under it must be refused whatever its digest is, in
// particular when the digest is the SHA-224 (the server's default hash) of
// the offered bytes.
func TestMutC02UnknownHashWithDefaultHashDigest(t *testing.T) {
	ctx := context.Background()
	data := []byte("bytes offered under a ref whose hash function this server has never heard of")
	ref := blob.MustParse("blake2b-" + blob.RefFromBytes(data).Digest())
	if ref.IsSupported() {
		t.Fatalf("test bug: %v is supported", ref)
	}

	backends := map[string]func(t *testing.T) blobserver.Storage{
		"localdisk": func(t *testing.T) blobserver.Storage {
			ds, err := localdisk.New(t.TempDir())
			if err != nil {
				t.Fatal(err)
			}
			return ds
		},
		"memory": func(t *testing.T) blobserver.Storage { return new(memory.Storage) },
	}
	for name, mk := range backends {
		t.Run(name+"/Receive", func(t *testing.T) {
			sto := mk(t)
			notified := make(chan blob.Ref, 1)
			blobserver.GetHub(sto).RegisterListener(notified)
			sb, err := blobserver.Receive(ctx, sto, ref, bytes.NewReader(data))
			if err == nil {
				t.Errorf("Receive under %v = %v, nil; want a rejection (unsupported hash)", ref, sb)
			}
			select {
			case br := <-notified:
				t.Errorf("hub listener notified of %v", br)
			case <-time.After(100 * time.Millisecond):
			}
			mutC02NoTrace(t, sto, ref)
		})
		t.Run(name+"/multipart", func(t *testing.T) {
			sto := mk(t)
			var body bytes.Buffer
			mw := multipart.NewWriter(&body)
			pw, err := mw.CreateFormFile(ref.String(), ref.String())
			if err != nil {
				t.Fatal(err)
			}
			pw.Write(data)
			mw.Close()
			req := httptest.NewRequest("POST", "/camli/upload", &body)
			req.Header.Set("Content-Type", mw.FormDataContentType())
			rw := httptest.NewRecorder()
			handlers.CreateBatchUploadHandler(mutC02Sto{sto}).ServeHTTP(rw, req)
			if rw.Code != http.StatusOK {
				t.Fatalf("status = %d; body %s", rw.Code, rw.Body.String())
			}
			var res protocol.UploadResponse
			if err := json.Unmarshal(rw.Body.Bytes(), &res); err != nil {
				t.Fatalf("bad response %q: %v", rw.Body.String(), err)
			}
			if len(res.Received) != 0 {
				t.Errorf("upload response lists %v as received", res.Received)
			}
			if res.ErrorText == "" {
				t.Errorf("upload response reports no error: %s", rw.Body.String())
			}
			mutC02NoTrace(t, sto, ref)
		})
	}

	// The same unknown hash name with any other digest, and the PUT
	// endpoint, keep refusing (with or without the seeded bug).
	t.Run("control", func(t *testing.T) {
		sto := new(memory.Storage)
		other := blob.MustParse("blake2b-" + blob.RefFromString("something else").Digest())
		if _, err := blobserver.Receive(ctx, sto, other, bytes.NewReader(data)); err == nil {
			t.Errorf("Receive under %v accepted", other)
		}
		req := httptest.NewRequest("PUT", "/camli/"+ref.String(), bytes.NewReader(data))
		rw := httptest.NewRecorder()
		handlers.CreatePutUploadHandler(sto).ServeHTTP(rw, req)
		if rw.Code != http.StatusBadRequest {
			t.Errorf("PUT under %v: status %d, want 400", ref, rw.Code)
		}
		mutC02NoTrace(t, sto, ref)
	})
}
