package memory_test

import (
	"bytes"
	"context"
	"strings"
	"testing"
	"time"

	"perkeep.org/pkg/blob"
	"perkeep.org/pkg/blobserver"
	"perkeep.org/pkg/blobserver/memory"
)

// The memory store verifies what it is given by itself (it is the only
// check when it sits as a cache behind ReceiveNoHash, as in the cloud
// storage backends). That must hold in cache mode too, whatever the size of
// the offered blob relative to the size of the cache.
func TestMutC02CacheModeStillVerifies(t *testing.T) {
	ctx := context.Background()
	const cacheSize = 64

	good := strings.Repeat("good content ", 10) // 130 bytes: more than the whole cache
	ref := blob.RefFromString(good)

	flipped := []byte(good)
	flipped[len(flipped)/2] ^= 0x01
	cases := map[string][]byte{
		"bitflip":   flipped,
		"extension": []byte(good + "and then some more"),
		"truncated": []byte(good[:100]),
		"other":     bytes.Repeat([]byte{'z'}, 4096),
	}

	for name, bad := range cases {
		t.Run(name, func(t *testing.T) {
			// Direct: the store's own verification.
			c := memory.NewCache(cacheSize)
			if sb, err := c.ReceiveBlob(ctx, ref, bytes.NewReader(bad)); err == nil {
				t.Errorf("cache.ReceiveBlob(%d wrong bytes under %v) = %v, nil; want a hash mismatch error", len(bad), ref, sb)
			}

			// Behind ReceiveNoHash the store is the only verifier; a refused
			// blob must not be announced to the observers of the store.
			c = memory.NewCache(cacheSize)
			notified := make(chan blob.Ref, 1)
			blobserver.GetHub(c).RegisterListener(notified)
			if sb, err := blobserver.ReceiveNoHash(ctx, c, ref, bytes.NewReader(bad)); err == nil {
				t.Errorf("ReceiveNoHash into the cache (%d wrong bytes under %v) = %v, nil; want an error", len(bad), ref, sb)
			}
			select {
			case br := <-notified:
				t.Errorf("observers of the cache were notified of %v", br)
			case <-time.After(100 * time.Millisecond):
			}
		})
	}

	// Control: wrong bytes that fit in the cache are refused as well (with or
	// without the seeded bug), and a cache of unlimited size refuses the big ones.
	t.Run("control", func(t *testing.T) {
		c := memory.NewCache(cacheSize)
		small := blob.RefFromString("small")
		if _, err := c.ReceiveBlob(ctx, small, strings.NewReader("smalL")); err == nil {
			t.Errorf("small corrupt blob accepted")
		}
		var plain memory.Storage
		if _, err := plain.ReceiveBlob(ctx, ref, bytes.NewReader(flipped)); err == nil {
			t.Errorf("plain memory store accepted a corrupt blob")
		}
	})
}
