package replica

import (
	"context"
	"io"
	"testing"
	"time"

	"perkeep.org/pkg/blob"
	"perkeep.org/pkg/blobserver"
	"perkeep.org/pkg/test"
)

// mutHungReplica is a slow backend: its ReceiveBlob doesn't get anywhere
// until the caller gives up, and then fails (a little later) with the
// context's error, without having stored anything.
type mutHungReplica struct {
	*test.Fetcher
}

func (r mutHungReplica) ReceiveBlob(ctx context.Context, br blob.Ref, src io.Reader) (blob.SizedRef, error) {
	io.Copy(io.Discard, src)
	<-ctx.Done()
	time.Sleep(100 * time.Millisecond)
	return blob.SizedRef{}, ctx.Err()
}

func mutHolders(t *testing.T, sto *replicaStorage, br blob.Ref) int {
	n := 0
	for _, rep := range sto.replicas {
		if _, err := blobserver.StatBlob(context.Background(), rep, br); err == nil {
			n++
		}
	}
	return n
}

// TestMutReceiveCancelledWhileReplicasSlow: the caller's context is
// cancelled while some replicas are still (slowly) working on the blob and
// then fail. Whatever the blob, the receive may only be acknowledged if
// minWritesForSuccess replicas really stored it.
func TestMutReceiveCancelledWhileReplicasSlow(t *testing.T) {
	cases := []struct {
		name     string
		good     int // fast, working replicas
		hung     int // slow replicas that fail once the caller gave up
		min      int
		contents string
	}{
		{"n=2,min=2,allhung,nonempty", 0, 2, 2, "not empty"},
		{"n=2,min=2,allhung,empty", 0, 2, 2, ""},
		{"n=3,min=2,onegood,nonempty", 1, 2, 2, "not empty"},
		{"n=3,min=2,onegood,empty", 1, 2, 2, ""},
		{"n=3,min=3,twogood,empty", 2, 1, 3, ""},
	}
	for _, tt := range cases {
		t.Run(tt.name, func(t *testing.T) {
			var reps []blobserver.Storage
			var names []string
			for i := 0; i < tt.good; i++ {
				reps = append(reps, &test.Fetcher{})
				names = append(names, "/good/")
			}
			for i := 0; i < tt.hung; i++ {
				reps = append(reps, mutHungReplica{&test.Fetcher{}})
				names = append(names, "/hung/")
			}
			sto := &replicaStorage{
				replicaPrefixes:     names,
				replicas:            reps,
				readPrefixes:        names,
				readReplicas:        reps,
				minWritesForSuccess: tt.min,
			}
			tb := &test.Blob{Contents: tt.contents}

			ctx, cancel := context.WithCancel(context.Background())
			defer cancel()
			time.AfterFunc(30*time.Millisecond, cancel)

			sb, err := blobserver.Receive(ctx, sto, tb.BlobRef(), tb.Reader())
			holders := mutHolders(t, sto, tb.BlobRef())
			if err == nil && holders < tt.min {
				t.Errorf("receive of %d-byte blob acknowledged (%+v, nil error) with only %d of %d replicas holding it; minWritesForSuccess=%d",
					len(tt.contents), sb, holders, len(reps), tt.min)
			}
			if err == nil && sb.Ref != tb.BlobRef() {
				t.Errorf("receive acknowledged with ref %v; want %v", sb.Ref, tb.BlobRef())
			}
			if err != nil {
				t.Logf("receive failed as it should (%d holders): %v", holders, err)
			}
		})
	}
}
