package index_test

import (
	"context"
	"fmt"
	"sort"
	"testing"
	"time"

	"perkeep.org/pkg/blob"
	"perkeep.org/pkg/index"
	"perkeep.org/pkg/index/indextest"
	"perkeep.org/pkg/schema"
	"perkeep.org/pkg/test"
)

// TestMut5C06Bug3 indexes a directory before the file that it contains (the
// directory only depends on its static-set, so that is a legal arrival order)
// and checks, at each step, that the directory information given by the
// live corpus is that of a corpus loaded from the same rows.
func TestMut5C06Bug3(t *testing.T) {
	index.SetVerboseCorpusLogging(false)
	defer index.SetVerboseCorpusLogging(true)
	ctx := context.Background()

	idx := index.NewMemoryIndex()
	idxd := indextest.NewIndexDeps(idx)
	idxd.Fataler = t
	live, err := idx.KeepInMemory()
	if err != nil {
		t.Fatal(err)
	}

	const name, contents = "child.txt", "I am the child of a directory"
	modTime := time.Unix(1382073153, 0)

	// The ref that the file schema blob of the child will have.
	m := schema.NewFileMap(name)
	m.PopulateParts(int64(len(contents)), []schema.BytesPart{{
		Size:    uint64(len(contents)),
		BlobRef: (&test.Blob{Contents: contents}).BlobRef(),
	}})
	m.SetModTime(modTime)
	fjson, err := m.JSON()
	if err != nil {
		t.Fatal(err)
	}
	fileRef := (&test.Blob{Contents: fjson}).BlobRef()

	setString := func(m map[blob.Ref]struct{}, err error) string {
		var s []string
		for br := range m {
			s = append(s, br.String())
		}
		sort.Strings(s)
		return fmt.Sprintf("%v, err=%v", s, err)
	}
	describe := func(c *index.Corpus, dirRef blob.Ref) string {
		idx.RLock()
		defer idx.RUnlock()
		return fmt.Sprintf("\n  GetDirChildren(dir) = %s\n  GetParentDirs(file) = %s",
			setString(c.GetDirChildren(ctx, dirRef)),
			setString(c.GetParentDirs(ctx, fileRef)))
	}
	check := func(step string, dirRef blob.Ref) {
		t.Helper()
		restarted, err := index.NewCorpusFromStorage(idx.Storage())
		if err != nil {
			t.Fatal(err)
		}
		if got, want := describe(live, dirRef), describe(restarted, dirRef); got != want {
			t.Errorf("%s: live corpus and restarted corpus disagree:\nlive:%s\nrestarted:%s", step, got, want)
		}
	}

	// 1. the directory (and its static-set) arrive first.
	dirRef := idxd.UploadDir("dir", []blob.Ref{fileRef}, modTime)
	check("after the directory", dirRef)

	// 2. then the file.
	gotRef, _ := idxd.UploadFile(name, contents, modTime)
	if gotRef != fileRef {
		t.Fatalf("test bug: file ref = %v, expected %v", gotRef, fileRef)
	}
	check("after the directory, then its child", dirRef)
}
