package diskpacked_test

// Demonstration for seeded bug 2 (diskpacked: a removal that was interrupted
// by a crash between the pack update and the index update can never be
// completed).
//
// Only the public API is used. The crash state "record header rewritten to
// the deleted marker and body zeroed in the pack, index row not deleted yet"
// is built by running the removal to its end and then putting back the index
// files as they were before the removal.

import (
	"context"
	"io"
	"os"
	"path/filepath"
	"sort"
	"strings"
	"testing"

	"perkeep.org/pkg/blob"
	"perkeep.org/pkg/blobserver"
	"perkeep.org/pkg/blobserver/diskpacked"
)

func mutOpen(t *testing.T, dir string) blobserver.Storage {
	t.Helper()
	sto, err := diskpacked.New(dir)
	if err != nil {
		t.Fatalf("opening the store: %v", err)
	}
	return sto
}

func mutClose(t *testing.T, sto blobserver.Storage) {
	t.Helper()
	if err := sto.(io.Closer).Close(); err != nil {
		t.Fatalf("closing the store: %v", err)
	}
}

// mutCopyIndex copies everything that is not a pack file (i.e. the index,
// a file or a directory depending on the index type) from src to dst, after
// removing it from dst.
func mutCopyIndex(t *testing.T, dst, src string) {
	t.Helper()
	isPack := func(name string) bool { return strings.HasPrefix(name, "pack-") }
	ents, err := os.ReadDir(dst)
	if err != nil {
		t.Fatal(err)
	}
	for _, e := range ents {
		if !isPack(e.Name()) {
			if err := os.RemoveAll(filepath.Join(dst, e.Name())); err != nil {
				t.Fatal(err)
			}
		}
	}
	err = filepath.Walk(src, func(path string, fi os.FileInfo, err error) error {
		if err != nil {
			return err
		}
		rel, _ := filepath.Rel(src, path)
		if rel == "." {
			return nil
		}
		if isPack(strings.Split(rel, string(filepath.Separator))[0]) {
			return nil
		}
		if fi.IsDir() {
			return os.MkdirAll(filepath.Join(dst, rel), 0700)
		}
		data, err := os.ReadFile(path)
		if err != nil {
			return err
		}
		return os.WriteFile(filepath.Join(dst, rel), data, 0600)
	})
	if err != nil {
		t.Fatal(err)
	}
}

func mutFetch(t *testing.T, sto blobserver.Storage, br blob.Ref) (string, error) {
	t.Helper()
	rc, _, err := sto.Fetch(context.Background(), br)
	if err != nil {
		return "", err
	}
	defer rc.Close()
	data, err := io.ReadAll(rc)
	return string(data), err
}

func mutEnumerate(t *testing.T, sto blobserver.Storage) []string {
	t.Helper()
	ch := make(chan blob.SizedRef, 100)
	if err := sto.EnumerateBlobs(context.Background(), ch, "", 100); err != nil {
		t.Fatal(err)
	}
	var got []string
	for sb := range ch {
		got = append(got, sb.Ref.String())
	}
	sort.Strings(got)
	return got
}

func TestMutInterruptedRemovalCanBeCompleted(t *testing.T) {
	ctx := context.Background()
	dir := t.TempDir()

	contents := map[string]string{
		"A": strings.Repeat("first blob, kept. ", 20),
		"X": strings.Repeat("the blob whose removal is interrupted. ", 30),
		"B": strings.Repeat("last blob, kept. ", 25),
	}
	ref := func(name string) blob.Ref { return blob.RefFromString(contents[name]) }

	sto := mutOpen(t, dir)
	for _, name := range []string{"A", "X", "B"} {
		if _, err := sto.ReceiveBlob(ctx, ref(name), strings.NewReader(contents[name])); err != nil {
			t.Fatalf("receive %s: %v", name, err)
		}
	}
	mutClose(t, sto)
	indexBefore := t.TempDir()
	mutCopyIndex(t, indexBefore, dir)

	// Remove X, and then put the index back: this is the state a crash
	// leaves when the process dies after the pack was updated (header
	// rewritten, body punched out) and before the index batch is committed.
	sto = mutOpen(t, dir)
	if err := sto.RemoveBlobs(ctx, []blob.Ref{ref("X")}); err != nil {
		t.Fatalf("remove X: %v", err)
	}
	mutClose(t, sto)
	mutCopyIndex(t, dir, indexBefore)

	// Restart. The removal of X was never acknowledged; the client (or the
	// garbage collector) asks for it again.
	sto = mutOpen(t, dir)
	defer sto.(io.Closer).Close()
	if err := sto.RemoveBlobs(ctx, []blob.Ref{ref("X")}); err != nil {
		t.Errorf("removing X again after the restart: %v", err)
	}
	want := []string{ref("A").String(), ref("B").String()}
	sort.Strings(want)
	if got := mutEnumerate(t, sto); strings.Join(got, ",") != strings.Join(want, ",") {
		t.Errorf("after completing the removal of X the store enumerates\n  %v\nwant\n  %v", got, want)
	}
	if got, err := mutFetch(t, sto, ref("X")); err == nil {
		t.Errorf("X is still served after its removal; contents are intact: %v (%d bytes, %d of them zero)",
			got == contents["X"], len(got), strings.Count(got, "\x00"))
	}

	// X is uploaded again, and acknowledged: it must be served intact.
	if _, err := sto.ReceiveBlob(ctx, ref("X"), strings.NewReader(contents["X"])); err != nil {
		t.Fatalf("receive X again: %v", err)
	}
	for _, name := range []string{"A", "X", "B"} {
		got, err := mutFetch(t, sto, ref(name))
		if err != nil {
			t.Errorf("fetch %s: %v", name, err)
			continue
		}
		if got != contents[name] {
			t.Errorf("acknowledged blob %s is not served intact: got %d bytes (%d of them zero), want %d bytes",
				name, len(got), strings.Count(got, "\x00"), len(contents[name]))
		}
	}
}
