package blob_test

import (
	"encoding/json"
	"testing"

	"perkeep.org/pkg/blob"
)

// A string of the right length for a supported hash whose only malformed
// characters are in the LAST byte (last two hex digits) of the digest must be
// rejected by every parser, and must never yield a ref whose text differs from
// the input.
func TestMut5C20Bug1BadLastHexPair(t *testing.T) {
	good := []string{
		"sha1-0beec7b5ea3f0fdbc95d0dd47f3c5bc275da8a33",
		"sha224-d14a028c2a3a2bc9476102bb288234c415a2b01f828ea62ac5b3e42f",
		"sha256-b5bb9d8014a0f9b1d61e21e796d78dccdf1352f23cd32812f4850b878ae4944c",
	}
	for _, g := range good {
		for _, tail := range []string{"3g", "g3", "gg", "A0", "0A", "--", "z0"} {
			in := g[:len(g)-2] + tail
			if r, ok := blob.Parse(in); ok {
				t.Errorf("Parse(%q) = %v, true; want rejection", in, r)
			}
			if r, ok := blob.ParseKnown(in); ok {
				t.Errorf("ParseKnown(%q) = %v, true; want rejection", in, r)
			}
			if r, ok := blob.ParseBytes([]byte(in)); ok {
				t.Errorf("ParseBytes(%q) = %v, true; want rejection", in, r)
			}
			if blob.ValidRefString(in) {
				t.Errorf("ValidRefString(%q) = true; want false", in)
			}
			var r blob.Ref
			if err := json.Unmarshal([]byte(`"`+in+`"`), &r); err == nil {
				t.Errorf("json.Unmarshal(%q) = %v, nil error; want error", in, r)
			}
		}
		// Sanity: a bad character anywhere else is rejected too.
		in := g[:len(g)-4] + "g" + g[len(g)-3:]
		if _, ok := blob.Parse(in); ok {
			t.Errorf("Parse(%q) accepted", in)
		}
		// And the good one round-trips.
		r, ok := blob.Parse(g)
		if !ok || r.String() != g {
			t.Errorf("Parse(%q) = %v, %v", g, r, ok)
		}
	}
}
