package files_test

import (
	"context"
	"errors"
	"os"
	"strings"
	"sync"
	"sync/atomic"
	"testing"
	"time"

	"perkeep.org/pkg/blob"
	"perkeep.org/pkg/blobserver"
	"perkeep.org/pkg/blobserver/files"
	"perkeep.org/pkg/test"
)

// mutStatFaultFS is a files.VFS whose Stat fails once, for one blob file,
// while the stats of the other blobs of the same batch are still in flight.
type mutStatFaultFS struct {
	files.VFS

	armed    atomic.Bool
	failBase string // base name of the blob file whose Stat fails
	others   int32  // number of other Stat calls expected in the batch

	entered atomic.Int32
	release chan struct{} // closed a moment after the failing Stat returned
	once    sync.Once
}

var errMutTransient = errors.New("injected transient stat failure")

func (fs *mutStatFaultFS) Stat(path string) (os.FileInfo, error) {
	if !fs.armed.Load() {
		return fs.VFS.Stat(path)
	}
	if strings.HasSuffix(path, fs.failBase) {
		// Fail only once all the other stats of the batch are in flight.
		for fs.entered.Load() < fs.others {
			time.Sleep(time.Millisecond)
		}
		fs.once.Do(func() {
			time.AfterFunc(100*time.Millisecond, func() { close(fs.release) })
		})
		return nil, errMutTransient
	}
	fs.entered.Add(1)
	<-fs.release // answer only after the failure has been reported
	return fs.VFS.Stat(path)
}

// A transient disk failure during a batched stat must fail that StatBlobs
// call in bounded time, and later stats must work again.
func TestMutBatchedStatFaultReturns(t *testing.T) {
	root := t.TempDir()
	ffs := &mutStatFaultFS{VFS: files.OSFS(), release: make(chan struct{})}
	sto := files.NewStorage(ffs, root)

	var refs []blob.Ref
	for _, c := range []string{"alpha", "bravo", "charlie", "delta"} {
		b := &test.Blob{Contents: c}
		b.MustUpload(t, sto)
		refs = append(refs, b.BlobRef())
	}
	ffs.failBase = refs[0].Digest() + ".dat"
	ffs.others = int32(len(refs) - 1)
	ffs.armed.Store(true)

	errc := make(chan error, 1)
	go func() {
		errc <- sto.StatBlobs(context.Background(), refs, func(blob.SizedRef) error { return nil })
	}()
	select {
	case err := <-errc:
		if err == nil {
			t.Fatalf("StatBlobs with a failing stat returned no error")
		}
		t.Logf("StatBlobs failed as expected: %v", err)
	case <-time.After(5 * time.Second):
		t.Fatalf("StatBlobs still blocked 5s after one stat of the batch failed")
	}

	// The failure is over: everything is served again.
	ffs.armed.Store(false)
	done := make(chan struct{})
	var got map[blob.Ref]blob.SizedRef
	var err error
	go func() {
		got, err = blobserver.StatBlobs(context.Background(), sto, refs)
		close(done)
	}()
	select {
	case <-done:
	case <-time.After(5 * time.Second):
		t.Fatalf("StatBlobs after the failure still blocked after 5s")
	}
	if err != nil || len(got) != len(refs) {
		t.Fatalf("StatBlobs after the failure = %d blobs, %v; want %d, nil", len(got), err, len(refs))
	}
}
