package server

import (
	"context"
	"fmt"
	"io"
	"os"
	"sync"
	"syscall"
	"testing"

	"perkeep.org/pkg/blob"
	"perkeep.org/pkg/blobserver"
	"perkeep.org/pkg/blobserver/memory"
	"perkeep.org/pkg/sorted"
)

// mutC19b1Src is a source whose Fetch reports "not found" a finite number
// of times for blobs it does hold (an eventually consistent store, a
// packed store whose index lags, a disk that is remounted, ...).
type mutC19b1Src struct {
	*memory.Storage
	mu       sync.Mutex
	notFound int // number of Fetch calls still to fail
}

func (s *mutC19b1Src) Fetch(ctx context.Context, br blob.Ref) (io.ReadCloser, uint32, error) {
	s.mu.Lock()
	fail := s.notFound > 0
	if fail {
		s.notFound--
	}
	s.mu.Unlock()
	if fail {
		return nil, 0, os.ErrNotExist
	}
	return s.Storage.Fetch(ctx, br)
}

// mutC19b1Dst is a destination whose ReceiveBlob fails a finite number of
// times the way a file based store does while its directory is away
// (ENOENT from the open/rename).
type mutC19b1Dst struct {
	*memory.Storage
	mu     sync.Mutex
	enoent int
}

func (d *mutC19b1Dst) ReceiveBlob(ctx context.Context, br blob.Ref, r io.Reader) (blob.SizedRef, error) {
	d.mu.Lock()
	fail := d.enoent > 0
	if fail {
		d.enoent--
	}
	d.mu.Unlock()
	if fail {
		io.Copy(io.Discard, r)
		return blob.SizedRef{}, &os.PathError{Op: "open", Path: "/mnt/replica/" + br.String() + ".dat", Err: syscall.ENOENT}
	}
	return d.Storage.ReceiveBlob(ctx, br, r)
}

func mutC19b1QueueLen(t *testing.T, q sorted.KeyValue) int {
	t.Helper()
	n := 0
	it := q.Find("", "")
	for it.Next() {
		n++
	}
	if err := it.Close(); err != nil {
		t.Fatal(err)
	}
	return n
}

func mutC19b1Run(t *testing.T, srcNotFound, dstENOENT int) {
	ctx := context.Background()
	src := &mutC19b1Src{Storage: &memory.Storage{}}
	dst := &mutC19b1Dst{Storage: &memory.Storage{}}
	q := sorted.NewMemoryKeyValue()

	// No background loop: the rounds of the copy loop are run by hand.
	sh := newSyncHandler("src", "dst", src, dst, q)
	blobserver.GetHub(src).AddReceiveHook(sh.enqueue)

	const n = 3
	var want []blob.SizedRef
	for i := 0; i < n; i++ {
		sb, err := blobserver.ReceiveString(ctx, src, fmt.Sprintf("C19 bug1 blob %d", i))
		if err != nil {
			t.Fatal(err)
		}
		want = append(want, sb)
	}
	if got := mutC19b1QueueLen(t, q); got != n {
		t.Fatalf("queue has %d rows after %d uploads", got, n)
	}

	// The transient failure hits the first round.
	src.mu.Lock()
	src.notFound = srcNotFound
	src.mu.Unlock()
	dst.mu.Lock()
	dst.enoent = dstENOENT
	dst.mu.Unlock()

	sh.runSync("round 1 (failing)", sh.enumeratePendingBlobs)

	// A blob may only leave the queue once the destination has it.
	for _, sb := range want {
		_, _, ferr := dst.Storage.Fetch(ctx, sb.Ref)
		_, qerr := q.Get(sb.Ref.String())
		if ferr != nil && qerr != nil {
			t.Errorf("after the failing round: %v is neither at the destination nor in the persistent queue (queue.Get: %v)", sb.Ref, qerr)
		}
	}

	// Failures have stopped. The same handler retries...
	for i := 0; i < 3; i++ {
		sh.runSync("retry", sh.enumeratePendingBlobs)
	}
	// ... and so does a restarted one over the same queue.
	sh2 := newSyncHandler("src", "dst", src, dst, q)
	if err := sh2.readQueueToMemory(); err != nil {
		t.Fatal(err)
	}
	for i := 0; i < 3; i++ {
		sh2.runSync("after restart", sh2.enumeratePendingBlobs)
	}

	for _, sb := range want {
		got, ok := dst.Storage.BlobContents(sb.Ref)
		if !ok {
			t.Errorf("blob %v never reached the destination", sb.Ref)
			continue
		}
		if blob.RefFromString(got) != sb.Ref {
			t.Errorf("blob %v differs at the destination", sb.Ref)
		}
	}
	if got := mutC19b1QueueLen(t, q); got != 0 {
		t.Errorf("queue still has %d rows at the end", got)
	}
}

func TestMutC19Bug1SourceNotFoundTransient(t *testing.T) {
	mutC19b1Run(t, 3, 0)
}

func TestMutC19Bug1DestENOENTTransient(t *testing.T) {
	mutC19b1Run(t, 0, 3)
}

// A plain (non "not exist") failure is handled correctly with and without
// the patch: this is what a quick smoke test of the retry logic exercises.
func TestMutC19Bug1Control(t *testing.T) {
	mutC19b1Run(t, 0, 0)
}
