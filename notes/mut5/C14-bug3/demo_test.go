package index

import (
	"fmt"
	"os"
	"sync"
	"testing"
	"time"

	"perkeep.org/pkg/blob"
	"perkeep.org/pkg/schema"
	"perkeep.org/pkg/types/camtypes"
)

// mutCorpusWithContents returns an index with a corpus of n permanodes, each
// of which has a camliContent claim pointing to a different (file) blob.
func mutCorpusWithContents(t *testing.T, n int) (*Index, []blob.Ref) {
	c := newCorpus()
	signer := blob.RefFromString("the signer's public key")
	const keyID = "2931A67C26F5ABDA"
	if err := c.addKeyID(&mutationMap{signerID: keyID, signerBlobRef: signer}); err != nil {
		t.Fatal(err)
	}
	t0 := time.Date(2020, 1, 1, 0, 0, 0, 0, time.UTC)
	var pns []blob.Ref
	for i := 0; i < n; i++ {
		pn := blob.RefFromString(fmt.Sprintf("permanode %d", i))
		content := blob.RefFromString(fmt.Sprintf("file schema blob %d", i))
		cl := &camtypes.Claim{
			BlobRef:   blob.RefFromString(fmt.Sprintf("claim %d", i)),
			Signer:    signer,
			Permanode: pn,
			Date:      t0.Add(time.Duration(i) * time.Minute),
			Type:      string(schema.SetAttributeClaim),
			Attr:      "camliContent",
			Value:     content.String(),
		}
		pm := &PermanodeMeta{Claims: []*camtypes.Claim{cl}}
		if err := pm.restoreInvariants(c.keyId); err != nil {
			t.Fatal(err)
		}
		c.permanodes[pn] = pm
		c.blobs[pn] = &camtypes.BlobMeta{Ref: pn, Size: 100, CamliType: schema.TypePermanode}
		pns = append(pns, pn)
	}
	c.gen++
	return &Index{corpus: c}, pns
}

// TestMutCorpusQueriesAreReadOnly: corpus queries are made under the index
// READ lock, by any number of clients at the same time (and at the same time
// as blobs are received, which takes the write lock only for the merge). They
// must therefore not modify anything in the corpus.
func TestMutCorpusQueriesAreReadOnly(t *testing.T) {
	const n = 3000
	ix, pns := mutCorpusWithContents(t, n)
	c := ix.corpus

	// 1. A query must leave the parse and intern caches of the corpus alone.
	// (Set MUT_PHASE2_ONLY=1 to skip this check and only run the concurrent
	// clients of step 2.)
	phase2Only := os.Getenv("MUT_PHASE2_ONLY") != ""
	ix.RLock()
	beforeRefs, beforeStrs, beforeInterns := len(c.brOfStr), len(c.strs), c.brInterns
	for _, pn := range pns[:100] {
		tm, ok := c.PermanodeTime(pn)
		if !ok || tm.IsZero() {
			t.Fatalf("PermanodeTime(%v) = %v, %v; want the time of its camliContent claim", pn, tm, ok)
		}
	}
	afterRefs, afterStrs, afterInterns := len(c.brOfStr), len(c.strs), c.brInterns
	ix.RUnlock()
	if !phase2Only && (afterRefs != beforeRefs || afterStrs != beforeStrs || afterInterns != beforeInterns) {
		t.Fatalf("PermanodeTime, a query made under the index read lock, wrote to the corpus: "+
			"brOfStr %d -> %d entries, strs %d -> %d entries, brInterns %d -> %d",
			beforeRefs, afterRefs, beforeStrs, afterStrs, beforeInterns, afterInterns)
	}

	// 2. Several clients querying at once (this is what crashes with
	// "concurrent map writes", or is reported by the race detector, when
	// queries do write).
	var wg sync.WaitGroup
	for client := 0; client < 8; client++ {
		wg.Add(1)
		go func(client int) {
			defer wg.Done()
			for i := 0; i < n; i++ {
				pn := pns[(i*7+client*131)%n]
				ix.RLock()
				_, ok := c.PermanodeAnyTime(pn)
				ix.RUnlock()
				if !ok {
					t.Errorf("PermanodeAnyTime(%v) found no time", pn)
					return
				}
			}
		}(client)
	}
	wg.Wait()
}
