package replica

import (
	"context"
	"fmt"
	"io"
	"testing"

	"perkeep.org/pkg/blob"
	"perkeep.org/pkg/blobserver"
	"perkeep.org/pkg/test"
)

// mutShortWriter is a backend that loses the tail of what it is given (a
// full disk, a truncating proxy, ...) but doesn't notice: it reports the
// number of bytes it kept, with a nil error.
type mutShortWriter struct {
	blobserver.NoImplStorage
	kept map[blob.Ref]int
}

func (s *mutShortWriter) ReceiveBlob(ctx context.Context, br blob.Ref, src io.Reader) (blob.SizedRef, error) {
	n, err := io.Copy(io.Discard, src)
	if err != nil {
		return blob.SizedRef{}, err
	}
	keep := int(n) / 2
	s.kept[br] = keep
	return blob.SizedRef{Ref: br, Size: uint32(keep)}, nil
}

// TestMutReceiveWrongSizeAllReplicaCounts: for every replica count n (1
// included) and minWritesForSuccess = n, a receive must not be acknowledged
// when one of the replicas reports a size other than the blob's.
func TestMutReceiveWrongSizeAllReplicaCounts(t *testing.T) {
	ctx := context.Background()
	for n := 1; n <= 3; n++ {
		for bad := 0; bad < n; bad++ {
			t.Run(fmt.Sprintf("n=%d/bad=%d", n, bad), func(t *testing.T) {
				ld := test.NewLoader()
				short := &mutShortWriter{kept: map[blob.Ref]int{}}
				var backends []any
				for i := 0; i < n; i++ {
					pfx := fmt.Sprintf("/good-%d/", i)
					if i == bad {
						pfx = fmt.Sprintf("/short-%d/", i)
						ld.SetStorage(pfx, short)
					}
					backends = append(backends, pfx)
				}
				sto, err := newFromConfig(ld, map[string]any{
					"backends":            backends,
					"minWritesForSuccess": float64(n),
				})
				if err != nil {
					t.Fatalf("newFromConfig: %v", err)
				}

				tb := &test.Blob{Contents: "some blob contents that must not be cut short"}
				sb, err := blobserver.Receive(ctx, sto, tb.BlobRef(), tb.Reader())
				if err == nil {
					t.Errorf("receive acknowledged (%v, size %d) although only %d of %d replicas hold the %d bytes (minWritesForSuccess=%d); replica %d kept %d bytes",
						sb.Ref, sb.Size, n-1, n, len(tb.Contents), n, bad, short.kept[tb.BlobRef()])
				}
			})
		}
	}

	// Control: a single good backend acknowledges with the right size.
	ld := test.NewLoader()
	sto, err := newFromConfig(ld, map[string]any{"backends": []any{"/good-only/"}})
	if err != nil {
		t.Fatal(err)
	}
	tb := &test.Blob{Contents: "fine"}
	sb, err := blobserver.Receive(ctx, sto, tb.BlobRef(), tb.Reader())
	if err != nil || sb.Ref != tb.BlobRef() || int(sb.Size) != len(tb.Contents) {
		t.Errorf("single good backend: got %v, %v", sb, err)
	}
}
