package kvfile_test

import (
	"fmt"
	"path/filepath"
	"testing"

	"perkeep.org/pkg/sorted"
	"perkeep.org/pkg/sorted/kvfile"
)

func scan(t *testing.T, kv sorted.KeyValue) string {
	t.Helper()
	var got []string
	it := kv.Find("", "")
	for it.Next() {
		got = append(got, it.Key()+"="+it.Value())
	}
	if err := it.Close(); err != nil {
		t.Errorf("iterator Close: %v", err)
	}
	return fmt.Sprint(got)
}

// Committing a batch that holds no mutation is a no-op: what was set before
// is still there, what is set afterwards is stored, and all of it survives
// close and reopen.
func TestMutDemoC10EmptyBatch(t *testing.T) {
	file := filepath.Join(t.TempDir(), "demo.kv")
	kv, err := kvfile.NewStorage(file)
	if err != nil {
		t.Fatal(err)
	}
	closed := false
	defer func() {
		if !closed {
			kv.Close()
		}
	}()

	if err := kv.Set("a", "1"); err != nil {
		t.Fatalf("Set(a): %v", err)
	}
	b := kv.BeginBatch()
	b.Set("b", "2")
	b.Delete("nope")
	if err := kv.CommitBatch(b); err != nil {
		t.Fatalf("CommitBatch: %v", err)
	}

	// The empty batch.
	if err := kv.CommitBatch(kv.BeginBatch()); err != nil {
		t.Fatalf("CommitBatch(empty): %v", err)
	}

	if got, want := scan(t, kv), "[a=1 b=2]"; got != want {
		t.Errorf("after empty batch: scan = %s; want %s", got, want)
	}
	if v, err := kv.Get("a"); err != nil || v != "1" {
		t.Errorf("after empty batch: Get(a) = %q, %v; want \"1\"", v, err)
	}
	if err := kv.Set("c", "3"); err != nil {
		t.Errorf("Set(c) after empty batch: %v", err)
	}
	b = kv.BeginBatch()
	b.Set("d", "4")
	if err := kv.CommitBatch(b); err != nil {
		t.Errorf("CommitBatch(d) after empty batch: %v", err)
	}
	if got, want := scan(t, kv), "[a=1 b=2 c=3 d=4]"; got != want {
		t.Errorf("scan = %s; want %s", got, want)
	}

	closed = true
	if err := kv.Close(); err != nil {
		t.Errorf("Close: %v", err)
	}
	kv2, err := kvfile.NewStorage(file)
	if err != nil {
		t.Fatalf("reopen: %v", err)
	}
	defer kv2.Close()
	if got, want := scan(t, kv2), "[a=1 b=2 c=3 d=4]"; got != want {
		t.Errorf("after reopen: scan = %s; want %s", got, want)
	}
}
