package handlers_test

import (
	"context"
	"encoding/json"
	"fmt"
	"net/http"
	"net/http/httptest"
	"net/url"
	"sort"
	"strings"
	"testing"

	"perkeep.org/pkg/blobserver"
	"perkeep.org/pkg/blobserver/handlers"
	"perkeep.org/pkg/blobserver/memory"
)

// enumerateAllHTTP pages through /camli/enumerate-blobs with the given
// limit parameter, following continueAfter, as the protocol documents.
func enumerateAllHTTP(t *testing.T, base, limit string) []string {
	t.Helper()
	var got []string
	after := ""
	for page := 0; ; page++ {
		if page > 1000 {
			t.Fatal("too many pages")
		}
		res, err := http.Get(base + "/camli/enumerate-blobs?after=" + url.QueryEscape(after) + "&limit=" + url.QueryEscape(limit))
		if err != nil {
			t.Fatal(err)
		}
		var body struct {
			Blobs []struct {
				BlobRef string `json:"blobRef"`
				Size    int64  `json:"size"`
			} `json:"blobs"`
			ContinueAfter string `json:"continueAfter"`
		}
		err = json.NewDecoder(res.Body).Decode(&body)
		res.Body.Close()
		if err != nil {
			t.Fatalf("page %d: %v", page, err)
		}
		for _, b := range body.Blobs {
			got = append(got, b.BlobRef)
		}
		if body.ContinueAfter == "" {
			return got
		}
		after = body.ContinueAfter
	}
}

// TestMutEnumerateLimitOverServerMax: a client that asks for more blobs per
// page than the server is willing to enumerate at once (limit > 10000) must still be able to page through everything:
// the truncated page has to carry a continueAfter.
func TestMutEnumerateLimitOverServerMax(t *testing.T) {
	const numBlobs = 10001 // one more than the handler's defaultMaxEnumerate
	sto := new(memory.Storage)
	var want []string
	for i := 0; i < numBlobs; i++ {
		s := fmt.Sprintf("blob number %d", i)
		sb, err := blobserver.ReceiveString(context.Background(), sto, s)
		if err != nil {
			t.Fatal(err)
		}
		want = append(want, sb.Ref.String())
	}
	sort.Strings(want)

	mux := http.NewServeMux()
	mux.Handle("/camli/enumerate-blobs", handlers.CreateEnumerateHandler(sto))
	ts := httptest.NewServer(mux)
	defer ts.Close()

	for _, limit := range []string{"1000", "10000", "10001", "20000", "lots"} {
		got := enumerateAllHTTP(t, ts.URL, limit)
		if len(got) != len(want) {
			t.Errorf("limit=%s: complete enumeration returned %d blobs; the store has %d", limit, len(got), len(want))
			continue
		}
		if !sort.StringsAreSorted(got) {
			t.Errorf("limit=%s: enumeration not sorted", limit)
		}
		if strings.Join(got, ",") != strings.Join(want, ",") {
			t.Errorf("limit=%s: enumeration differs from the stored set", limit)
		}
	}
}
