package schema_test

import (
	"bytes"
	"context"
	"fmt"
	"io"
	"strings"
	"testing"

	"perkeep.org/pkg/schema"
	"perkeep.org/pkg/test"
)

// A file made of data, a 20 KiB hole, data, read into buffers that are not
// fresh: the hole must come back as zeros whatever the buffer held before.
func TestMutC15HoleIntoUsedBuffer(t *testing.T) {
	ctx := context.Background()
	sto := new(test.Fetcher)

	head := &test.Blob{Contents: strings.Repeat("h", 8<<10)}
	tail := &test.Blob{Contents: strings.Repeat("t", 3<<10)}
	sto.AddBlob(head)
	sto.AddBlob(tail)
	const hole = 20 << 10

	fileJSON := fmt.Sprintf(`{"camliVersion": 1,
  "camliType": "file",
  "fileName": "sparse",
  "parts": [
    {"blobRef": %q, "size": %d},
    {"size": %d},
    {"blobRef": %q, "size": %d}
  ]
}`, head.BlobRef().String(), head.Size(), hole, tail.BlobRef().String(), tail.Size())
	fileBlob := &test.Blob{Contents: fileJSON}
	sto.AddBlob(fileBlob)

	want := head.Contents + string(make([]byte, hole)) + tail.Contents

	fr, err := schema.NewFileReader(ctx, sto, fileBlob.BlobRef())
	if err != nil {
		t.Fatal(err)
	}
	defer fr.Close()
	if fr.Size() != int64(len(want)) {
		t.Fatalf("size = %d; want %d", fr.Size(), len(want))
	}

	firstDiff := func(got, want []byte) int {
		for i := range want {
			if i >= len(got) || got[i] != want[i] {
				return i
			}
		}
		return len(want)
	}

	// 1. One ReadAt of the whole file into a buffer that was used before.
	buf := bytes.Repeat([]byte{0xee}, len(want))
	n, err := fr.ReadAt(buf, 0)
	if err != nil || n != len(want) {
		t.Fatalf("ReadAt = %d, %v; want %d, nil", n, err, len(want))
	}
	if !bytes.Equal(buf, []byte(want)) {
		i := firstDiff(buf, []byte(want))
		t.Errorf("ReadAt(whole file) into a used buffer: first difference at offset %d: got 0x%02x want 0x%02x", i, buf[i], want[i])
	}

	// 2. A range that lies entirely inside the hole.
	buf = bytes.Repeat([]byte{0xee}, 10<<10)
	off := int64(head.Size()) + 1000
	n, err = fr.ReadAt(buf, off)
	if err != nil || n != len(buf) {
		t.Fatalf("ReadAt in hole = %d, %v; want %d, nil", n, err, len(buf))
	}
	if !bytes.Equal(buf, []byte(want[off:off+int64(len(buf))])) {
		i := firstDiff(buf, []byte(want[off:]))
		t.Errorf("ReadAt(%d, %d) inside the hole into a used buffer: first non-zero byte at +%d: 0x%02x", off, len(buf), i, buf[i])
	}

	// 3. Sequential copy: io.CopyBuffer reuses its one buffer for every Read,
	// so after the data part it is full of 'h's when the hole is read.
	if _, err := fr.Seek(0, io.SeekStart); err != nil {
		t.Fatal(err)
	}
	var got bytes.Buffer
	// hide ReadFrom/WriteTo so that the copy buffer is really used
	if _, err := io.CopyBuffer(struct{ io.Writer }{&got}, struct{ io.Reader }{fr}, make([]byte, 16<<10)); err != nil {
		t.Fatal(err)
	}
	if !bytes.Equal(got.Bytes(), []byte(want)) {
		i := firstDiff(got.Bytes(), []byte(want))
		t.Errorf("sequential copy: %d bytes, first difference at offset %d (want %d bytes)", got.Len(), i, len(want))
	}

	// Control: reading into a fresh buffer.
	if _, err := fr.Seek(0, io.SeekStart); err != nil {
		t.Fatal(err)
	}
	all, err := io.ReadAll(fr)
	if err != nil {
		t.Fatal(err)
	}
	if string(all) != want {
		t.Errorf("io.ReadAll differs at offset %d", firstDiff(all, []byte(want)))
	}
}
