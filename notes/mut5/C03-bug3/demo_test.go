package diskpacked_test

// Demonstration for seeded bug 3 (diskpacked: Reindex with overwrite wipes
// the index before it knows that the packs can be walked).
//
// Only the public API is used. A crash in the middle of a receive leaves a
// torn record at the tail of the pack; the store is reopened and keeps
// receiving (the new record lands behind the torn bytes). An index rebuild is
// then attempted.

import (
	"context"
	"fmt"
	"io"
	"os"
	"path/filepath"
	"sort"
	"strings"
	"testing"

	"perkeep.org/pkg/blob"
	"perkeep.org/pkg/blobserver"
	"perkeep.org/pkg/blobserver/diskpacked"
)

func mut3Open(t *testing.T, dir string) blobserver.Storage {
	t.Helper()
	sto, err := diskpacked.New(dir)
	if err != nil {
		t.Fatalf("opening the store: %v", err)
	}
	return sto
}

func mut3Close(t *testing.T, sto blobserver.Storage) {
	t.Helper()
	if err := sto.(io.Closer).Close(); err != nil {
		t.Fatalf("closing the store: %v", err)
	}
}

func TestMutFailedReindexKeepsAcknowledgedBlobs(t *testing.T) {
	ctx := context.Background()
	dir := t.TempDir()

	contents := map[string]string{
		"A": strings.Repeat("first acknowledged blob. ", 10),
		"B": strings.Repeat("second acknowledged blob. ", 20),
		"T": strings.Repeat("the blob that was being received when the process died. ", 30),
		"C": strings.Repeat("acknowledged after the restart. ", 200), // long enough for the torn record of T to end inside it
	}
	ref := func(name string) blob.Ref { return blob.RefFromString(contents[name]) }
	receive := func(sto blobserver.Storage, name string) {
		t.Helper()
		if _, err := sto.ReceiveBlob(ctx, ref(name), strings.NewReader(contents[name])); err != nil {
			t.Fatalf("receive %s: %v", name, err)
		}
	}
	check := func(sto blobserver.Storage, when string, names ...string) {
		t.Helper()
		var want []string
		for _, name := range names {
			want = append(want, ref(name).String())
			rc, size, err := sto.Fetch(ctx, ref(name))
			if err != nil {
				t.Errorf("%s: acknowledged blob %s can't be fetched: %v", when, name, err)
				continue
			}
			data, err := io.ReadAll(rc)
			rc.Close()
			if err != nil || string(data) != contents[name] || int(size) != len(contents[name]) {
				t.Errorf("%s: acknowledged blob %s is not served intact (size %d, %d bytes read, err %v)", when, name, size, len(data), err)
			}
		}
		sort.Strings(want)
		ch := make(chan blob.SizedRef, 100)
		if err := sto.EnumerateBlobs(ctx, ch, "", 100); err != nil {
			t.Fatal(err)
		}
		var got []string
		for sb := range ch {
			got = append(got, sb.Ref.String())
		}
		sort.Strings(got)
		if strings.Join(got, ",") != strings.Join(want, ",") {
			t.Errorf("%s: the store enumerates %d blobs %v, want %d %v", when, len(got), got, len(want), want)
		}
	}

	sto := mut3Open(t, dir)
	receive(sto, "A")
	receive(sto, "B")
	mut3Close(t, sto)

	// The process dies while it appends T to the pack: the header and
	// half of the body made it to the file, the index was not touched.
	pack := filepath.Join(dir, "pack-00000.blobs")
	f, err := os.OpenFile(pack, os.O_WRONLY|os.O_APPEND, 0)
	if err != nil {
		t.Fatal(err)
	}
	torn := fmt.Sprintf("[%v %d]%s", ref("T"), len(contents["T"]), contents["T"][:len(contents["T"])/2])
	if _, err := f.WriteString(torn); err != nil {
		t.Fatal(err)
	}
	f.Close()

	// Restart; the store goes on receiving.
	sto = mut3Open(t, dir)
	check(sto, "after the restart", "A", "B")
	receive(sto, "C")
	check(sto, "after the restart and one more receive", "A", "B", "C")
	mut3Close(t, sto)

	// An index rebuild is attempted (pk reindex-diskpacked --overwrite).
	// Whether it can cope with the torn record or gives up with an error,
	// it must not cost the store its acknowledged blobs.
	err = diskpacked.Reindex(ctx, dir, true, nil)
	t.Logf("Reindex(overwrite) returned: %v", err)

	sto = mut3Open(t, dir)
	defer sto.(io.Closer).Close()
	check(sto, "after the attempted index rebuild", "A", "B", "C")
}
