package index_test

import (
	"context"
	"reflect"
	"testing"
	"time"

	"perkeep.org/pkg/blob"
	"perkeep.org/pkg/index"
	"perkeep.org/pkg/index/indextest"
	"perkeep.org/pkg/schema"
	"perkeep.org/pkg/types/camtypes"
)

// mut5C07Bug1Replay is the documented semantics: apply, in claim-date
// order, the set/add/del claims dated no later than at.
func mut5C07Bug1Replay(claims []camtypes.Claim, attr string, at time.Time) []string {
	var vals []string
	for _, cl := range claims {
		if cl.Attr != attr || cl.Date.After(at) {
			continue
		}
		switch cl.Type {
		case "set-attribute":
			vals = []string{cl.Value}
		case "add-attribute":
			vals = append(vals, cl.Value)
		case "del-attribute":
			if cl.Value == "" {
				vals = nil
				continue
			}
			var kept []string
			for _, v := range vals {
				if v != cl.Value {
					kept = append(kept, v)
				}
			}
			vals = kept
		}
	}
	return vals
}

// A query time that falls in the same wall-clock second as the newest
// claim of the permanode, but before it, must not see that claim.
func TestMut5C07Bug1SubSecondHistory(t *testing.T) {
	ctx := context.Background()
	idx := index.NewMemoryIndex()
	id := indextest.NewIndexDeps(idx)
	id.Fataler = t
	live, err := idx.KeepInMemory()
	if err != nil {
		t.Fatal(err)
	}

	pn := id.NewPermanode()
	base := time.Date(2020, 5, 17, 10, 20, 30, 0, time.UTC)
	upload := func(b *schema.Builder, d time.Duration) {
		b.SetClaimDate(base.Add(d))
		id.Upload(id.Sign(b))
	}
	upload(schema.NewSetAttributeClaim(pn, "title", "old"), -2*time.Second)
	upload(schema.NewAddAttributeClaim(pn, "tag", "a"), -1*time.Second)
	upload(schema.NewAddAttributeClaim(pn, "tag", "b"), 100*time.Millisecond)
	// The three newest claims, all in second :30.
	upload(schema.NewSetAttributeClaim(pn, "title", "new"), 600*time.Millisecond)
	upload(schema.NewDelAttributeClaim(pn, "tag", "a"), 700*time.Millisecond)
	upload(schema.NewAddAttributeClaim(pn, "tag", "c"), 800*time.Millisecond)

	loaded, err := index.NewCorpusFromStorage(idx.Storage())
	if err != nil {
		t.Fatal(err)
	}

	claims, err := idx.AppendClaims(ctx, nil, pn, indextest.KeyID, "")
	if err != nil {
		t.Fatal(err)
	}
	if len(claims) != 6 {
		t.Fatalf("got %d claims, want 6", len(claims))
	}

	ats := map[string]time.Time{
		"same second, before the 3 newest": base.Add(300 * time.Millisecond),
		"same second, before the 2 newest": base.Add(650 * time.Millisecond),
		"same second, before the newest":   base.Add(750 * time.Millisecond),
		"previous second":                  base.Add(-500 * time.Millisecond),
		"after everything":                 base.Add(2 * time.Second),
		"zero":                             {},
	}
	for name, at := range ats {
		for _, signer := range []string{"", indextest.KeyID} {
			for _, attr := range []string{"title", "tag"} {
				refAt := at
				if refAt.IsZero() {
					refAt = base.Add(time.Hour)
				}
				want := mut5C07Bug1Replay(claims, attr, refAt)
				wantFirst := ""
				if len(want) > 0 {
					wantFirst = want[0]
				}
				for cname, c := range map[string]*index.Corpus{"live corpus": live, "loaded corpus": loaded} {
					got := c.AppendPermanodeAttrValues(nil, pn, attr, at, signer)
					if len(got) != len(want) || (len(want) > 0 && !reflect.DeepEqual(got, want)) {
						t.Errorf("%s, at %s, signer %q: AppendPermanodeAttrValues(%q) = %q; want %q", cname, name, signer, attr, got, want)
					}
					if got := c.PermanodeAttrValue(pn, attr, at, signer); got != wantFirst {
						t.Errorf("%s, at %s, signer %q: PermanodeAttrValue(%q) = %q; want %q", cname, name, signer, attr, got, wantFirst)
					}
				}
			}
		}
	}

	at := base.Add(300 * time.Millisecond)
	if live.PermanodeHasAttrValue(pn, at, "title", "new") {
		t.Errorf("PermanodeHasAttrValue(title, new) at :30.3 = true; the claim is dated :30.6")
	}
	if !live.PermanodeHasAttrValue(pn, at, "tag", "a") {
		t.Errorf("PermanodeHasAttrValue(tag, a) at :30.3 = false; the del claim is dated :30.7")
	}
}

// Same thing, on a hand-made corpus, without signatures.
func TestMut5C07Bug1SubSecondHistoryUnit(t *testing.T) {
	c := index.ExpNewCorpus()
	pn := blob.MustParse("abc-123")
	sig := indextest.PubKey.BlobRef()
	if err := c.Exp_AddKeyID(sig, indextest.KeyID); err != nil {
		t.Fatal(err)
	}
	base := time.Unix(1000, 0)
	c.SetClaims(pn, []*camtypes.Claim{
		{Type: "set-attribute", Attr: "title", Value: "old", Date: base.Add(100 * time.Millisecond), Signer: sig},
		{Type: "set-attribute", Attr: "title", Value: "new", Date: base.Add(600 * time.Millisecond), Signer: sig},
	})
	at := base.Add(300 * time.Millisecond)
	if got := c.PermanodeAttrValue(pn, "title", at, ""); got != "old" {
		t.Errorf("PermanodeAttrValue at +300ms = %q; want %q", got, "old")
	}
	if got := c.PermanodeAttrValue(pn, "title", at, indextest.KeyID); got != "old" {
		t.Errorf("PermanodeAttrValue at +300ms for the signer = %q; want %q", got, "old")
	}
	if got := c.AppendPermanodeAttrValues(nil, pn, "title", at, ""); !reflect.DeepEqual(got, []string{"old"}) {
		t.Errorf("AppendPermanodeAttrValues at +300ms = %q; want [old]", got)
	}
}
