package search_test

import (
	"testing"
	"time"

	"go4.org/types"
	"perkeep.org/pkg/blob"
	. "perkeep.org/pkg/search"
)

// A lower time bound is a lower bound whatever its value, including
// when it is the Unix epoch and some permanodes are about older things.
func TestMut5C08Bug3TimeAfterEpoch(t *testing.T) {
	testQueryTypes(t, memIndexTypes, func(qt *queryTest) {
		id := qt.id
		mk := func(key, created string) blob.Ref {
			pn := id.NewPlannedPermanode(key)
			id.SetAttribute(pn, "tag", "doc")
			id.SetAttribute(pn, "dateCreated", created)
			return pn
		}
		fifties := mk("1", "1955-11-12T22:04:00Z")
		moon := mk("2", "1969-07-20T20:17:40Z")
		epochPlus := mk("3", "1970-01-01T00:00:01Z")
		eighties := mk("4", "1985-10-26T01:21:00Z")
		y2k := mk("5", "2000-01-01T00:00:00Z")

		epoch := time.Unix(0, 0).UTC()
		pc := func(tc *TimeConstraint) *Constraint {
			return &Constraint{Permanode: &PermanodeConstraint{
				Attr:  "tag",
				Value: "doc",
				Time:  tc,
			}}
		}

		// One second before the epoch: a plain lower bound.
		qt.wantRes(&SearchQuery{
			Constraint: pc(&TimeConstraint{After: types.Time3339(epoch.Add(-time.Second))}),
			Sort:       BlobRefAsc,
		}, epochPlus, eighties, y2k)

		// The epoch itself: the same result, since no permanode is in between.
		for _, st := range []SortType{BlobRefAsc, CreatedDesc, CreatedAsc, LastModifiedDesc} {
			qt.wantRes(&SearchQuery{
				Constraint: pc(&TimeConstraint{After: types.Time3339(epoch)}),
				Sort:       st,
			}, epochPlus, eighties, y2k)
		}

		// With an upper bound as well.
		qt.wantRes(&SearchQuery{
			Constraint: pc(&TimeConstraint{
				After:  types.Time3339(epoch),
				Before: types.Time3339(time.Date(1990, 1, 1, 0, 0, 0, 0, time.UTC)),
			}),
			Sort: BlobRefAsc,
		}, epochPlus, eighties)

		// Under a negation: everything older than the epoch.
		qt.wantRes(&SearchQuery{
			Constraint: &Constraint{Logical: &LogicalConstraint{
				Op: "and",
				A:  pc(nil),
				B: &Constraint{Logical: &LogicalConstraint{
					Op: "not",
					A:  pc(&TimeConstraint{After: types.Time3339(epoch)}),
				}},
			}},
			Sort: BlobRefAsc,
		}, fifties, moon)
	})
}
