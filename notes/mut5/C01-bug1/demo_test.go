package blobpacked

import (
	"bytes"
	"context"
	"io"
	"math/rand"
	"testing"

	"perkeep.org/pkg/blob"
	"perkeep.org/pkg/blobserver"
	"perkeep.org/pkg/schema"
	"perkeep.org/pkg/sorted"
	"perkeep.org/pkg/test"
)

// TestMutRepeatedChunkFile packs a file whose parts name the same data
// blob twice (A B A C), then checks every blob of the file against a
// reference map: fetch, ranged fetch, stat and enumerate.
func TestMutRepeatedChunkFile(t *testing.T) {
	ctx := context.Background()
	small, large := new(test.Fetcher), new(test.Fetcher)
	sto := &storage{
		small: small,
		large: large,
		meta:  sorted.NewMemoryKeyValue(),
		log:   test.NewLogger(t, "blobpacked: "),
	}
	sto.init()

	rnd := rand.New(rand.NewSource(42))
	chunk := func(n int) []byte {
		b := make([]byte, n)
		rnd.Read(b)
		return b
	}
	want := map[blob.Ref][]byte{}
	add := func(b []byte) blob.Ref {
		br := blob.RefFromBytes(b)
		want[br] = b
		return br
	}
	a, b, c := chunk(200<<10), chunk(150<<10), chunk(250<<10)
	ra, rb, rc := add(a), add(b), add(c)

	parts := []schema.BytesPart{
		{Size: uint64(len(a)), BlobRef: ra},
		{Size: uint64(len(b)), BlobRef: rb},
		{Size: uint64(len(a)), BlobRef: ra},
		{Size: uint64(len(c)), BlobRef: rc},
	}
	total := int64(2*len(a) + len(b) + len(c))
	fm := schema.NewFileMap("repeated.bin")
	if err := fm.PopulateParts(total, parts); err != nil {
		t.Fatal(err)
	}
	fjson, err := fm.JSON()
	if err != nil {
		t.Fatal(err)
	}
	rf := add([]byte(fjson))

	// data first, then the file schema blob, which triggers the packing
	for _, br := range []blob.Ref{ra, rb, rc, rf} {
		sb, err := blobserver.Receive(ctx, sto, br, bytes.NewReader(want[br]))
		if err != nil {
			t.Fatalf("receive %v: %v", br, err)
		}
		if int(sb.Size) != len(want[br]) {
			t.Fatalf("receive %v: size %d, want %d", br, sb.Size, len(want[br]))
		}
	}
	if large.NumBlobs() != 1 {
		t.Fatalf("file was not packed: %d zips in large (precondition of this test)", large.NumBlobs())
	}

	for br, data := range want {
		r, size, err := sto.Fetch(ctx, br)
		if err != nil {
			t.Errorf("fetch %v: %v", br, err)
			continue
		}
		got, err := io.ReadAll(r)
		r.Close()
		if err != nil {
			t.Errorf("read %v: %v", br, err)
			continue
		}
		if int(size) != len(data) || !bytes.Equal(got, data) {
			t.Errorf("fetch %v (%d bytes): content differs from what was received (got %d bytes, hash %v)",
				br, len(data), len(got), blob.RefFromBytes(got))
		}
		sr, err := sto.SubFetch(ctx, br, 10, 100)
		if err != nil {
			t.Errorf("subfetch %v: %v", br, err)
			continue
		}
		got, _ = io.ReadAll(sr)
		sr.Close()
		if !bytes.Equal(got, data[10:110]) {
			t.Errorf("subfetch %v [10,110): content differs", br)
		}
		sb, err := blobserver.StatBlob(ctx, sto, br)
		if err != nil || int(sb.Size) != len(data) {
			t.Errorf("stat %v = %v, %v; want size %d", br, sb, err, len(data))
		}
	}

	n := 0
	if err := blobserver.EnumerateAll(ctx, sto, func(sb blob.SizedRef) error {
		n++
		if d, ok := want[sb.Ref]; !ok || len(d) != int(sb.Size) {
			t.Errorf("enumerate: unexpected %v", sb)
		}
		return nil
	}); err != nil {
		t.Fatal(err)
	}
	if n != len(want) {
		t.Errorf("enumerated %d blobs, want %d", n, len(want))
	}
}
