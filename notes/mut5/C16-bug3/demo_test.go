package jsonsign_test

import (
	"bytes"
	"context"
	"fmt"
	"strings"
	"testing"
	"time"

	"golang.org/x/crypto/openpgp"
	"golang.org/x/crypto/openpgp/packet"
	"perkeep.org/pkg/jsonsign"
	"perkeep.org/pkg/test"
)

// detachedCamliSig returns the single-line camliSig value of a detached
// signature of payload made by ent.
func mut3DetachedCamliSig(t *testing.T, ent *openpgp.Entity, payload string) string {
	t.Helper()
	var buf bytes.Buffer
	cfg := &packet.Config{Time: func() time.Time { return time.Unix(1300000000, 0) }}
	if err := openpgp.ArmoredDetachSign(&buf, ent, strings.NewReader(payload), cfg); err != nil {
		t.Fatalf("ArmoredDetachSign: %v", err)
	}
	out := buf.String()
	i1 := strings.Index(out, "\n\n")
	i2 := strings.Index(out, "\n-----")
	if i1 < 0 || i2 < 0 {
		t.Fatalf("unexpected armor: %q", out)
	}
	return strings.ReplaceAll(out[i1+2:i2], "\n", "")
}

// A document naming the victim's key, but carrying a signature made by a
// completely different key, must never verify -- whatever public-key
// algorithm identifier the foreign signature packet advertises.
func TestMut3SignatureByOtherKeyAlgoMismatch(t *testing.T) {
	ctx := context.Background()

	victim, err := jsonsign.NewEntity()
	if err != nil {
		t.Fatal(err)
	}
	victimArmor, err := jsonsign.ArmoredPublicKey(victim)
	if err != nil {
		t.Fatal(err)
	}
	victimBlob := &test.Blob{Contents: victimArmor}
	fetcher := &test.Fetcher{}
	fetcher.AddBlob(victimBlob)

	payload := fmt.Sprintf(`{"camliVersion": 1, "camliSigner": %q, "camliType": "claim", "value": "forged"`,
		victimBlob.BlobRef().String())

	// Sanity: the victim's own signature verifies.
	good := payload + `,"camliSig":"` + mut3DetachedCamliSig(t, victim, payload) + "\"}\n"
	if _, err := jsonsign.NewVerificationRequest(good, fetcher).Verify(ctx); err != nil {
		t.Fatalf("genuine signature did not verify: %v", err)
	}

	attacker, err := jsonsign.NewEntity()
	if err != nil {
		t.Fatal(err)
	}
	for _, algo := range []packet.PublicKeyAlgorithm{
		packet.PubKeyAlgoRSA,         // plain re-sign by another key
		packet.PubKeyAlgoRSASignOnly, // same RSA key, advertised as "RSA sign-only" (3)
	} {
		attacker.PrivateKey.PubKeyAlgo = algo
		forged := payload + `,"camliSig":"` + mut3DetachedCamliSig(t, attacker, payload) + "\"}\n"
		vr := jsonsign.NewVerificationRequest(forged, fetcher)
		if _, err := vr.Verify(ctx); err == nil {
			t.Errorf("algo %d: document naming the victim's key but signed by another key VERIFIED (SignerKeyId=%s, payload=%v)",
				algo, vr.SignerKeyId, vr.PayloadMap)
		} else {
			t.Logf("algo %d: correctly rejected: %v", algo, vr.Err)
		}
	}
}
