package cond

import (
	"bytes"
	"context"
	"fmt"
	"io"
	"math/rand"
	"sync"
	"testing"
	"time"

	"perkeep.org/pkg/blob"
	"perkeep.org/pkg/blobserver"
	"perkeep.org/pkg/blobserver/memory"
	"perkeep.org/pkg/test"
)

// mutSlowStorage is a storage whose ReceiveBlob can be delayed at its entry,
// before it reads anything from the source (a slow lower layer).
type mutSlowStorage struct {
	blobserver.Storage
	// enter, if non-nil, is called at the start of ReceiveBlob.
	enter func(br blob.Ref)
}

func (s *mutSlowStorage) ReceiveBlob(ctx context.Context, br blob.Ref, src io.Reader) (blob.SizedRef, error) {
	if s.enter != nil {
		s.enter(br)
	}
	return s.Storage.ReceiveBlob(ctx, br, src)
}

func mutNewCond(t *testing.T, enter func(blob.Ref)) (sto *condStorage, schemaSto, otherSto *mutSlowStorage) {
	ld := test.NewLoader()
	schemaSto = &mutSlowStorage{Storage: &memory.Storage{}, enter: enter}
	otherSto = &mutSlowStorage{Storage: &memory.Storage{}, enter: enter}
	ld.SetStorage("/good-schema/", schemaSto)
	ld.SetStorage("/good-other/", otherSto)
	sto = newCond(t, ld, map[string]any{
		"write": map[string]any{
			"if":   "isSchema",
			"then": "/good-schema/",
			"else": "/good-other/",
		},
		"read":   "/good-other/",
		"remove": "/good-other/",
	})
	return
}

func mutFetch(t *testing.T, sto blobserver.Storage, br blob.Ref) []byte {
	rc, _, err := sto.Fetch(context.Background(), br)
	if err != nil {
		t.Fatalf("Fetch(%v): %v", br, err)
	}
	defer rc.Close()
	b, err := io.ReadAll(rc)
	if err != nil {
		t.Fatal(err)
	}
	return b
}

// TestMutConcurrentReceives uploads through a "write if isSchema" cond
// storage from several clients at once: every upload must be acknowledged
// and every acknowledged blob must be stored intact, however the destination
// storages interleave.
func TestMutConcurrentReceives(t *testing.T) {
	ctx := context.Background()

	// Two uploads; the destination of the first one is slow to start reading.
	t.Run("two-uploads", func(t *testing.T) {
		blobA := bytes.Repeat([]byte("AAAAAAAAAA"), 60)
		blobB := bytes.Repeat([]byte("BBBBBBBBBB"), 60)
		refA, refB := blob.RefFromBytes(blobA), blob.RefFromBytes(blobB)

		entered := make(chan struct{})
		release := make(chan struct{})
		sto, _, otherSto := mutNewCond(t, func(br blob.Ref) {
			if br == refA {
				close(entered)
				<-release
			}
		})

		errA := make(chan error, 1)
		go func() {
			_, err := blobserver.Receive(ctx, sto, refA, bytes.NewReader(blobA))
			errA <- err
		}()
		select {
		case <-entered:
		case <-time.After(10 * time.Second):
			t.Fatal("upload of A never reached its destination storage")
		}
		// A is routed and waits for its destination. B is uploaded meanwhile.
		if _, err := blobserver.Receive(ctx, sto, refB, bytes.NewReader(blobB)); err != nil {
			t.Fatalf("upload of B: %v", err)
		}
		close(release)
		if err := <-errA; err != nil {
			t.Fatalf("upload of A (%v) failed because B was uploaded at the same time: %v", refA, err)
		}
		if got := mutFetch(t, otherSto, refA); !bytes.Equal(got, blobA) {
			t.Errorf("stored A = %q...; want %q...", got[:20], blobA[:20])
		}
		if got := mutFetch(t, otherSto, refB); !bytes.Equal(got, blobB) {
			t.Errorf("stored B = %q...; want %q...", got[:20], blobB[:20])
		}
	})

	// Many clients, destinations perturbed by small random delays.
	t.Run("many-clients", func(t *testing.T) {
		var rndMu sync.Mutex
		rnd := rand.New(rand.NewSource(1))
		sto, schemaSto, otherSto := mutNewCond(t, func(blob.Ref) {
			rndMu.Lock()
			d := time.Duration(rnd.Intn(300)) * time.Microsecond
			rndMu.Unlock()
			time.Sleep(d)
		})
		const nClients, perClient = 8, 40
		type upload struct {
			ref      blob.Ref
			contents []byte
			schema   bool
		}
		var mu sync.Mutex
		var acked []upload
		var wg sync.WaitGroup
		for c := 0; c < nClients; c++ {
			wg.Add(1)
			go func(c int) {
				defer wg.Done()
				for i := 0; i < perClient; i++ {
					var u upload
					if i%3 == 0 {
						u.schema = true
						u.contents = []byte(fmt.Sprintf(`{"camliVersion": 1, "camliType": "foo", "client": %d, "n": %d}`, c, i))
					} else {
						u.contents = bytes.Repeat([]byte(fmt.Sprintf("c%02d-%03d;", c, i)), 20+i)
					}
					u.ref = blob.RefFromBytes(u.contents)
					if _, err := blobserver.Receive(ctx, sto, u.ref, bytes.NewReader(u.contents)); err != nil {
						t.Errorf("client %d upload %d (%v): %v", c, i, u.ref, err)
						continue
					}
					mu.Lock()
					acked = append(acked, u)
					mu.Unlock()
				}
			}(c)
		}
		wg.Wait()
		for _, u := range acked {
			var from blobserver.Storage = otherSto
			if u.schema {
				from = schemaSto
			}
			if got := mutFetch(t, from, u.ref); !bytes.Equal(got, u.contents) {
				t.Errorf("acknowledged blob %v stored with other content", u.ref)
			}
		}
	})
}
