package index_test

import (
	"context"
	"fmt"
	"sort"
	"strings"
	"testing"
	"time"

	"perkeep.org/pkg/index"
	"perkeep.org/pkg/index/indextest"
	"perkeep.org/pkg/schema"
	"perkeep.org/pkg/sorted"
	"perkeep.org/pkg/test"
)

func mut2Rows(t *testing.T, s sorted.KeyValue) map[string]string {
	t.Helper()
	rows := make(map[string]string)
	it := s.Find("", "")
	for it.Next() {
		rows[it.Key()] = it.Value()
	}
	if err := it.Close(); err != nil {
		t.Fatal(err)
	}
	return rows
}

func mut2Diff(want, got map[string]string) []string {
	var d []string
	for k, v := range want {
		if gv, ok := got[k]; !ok {
			d = append(d, fmt.Sprintf("missing row %q = %q", k, v))
		} else if gv != v {
			d = append(d, fmt.Sprintf("row %q = %q; want %q", k, gv, v))
		}
	}
	for k, v := range got {
		if _, ok := want[k]; !ok {
			d = append(d, fmt.Sprintf("extra row %q = %q", k, v))
		}
	}
	sort.Strings(d)
	return d
}

// A delete claim arrives before the permanode it deletes, the index is
// restarted (reopened on the same key/value rows), then the permanode arrives.
// The index must end in the same state as when the permanode arrived first,
// and in between the delete claim must be remembered as pending.
func TestMut2DeleteBeforeTargetAcrossRestart(t *testing.T) {
	ctx := context.Background()

	// Reference: target first, then the delete claim.
	sRef := sorted.NewMemoryKeyValue()
	ixRef, err := index.New(sRef)
	if err != nil {
		t.Fatal(err)
	}
	id := indextest.NewIndexDeps(ixRef)
	id.Fataler = t

	pn := id.Sign(schema.NewUnsignedPermanode())
	delb := schema.NewDeleteClaim(pn.BlobRef())
	delb.SetClaimDate(test.ClockOrigin.Add(42 * time.Second))
	del := id.Sign(delb)

	id.Upload(pn)
	id.Upload(del)
	ixRef.Exp_AwaitAsyncIndexing(t)
	want := mut2Rows(t, sRef)
	if !ixRef.IsDeleted(pn.BlobRef()) {
		t.Fatal("reference index: permanode not deleted")
	}

	// Out of order, with a restart in the middle.
	s := sorted.NewMemoryKeyValue()
	src := new(test.Fetcher)
	open := func() *index.Index {
		ix, err := index.New(s)
		if err != nil {
			t.Fatal(err)
		}
		ix.KeyFetcher = id.PublicKeyFetcher
		ix.InitBlobSource(src)
		return ix
	}
	receive := func(ix *index.Index, b *test.Blob) {
		src.AddBlob(b)
		if _, err := ix.ReceiveBlob(ctx, b.BlobRef(), b.Reader()); err != nil {
			t.Fatalf("ReceiveBlob(%v): %v", b.BlobRef(), err)
		}
		ix.Exp_AwaitAsyncIndexing(t)
	}

	ix1 := open()
	receive(ix1, del)
	pendingKey := fmt.Sprintf("missing|%s|%s", del.BlobRef(), pn.BlobRef())
	if v, err := s.Get(pendingKey); err != nil || v == "" {
		t.Errorf("after the delete claim arrived without its target, row %q is absent (err %v): the claim is not remembered as pending", pendingKey, err)
	}

	ix2 := open() // restart
	receive(ix2, pn)

	got := mut2Rows(t, s)
	if d := mut2Diff(want, got); len(d) > 0 {
		t.Errorf("index after [delete claim, restart, permanode] differs from index after [permanode, delete claim]:\n  %s", strings.Join(d, "\n  "))
	}
	if !ix2.IsDeleted(pn.BlobRef()) {
		t.Errorf("permanode %v is not deleted in the restarted index", pn.BlobRef())
	}
}
