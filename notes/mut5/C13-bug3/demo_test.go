package overlay

import (
	"context"
	"errors"
	"sync/atomic"
	"testing"
	"time"

	"perkeep.org/pkg/blob"
	"perkeep.org/pkg/blobserver"
	"perkeep.org/pkg/sorted"
	"perkeep.org/pkg/test"
)

// mutFlakyKV is a sorted.KeyValue whose next Get fails when armed (once).
type mutFlakyKV struct {
	sorted.KeyValue
	failNextGet atomic.Bool
}

var errMutKV = errors.New("injected transient failure of the deleted index")

func (kv *mutFlakyKV) Get(key string) (string, error) {
	if kv.failNextGet.CompareAndSwap(true, false) {
		return "", errMutKV
	}
	return kv.KeyValue.Get(key)
}

// One lookup in the "deleted" index fails while the overlay enumerates: that
// EnumerateBlobs call must fail in bounded time, and the next one must list
// exactly what the reference says.
func TestMutEnumerateDeletedIndexFault(t *testing.T) {
	lower := new(test.Fetcher)
	upper := new(test.Fetcher)
	kv := &mutFlakyKV{KeyValue: sorted.NewMemoryKeyValue()}
	sto := &overlayStorage{lower: lower, upper: upper, deleted: kv}

	var want []blob.SizedRef
	var all []*test.Blob
	for _, c := range []string{"lower 0", "lower 1", "lower 2", "lower 3"} {
		b := &test.Blob{Contents: c}
		lower.AddBlob(b)
		all = append(all, b)
	}
	up := &test.Blob{Contents: "upper 0"}
	if _, err := blobserver.Receive(ctxbg, sto, up.BlobRef(), up.Reader()); err != nil {
		t.Fatal(err)
	}
	all = append(all, up)
	// remove one of the lower blobs through the overlay
	if err := sto.RemoveBlobs(ctxbg, []blob.Ref{all[1].BlobRef()}); err != nil {
		t.Fatal(err)
	}
	for i, b := range all {
		if i != 1 {
			want = append(want, b.SizedRef())
		}
	}

	enumerate := func() ([]blob.SizedRef, error, bool) {
		type res struct {
			got []blob.SizedRef
			err error
		}
		resc := make(chan res, 1)
		go func() {
			dest := make(chan blob.SizedRef)
			errc := make(chan error, 1)
			go func() { errc <- sto.EnumerateBlobs(context.Background(), dest, "", 100) }()
			var got []blob.SizedRef
			for sb := range dest {
				got = append(got, sb)
			}
			resc <- res{got, <-errc}
		}()
		select {
		case r := <-resc:
			return r.got, r.err, true
		case <-time.After(5 * time.Second):
			return nil, nil, false
		}
	}

	// The first lookup of the enumeration fails.
	kv.failNextGet.Store(true)
	_, err, returned := enumerate()
	if !returned {
		t.Fatalf("EnumerateBlobs still blocked 5s after a lookup in the deleted index failed")
	}
	if err == nil {
		t.Fatalf("EnumerateBlobs with a failing deleted index returned no error")
	}
	t.Logf("EnumerateBlobs failed as expected: %v", err)

	// The failure is over.
	got, err, returned := enumerate()
	if !returned || err != nil {
		t.Fatalf("EnumerateBlobs after the failure: returned=%v, err=%v", returned, err)
	}
	if len(got) != len(want) {
		t.Fatalf("EnumerateBlobs after the failure = %v; want %d blobs", got, len(want))
	}
	wantSet := map[blob.SizedRef]bool{}
	for _, sb := range want {
		wantSet[sb] = true
	}
	for _, sb := range got {
		if !wantSet[sb] {
			t.Errorf("EnumerateBlobs after the failure lists unexpected %v", sb)
		}
	}
}
