package encrypt

import (
	"fmt"
	"testing"
	"time"

	"perkeep.org/pkg/blob"
)

// TestMut5C11Bug1MultiBatchCompaction builds a history in which the small-meta
// heap holds 101 medium sized meta blobs whose lines add up to well over
// FullMetaBlobSize, with the threshold being crossed in the middle of the
// compaction loop (so that two packed meta blobs are made by one compaction).
// After the compaction, the meta index is dropped and rebuilt from the meta
// store alone: every plaintext ref must still map to its ciphertext.
func TestMut5C11Bug1MultiBatchCompaction(t *testing.T) {
	ts := newTestStorage()

	want := map[string]string{} // plain ref -> index value
	total := 0
	addGroup := func(g, n int) {
		plains := make([]blob.Ref, 0, n)
		for i := 0; i < n; i++ {
			p := blob.RefFromString(fmt.Sprintf("plain-%d-%d", g, i))
			e := blob.RefFromString(fmt.Sprintf("enc-%d-%d", g, i))
			v := packIndexEntry(uint32(10+i), e)
			if err := ts.sto.index.Set(p.String(), v); err != nil {
				t.Fatal(err)
			}
			want[p.String()] = v
			plains = append(plains, p)
		}
		total += n
		// Synchronously writes one (not full) packed meta blob holding
		// these lines, and records it in the small-meta heap.
		ts.sto.makePackedMetaBlob(plains, nil)
	}

	// 90 metas of 120 lines and 11 metas of 500 lines: 101 small metas.
	// The 101st recordMeta triggers the compaction. The heap pops the
	// smallest first: 84*120 = 10080 > FullMetaBlobSize is reached after 84
	// metas; the other 6*120 + 11*500 = 6220 lines go to a second packed blob.
	g := 0
	for ; g < 90; g++ {
		addGroup(g, 120)
	}
	for ; g < 101; g++ {
		addGroup(g, 500)
	}

	// Wait for the background packing to finish: the 101 small metas are
	// replaced by 2 packed ones.
	deadline := time.Now().Add(30 * time.Second)
	last, lastChange := ts.meta.NumBlobs(), time.Now()
	for time.Now().Before(deadline) {
		n := ts.meta.NumBlobs()
		if n != last {
			last, lastChange = n, time.Now()
		}
		if n == 2 {
			break
		}
		if n != 101 && time.Since(lastChange) > 3*time.Second {
			break
		}
		time.Sleep(20 * time.Millisecond)
	}
	time.Sleep(200 * time.Millisecond)
	t.Logf("meta store holds %d blobs after compaction (want 2)", ts.meta.NumBlobs())

	// Restart with a wiped meta index: recover from the wrapped stores alone.
	ts2 := newTestStorage()
	ts2.meta, ts2.blobs = ts.meta, ts.blobs
	ts2.sto.meta, ts2.sto.blobs = ts.meta, ts.blobs
	if err := ts2.sto.readAllMetaBlobs(); err != nil {
		t.Fatalf("start-up scan after compaction: %v", err)
	}
	missing, wrong := 0, 0
	for p, v := range want {
		got, err := ts2.sto.index.Get(p)
		if err != nil {
			missing++
			continue
		}
		if got != v {
			wrong++
		}
	}
	if missing != 0 || wrong != 0 {
		t.Fatalf("after compaction and restart: %d of %d plaintext refs are missing from the recovered mapping, %d map to the wrong ciphertext", missing, total, wrong)
	}
}
