package proxycache

import (
	"context"
	"errors"
	"io"
	"os"
	"strings"
	"sync/atomic"
	"testing"

	"perkeep.org/pkg/blob"
	"perkeep.org/pkg/blobserver"
	"perkeep.org/pkg/blobserver/memory"
)

// mutFlakyOrigin is a memory storage whose ReceiveBlob fails while
// failing is set (a full disk, a read-only or unreachable origin).
type mutFlakyOrigin struct {
	*memory.Storage
	failing atomic.Bool
}

var errMutOriginDown = errors.New("origin: cannot store blob")

func (o *mutFlakyOrigin) ReceiveBlob(ctx context.Context, br blob.Ref, src io.Reader) (blob.SizedRef, error) {
	if o.failing.Load() {
		io.Copy(io.Discard, src)
		return blob.SizedRef{}, errMutOriginDown
	}
	return o.Storage.ReceiveBlob(ctx, br, src)
}

// TestMutFailedReceiveLeavesNoTrace: a receive that the proxycache reports
// as failed must leave the blob absent from every read path, as in a
// reference map in which the failed receive never happened.
func TestMutFailedReceiveLeavesNoTrace(t *testing.T) {
	ctx := context.Background()
	origin := &mutFlakyOrigin{Storage: &memory.Storage{}}
	px := New(1<<20, memory.NewCache(1<<20), origin)

	const contents = "some blob that the origin refuses"
	br := blob.RefFromString(contents)

	origin.failing.Store(true)
	if _, err := blobserver.Receive(ctx, px, br, strings.NewReader(contents)); err == nil {
		t.Fatal("receive succeeded although the origin failed (precondition of this test)")
	}
	origin.failing.Store(false)

	checkAbsent := func(when string) {
		t.Helper()
		if rc, _, err := px.Fetch(ctx, br); err == nil {
			rc.Close()
			t.Errorf("%s: Fetch found the blob; want os.ErrNotExist", when)
		} else if !errors.Is(err, os.ErrNotExist) {
			t.Errorf("%s: Fetch error = %v; want os.ErrNotExist", when, err)
		}
		if rc, err := px.SubFetch(ctx, br, 0, 4); err == nil {
			rc.Close()
			t.Errorf("%s: SubFetch found the blob; want os.ErrNotExist", when)
		}
		if sb, err := blobserver.StatBlob(ctx, px, br); err == nil {
			t.Errorf("%s: stat found %v; want not found", when, sb)
		}
		n := 0
		if err := blobserver.EnumerateAll(ctx, px, func(blob.SizedRef) error { n++; return nil }); err != nil {
			t.Fatal(err)
		}
		if n != 0 {
			t.Errorf("%s: enumerate lists %d blobs; want 0", when, n)
		}
	}
	checkAbsent("after the failed receive")

	// and once the origin is back, the blob can be stored and removed as usual
	if _, err := blobserver.Receive(ctx, px, br, strings.NewReader(contents)); err != nil {
		t.Fatalf("second receive: %v", err)
	}
	rc, size, err := px.Fetch(ctx, br)
	if err != nil {
		t.Fatalf("fetch after the second receive: %v", err)
	}
	got, _ := io.ReadAll(rc)
	rc.Close()
	if string(got) != contents || int(size) != len(contents) {
		t.Errorf("fetch after the second receive = %q (size %d)", got, size)
	}
	if err := px.RemoveBlobs(ctx, []blob.Ref{br}); err != nil {
		t.Fatal(err)
	}
	checkAbsent("after the removal")
}
