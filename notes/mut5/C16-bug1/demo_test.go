package jsonsign_test

import (
	"context"
	"encoding/json"
	"fmt"
	"reflect"
	"strings"
	"testing"
	"time"

	"golang.org/x/crypto/openpgp"
	"perkeep.org/pkg/jsonsign"
	"perkeep.org/pkg/test"
)

type mut1EntityFetcher struct{ ent *openpgp.Entity }

func (f mut1EntityFetcher) FetchEntity(string) (*openpgp.Entity, error) { return f.ent, nil }

// Any valid JSON object with camliVersion/camliSigner must be signable, and
// the result must verify and expose the original fields -- including objects
// whose content happens to contain the 13 bytes `,"camliSig":"` (a member
// named camliSig in a nested object, or even at top level).
func TestMut1SignObjectsWithCamliSigLookAlikes(t *testing.T) {
	ctx := context.Background()
	ent, err := jsonsign.NewEntity()
	if err != nil {
		t.Fatal(err)
	}
	armor, err := jsonsign.ArmoredPublicKey(ent)
	if err != nil {
		t.Fatal(err)
	}
	pub := &test.Blob{Contents: armor}
	fetcher := &test.Fetcher{}
	fetcher.AddBlob(pub)
	ref := pub.BlobRef().String()

	docs := map[string]string{
		"plain (control)": fmt.Sprintf(`{"camliVersion": 1, "camliSigner": %q, "foo": "bar"}`, ref),
		"spaced look-alike (control)": fmt.Sprintf(
			`{"camliVersion": 1, "camliSigner": %q, "quoted": {"a": 1, "camliSig": "wsBcBAABCAAQ"}}`, ref),
		"nested member": fmt.Sprintf(
			`{"camliVersion":1,"camliSigner":%q,"quoted":{"a":1,"camliSig":"wsBcBAABCAAQ=abcd"},"z":true}`, ref),
		"nested in array": fmt.Sprintf(
			`{"camliVersion":1,"camliSigner":%q,"list":[{"k":"v","camliSig":"x"}]}`, ref),
		"top-level member": fmt.Sprintf(
			`{"camliVersion":1,"camliSigner":%q,"camliSig":"not really","after":"ü"}`, ref),
	}
	for name, unsigned := range docs {
		var want map[string]any
		if err := json.Unmarshal([]byte(unsigned), &want); err != nil {
			t.Fatalf("%s: test input is not valid JSON: %v", name, err)
		}
		sr := &jsonsign.SignRequest{
			UnsignedJSON:  unsigned,
			Fetcher:       fetcher,
			EntityFetcher: mut1EntityFetcher{ent},
			SignatureTime: time.Unix(1400000000, 0),
		}
		signed, err := sr.Sign(ctx)
		if err != nil {
			t.Errorf("%s: Sign(%s) failed: %v", name, unsigned, err)
			continue
		}
		if !json.Valid([]byte(signed)) {
			t.Errorf("%s: signed document is not valid JSON: %s", name, signed)
		}
		vr := jsonsign.NewVerificationRequest(signed, fetcher)
		if _, err := vr.Verify(ctx); err != nil {
			t.Errorf("%s: signed document does not verify: %v", name, err)
			continue
		}
		if !reflect.DeepEqual(vr.PayloadMap, want) {
			t.Errorf("%s: PayloadMap = %v; want %v", name, vr.PayloadMap, want)
		}
		if !strings.HasPrefix(signed, strings.TrimSuffix(unsigned, "}")) {
			t.Errorf("%s: signed document does not start with the unsigned payload", name)
		}
	}
}
