package buffer_test

import (
	"sync"
	"testing"
	"time"

	"perkeep.org/pkg/sorted"
	"perkeep.org/pkg/sorted/buffer"
)

// hookKV is the buffer-side store of the write buffer. It is a plain memory
// store whose full-scan iterator (the one Flush uses) calls a hook, once,
// when it is closed, i.e. right after Flush has finished scanning the buffer
// and before it moves the data to the backing store.
type hookKV struct {
	sorted.KeyValue
	mu   sync.Mutex
	hook func() // called at most once
}

type hookIter struct {
	sorted.Iterator
	kv *hookKV
}

func (kv *hookKV) Find(start, end string) sorted.Iterator {
	it := kv.KeyValue.Find(start, end)
	if start == "" && end == "" {
		return &hookIter{Iterator: it, kv: kv}
	}
	return it
}

func (it *hookIter) Close() error {
	err := it.Iterator.Close()
	it.kv.mu.Lock()
	h := it.kv.hook
	it.kv.hook = nil
	it.kv.mu.Unlock()
	if h != nil {
		h()
	}
	return err
}

// A Set (resp. Delete) that is issued while a Flush is in progress must not
// be lost: once both have returned, Get returns the last value set (resp.
// not found), before and after the next Flush, and so does the backing store
// after that Flush.
func TestMutDemoC10FlushVsWriter(t *testing.T) {
	for _, op := range []string{"set", "delete"} {
		t.Run(op, func(t *testing.T) {
			bufKV := &hookKV{KeyValue: sorted.NewMemoryKeyValue()}
			back := sorted.NewMemoryKeyValue()
			kv := buffer.New(bufKV, back, 1<<20)

			if err := kv.Set("k", "v1"); err != nil {
				t.Fatal(err)
			}
			if err := kv.Set("other", "x"); err != nil {
				t.Fatal(err)
			}

			writerDone := make(chan error, 1)
			bufKV.hook = func() {
				// Flush has scanned the buffer (it saw k=v1). A
				// concurrent writer comes in now.
				go func() {
					if op == "set" {
						writerDone <- kv.Set("k", "v2")
					} else {
						writerDone <- kv.Delete("k")
					}
				}()
				// Give it the chance to run, if the locking lets it.
				select {
				case err := <-writerDone:
					writerDone <- err
				case <-time.After(300 * time.Millisecond):
				}
			}
			if err := kv.Flush(); err != nil {
				t.Fatalf("Flush: %v", err)
			}
			select {
			case err := <-writerDone:
				if err != nil {
					t.Fatalf("concurrent %s: %v", op, err)
				}
			case <-time.After(10 * time.Second):
				t.Fatalf("concurrent %s never returned", op)
			}

			check := func(when string, s sorted.KeyValue) {
				t.Helper()
				v, err := s.Get("k")
				if op == "set" {
					if err != nil || v != "v2" {
						t.Errorf("%s: Get(k) = %q, %v; want \"v2\" (the last value set)", when, v, err)
					}
				} else {
					if err != sorted.ErrNotFound {
						t.Errorf("%s: Get(k) = %q, %v; want not found (k was deleted)", when, v, err)
					}
				}
				var keys []string
				it := s.Find("", "")
				for it.Next() {
					keys = append(keys, it.Key()+"="+it.Value())
				}
				if err := it.Close(); err != nil {
					t.Errorf("%s: iterator: %v", when, err)
				}
				want := "[k=v2 other=x]"
				if op == "delete" {
					want = "[other=x]"
				}
				if got := sprint(keys); got != want {
					t.Errorf("%s: scan = %s; want %s", when, got, want)
				}
			}
			check("after Flush and "+op, kv)
			if err := kv.Flush(); err != nil {
				t.Fatalf("second Flush: %v", err)
			}
			check("after second Flush", kv)
			check("backing store after second Flush", back)
		})
	}
}

func sprint(s []string) string {
	out := "["
	for i, v := range s {
		if i > 0 {
			out += " "
		}
		out += v
	}
	return out + "]"
}
