package replica

import (
	"context"
	"io"
	"testing"

	"perkeep.org/pkg/blob"
	"perkeep.org/pkg/blobserver"
	"perkeep.org/pkg/test"
)

// TestMutStatDistinctReadSet: a migration-style configuration with a single
// write backend and a larger, distinct read set (the new backend plus the old
// one). A blob held by any read replica must be fetchable, and stat and
// enumerate must report it exactly once, whether it is on the old backend
// only, on the new one only, or on both.
func TestMutStatDistinctReadSet(t *testing.T) {
	ctx := context.Background()
	ld := test.NewLoader()
	s, err := newFromConfig(ld, map[string]any{
		"backends":     []any{"/good-new/"},
		"readBackends": []any{"/good-new/", "/good-old/"},
	})
	if err != nil {
		t.Fatalf("newFromConfig: %v", err)
	}
	sto := s.(*replicaStorage)
	if len(sto.replicas) != 1 || len(sto.readReplicas) != 2 {
		t.Fatalf("got %d write and %d read replicas; want 1 and 2", len(sto.replicas), len(sto.readReplicas))
	}
	newSto, oldSto := sto.readReplicas[0], sto.readReplicas[1]

	onOld := &test.Blob{Contents: "only on the old backend"}
	onNew := &test.Blob{Contents: "only on the new backend"}
	onBoth := &test.Blob{Contents: "on both backends"}
	put := func(dst blobserver.Storage, tb *test.Blob) {
		t.Helper()
		if _, err := blobserver.Receive(ctx, dst, tb.BlobRef(), tb.Reader()); err != nil {
			t.Fatalf("Receive: %v", err)
		}
	}
	put(oldSto, onOld)
	put(oldSto, onBoth)
	// through the replicated store itself: goes to the (only) write replica.
	put(sto, onNew)
	put(sto, onBoth)
	if _, err := blobserver.StatBlob(ctx, newSto, onBoth.BlobRef()); err != nil {
		t.Fatalf("write replica doesn't have the blob written through the replicated store: %v", err)
	}

	all := []*test.Blob{onOld, onNew, onBoth}
	var refs []blob.Ref
	for _, tb := range all {
		refs = append(refs, tb.BlobRef())
		rc, size, err := sto.Fetch(ctx, tb.BlobRef())
		if err != nil {
			t.Errorf("Fetch(%q): %v", tb.Contents, err)
			continue
		}
		data, _ := io.ReadAll(rc)
		rc.Close()
		if string(data) != tb.Contents || int(size) != len(tb.Contents) {
			t.Errorf("Fetch(%q) = %q, size %d", tb.Contents, data, size)
		}
	}

	// stat: everything that is fetchable is reported exactly once.
	statted := map[blob.Ref]int{}
	if err := sto.StatBlobs(ctx, refs, func(sb blob.SizedRef) error {
		statted[sb.Ref]++
		return nil
	}); err != nil {
		t.Fatalf("StatBlobs: %v", err)
	}
	for _, tb := range all {
		if n := statted[tb.BlobRef()]; n != 1 {
			t.Errorf("StatBlobs reported blob %q %d times; want exactly once", tb.Contents, n)
		}
	}
	// one by one, as an uploader does before it sends a blob.
	for _, tb := range all {
		sb, err := blobserver.StatBlob(ctx, sto, tb.BlobRef())
		if err != nil {
			t.Errorf("StatBlob(%q): %v", tb.Contents, err)
		} else if int(sb.Size) != len(tb.Contents) {
			t.Errorf("StatBlob(%q) size = %d; want %d", tb.Contents, sb.Size, len(tb.Contents))
		}
	}

	// enumerate: same thing.
	enumerated := map[blob.Ref]int{}
	if err := blobserver.EnumerateAll(ctx, sto, func(sb blob.SizedRef) error {
		enumerated[sb.Ref]++
		return nil
	}); err != nil {
		t.Fatalf("EnumerateAll: %v", err)
	}
	for _, tb := range all {
		if n := enumerated[tb.BlobRef()]; n != 1 {
			t.Errorf("enumerate reported blob %q %d times; want exactly once", tb.Contents, n)
		}
	}
}
