package search_test

import (
	"fmt"
	"testing"

	"perkeep.org/pkg/blob"
	. "perkeep.org/pkg/search"
)

// pageThroughMut5Bug2 follows the continuation tokens of a limit-sized paged
// query and returns every blob seen, in order.
func pageThroughMut5Bug2(t *testing.T, h *Handler, sortType SortType, limit, maxPages int) []blob.Ref {
	var all []blob.Ref
	token := ""
	for page := 0; page < maxPages; page++ {
		res, err := h.Query(ctxbg, &SearchQuery{
			Constraint: &Constraint{Permanode: &PermanodeConstraint{}},
			Sort:       sortType,
			Limit:      limit,
			Continue:   token,
		})
		if err != nil {
			t.Fatalf("page %d: %v", page, err)
		}
		for _, b := range res.Blobs {
			all = append(all, b.Blob)
		}
		if res.Continue == "" {
			return all
		}
		token = res.Continue
	}
	t.Errorf("sort %v limit %d: still handed a continue token after %d pages", sortType, limit, maxPages)
	return all
}

// Both continuable sorts are used on the same (live) corpus, the world then
// grows, and both sorts are paged again: first "-created", then "-mod".
func TestMut5C09Bug2BothSortsAfterChange(t *testing.T) {
	testQueryTypes(t, []indexType{indexCorpusBuild}, func(qt *queryTest) {
		id := qt.id
		var pns []blob.Ref // in creation == modification order, oldest first
		for i := 0; i < 4; i++ {
			pn := id.NewPlannedPermanode(fmt.Sprintf("first-%d", i))
			id.SetAttribute(pn, "title", fmt.Sprintf("first %d", i))
			pns = append(pns, pn)
		}
		h := qt.Handler()

		newestFirst := func(l []blob.Ref) []blob.Ref {
			r := make([]blob.Ref, len(l))
			for i, v := range l {
				r[len(l)-1-i] = v
			}
			return r
		}
		check := func(step string, sortType SortType, want []blob.Ref) {
			t.Helper()
			for _, limit := range []int{100, 2, 1} {
				got := pageThroughMut5Bug2(t, h, sortType, limit, len(want)+3)
				if fmt.Sprint(got) != fmt.Sprint(want) {
					t.Errorf("%s: sort %v limit %d: paging returned\n  %v\nwant the full ordered list exactly once\n  %v", step, sortType, limit, got, want)
				}
			}
		}

		// Step 1: both sorts on the initial world.
		check("initial world", CreatedDesc, newestFirst(pns))
		check("initial world", LastModifiedDesc, newestFirst(pns))

		// Step 2: the world grows by two permanodes, and the oldest
		// permanode gets a new claim (it becomes the most recently
		// modified one; it has no content time, so that is also its
		// "created" time).
		for i := 0; i < 2; i++ {
			pn := id.NewPlannedPermanode(fmt.Sprintf("second-%d", i))
			id.SetAttribute(pn, "title", fmt.Sprintf("second %d", i))
			pns = append(pns, pn)
		}
		id.SetAttribute(pns[0], "title", "first 0, retitled")
		pns = append(pns[1:], pns[0])

		// Step 3: page both sorts again, "-created" first.
		check("after the change", CreatedDesc, newestFirst(pns))
		check("after the change", LastModifiedDesc, newestFirst(pns))
	})
}
