package server

import (
	"bytes"
	"context"
	"io"
	"strings"
	"sync"
	"testing"

	"perkeep.org/pkg/blob"
	"perkeep.org/pkg/blobserver"
	"perkeep.org/pkg/blobserver/diskpacked"
	"perkeep.org/pkg/blobserver/memory"
	"perkeep.org/pkg/sorted"
)

// mutC19b2Src is a source whose next `corrupt` Fetch calls yield data of
// the right size with one flipped bit (a bad sector, a bad network hop).
type mutC19b2Src struct {
	*memory.Storage
	mu      sync.Mutex
	corrupt int
}

func (s *mutC19b2Src) Fetch(ctx context.Context, br blob.Ref) (io.ReadCloser, uint32, error) {
	rc, size, err := s.Storage.Fetch(ctx, br)
	if err != nil {
		return nil, 0, err
	}
	s.mu.Lock()
	bad := s.corrupt > 0
	if bad {
		s.corrupt--
	}
	s.mu.Unlock()
	if !bad {
		return rc, size, nil
	}
	data, err := io.ReadAll(rc)
	rc.Close()
	if err != nil {
		return nil, 0, err
	}
	data[len(data)/2] ^= 0x01
	return io.NopCloser(bytes.NewReader(data)), size, nil
}

// The destination is a real diskpacked store: like most stores it trusts
// its caller for the digest, and it does not rewrite a blob it already has.
func TestMutC19Bug2CorruptReadThenRetry(t *testing.T) {
	ctx := context.Background()
	src := &mutC19b2Src{Storage: &memory.Storage{}}
	dst, err := diskpacked.New(t.TempDir())
	if err != nil {
		t.Fatal(err)
	}
	defer dst.(io.Closer).Close()
	q := sorted.NewMemoryKeyValue()

	// No background loop: the rounds of the copy loop are run by hand.
	sh := newSyncHandler("src", "dst", src, dst, q)
	blobserver.GetHub(src).AddReceiveHook(sh.enqueue)

	contents := []string{
		strings.Repeat("C19 bug2 first blob. ", 100),
		strings.Repeat("C19 bug2 second blob. ", 5000),
	}
	var want []blob.SizedRef
	for _, c := range contents {
		sb, err := blobserver.ReceiveString(ctx, src, c)
		if err != nil {
			t.Fatal(err)
		}
		want = append(want, sb)
	}

	// One corrupt read per blob, then the source behaves.
	src.mu.Lock()
	src.corrupt = len(want)
	src.mu.Unlock()
	if n := sh.runSync("round 1 (corrupt reads)", sh.enumeratePendingBlobs); n != 0 {
		t.Errorf("round with corrupt source reads reported %d successful copies", n)
	}
	for i := 0; i < 3; i++ {
		sh.runSync("retry", sh.enumeratePendingBlobs)
	}

	// The queue has drained...
	it := q.Find("", "")
	for it.Next() {
		t.Errorf("queue still holds %v", it.Key())
	}
	it.Close()

	// ... so every blob must be at the destination, bit-identical.
	for i, sb := range want {
		rc, size, err := dst.Fetch(ctx, sb.Ref)
		if err != nil {
			t.Errorf("blob %v not at the destination: %v", sb.Ref, err)
			continue
		}
		got, err := io.ReadAll(rc)
		rc.Close()
		if err != nil {
			t.Errorf("reading %v from the destination: %v", sb.Ref, err)
			continue
		}
		if size != sb.Size || string(got) != contents[i] {
			t.Errorf("blob %v at the destination is not bit-identical to the source (size %d vs %d, digest of stored bytes %v)",
				sb.Ref, size, sb.Size, blob.RefFromBytes(got))
		}
	}
}

// With a destination that simply overwrites (memory store, which also
// verifies digests itself), the same fault history is harmless with and
// without the patch.
func TestMutC19Bug2ControlOverwritingDest(t *testing.T) {
	ctx := context.Background()
	src := &mutC19b2Src{Storage: &memory.Storage{}}
	dst := &memory.Storage{}
	q := sorted.NewMemoryKeyValue()
	sh := newSyncHandler("src", "dst", src, dst, q)
	blobserver.GetHub(src).AddReceiveHook(sh.enqueue)
	sb, err := blobserver.ReceiveString(ctx, src, strings.Repeat("C19 bug2 control blob. ", 100))
	if err != nil {
		t.Fatal(err)
	}
	src.mu.Lock()
	src.corrupt = 1
	src.mu.Unlock()
	for i := 0; i < 3; i++ {
		sh.runSync("round", sh.enumeratePendingBlobs)
	}
	got, ok := dst.BlobContents(sb.Ref)
	if !ok || blob.RefFromString(got) != sb.Ref {
		t.Errorf("blob %v missing or different at the destination", sb.Ref)
	}
}
