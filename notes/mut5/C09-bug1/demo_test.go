package search_test

import (
	"fmt"
	"testing"
	"time"

	"perkeep.org/pkg/blob"
	"perkeep.org/pkg/schema"
	. "perkeep.org/pkg/search"
)

// pageThroughMut5Bug1 follows the continuation tokens of a limit-sized paged
// query and returns every blob seen, in order.
func pageThroughMut5Bug1(t *testing.T, h *Handler, sortType SortType, limit, maxPages int) []blob.Ref {
	var all []blob.Ref
	token := ""
	for page := 0; page < maxPages; page++ {
		res, err := h.Query(ctxbg, &SearchQuery{
			Constraint: &Constraint{Permanode: &PermanodeConstraint{}},
			Sort:       sortType,
			Limit:      limit,
			Continue:   token,
		})
		if err != nil {
			t.Fatalf("page %d: %v", page, err)
		}
		for _, b := range res.Blobs {
			all = append(all, b.Blob)
		}
		t.Logf("sort %v limit %d page %d: %d blobs, continue=%q", sortType, limit, page, len(res.Blobs), res.Continue)
		if res.Continue == "" {
			return all
		}
		token = res.Continue
	}
	t.Errorf("sort %v limit %d: still handed a continue token after %d pages", sortType, limit, maxPages)
	return all
}

// A world where one permanode's creation time (its dateCreated attribute, as
// importers set it - an unknown date typically comes out as time.Unix(0, 0)) is
// exactly 1970-01-01T00:00:00Z, with neighbours before and after it.
// (Claims cannot be dated 1970-01-01T00:00:00Z, so a modtime never is.)
func TestMut5C09Bug1EpochToken(t *testing.T) {
	testQueryTypes(t, memIndexTypes, func(qt *queryTest) {
		id := qt.id
		epoch := time.Unix(0, 0).UTC()
		times := []time.Time{
			epoch.Add(2 * time.Second),
			epoch.Add(time.Second),
			epoch,
			epoch.Add(-time.Second),
			epoch.Add(-2 * time.Second),
		}
		for i, tm := range times {
			pn := id.NewPlannedPermanode(fmt.Sprintf("epoch-%d", i))
			id.SetAttribute(pn, "title", fmt.Sprintf("pn %d", i))
			id.SetAttribute(pn, "dateCreated", schema.RFC3339FromTime(tm))
		}
		h := qt.Handler()

		full := pageThroughMut5Bug1(t, h, CreatedDesc, 100, 2)
		if len(full) != len(times) {
			t.Fatalf("unpaged query returned %d blobs; want %d", len(full), len(times))
		}
		for _, limit := range []int{1, 3} {
			got := pageThroughMut5Bug1(t, h, CreatedDesc, limit, len(times)+3)
			if fmt.Sprint(got) != fmt.Sprint(full) {
				t.Errorf("limit %d: paging returned\n  %v\nwant the full ordered list exactly once\n  %v", limit, got, full)
			}
		}
	})
}
