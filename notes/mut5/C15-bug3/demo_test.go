package schema

import (
	"context"
	"errors"
	"fmt"
	"io"
	"testing"

	"perkeep.org/pkg/blob"
	"perkeep.org/pkg/test"
)

// mutC15FlakyFetcher fails the first failures fetches of one blob, then
// behaves.
type mutC15FlakyFetcher struct {
	*test.Fetcher
	flaky    blob.Ref
	failures int
}

var errMutC15Transient = errors.New("transient fetch error")

func (f *mutC15FlakyFetcher) Fetch(ctx context.Context, br blob.Ref) (io.ReadCloser, uint32, error) {
	if br == f.flaky && f.failures > 0 {
		f.failures--
		return nil, 0, errMutC15Transient
	}
	return f.Fetcher.Fetch(ctx, br)
}

// A directory whose listing is spread over several static-set blobs; the
// fetch of one of the later sub static-sets fails once. The failed listing
// must report the error, and listing again on the same DirReader must give
// exactly the original members.
func TestMutC15DirListingAfterTransientSubsetFailure(t *testing.T) {
	old := maxStaticSetMembers
	maxStaticSetMembers = 10
	defer func() { maxStaticSetMembers = old }()

	ctx := context.Background()
	sto := new(test.Fetcher)

	const nMembers = 37 // 3 full subsets and a rest of 7
	var members []blob.Ref
	for i := 0; i < nMembers; i++ {
		fb := NewFileMap(fmt.Sprintf("file-%02d", i))
		if err := fb.PopulateParts(0, nil); err != nil {
			t.Fatal(err)
		}
		tb := &test.Blob{Contents: fb.Blob().JSON()}
		sto.AddBlob(tb)
		members = append(members, tb.BlobRef())
	}
	ssb := NewStaticSet()
	subsets := ssb.SetStaticSetMembers(members)
	if len(subsets) != 4 {
		t.Fatalf("got %d subsets; want 4", len(subsets))
	}
	for _, v := range subsets {
		sto.AddBlob(&test.Blob{Contents: v.JSON()})
	}
	top := ssb.Blob()
	sto.AddBlob(&test.Blob{Contents: top.JSON()})
	mergeSets := top.StaticSetMergeSets()
	if len(mergeSets) != 4 {
		t.Fatalf("top static-set has %d mergeSets; want 4", len(mergeSets))
	}
	dirBlob := NewDirMap("dir").PopulateDirectoryMap(top.BlobRef()).Blob()
	sto.AddBlob(&test.Blob{Contents: dirBlob.JSON()})

	// the third sub static-set cannot be fetched the first time
	fetcher := &mutC15FlakyFetcher{Fetcher: sto, flaky: mergeSets[2], failures: 1}

	dr, err := NewDirReader(ctx, fetcher, dirBlob.BlobRef())
	if err != nil {
		t.Fatal(err)
	}
	got, err := dr.StaticSet(ctx)
	if err == nil {
		t.Fatalf("first listing: no error although a sub static-set could not be fetched (%d members)", len(got))
	}
	if !errors.Is(err, errMutC15Transient) {
		t.Fatalf("first listing: unexpected error %v", err)
	}
	if got != nil {
		t.Errorf("first listing failed but returned %d members", len(got))
	}

	// the storage has recovered: try again
	got, err = dr.StaticSet(ctx)
	if err != nil {
		t.Fatalf("second listing: %v", err)
	}
	if len(got) != nMembers {
		t.Errorf("second listing has %d members; want %d", len(got), nMembers)
	} else {
		for i := range members {
			if got[i] != members[i] {
				t.Errorf("second listing: member %d is %v; want %v", i, got[i], members[i])
				break
			}
		}
	}

	ents, err := dr.Readdir(ctx, -1)
	if err != nil {
		t.Fatalf("Readdir: %v", err)
	}
	if len(ents) != nMembers {
		t.Errorf("Readdir lists %d entries; want %d", len(ents), nMembers)
	}
}
