package search_test

import (
	"context"
	"reflect"
	"testing"
	"time"

	"go4.org/types"

	"perkeep.org/pkg/index"
	"perkeep.org/pkg/index/indextest"
	"perkeep.org/pkg/schema"
	"perkeep.org/pkg/search"
)

// Describe must apply the claims of a permanode in claim date order, with
// or without an in-memory corpus. Without a corpus the claims come from the
// sorted "claim|<permanode>|<keyid>|<date>|<claim>" rows, whose dates are
// RFC 3339 strings with a variable number of fractional digits:
// "...T10:20:30.5Z" sorts before "...T10:20:30Z", although it is later.
func TestMut5C07Bug2DescribeClaimOrderNoCorpus(t *testing.T) {
	ctx := context.Background()
	demoOwner := index.NewOwner(indextest.KeyID, indextest.PubKey.BlobRef())
	base := time.Date(2020, 5, 17, 10, 20, 30, 0, time.UTC)

	for _, withCorpus := range []bool{false, true} {
		ix := index.NewMemoryIndex()
		id := indextest.NewIndexDeps(ix)
		id.Fataler = t
		h := search.NewHandler(ix, demoOwner)
		if withCorpus {
			corpus, err := ix.KeepInMemory()
			if err != nil {
				t.Fatal(err)
			}
			h.SetCorpus(corpus)
		}

		pn := id.NewPermanode()
		upload := func(b *schema.Builder, d time.Duration) {
			b.SetClaimDate(base.Add(d))
			id.Upload(id.Sign(b))
		}
		// title: set at :30 (whole second), then changed at :30.5
		upload(schema.NewSetAttributeClaim(pn, "title", "draft"), 0)
		upload(schema.NewSetAttributeClaim(pn, "title", "final"), 500*time.Millisecond)
		// tag: added at :31, removed at :31.25, other one added at :31.5
		upload(schema.NewAddAttributeClaim(pn, "tag", "todo"), 1*time.Second)
		upload(schema.NewDelAttributeClaim(pn, "tag", "todo"), 1250*time.Millisecond)
		upload(schema.NewAddAttributeClaim(pn, "tag", "done"), 1500*time.Millisecond)

		describe := func(at time.Time) map[string][]string {
			ix.RLock()
			defer ix.RUnlock()
			res, err := h.Describe(ctx, &search.DescribeRequest{
				BlobRef: pn,
				At:      types.Time3339(at),
			})
			if err != nil {
				t.Fatalf("corpus=%v: Describe: %v", withCorpus, err)
			}
			db := res.Meta[pn.String()]
			if db == nil || db.Permanode == nil {
				t.Fatalf("corpus=%v: permanode %v not described", withCorpus, pn)
			}
			got := map[string][]string{}
			for k, v := range db.Permanode.Attr {
				if len(v) > 0 {
					got[k] = v
				}
			}
			return got
		}

		tests := []struct {
			name string
			at   time.Time
			want map[string][]string
		}{
			{"now", time.Time{}, map[string][]string{"title": {"final"}, "tag": {"done"}}},
			{"after all", base.Add(time.Minute), map[string][]string{"title": {"final"}, "tag": {"done"}}},
			{"at :30.2", base.Add(200 * time.Millisecond), map[string][]string{"title": {"draft"}}},
			{"at :31.1", base.Add(1100 * time.Millisecond), map[string][]string{"title": {"final"}, "tag": {"todo"}}},
			{"at :31.3", base.Add(1300 * time.Millisecond), map[string][]string{"title": {"final"}}},
		}
		for _, tt := range tests {
			if got := describe(tt.at); !reflect.DeepEqual(got, tt.want) {
				t.Errorf("corpus=%v, %s: described attrs = %v; want %v", withCorpus, tt.name, got, tt.want)
			}
		}
	}
}
