package blob_test

import (
	"testing"

	"perkeep.org/pkg/blob"
)

// EqualString(s) must be exactly r.String() == s, and HasPrefix(s) exactly
// "s has a digit and is a prefix of r.String()", including for strings that
// are LONGER than the ref's text form and start with it.
func TestMut5C20Bug2EqualStringOverlong(t *testing.T) {
	refs := []blob.Ref{
		blob.MustParse("sha1-0beec7b5ea3f0fdbc95d0dd47f3c5bc275da8a33"),
		blob.MustParse("sha224-d14a028c2a3a2bc9476102bb288234c415a2b01f828ea62ac5b3e42f"),
		blob.MustParse("sha256-b5bb9d8014a0f9b1d61e21e796d78dccdf1352f23cd32812f4850b878ae4944c"),
		blob.RefFromString("hello"),
		blob.MustParse("foo-cafe"),
	}
	suffixes := []string{"", "0", "f", "00", "g", "-", "\n", " ", ".json", "/sha224-00"}
	for _, r := range refs {
		text := r.String()
		for _, suf := range suffixes {
			s := text + suf
			if got, want := r.EqualString(s), s == text; got != want {
				t.Errorf("%v.EqualString(%q) = %v; want %v", r, s, got, want)
			}
			if got, want := r.HasPrefix(s), s == text; got != want {
				t.Errorf("%v.HasPrefix(%q) = %v; want %v", r, s, got, want)
			}
		}
		// shorter strings are never equal.
		for n := 0; n < len(text); n++ {
			if r.EqualString(text[:n]) {
				t.Errorf("%v.EqualString(%q) = true", r, text[:n])
			}
		}
	}
}
