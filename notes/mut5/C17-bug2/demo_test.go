package auth

import (
	"fmt"
	"io"
	"net/http"
	"net/http/httptest"
	"sync"
	"testing"
)

// TestMut5C17Bug2WebsocketUpgradeBeforeTokenIssued: in a freshly started
// process (the process token has not been handed out by discovery or the UI
// yet), a request without any credentials must be refused by every auth mode
// that requires credentials, whatever its headers are. In particular a GET
// with "Upgrade: websocket" and no (or an empty) authtoken parameter.
func TestMut5C17Bug2WebsocketUpgradeBeforeTokenIssued(t *testing.T) {
	oldModes := modes
	defer func() { modes = oldModes }()

	vivify := "vivipass"
	configs := []struct {
		name string
		mode AuthMode
	}{
		{"userpass", &UserPass{Username: "alice", Password: "secret"}},
		{"userpass+vivify", &UserPass{Username: "alice", Password: "secret", VivifyPass: &vivify}},
		{"basic", NewBasicAuth("alice", "secret")},
		{"token", &tokenAuth{token: "0123456789abcdef"}},
		{"devauth", &DevAuth{Password: "pass3179", VivifyPass: &vivify}},
	}
	paths := []string{
		"/bs/camli/enumerate-blobs",
		"/bs/camli/sha224-d14a028c2a3a2bc9476102bb288234c415a2b01f828ea62ac5b3e42f",
		"/my-search/camli/search/query",
		"/my-search/camli/search/ws",
		"/my-search/camli/search/ws?authtoken=",
		"/ui/",
		"/status/status.json",
		"/sighelper/camli/sig/sign",
		"/debug/config",
	}

	served := http.HandlerFunc(func(rw http.ResponseWriter, req *http.Request) {
		io.WriteString(rw, "PRIVATE")
	})

	for _, issued := range []bool{false, true} {
		// Model a fresh process: no token generated so far.
		processRand = ""
		processRandOnce = sync.Once{}
		if issued {
			// ... or one where an authenticated client already did a discovery.
			_ = Token()
		}
		for _, c := range configs {
			SetMode(c.mode)
			leaks, first := 0, ""
			for _, op := range []Operation{OpAll, OpGet, OpStat, OpRead, OpDiscovery} {
				h := RequireAuth(served, op)
				for _, p := range paths {
					req := httptest.NewRequest("GET", "http://192.0.2.2:3179"+p, nil)
					req.RemoteAddr = "192.0.2.1:50123" // not localhost
					req.Header.Set("Connection", "Upgrade")
					req.Header.Set("Upgrade", "websocket")
					rec := httptest.NewRecorder()
					h.ServeHTTP(rec, req)
					if rec.Code != http.StatusUnauthorized || rec.Body.String() == "PRIVATE" {
						leaks++
						if first == "" {
							first = fmt.Sprintf("op %d, GET %s: code=%d body=%q", op, p, rec.Code, rec.Body.String())
						}
					}
				}
			}
			if leaks > 0 {
				t.Errorf("token issued=%v, mode %s: %d unauthenticated GET requests with Upgrade: websocket were served (want 401 for all); first: %s",
					issued, c.name, leaks, first)
			}
			// Same through auth.Handler (as used for ui, search, status, ...).
			req := httptest.NewRequest("GET", "http://192.0.2.2:3179/ui/", nil)
			req.RemoteAddr = "192.0.2.1:50123"
			req.Header.Set("Upgrade", "websocket")
			rec := httptest.NewRecorder()
			Handler{served}.ServeHTTP(rec, req)
			if rec.Code != http.StatusUnauthorized {
				t.Errorf("token issued=%v, mode %s: auth.Handler served an unauthenticated GET with Upgrade: websocket: code=%d", issued, c.name, rec.Code)
			}
		}
	}
}
