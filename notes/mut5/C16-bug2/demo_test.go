package jsonsign_test

import (
	"context"
	"encoding/json"
	"fmt"
	"strings"
	"testing"
	"time"

	"golang.org/x/crypto/openpgp"
	"perkeep.org/pkg/jsonsign"
	"perkeep.org/pkg/test"
)

type mut2EntityFetcher struct{ ent *openpgp.Entity }

func (f mut2EntityFetcher) FetchEntity(string) (*openpgp.Entity, error) { return f.ent, nil }

// Members appended to the outer object *after* the camliSig member are not
// covered by the signature. Anyone can add them, and since later duplicate
// keys win in every mainstream JSON parser, they silently override the signed
// fields for whoever parses the blob. Such a tampered document must not
// verify (doc/json-signing: BS must be "a valid JSON object with exactly one
// key: camliSig").
func TestMut2UnsignedMembersAfterCamliSig(t *testing.T) {
	ctx := context.Background()
	ent, err := jsonsign.NewEntity()
	if err != nil {
		t.Fatal(err)
	}
	armor, err := jsonsign.ArmoredPublicKey(ent)
	if err != nil {
		t.Fatal(err)
	}
	pub := &test.Blob{Contents: armor}
	fetcher := &test.Fetcher{}
	fetcher.AddBlob(pub)

	sr := &jsonsign.SignRequest{
		UnsignedJSON: fmt.Sprintf(`{"camliVersion": 1,
  "camliSigner": %q,
  "camliType": "claim",
  "claimType": "set-attribute",
  "attribute": "title",
  "value": "genuine"
}`, pub.BlobRef().String()),
		Fetcher:       fetcher,
		EntityFetcher: mut2EntityFetcher{ent},
		SignatureTime: time.Unix(1400000000, 0),
	}
	signed, err := sr.Sign(ctx)
	if err != nil {
		t.Fatalf("Sign: %v", err)
	}
	if _, err := jsonsign.NewVerificationRequest(signed, fetcher).Verify(ctx); err != nil {
		t.Fatalf("genuine document does not verify: %v", err)
	}

	end := strings.LastIndex(signed, `"}`)
	if end < 0 {
		t.Fatalf("unexpected signed document %q", signed)
	}
	for _, extra := range []string{
		`,"value":"evil"`,
		`, "camliType": "permanode"`,
		`,"x":{"y":[1,2,3]}`,
		`,"CAMLISIG":"zzzz"`,
	} {
		tampered := signed[:end+1] + extra + signed[end+1:]
		var all map[string]any
		if err := json.Unmarshal([]byte(tampered), &all); err != nil {
			t.Fatalf("tampered doc %q is not even JSON: %v", tampered, err)
		}
		vr := jsonsign.NewVerificationRequest(tampered, fetcher)
		if _, err := vr.Verify(ctx); err == nil {
			t.Errorf("document with unsigned member %s appended after camliSig VERIFIED; a JSON parser now sees value=%v camliType=%v",
				extra, all["value"], all["camliType"])
		} else {
			t.Logf("%s: correctly rejected: %v", extra, vr.Err)
		}
	}
}
