package blobserver_test

import (
	"bytes"
	"context"
	"errors"
	"io"
	"testing"

	"go4.org/jsonconfig"

	"perkeep.org/pkg/blob"
	"perkeep.org/pkg/blobserver"
	_ "perkeep.org/pkg/blobserver/cond"
	"perkeep.org/pkg/blobserver/memory"
	"perkeep.org/pkg/test"
)

// TestMutLargestBlobRoundTrip receives blobs around the largest legal size
// (blobserver.MaxBlobSize) and compares every read path with a reference map.
func TestMutLargestBlobRoundTrip(t *testing.T) {
	ctx := context.Background()

	newCond := func() blobserver.Storage {
		ld := test.NewLoader()
		sto, err := blobserver.CreateStorage("cond", ld, jsonconfig.Obj{
			"write": map[string]any{
				"if":   "isSchema",
				"then": "/good-schema/",
				"else": "/good-other/",
			},
			"read":   "/good-other/",
			"remove": "/good-other/",
		})
		if err != nil {
			t.Fatal(err)
		}
		return sto
	}

	type receiver func(sto blobserver.Storage, br blob.Ref, data []byte) (blob.SizedRef, error)
	viaReceive := func(sto blobserver.Storage, br blob.Ref, data []byte) (blob.SizedRef, error) {
		return blobserver.Receive(ctx, sto, br, bytes.NewReader(data))
	}
	direct := func(sto blobserver.Storage, br blob.Ref, data []byte) (blob.SizedRef, error) {
		return sto.ReceiveBlob(ctx, br, bytes.NewReader(data))
	}

	big := bytes.Repeat([]byte("perkeep!"), (blobserver.MaxBlobSize+8)/8)

	for _, tc := range []struct {
		name string
		sto  blobserver.Storage
		recv receiver
	}{
		{"memory via blobserver.Receive", &memory.Storage{}, viaReceive},
		{"cond via its ReceiveBlob", newCond(), direct},
	} {
		for _, size := range []int{blobserver.MaxBlobSize - 1, blobserver.MaxBlobSize} {
			data := big[:size]
			br := blob.RefFromBytes(data)
			sb, err := tc.recv(tc.sto, br, data)
			if err != nil {
				t.Errorf("%s: receive of a %d byte blob (limit %d): %v", tc.name, size, blobserver.MaxBlobSize, err)
				continue
			}
			if sb.Ref != br || int(sb.Size) != size {
				t.Errorf("%s: receive of a %d byte blob = %v", tc.name, size, sb)
			}
			rc, fsize, err := tc.sto.Fetch(ctx, br)
			if err != nil {
				t.Errorf("%s: fetch of the %d byte blob: %v", tc.name, size, err)
				continue
			}
			got, err := io.ReadAll(rc)
			rc.Close()
			if err != nil || int(fsize) != size || !bytes.Equal(got, data) {
				t.Errorf("%s: fetch of the %d byte blob: size %d, %d bytes read, err %v", tc.name, size, fsize, len(got), err)
			}
			if st, err := blobserver.StatBlob(ctx, tc.sto, br); err != nil || int(st.Size) != size {
				t.Errorf("%s: stat of the %d byte blob = %v, %v", tc.name, size, st, err)
			}
			// receiving it again is a no-op
			if sb, err := tc.recv(tc.sto, br, data); err != nil || int(sb.Size) != size {
				t.Errorf("%s: second receive of the %d byte blob = %v, %v", tc.name, size, sb, err)
			}
			if err := tc.sto.RemoveBlobs(ctx, []blob.Ref{br}); err != nil {
				t.Errorf("%s: remove: %v", tc.name, err)
			}
		}
		// one byte more is not a blob anymore
		data := big[:blobserver.MaxBlobSize+1]
		br := blob.RefFromBytes(data)
		if _, err := tc.recv(tc.sto, br, data); !errors.Is(err, blobserver.ErrBlobTooLarge) {
			t.Errorf("%s: receive of %d bytes: err = %v; want ErrBlobTooLarge", tc.name, len(data), err)
		}
		if _, err := blobserver.StatBlob(ctx, tc.sto, br); err == nil {
			t.Errorf("%s: the oversized blob was stored", tc.name)
		}
	}
}
