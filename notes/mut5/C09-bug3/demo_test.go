package search_test

import (
	"context"
	"fmt"
	"testing"

	"perkeep.org/pkg/blob"
	. "perkeep.org/pkg/search"
)

// A caller pages through the results with a cancellable context (as the
// importers and the app handlers do), and the context ends while the second
// page is being computed. The caller must either be told (an error), or get
// the page: a successful, shorter page without a continue token means "this
// was the last page".
func TestMut5C09Bug3CancelledMidPage(t *testing.T) {
	testQueryTypes(t, memIndexTypes, func(qt *queryTest) {
		id := qt.id
		var want []blob.Ref // newest first
		for i := 0; i < 6; i++ {
			pn := id.NewPlannedPermanode(fmt.Sprintf("cancel-%d", i))
			id.SetAttribute(pn, "title", fmt.Sprintf("pn %d", i))
			want = append([]blob.Ref{pn}, want...)
		}
		h := qt.Handler()

		for _, sortType := range []SortType{CreatedDesc, LastModifiedDesc} {
			ctx, cancel := context.WithCancel(context.Background())
			nQueries := 0
			// The hook runs once per query, right before the candidates are
			// enumerated: the context ends during the second query.
			ExportSetCandidateSourceHook(func(string) {
				nQueries++
				if nQueries == 2 {
					cancel()
				}
			})

			var got []blob.Ref
			token := ""
			failed := false
			for page := 0; page < len(want)+2; page++ {
				res, err := h.Query(ctx, &SearchQuery{
					Constraint: &Constraint{Permanode: &PermanodeConstraint{}},
					Sort:       sortType,
					Limit:      2,
					Continue:   token,
				})
				if err != nil {
					// Fine: the caller knows the listing is incomplete.
					t.Logf("sort %v page %d: error %v", sortType, page, err)
					failed = true
					break
				}
				t.Logf("sort %v page %d: %d blobs, continue=%q, ctx.Err()=%v", sortType, page, len(res.Blobs), res.Continue, ctx.Err())
				for _, b := range res.Blobs {
					got = append(got, b.Blob)
				}
				if res.Continue == "" {
					break
				}
				token = res.Continue
			}
			ExportSetCandidateSourceHook(nil)
			cancel()
			if !failed && fmt.Sprint(got) != fmt.Sprint(want) {
				t.Errorf("sort %v: every page was served without an error, but following the continue tokens to the end returned\n  %v\nwant the full ordered list exactly once\n  %v", sortType, got, want)
			}
		}
	})
}
