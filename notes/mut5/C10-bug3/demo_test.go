package sorted_test

import (
	"path/filepath"
	"strings"
	"testing"

	"perkeep.org/pkg/sorted"
	"perkeep.org/pkg/sorted/buffer"
	"perkeep.org/pkg/sorted/kvfile"
	"perkeep.org/pkg/sorted/leveldb"
	"perkeep.org/pkg/sorted/sqlite"
)

// Keys of more than sorted.MaxKeySize (767) BYTES are silently skipped by
// Set and by a committed batch, whatever the bytes are: here the oversized
// keys are made of (valid) multi-byte UTF-8 text, as in a permanode attribute
// value or a file name that ends up in an index key.
func TestMutDemoC10OversizedMultibyteKey(t *testing.T) {
	dir := t.TempDir()
	stores := map[string]func() (sorted.KeyValue, error){
		"memory":  func() (sorted.KeyValue, error) { return sorted.NewMemoryKeyValue(), nil },
		"leveldb": func() (sorted.KeyValue, error) { return leveldb.NewStorage(filepath.Join(dir, "ldb")) },
		"kvfile":  func() (sorted.KeyValue, error) { return kvfile.NewStorage(filepath.Join(dir, "demo.kv")) },
		"sqlite":  func() (sorted.KeyValue, error) { return sqlite.NewStorage(filepath.Join(dir, "demo.sqlite")) },
		"buffer": func() (sorted.KeyValue, error) {
			return buffer.New(sorted.NewMemoryKeyValue(), sorted.NewMemoryKeyValue(), 1<<20), nil
		},
	}
	tooLarge := map[string]string{
		"2-byte runes, 800 bytes":  "signerattrvalue|title|" + strings.Repeat("é", 389), // 22+778 = 800 bytes, 411 runes
		"3-byte runes, 768 bytes":  strings.Repeat("日", 256),                            // 768 bytes, 256 runes
		"ascii + one rune, 768 b.": strings.Repeat("a", 766) + "é",                      // 768 bytes, 767 runes
		"ascii, 768 bytes":         strings.Repeat("a", 768),                            // control: 768 bytes, 768 runes
	}
	atLimit := strings.Repeat("a", 765) + "é" // 767 bytes: must be stored

	for name, open := range stores {
		t.Run(name, func(t *testing.T) {
			kv, err := open()
			if err != nil {
				t.Fatal(err)
			}
			defer kv.Close()

			if err := kv.Set(atLimit, "ok"); err != nil {
				t.Fatalf("Set(767-byte key): %v", err)
			}
			for what, key := range tooLarge {
				if len(key) <= sorted.MaxKeySize {
					t.Fatalf("bad test: %s is %d bytes", what, len(key))
				}
				if err := kv.Set(key, "set"); err != nil {
					t.Errorf("%s: Set = %v; want nil (silently skipped)", what, err)
				}
				b := kv.BeginBatch()
				b.Set(key, "batch")
				b.Set("small|"+what, "v")
				if err := kv.CommitBatch(b); err != nil {
					t.Errorf("%s: CommitBatch = %v; want nil (oversized entry silently skipped)", what, err)
				}
				if v, err := kv.Get(key); err != sorted.ErrNotFound {
					t.Errorf("%s: Get(key of %d bytes) = %q, %v; want not found: keys over %d bytes are skipped",
						what, len(key), v, err, sorted.MaxKeySize)
				}
				if v, err := kv.Get("small|" + what); err != nil || v != "v" {
					t.Errorf("%s: rest of the batch: Get = %q, %v; want \"v\"", what, v, err)
				}
			}
			n := 0
			it := kv.Find("", "")
			for it.Next() {
				n++
				if k := it.Key(); len(k) > sorted.MaxKeySize {
					t.Errorf("scan returns a key of %d bytes (%.30q...) with value %q", len(k), k, it.Value())
				}
			}
			if err := it.Close(); err != nil {
				t.Errorf("iterator Close: %v", err)
			}
			if want := 1 + len(tooLarge); n != want {
				t.Errorf("scan returned %d keys; want %d", n, want)
			}
			if v, err := kv.Get(atLimit); err != nil || v != "ok" {
				t.Errorf("Get(767-byte key) = %q, %v; want \"ok\"", v, err)
			}
		})
	}
}
