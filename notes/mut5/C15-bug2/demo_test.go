package schema_test

import (
	"bytes"
	"context"
	"errors"
	"io"
	"math/rand"
	"testing"
	"time"

	"perkeep.org/pkg/blob"
	"perkeep.org/pkg/schema"
	"perkeep.org/pkg/test"
)

// mutC15BytesSchemaReceiver is an in-memory store that treats the "bytes"
// schema blobs (the inner nodes of a file's tree) specially: it either
// refuses them or takes its time to store them. Data chunks are stored at once.
type mutC15BytesSchemaReceiver struct {
	*test.Fetcher
	fail  error         // if non-nil, returned for every "bytes" schema blob
	delay time.Duration // otherwise, how long storing a "bytes" schema blob takes
}

func (r *mutC15BytesSchemaReceiver) ReceiveBlob(ctx context.Context, br blob.Ref, src io.Reader) (blob.SizedRef, error) {
	data, err := io.ReadAll(src)
	if err != nil {
		return blob.SizedRef{}, err
	}
	if bytes.HasPrefix(data, []byte(`{"camliVersion"`)) && bytes.Contains(data, []byte(`"camliType": "bytes"`)) {
		if r.fail != nil {
			return blob.SizedRef{}, r.fail
		}
		time.Sleep(r.delay)
	}
	return r.Fetcher.ReceiveBlob(ctx, br, bytes.NewReader(data))
}

// mutC15MissingRefs walks the parts of a file/bytes tree and returns the
// blobs it refers to that sto does not have, and how many "bytes" schema
// blobs the tree refers to.
func mutC15MissingRefs(t *testing.T, sto *test.Fetcher, parts []schema.BytesPart) (missing []blob.Ref, nBytesRefs int) {
	ctx := context.Background()
	for _, p := range parts {
		switch {
		case p.BlobRef.Valid():
			if _, ok := sto.BlobContents(p.BlobRef); !ok {
				missing = append(missing, p.BlobRef)
			}
		case p.BytesRef.Valid():
			nBytesRefs++
			rc, _, err := sto.Fetch(ctx, p.BytesRef)
			if err != nil {
				missing = append(missing, p.BytesRef)
				continue
			}
			sb, err := schema.BlobFromReader(p.BytesRef, rc)
			rc.Close()
			if err != nil {
				t.Fatalf("parsing %v: %v", p.BytesRef, err)
			}
			m, n := mutC15MissingRefs(t, sto, sb.ByteParts())
			missing = append(missing, m...)
			nBytesRefs += n
		}
	}
	return
}

func mutC15Content() []byte {
	data := make([]byte, 3<<20+12345)
	rand.New(rand.NewSource(15)).Read(data)
	return data
}

// WriteFileChunks (the entry point pk-put uses: the caller uploads the file
// schema itself) must not report success while a blob that the populated
// file schema refers to is not stored.
func TestMutC15WriteFileChunksBytesSchemaRefused(t *testing.T) {
	ctx := context.Background()
	sto := new(test.Fetcher)
	errRefused := errors.New("bytes schema blob refused")
	bs := &mutC15BytesSchemaReceiver{Fetcher: sto, fail: errRefused}

	file := schema.NewFileMap("big")
	err := schema.WriteFileChunks(ctx, bs, file, bytes.NewReader(mutC15Content()))
	if err != nil {
		t.Logf("WriteFileChunks failed as it should: %v", err)
		return
	}
	missing, nBytesRefs := mutC15MissingRefs(t, sto, file.Blob().ByteParts())
	if nBytesRefs == 0 {
		t.Fatal("test content produced no nested bytes schema; test is vacuous")
	}
	if len(missing) > 0 {
		t.Errorf("WriteFileChunks returned nil, but %d of the blobs the file schema refers to are not stored (first: %v)", len(missing), missing[0])
	}
}

func TestMutC15WriteFileChunksBytesSchemaSlow(t *testing.T) {
	ctx := context.Background()
	sto := new(test.Fetcher)
	bs := &mutC15BytesSchemaReceiver{Fetcher: sto, delay: 300 * time.Millisecond}

	file := schema.NewFileMap("big")
	content := mutC15Content()
	if err := schema.WriteFileChunks(ctx, bs, file, bytes.NewReader(content)); err != nil {
		t.Fatal(err)
	}
	// The moment WriteFileChunks has returned, everything must be there.
	missing, nBytesRefs := mutC15MissingRefs(t, sto, file.Blob().ByteParts())
	if nBytesRefs == 0 {
		t.Fatal("test content produced no nested bytes schema; test is vacuous")
	}
	if len(missing) > 0 {
		t.Fatalf("WriteFileChunks returned nil, but %d of the blobs the file schema refers to are not stored yet (first: %v)", len(missing), missing[0])
	}

	// and the file reads back
	fileBlob := file.Blob()
	sto.AddBlob(&test.Blob{Contents: fileBlob.JSON()})
	fr, err := schema.NewFileReader(ctx, sto, fileBlob.BlobRef())
	if err != nil {
		t.Fatal(err)
	}
	got, err := io.ReadAll(fr)
	if err != nil {
		t.Fatal(err)
	}
	if !bytes.Equal(got, content) {
		t.Errorf("read back %d bytes differing from the %d written", len(got), len(content))
	}
}
