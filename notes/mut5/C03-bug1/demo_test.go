package files_test

// Demonstration for seeded bug 1 (files: no fsync for a blob that is
// already stored).
//
// The test runs the file-per-blob store on the real file system through a
// VFS wrapper that tracks, for every temp file, whether it has data that was
// written but not fsynced. A "power loss" then drops exactly that data: a file
// that was renamed to its final name while it still had un-synced data comes
// back empty (the rename is durable, the data is not).

import (
	"context"
	"io"
	"os"
	"strings"
	"sync"
	"testing"

	"perkeep.org/pkg/blob"
	"perkeep.org/pkg/blobserver/files"
)

type mutTrackedFile struct {
	files.WritableFile
	mu    sync.Mutex
	dirty bool // has written-but-not-synced data
}

func (f *mutTrackedFile) Write(p []byte) (int, error) {
	f.mu.Lock()
	f.dirty = true
	f.mu.Unlock()
	return f.WritableFile.Write(p)
}

func (f *mutTrackedFile) Sync() error {
	err := f.WritableFile.Sync()
	if err == nil {
		f.mu.Lock()
		f.dirty = false
		f.mu.Unlock()
	}
	return err
}

// mutCrashVFS is the OS file system plus the bookkeeping needed to simulate
// the loss of un-synced data.
type mutCrashVFS struct {
	files.VFS
	mu    sync.Mutex
	temps map[string]*mutTrackedFile // temp name -> file
	final map[string]*mutTrackedFile // final name -> file it was renamed from
}

func newMutCrashVFS() *mutCrashVFS {
	return &mutCrashVFS{
		VFS:   files.OSFS(),
		temps: make(map[string]*mutTrackedFile),
		final: make(map[string]*mutTrackedFile),
	}
}

func (v *mutCrashVFS) TempFile(dir, prefix string) (files.WritableFile, error) {
	f, err := v.VFS.TempFile(dir, prefix)
	if err != nil {
		return nil, err
	}
	tf := &mutTrackedFile{WritableFile: f}
	v.mu.Lock()
	v.temps[f.Name()] = tf
	v.mu.Unlock()
	return tf, nil
}

func (v *mutCrashVFS) Rename(oldname, newname string) error {
	if err := v.VFS.Rename(oldname, newname); err != nil {
		return err
	}
	v.mu.Lock()
	if tf, ok := v.temps[oldname]; ok {
		delete(v.temps, oldname)
		v.final[newname] = tf
	}
	v.mu.Unlock()
	return nil
}

// powerLoss drops the data that was never fsynced.
func (v *mutCrashVFS) powerLoss(t *testing.T) {
	v.mu.Lock()
	defer v.mu.Unlock()
	for name, tf := range v.final {
		tf.mu.Lock()
		dirty := tf.dirty
		tf.mu.Unlock()
		if dirty {
			t.Logf("power loss: %s was renamed into place with un-synced data; its data is lost", name)
			if err := os.Truncate(name, 0); err != nil {
				t.Fatal(err)
			}
		}
	}
}

func TestMutReuploadSurvivesPowerLoss(t *testing.T) {
	ctx := context.Background()
	root := t.TempDir()
	vfs := newMutCrashVFS()
	sto := files.NewStorage(vfs, root)

	const contents = "a blob that was acknowledged twice"
	br := blob.RefFromString(contents)

	// First upload, acknowledged.
	if _, err := sto.ReceiveBlob(ctx, br, strings.NewReader(contents)); err != nil {
		t.Fatal(err)
	}
	// The client uploads the same blob again (e.g. a retry), acknowledged too.
	if _, err := sto.ReceiveBlob(ctx, br, strings.NewReader(contents)); err != nil {
		t.Fatal(err)
	}

	// The machine dies right after the second acknowledgement.
	vfs.powerLoss(t)

	// Restart.
	sto = files.NewStorage(files.OSFS(), root)
	rc, size, err := sto.Fetch(ctx, br)
	if err != nil {
		t.Fatalf("acknowledged blob %v can't be fetched after the restart: %v", br, err)
	}
	defer rc.Close()
	got, err := io.ReadAll(rc)
	if err != nil {
		t.Fatal(err)
	}
	if string(got) != contents || int(size) != len(contents) {
		t.Fatalf("acknowledged blob %v is torn after the restart: size %d, contents %q; want size %d, contents %q",
			br, size, got, len(contents), contents)
	}
	var stat []blob.SizedRef
	if err := sto.StatBlobs(ctx, []blob.Ref{br}, func(sb blob.SizedRef) error {
		stat = append(stat, sb)
		return nil
	}); err != nil {
		t.Fatal(err)
	}
	if len(stat) != 1 || int(stat[0].Size) != len(contents) {
		t.Fatalf("stat of acknowledged blob after the restart = %v; want size %d", stat, len(contents))
	}
}
