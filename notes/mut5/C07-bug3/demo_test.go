package index_test

import (
	"context"
	"testing"

	"perkeep.org/pkg/blob"
	"perkeep.org/pkg/index"
	"perkeep.org/pkg/index/indextest"
	"perkeep.org/pkg/sorted"
	"perkeep.org/pkg/types/camtypes"
)

// A delete/undelete chain that is extended after the index was re-opened:
//
//	before the restart: delete X (d1), undelete X (d2 deletes d1)
//	after the restart:  d3 deletes d2, so d1 counts again and X is deleted.
//
// X is a permanode in the first half and an attribute claim in the second.
func TestMut5C07Bug3DeleteChainAcrossRestart(t *testing.T) {
	ctx := context.Background()
	s := sorted.NewMemoryKeyValue()

	open := func(id *indextest.IndexDeps) *index.Index {
		ix, err := index.New(s)
		if err != nil {
			t.Fatal(err)
		}
		if id != nil {
			ix.KeyFetcher = id.PublicKeyFetcher
			ix.InitBlobSource(id.BlobSource)
			id.Index = ix
		}
		return ix
	}

	ix := open(nil)
	id := indextest.NewIndexDeps(ix)
	id.Fataler = t

	pn := id.NewPermanode()
	cl := id.SetAttribute(pn, "tag", "foo")
	pn2 := id.NewPlannedPermanode("other")
	cl2 := id.SetAttribute(pn2, "tag", "bar")

	d1 := id.Delete(pn)
	d2 := id.Delete(d1) // pn undeleted
	e1 := id.Delete(cl2)
	e2 := id.Delete(e1) // cl2 undeleted
	if ix.IsDeleted(pn) || ix.IsDeleted(cl2) {
		t.Fatalf("before restart: IsDeleted(pn) = %v, IsDeleted(cl2) = %v; want false, false", ix.IsDeleted(pn), ix.IsDeleted(cl2))
	}

	tagged := func(ix *index.Index, val string) []blob.Ref {
		ch := make(chan blob.Ref, 10)
		if err := ix.SearchPermanodesWithAttr(ctx, ch, &camtypes.PermanodeByAttrRequest{
			Signer:    id.SignerBlobRef,
			Attribute: "tag",
			Query:     val,
		}); err != nil {
			t.Fatal(err)
		}
		var got []blob.Ref
		for br := range ch {
			got = append(got, br)
		}
		return got
	}
	claimsOf := func(ix *index.Index, pn blob.Ref) []blob.Ref {
		claims, err := ix.AppendClaims(ctx, nil, pn, indextest.KeyID, "")
		if err != nil {
			t.Fatal(err)
		}
		var got []blob.Ref
		for _, c := range claims {
			got = append(got, c.BlobRef)
		}
		return got
	}

	// Restart.
	ix = open(id)
	if ix.IsDeleted(pn) || ix.IsDeleted(cl2) {
		t.Fatalf("after restart: IsDeleted(pn) = %v, IsDeleted(cl2) = %v; want false, false", ix.IsDeleted(pn), ix.IsDeleted(cl2))
	}
	if got := tagged(ix, "foo"); len(got) != 1 || got[0] != pn {
		t.Fatalf("after restart: permanodes tagged foo = %v; want [%v]", got, pn)
	}
	if got := claimsOf(ix, pn2); len(got) != 1 || got[0] != cl2 {
		t.Fatalf("after restart: claims of pn2 = %v; want [%v]", got, cl2)
	}

	// Cancel both undeletes.
	d3 := id.Delete(d2)
	e3 := id.Delete(e2)
	t.Logf("pn %v cl %v d1 %v d2 %v d3 %v", pn, cl, d1, d2, d3)
	t.Logf("pn2 %v cl2 %v e1 %v e2 %v e3 %v", pn2, cl2, e1, e2, e3)

	check := func(when string, ix *index.Index) {
		if !ix.IsDeleted(d2) || ix.IsDeleted(d1) {
			t.Errorf("%s: IsDeleted(d2) = %v, IsDeleted(d1) = %v; want true, false", when, ix.IsDeleted(d2), ix.IsDeleted(d1))
		}
		if !ix.IsDeleted(pn) {
			t.Errorf("%s: IsDeleted(pn) = false; want true (d1 deletes pn, d2 deleted d1, d3 deleted d2)", when)
		}
		if got := tagged(ix, "foo"); len(got) != 0 {
			t.Errorf("%s: permanodes tagged foo = %v; want none (pn is deleted)", when, got)
		}
		if !ix.IsDeleted(cl2) {
			t.Errorf("%s: IsDeleted(cl2) = false; want true (e1 deletes cl2, e2 deleted e1, e3 deleted e2)", when)
		}
		if got := claimsOf(ix, pn2); len(got) != 0 {
			t.Errorf("%s: claims of pn2 = %v; want none (its only claim is deleted)", when, got)
		}
	}
	check("live index, chain extended after the restart", ix)

	// The rows are right: a second restart, or a corpus built from them, agrees.
	check("after a second restart", open(id))
	c, err := index.NewCorpusFromStorage(s)
	if err != nil {
		t.Fatal(err)
	}
	if !c.IsDeleted(pn) || !c.IsDeleted(cl2) {
		t.Errorf("corpus loaded from the rows: IsDeleted(pn) = %v, IsDeleted(cl2) = %v; want true, true", c.IsDeleted(pn), c.IsDeleted(cl2))
	}
}
