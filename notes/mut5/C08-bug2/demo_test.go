package search_test

import (
	"testing"

	"perkeep.org/pkg/blob"
	. "perkeep.org/pkg/search"
)

// Permanodes describing old (or far future) things have a dateCreated
// that is far from today: they must still be ordered by that time.
func TestMut5C08Bug2CreatedOrderFarDates(t *testing.T) {
	testQueryTypes(t, memIndexTypes, func(qt *queryTest) {
		id := qt.id
		mk := func(key, created string) blob.Ref {
			pn := id.NewPlannedPermanode(key)
			id.SetAttribute(pn, "tag", "doc")
			id.SetAttribute(pn, "dateCreated", created)
			return pn
		}
		magnaCarta := mk("1", "1215-06-15T00:00:00Z")
		gutenberg := mk("2", "1455-02-23T00:00:00Z")
		moon := mk("3", "1969-07-20T20:17:40Z")
		y2k := mk("4", "2000-01-01T00:00:00Z")
		recent := mk("5", "2013-11-05T12:00:00Z")
		capsule := mk("6", "2500-01-01T00:00:00Z")

		wantDesc := []blob.Ref{capsule, recent, y2k, moon, gutenberg, magnaCarta}

		check := func(sq *SearchQuery, want []blob.Ref) {
			t.Helper()
			qt.wantRes(sq, want...)
			if qt.res == nil || len(qt.res.Blobs) != len(want) {
				t.Errorf("sort %v limit %d: got %v, want %v", sq.Sort, sq.Limit, qt.res.Blobs, want)
				return
			}
			for i, b := range qt.res.Blobs {
				if b.Blob != want[i] {
					t.Errorf("sort %v limit %d: result %d is %v, want %v", sq.Sort, sq.Limit, i, b.Blob, want[i])
					return
				}
			}
		}
		c := func() *Constraint {
			return &Constraint{Permanode: &PermanodeConstraint{Attr: "tag", Value: "doc"}}
		}

		// The whole result, newest first.
		check(&SearchQuery{Constraint: c(), Sort: CreatedDesc, Limit: -1}, wantDesc)
		// The first N of it.
		check(&SearchQuery{Constraint: c(), Sort: CreatedDesc, Limit: 2}, wantDesc[:2])
		check(&SearchQuery{Constraint: c(), Sort: CreatedDesc, Limit: 4}, wantDesc[:4])
		// Oldest first is the reverse.
		wantAsc := make([]blob.Ref, len(wantDesc))
		for i, br := range wantDesc {
			wantAsc[len(wantDesc)-1-i] = br
		}
		check(&SearchQuery{Constraint: c(), Sort: CreatedAsc, Limit: -1}, wantAsc)
	})
}
