package search_test

import (
	"testing"
	"time"

	"perkeep.org/pkg/blob"
	. "perkeep.org/pkg/search"
)

// Two different RecursiveContains constraints in one query, evaluated
// against the same directory tree: the answer to the first must not
// leak into the second.
func TestMut5C08Bug1TwoRecursiveContains(t *testing.T) {
	testQuery(t, func(qt *queryTest) {
		id := qt.id
		leaf, _ := id.UploadFile("needle.txt", "needle", time.Unix(123, 0))
		other, _ := id.UploadFile("hay.txt", "hay", time.Unix(124, 0))
		sub := id.UploadDir("sub", []blob.Ref{leaf, other}, time.Unix(789, 0))
		root := id.UploadDir("root", []blob.Ref{sub}, time.Unix(790, 0))
		top := id.UploadDir("top", []blob.Ref{root}, time.Unix(791, 0))

		rc := func(name string) *Constraint {
			return &Constraint{Dir: &DirConstraint{
				RecursiveContains: &Constraint{File: &FileConstraint{
					FileName: &StringConstraint{Equals: name},
				}},
			}}
		}

		// Each constraint alone.
		qt.wantRes(&SearchQuery{Constraint: rc("needle.txt"), Sort: BlobRefAsc}, sub, root, top)
		qt.wantRes(&SearchQuery{Constraint: rc("absent.txt"), Sort: BlobRefAsc})

		// or(nothing, X) == X
		qt.wantRes(&SearchQuery{
			Constraint: &Constraint{Logical: &LogicalConstraint{
				Op: "or",
				A:  rc("absent.txt"),
				B:  rc("needle.txt"),
			}},
			Sort: BlobRefAsc,
		}, sub, root, top)

		// and(not(nothing), X) == X
		qt.wantRes(&SearchQuery{
			Constraint: &Constraint{Logical: &LogicalConstraint{
				Op: "and",
				A: &Constraint{Logical: &LogicalConstraint{
					Op: "not",
					A:  rc("absent.txt"),
				}},
				B: rc("needle.txt"),
			}},
			Sort: BlobRefAsc,
		}, sub, root, top)
	})
}
