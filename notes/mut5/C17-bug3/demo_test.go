package server

import (
	"fmt"
	"strings"
	"testing"

	"perkeep.org/pkg/blob"
	"perkeep.org/pkg/schema"
)

// TestMut5C17Bug3PartsOfNonFileIsNoLink: "parts" is a link field of "file"
// and "bytes" schema blobs only. A blob of any other type that happens to carry
// a "parts" field merely mentions the refs in it: a transitive share must not
// hop through it (Issue 228: only follow links in known trusted schema fields).
func TestMut5C17Bug3PartsOfNonFileIsNoLink(t *testing.T) {
	secret := "the secret, which nobody shared"
	secretRef := blob.RefFromString(secret)

	member := `{"camliVersion": 1, "camliType": "file", "fileName": "public.txt", "parts": []}`
	memberRef := blob.RefFromString(member)
	set := fmt.Sprintf(`{"camliVersion": 1, "camliType": "static-set", "members": ["%v"]}`, memberRef)
	setRef := blob.RefFromString(set)

	mention := fmt.Sprintf(`"parts": [{"blobRef": "%v", "size": %d}]`, secretRef, len(secret))
	mentionBytes := fmt.Sprintf(`"parts": [{"bytesRef": "%v", "size": %d}]`, secretRef, len(secret))

	tests := []struct {
		name    string
		carrier string // shared (transitively), mentions secretRef in a "parts" field
	}{
		{"directory", fmt.Sprintf(`{"camliVersion": 1, "camliType": "directory", "fileName": "pub", "entries": "%v", %s}`, setRef, mention)},
		{"directory-bytesRef", fmt.Sprintf(`{"camliVersion": 1, "camliType": "directory", "fileName": "pub", "entries": "%v", %s}`, setRef, mentionBytes)},
		{"static-set", fmt.Sprintf(`{"camliVersion": 1, "camliType": "static-set", "members": ["%v"], %s}`, memberRef, mention)},
		{"symlink", fmt.Sprintf(`{"camliVersion": 1, "camliType": "symlink", "fileName": "lnk", "symlinkTarget": "x", %s}`, mention)},
		{"permanode", fmt.Sprintf(`{"camliVersion": 1, "camliType": "permanode", "random": "615e05c68c8411df81a2001b639d041f", %s, "camliSigner": "%v", "camliSig": "xxxx"}`, mention, blob.RefFromString("key"))},
		{"unknown-type", fmt.Sprintf(`{"camliVersion": 1, "camliType": "x-note", %s}`, mention)},
	}
	for _, tt := range tests {
		t.Run(tt.name, func(t *testing.T) {
			st := newShareTester(t)
			defer st.done()

			st.putRaw(secretRef, secret)
			st.putRaw(memberRef, member)
			st.putRaw(setRef, set)
			carrierRef := blob.RefFromString(tt.carrier)
			st.putRaw(carrierRef, tt.carrier)
			if _, err := schema.BlobFromReader(carrierRef, strings.NewReader(tt.carrier)); err != nil {
				t.Fatalf("carrier is not a schema blob: %v", err)
			}

			share := schema.NewShareRef(schema.ShareHaveRef, true).
				SetShareTarget(carrierRef).
				SetSigner(blob.RefFromString("irrelevant")).
				SetRawStringField("camliSig", "alsounused")
			shareRef := share.Blob().BlobRef()
			st.put(share.Blob())

			// The shared blob itself is served...
			st.testGet(fmt.Sprintf("%s?via=%s", carrierRef, shareRef), noError)
			// ... and its genuine links can be followed ...
			switch tt.name {
			case "directory", "directory-bytesRef":
				st.testGet(fmt.Sprintf("%s?via=%s,%s", setRef, shareRef, carrierRef), noError)
				st.testGet(fmt.Sprintf("%s?via=%s,%s,%s", memberRef, shareRef, carrierRef, setRef), noError)
			case "static-set":
				st.testGet(fmt.Sprintf("%s?via=%s,%s", memberRef, shareRef, carrierRef), noError)
			}
			// ... but not the ref it merely mentions.
			st.testGet(fmt.Sprintf("%s?via=%s,%s", secretRef, shareRef, carrierRef), viaChainInvalidLink)
			if st.rec.Code == 200 || strings.Contains(st.rec.Body.String(), secret) {
				t.Errorf("unshared blob served through the \"parts\" of a %s blob: code=%d body=%q", tt.name, st.rec.Code, st.rec.Body.String())
			}
		})
	}
}
