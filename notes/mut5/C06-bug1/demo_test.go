package index_test

import (
	"fmt"
	"testing"

	"perkeep.org/pkg/blob"
	"perkeep.org/pkg/index"
	"perkeep.org/pkg/index/indextest"
	"perkeep.org/pkg/types/camtypes"
)

// TestMut5C06Bug1 checks that the orderings of permanodes by creation time
// given by a long-running corpus are those of a corpus freshly loaded from
// the same rows, whatever the sequence of earlier (read-only) queries.
func TestMut5C06Bug1(t *testing.T) {
	index.SetVerboseCorpusLogging(false)
	defer index.SetVerboseCorpusLogging(true)

	idx := index.NewMemoryIndex()
	idxd := indextest.NewIndexDeps(idx)
	idxd.Fataler = t
	live, err := idx.KeepInMemory()
	if err != nil {
		t.Fatal(err)
	}
	for i := 0; i < 4; i++ {
		pn := idxd.NewPlannedPermanode(fmt.Sprint(i))
		idxd.SetAttribute(pn, "tag", fmt.Sprint(i))
	}

	enum := func(c *index.Corpus, newestFirst bool) (refs []blob.Ref) {
		idx.RLock()
		defer idx.RUnlock()
		c.EnumeratePermanodesCreated(func(m camtypes.BlobMeta) bool {
			refs = append(refs, m.Ref)
			return true
		}, newestFirst)
		return refs
	}
	fresh := func(newestFirst bool) []blob.Ref {
		c, err := index.NewCorpusFromStorage(idx.Storage())
		if err != nil {
			t.Fatal(err)
		}
		return enum(c, newestFirst)
	}
	check := func(step string, newestFirst bool) {
		t.Helper()
		got, want := enum(live, newestFirst), fresh(newestFirst)
		if fmt.Sprint(got) != fmt.Sprint(want) {
			t.Errorf("%s (newestFirst=%v): live corpus and restarted corpus disagree:\n live    %v\n restart %v", step, newestFirst, got, want)
		}
	}

	// No blob arrives between these three queries.
	check("1st query, oldest first", false)
	check("2nd query, newest first", true)
	check("3rd query, oldest first again", false)
	check("4th query, newest first again", true)
}
