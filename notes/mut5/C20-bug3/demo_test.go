package blob_test

import (
	"bytes"
	"testing"

	"perkeep.org/pkg/blob"
)

// The binary encoding of a ref of a supported hash is "<name>-" followed by
// exactly Size raw digest bytes. Anything else under a supported hash name
// (truncated record, trailing garbage, digest of another hash) must be
// rejected by UnmarshalBinary; and whatever UnmarshalBinary does accept must
// be a ref whose text form parses back to an equal ref.
func TestMut5C20Bug3BinaryWrongSizeSupportedHash(t *testing.T) {
	good := []blob.Ref{
		blob.MustParse("sha1-0beec7b5ea3f0fdbc95d0dd47f3c5bc275da8a33"),
		blob.MustParse("sha224-d14a028c2a3a2bc9476102bb288234c415a2b01f828ea62ac5b3e42f"),
		blob.MustParse("sha256-b5bb9d8014a0f9b1d61e21e796d78dccdf1352f23cd32812f4850b878ae4944c"),
		blob.RefFromBytes([]byte("some bytes")),
	}
	check := func(what string, data []byte) {
		t.Helper()
		var r blob.Ref
		err := r.UnmarshalBinary(data)
		if err == nil {
			back, ok := blob.Parse(r.String())
			t.Errorf("%s: UnmarshalBinary(%q) = nil error, ref %v (Valid=%v IsSupported=%v); want error. Parse(ref.String()) = %v, %v",
				what, data, r, r.Valid(), r.IsSupported(), back, ok)
		}
		if err != nil && r.Valid() {
			t.Errorf("%s: UnmarshalBinary(%q) failed (%v) but left a valid ref %v", what, data, err, r)
		}
	}
	for _, g := range good {
		data, err := g.MarshalBinary()
		if err != nil {
			t.Fatal(err)
		}
		// round trip of the well-formed encoding.
		var r blob.Ref
		if err := r.UnmarshalBinary(data); err != nil || r != g {
			t.Errorf("round trip of %v: got %v, %v", g, r, err)
		}
		if back, ok := blob.Parse(r.String()); !ok || back != g {
			t.Errorf("text round trip of %v failed: %v, %v", g, back, ok)
		}

		check("truncated by one byte", data[:len(data)-1])
		check("truncated to half", data[:len(data)/2+4])
		check("one trailing byte", append(bytes.Clone(data), 0x00))
		check("one digest byte only", data[:len(g.HashName())+2])
	}
	// digest of one supported hash under the name of another.
	d224, _ := good[1].MarshalBinary()
	check("sha224 digest named sha256", append([]byte("sha256-"), d224[len("sha224-"):]...))
	check("sha224 digest named sha1", append([]byte("sha1-"), d224[len("sha224-"):]...))
}
