package index_test

import (
	"context"
	"fmt"
	"sort"
	"strings"
	"testing"

	"perkeep.org/pkg/index"
	"perkeep.org/pkg/sorted"
	"perkeep.org/pkg/test"
)

// A file whose bytes live in a two-level tree:
//
//	file -> [ bytesRef(sub) , blobRef(leafC) ]
//	sub  -> [ blobRef(leafA), blobRef(leafB) ]
//
// Whatever the arrival order of these five blobs, the index must end with the
// same rows as when the dependencies arrive first.
func mut1Blobs() (all []*test.Blob, names map[string]string) {
	leafA := &test.Blob{Contents: strings.Repeat("A", 40)}
	leafB := &test.Blob{Contents: strings.Repeat("B", 50)}
	leafC := &test.Blob{Contents: strings.Repeat("C", 60)}
	sub := &test.Blob{Contents: fmt.Sprintf(`{"camliVersion": 1,
"camliType": "bytes",
"parts": [
  {"blobRef": "%s", "size": 40},
  {"blobRef": "%s", "size": 50}
]}`, leafA.BlobRef(), leafB.BlobRef())}
	file := &test.Blob{Contents: fmt.Sprintf(`{"camliVersion": 1,
"camliType": "file",
"fileName": "tree.bin",
"parts": [
  {"bytesRef": "%s", "size": 90},
  {"blobRef": "%s", "size": 60}
]}`, sub.BlobRef(), leafC.BlobRef())}
	all = []*test.Blob{leafA, leafB, leafC, sub, file}
	names = map[string]string{
		leafA.BlobRef().String(): "leafA",
		leafB.BlobRef().String(): "leafB",
		leafC.BlobRef().String(): "leafC",
		sub.BlobRef().String():   "sub",
		file.BlobRef().String():  "file",
	}
	return
}

func mut1Index(t *testing.T, order []*test.Blob) map[string]string {
	t.Helper()
	ctx := context.Background()
	src := new(test.Fetcher)
	s := sorted.NewMemoryKeyValue()
	ix, err := index.New(s)
	if err != nil {
		t.Fatal(err)
	}
	ix.InitBlobSource(src)
	for _, b := range order {
		src.AddBlob(b)
		if _, err := ix.ReceiveBlob(ctx, b.BlobRef(), b.Reader()); err != nil {
			t.Fatalf("ReceiveBlob(%v): %v", b.BlobRef(), err)
		}
		ix.Exp_AwaitAsyncIndexing(t)
	}
	ix.Exp_AwaitAsyncIndexing(t)
	rows := make(map[string]string)
	it := s.Find("", "")
	for it.Next() {
		rows[it.Key()] = it.Value()
	}
	if err := it.Close(); err != nil {
		t.Fatal(err)
	}
	return rows
}

func mut1Diff(want, got map[string]string) []string {
	var d []string
	for k, v := range want {
		if gv, ok := got[k]; !ok {
			d = append(d, fmt.Sprintf("missing row %q = %q", k, v))
		} else if gv != v {
			d = append(d, fmt.Sprintf("row %q = %q; want %q", k, gv, v))
		}
	}
	for k, v := range got {
		if _, ok := want[k]; !ok {
			d = append(d, fmt.Sprintf("extra row %q = %q", k, v))
		}
	}
	sort.Strings(d)
	return d
}

func mut1Permutations(n int, fn func([]int)) {
	p := make([]int, n)
	for i := range p {
		p[i] = i
	}
	var rec func(int)
	rec = func(k int) {
		if k == n {
			fn(p)
			return
		}
		for i := k; i < n; i++ {
			p[k], p[i] = p[i], p[k]
			rec(k + 1)
			p[k], p[i] = p[i], p[k]
		}
	}
	rec(0)
}

func TestMut1MultiLevelFileAnyArrivalOrder(t *testing.T) {
	all, names := mut1Blobs()
	want := mut1Index(t, all) // dependencies first
	bad := 0
	mut1Permutations(len(all), func(p []int) {
		order := make([]*test.Blob, len(p))
		var desc []string
		for i, j := range p {
			order[i] = all[j]
			desc = append(desc, names[all[j].BlobRef().String()])
		}
		got := mut1Index(t, order)
		if d := mut1Diff(want, got); len(d) > 0 {
			bad++
			if bad <= 3 {
				t.Errorf("arrival order %v: index differs from the in-order index:\n  %s", desc, strings.Join(d, "\n  "))
			}
		}
	})
	if bad > 0 {
		t.Errorf("%d of 120 arrival orders end in a different index", bad)
	}
}
