package proxycache_test

import (
	"bytes"
	"context"
	"io"
	"io/fs"
	"os"
	"path/filepath"
	"strings"
	"testing"

	"perkeep.org/pkg/blob"
	"perkeep.org/pkg/blobserver"
	"perkeep.org/pkg/blobserver/localdisk"
	"perkeep.org/pkg/blobserver/memory"
	"perkeep.org/pkg/blobserver/proxycache"
)

func mutC02Disk(t *testing.T) (*localdisk.DiskStorage, string) {
	t.Helper()
	dir := t.TempDir()
	ds, err := localdisk.New(dir)
	if err != nil {
		t.Fatal(err)
	}
	return ds, dir
}

// mutC02BlobFile returns the path of the file in which the localdisk store at
// root keeps ref.
func mutC02BlobFile(t *testing.T, root string, ref blob.Ref) string {
	t.Helper()
	var found string
	filepath.WalkDir(root, func(path string, d fs.DirEntry, err error) error {
		if err == nil && !d.IsDir() && d.Name() == ref.String()+".dat" {
			found = path
		}
		return nil
	})
	if found == "" {
		t.Fatalf("no file for %v under %s", ref, root)
	}
	return found
}

func mutC02NoTrace(t *testing.T, what string, sto blobserver.Storage, ref blob.Ref) {
	t.Helper()
	ctx := context.Background()
	if rc, _, err := sto.Fetch(ctx, ref); err == nil {
		got, _ := io.ReadAll(rc)
		rc.Close()
		t.Errorf("%s: %v is fetchable (%d bytes, hashing to %v)", what, ref, len(got), blob.RefFromBytes(got))
	}
	if err := sto.StatBlobs(ctx, []blob.Ref{ref}, func(sb blob.SizedRef) error {
		t.Errorf("%s: stat-able: %v", what, sb)
		return nil
	}); err != nil {
		t.Errorf("%s: StatBlobs: %v", what, err)
	}
	ch := make(chan blob.SizedRef, 16)
	errc := make(chan error, 1)
	go func() { errc <- sto.EnumerateBlobs(ctx, ch, "", 100) }()
	for sb := range ch {
		t.Errorf("%s: enumerates %v", what, sb)
	}
	if err := <-errc; err != nil {
		t.Errorf("%s: EnumerateBlobs: %v", what, err)
	}
}

// The cache of a proxycache is filled from what the origin serves. The origin
// may serve bytes that don't match the ref (bit rot on its disk, a broken
// remote): they must never be accepted into the cache under that ref, or the
// damage outlives the repair of the origin.
func TestMutC02CacheFillIsVerified(t *testing.T) {
	ctx := context.Background()
	good := strings.Repeat("some blob content, ", 50)
	ref := blob.RefFromString(good)

	t.Run("corrupt-origin", func(t *testing.T) {
		origin, originDir := mutC02Disk(t)
		cache, _ := mutC02Disk(t)
		px := proxycache.New(1<<20, cache, origin)

		if _, err := blobserver.Receive(ctx, origin, ref, strings.NewReader(good)); err != nil {
			t.Fatal(err)
		}
		// One bit rots in the origin's copy.
		file := mutC02BlobFile(t, originDir, ref)
		rotten := []byte(good)
		rotten[len(rotten)/3] ^= 0x10
		if err := os.WriteFile(file, rotten, 0600); err != nil {
			t.Fatal(err)
		}

		// A read through the proxy (cache miss) triggers the cache fill.
		if rc, _, err := px.Fetch(ctx, ref); err == nil {
			io.Copy(io.Discard, rc)
			rc.Close()
		}
		mutC02NoTrace(t, "cache after reading a rotten origin blob", cache, ref)

		// The origin gets repaired: readers must see the true content again.
		if err := os.WriteFile(file, []byte(good), 0600); err != nil {
			t.Fatal(err)
		}
		rc, _, err := px.Fetch(ctx, ref)
		if err != nil {
			t.Fatalf("Fetch after repair: %v", err)
		}
		got, _ := io.ReadAll(rc)
		rc.Close()
		if !bytes.Equal(got, []byte(good)) {
			t.Errorf("after the origin was repaired, the proxy still serves bytes hashing to %v under %v", blob.RefFromBytes(got), ref)
		}
	})

	t.Run("oversized-origin", func(t *testing.T) {
		origin, _ := mutC02Disk(t)
		cache, _ := mutC02Disk(t)
		px := proxycache.New(64<<20, cache, origin)

		big := bytes.Repeat([]byte("0123456789abcdef"), (blobserver.MaxBlobSize/16)+1) // 16 MiB + 16 bytes
		bigRef := blob.RefFromBytes(big)
		// An origin that got an over-long "blob" by some other way.
		if _, err := origin.ReceiveBlob(ctx, bigRef, bytes.NewReader(big)); err != nil {
			t.Fatal(err)
		}
		if rc, _, err := px.Fetch(ctx, bigRef); err == nil {
			io.Copy(io.Discard, rc)
			rc.Close()
		}
		mutC02NoTrace(t, "cache after reading an over-long origin blob", cache, bigRef)
	})

	// Control: a healthy origin blob does get cached, and a cache that
	// verifies by itself (memory) is never polluted, with or without the
	// seeded bug.
	t.Run("control", func(t *testing.T) {
		origin, originDir := mutC02Disk(t)
		cache, _ := mutC02Disk(t)
		px := proxycache.New(1<<20, cache, origin)
		if _, err := blobserver.Receive(ctx, origin, ref, strings.NewReader(good)); err != nil {
			t.Fatal(err)
		}
		rc, _, err := px.Fetch(ctx, ref)
		if err != nil {
			t.Fatal(err)
		}
		rc.Close()
		if _, err := blobserver.StatBlob(ctx, cache, ref); err != nil {
			t.Errorf("healthy blob not cached: %v", err)
		}

		memCache := memory.NewCache(1 << 20)
		px2 := proxycache.New(1<<20, memCache, origin)
		rotten := []byte(good)
		rotten[0] ^= 0x01
		if err := os.WriteFile(mutC02BlobFile(t, originDir, ref), rotten, 0600); err != nil {
			t.Fatal(err)
		}
		if rc, _, err := px2.Fetch(ctx, ref); err == nil {
			rc.Close()
		}
		mutC02NoTrace(t, "self-verifying cache", memCache, ref)
	})
}
