package localdisk_test

import (
	"encoding/json"
	"io"
	"net/http"
	"net/http/httptest"
	"net/url"
	"strings"
	"testing"

	"perkeep.org/pkg/blob"
	"perkeep.org/pkg/blobserver/handlers"
	"perkeep.org/pkg/blobserver/localdisk"
)

// TestMutEmptyBlobOverHTTP uploads the empty blob and a one-byte blob to a
// localdisk storage over HTTP, and checks that batch stat, GET and enumerate
// agree about both of them.
func TestMutEmptyBlobOverHTTP(t *testing.T) {
	sto, err := localdisk.New(t.TempDir())
	if err != nil {
		t.Fatal(err)
	}
	mux := http.NewServeMux()
	mux.Handle("/camli/stat", handlers.CreateStatHandler(sto))
	mux.Handle("/camli/enumerate-blobs", handlers.CreateEnumerateHandler(sto))
	mux.HandleFunc("/camli/", func(rw http.ResponseWriter, req *http.Request) {
		if req.Method == "PUT" {
			handlers.CreatePutUploadHandler(sto).ServeHTTP(rw, req)
			return
		}
		handlers.CreateGetHandler(sto).ServeHTTP(rw, req)
	})
	ts := httptest.NewServer(mux)
	defer ts.Close()

	contents := map[blob.Ref]string{
		blob.RefFromString(""):  "",
		blob.RefFromString("x"): "x",
	}
	for br, data := range contents {
		req, err := http.NewRequest("PUT", ts.URL+"/camli/"+br.String(), strings.NewReader(data))
		if err != nil {
			t.Fatal(err)
		}
		res, err := http.DefaultClient.Do(req)
		if err != nil {
			t.Fatal(err)
		}
		res.Body.Close()
		if res.StatusCode/100 != 2 {
			t.Fatalf("PUT %v: %v", br, res.Status)
		}
	}

	type sizedRef struct {
		BlobRef blob.Ref `json:"blobRef"`
		Size    int64    `json:"size"`
	}

	// Batch stat.
	form := url.Values{"camliversion": {"1"}}
	n := 0
	for br := range contents {
		n++
		form.Set("blob"+string(rune('0'+n)), br.String())
	}
	res, err := http.PostForm(ts.URL+"/camli/stat", form)
	if err != nil {
		t.Fatal(err)
	}
	var statRes struct {
		Stat []sizedRef `json:"stat"`
	}
	err = json.NewDecoder(res.Body).Decode(&statRes)
	res.Body.Close()
	if err != nil {
		t.Fatal(err)
	}
	statted := map[blob.Ref]int64{}
	for _, sr := range statRes.Stat {
		statted[sr.BlobRef] = sr.Size
	}

	// Enumerate.
	res, err = http.Get(ts.URL + "/camli/enumerate-blobs?limit=100")
	if err != nil {
		t.Fatal(err)
	}
	var enumRes struct {
		Blobs []sizedRef `json:"blobs"`
	}
	err = json.NewDecoder(res.Body).Decode(&enumRes)
	res.Body.Close()
	if err != nil {
		t.Fatal(err)
	}
	enumerated := map[blob.Ref]int64{}
	for _, sr := range enumRes.Blobs {
		enumerated[sr.BlobRef] = sr.Size
	}

	for br, data := range contents {
		if size, ok := statted[br]; !ok {
			t.Errorf("blob %v (%d bytes) was uploaded, but batch stat doesn't report it", br, len(data))
		} else if size != int64(len(data)) {
			t.Errorf("blob %v: stat size %d; want %d", br, size, len(data))
		}
		if size, ok := enumerated[br]; !ok {
			t.Errorf("blob %v (%d bytes) was uploaded, but enumerate doesn't list it", br, len(data))
		} else if size != int64(len(data)) {
			t.Errorf("blob %v: enumerate size %d; want %d", br, size, len(data))
		}
		res, err := http.Get(ts.URL + "/camli/" + br.String())
		if err != nil {
			t.Fatal(err)
		}
		got, err := io.ReadAll(res.Body)
		res.Body.Close()
		if err != nil {
			t.Fatal(err)
		}
		if res.StatusCode != 200 || string(got) != data {
			t.Errorf("GET %v = %v, %q; want 200, %q", br, res.Status, got, data)
		}
	}
}
