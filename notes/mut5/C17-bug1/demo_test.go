package server

import (
	"fmt"
	"strings"
	"testing"

	"perkeep.org/pkg/blob"
	"perkeep.org/pkg/schema"
)

// TestMut5C17Bug1SearchShareHasNoTarget: a share claim that shares a search
// (it has a "search" field and no "target") is a valid share claim, and can be
// fetched itself, but it has no target: no via-chain may hop from it to any
// other blob.
func TestMut5C17Bug1SearchShareHasNoTarget(t *testing.T) {
	for _, transitive := range []bool{false, true} {
		t.Run(fmt.Sprintf("transitive=%v", transitive), func(t *testing.T) {
			st := newShareTester(t)
			defer st.done()

			secret := "a private blob nobody shared"
			secretRef := blob.RefFromString(secret)
			st.putRaw(secretRef, secret)

			chunk := "chunk of a private file"
			chunkRef := blob.RefFromString(chunk)
			st.putRaw(chunkRef, chunk)
			file := fmt.Sprintf(`{"camliVersion": 1,
"camliType": "file",
"fileName": "private.txt",
"parts": [
   {"blobRef": "%v", "size": %d}
]}`, chunkRef, len(chunk))
			fileRef := blob.RefFromString(file)
			st.putRaw(fileRef, file)

			share := schema.NewShareRef(schema.ShareHaveRef, transitive).
				SetShareSearch(map[string]any{"expression": "tag:public"}).
				SetSigner(blob.RefFromString("irrelevant")).
				SetRawStringField("camliSig", "alsounused")
			shareBlob := share.Blob()
			if _, ok := shareBlob.AsShare(); !ok {
				t.Fatalf("search share is not a valid share: %s", shareBlob.JSON())
			}
			if shareBlob.ShareTarget().Valid() {
				t.Fatalf("search share unexpectedly has a target")
			}
			shareRef := shareBlob.BlobRef()
			st.put(shareBlob)

			// The claim itself is served.
			st.testGet(shareRef.String(), noError)

			// But nothing can be reached from it.
			st.testGet(fmt.Sprintf("%s?via=%s", secretRef, shareRef), shareTargetInvalid)
			if st.rec.Code == 200 || strings.Contains(st.rec.Body.String(), secret) {
				t.Errorf("private blob served through a target-less share: code=%d body=%q", st.rec.Code, st.rec.Body.String())
			}
			st.testGet(fmt.Sprintf("%s?via=%s", fileRef, shareRef), shareTargetInvalid)
			if st.rec.Code == 200 {
				t.Errorf("private file schema served through a target-less share: code=%d", st.rec.Code)
			}
			if transitive {
				gotErr := st.get(fmt.Sprintf("%s?via=%s,%s", chunkRef, shareRef, fileRef))
				if gotErr == nil || st.rec.Code == 200 {
					t.Errorf("private chunk served through a target-less share: err=%v code=%d body=%q", gotErr, st.rec.Code, st.rec.Body.String())
				}
				gotErr = st.get(fmt.Sprintf("%s?via=%s&assemble=1", fileRef, shareRef))
				if gotErr == nil || st.rec.Code == 200 {
					t.Errorf("private file assembled through a target-less share: err=%v code=%d body=%q", gotErr, st.rec.Code, st.rec.Body.String())
				}
			}
		})
	}
}
