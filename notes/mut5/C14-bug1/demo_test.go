package shard

import (
	"context"
	"fmt"
	"sync/atomic"
	"testing"
	"time"

	"perkeep.org/pkg/blob"
	"perkeep.org/pkg/blobserver"
	"perkeep.org/pkg/blobserver/memory"
)

// TestMutStatBlobsSerializesFn checks the BlobStatter contract on a sharded
// storage: one StatBlobs call over blobs that live on different shards must
// never run its callback from two goroutines at once (callers, such as
// blobserver.StatBlobs, fill plain maps and slices from it).
func TestMutStatBlobsSerializesFn(t *testing.T) {
	ctx := context.Background()
	sto := &shardStorage{
		shardPrefixes: []string{"/a/", "/b/", "/c/"},
		shards:        []blobserver.Storage{&memory.Storage{}, &memory.Storage{}, &memory.Storage{}},
	}

	var refs []blob.Ref
	perShard := map[uint32]int{}
	for i := 0; i < 24; i++ {
		s := fmt.Sprintf("blob number %d", i)
		sb, err := blobserver.ReceiveString(ctx, sto, s)
		if err != nil {
			t.Fatal(err)
		}
		refs = append(refs, sb.Ref)
		perShard[sto.shardNum(sb.Ref)]++
	}
	if len(perShard) < 2 {
		t.Fatalf("test blobs all landed on one shard: %v", perShard)
	}

	for round := 0; round < 3; round++ {
		var inFlight, overlaps atomic.Int32
		got := 0 // deliberately unsynchronised, like the map of blobserver.StatBlobs
		err := sto.StatBlobs(ctx, refs, func(sb blob.SizedRef) error {
			if inFlight.Add(1) > 1 {
				overlaps.Add(1)
			}
			time.Sleep(2 * time.Millisecond)
			got++
			inFlight.Add(-1)
			return nil
		})
		if err != nil {
			t.Fatalf("StatBlobs: %v", err)
		}
		if n := overlaps.Load(); n > 0 {
			t.Fatalf("round %d: StatBlobs ran its callback concurrently from several goroutines (%d overlapping calls)", round, n)
		}
		if got != len(refs) {
			t.Fatalf("round %d: callback ran %d times; want %d", round, got, len(refs))
		}
	}
}
