package index_test

import (
	"context"
	"fmt"
	"sort"
	"strings"
	"testing"

	"perkeep.org/pkg/index"
	"perkeep.org/pkg/sorted"
	"perkeep.org/pkg/test"
)

// A "large" directory: its static-set is spread over sub static-sets
// ("mergeSets"), as schema.StaticSet.SetStaticSetMembers does for more than
// 10000 entries:
//
//	dir -> top {mergeSets: [s1, s2]}
//	s1  -> {members: [m1, m2]}
//	s2  -> {members: [m3]}
//
// Whatever the arrival order of dir, top, s1 and s2, the index must end with
// the same rows as when the directory arrives last.
func mut3Blobs() (all []*test.Blob, names map[string]string) {
	m1 := (&test.Blob{Contents: "member one"}).BlobRef()
	m2 := (&test.Blob{Contents: "member two"}).BlobRef()
	m3 := (&test.Blob{Contents: "member three"}).BlobRef()
	s1 := &test.Blob{Contents: fmt.Sprintf(`{"camliVersion": 1,
"camliType": "static-set",
"members": [
  "%s",
  "%s"
]}`, m1, m2)}
	s2 := &test.Blob{Contents: fmt.Sprintf(`{"camliVersion": 1,
"camliType": "static-set",
"members": [
  "%s"
]}`, m3)}
	top := &test.Blob{Contents: fmt.Sprintf(`{"camliVersion": 1,
"camliType": "static-set",
"mergeSets": [
  "%s",
  "%s"
]}`, s1.BlobRef(), s2.BlobRef())}
	dir := &test.Blob{Contents: fmt.Sprintf(`{"camliVersion": 1,
"camliType": "directory",
"fileName": "bigdir",
"entries": "%s"
}`, top.BlobRef())}
	all = []*test.Blob{s1, s2, top, dir}
	names = map[string]string{
		s1.BlobRef().String():  "s1",
		s2.BlobRef().String():  "s2",
		top.BlobRef().String(): "top",
		dir.BlobRef().String(): "dir",
	}
	return
}

func mut3Index(t *testing.T, order []*test.Blob) map[string]string {
	t.Helper()
	ctx := context.Background()
	src := new(test.Fetcher)
	s := sorted.NewMemoryKeyValue()
	ix, err := index.New(s)
	if err != nil {
		t.Fatal(err)
	}
	ix.InitBlobSource(src)
	for _, b := range order {
		src.AddBlob(b)
		if _, err := ix.ReceiveBlob(ctx, b.BlobRef(), b.Reader()); err != nil {
			t.Fatalf("ReceiveBlob(%v): %v", b.BlobRef(), err)
		}
		ix.Exp_AwaitAsyncIndexing(t)
	}
	ix.Exp_AwaitAsyncIndexing(t)
	rows := make(map[string]string)
	it := s.Find("", "")
	for it.Next() {
		rows[it.Key()] = it.Value()
	}
	if err := it.Close(); err != nil {
		t.Fatal(err)
	}
	return rows
}

func mut3Diff(want, got map[string]string) []string {
	var d []string
	for k, v := range want {
		if gv, ok := got[k]; !ok {
			d = append(d, fmt.Sprintf("missing row %q = %q", k, v))
		} else if gv != v {
			d = append(d, fmt.Sprintf("row %q = %q; want %q", k, gv, v))
		}
	}
	for k, v := range got {
		if _, ok := want[k]; !ok {
			d = append(d, fmt.Sprintf("extra row %q = %q", k, v))
		}
	}
	sort.Strings(d)
	return d
}

func mut3Permutations(n int, fn func([]int)) {
	p := make([]int, n)
	for i := range p {
		p[i] = i
	}
	var rec func(int)
	rec = func(k int) {
		if k == n {
			fn(p)
			return
		}
		for i := k; i < n; i++ {
			p[k], p[i] = p[i], p[k]
			rec(k + 1)
			p[k], p[i] = p[i], p[k]
		}
	}
	rec(0)
}

func TestMut3LargeDirectoryAnyArrivalOrder(t *testing.T) {
	all, names := mut3Blobs()
	want := mut3Index(t, all) // dependencies first
	nchild := 0
	for k := range want {
		if strings.HasPrefix(k, "dirchild|") {
			nchild++
		}
	}
	if nchild != 3 {
		t.Fatalf("in-order index has %d dirchild rows; want 3", nchild)
	}
	bad := 0
	mut3Permutations(len(all), func(p []int) {
		order := make([]*test.Blob, len(p))
		var desc []string
		for i, j := range p {
			order[i] = all[j]
			desc = append(desc, names[all[j].BlobRef().String()])
		}
		got := mut3Index(t, order)
		if d := mut3Diff(want, got); len(d) > 0 {
			bad++
			if bad <= 3 {
				t.Errorf("arrival order %v: index differs from the in-order index:\n  %s", desc, strings.Join(d, "\n  "))
			}
		}
	})
	if bad > 0 {
		t.Errorf("%d of 24 arrival orders end in a different index", bad)
	}
}
