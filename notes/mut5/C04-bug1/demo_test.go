package blobpacked

// Demonstration for MUT/bug1: a pack that crashes right before its last
// write (the final "w:<wholeref>" row) and is then restarted in fast
// recovery mode must serve the whole file again: every zip of the file is
// present, and the zips alone suffice to rebuild the whole-file rows.

import (
	"bytes"
	"errors"
	"io"
	"os"
	"path/filepath"
	"strings"
	"testing"

	"perkeep.org/pkg/blob"
	"perkeep.org/pkg/blobserver"
	"perkeep.org/pkg/schema"
	"perkeep.org/pkg/sorted"
	_ "perkeep.org/pkg/sorted/leveldb"
	"perkeep.org/pkg/test"

	"go4.org/jsonconfig"
)

// mut5CrashBeforeFinalRow is a meta index which dies on the last write of
// a pack: the "w:<wholeref>" row is the only row written with a plain Set
// (everything else goes through batches).
type mut5CrashBeforeFinalRow struct {
	sorted.KeyValue
	crashed *bool
}

func (kv mut5CrashBeforeFinalRow) Set(key, value string) error {
	if strings.HasPrefix(key, wholeMetaPrefix) {
		*kv.crashed = true
		return errors.New("simulated crash before the final whole-file row")
	}
	return kv.KeyValue.Set(key, value)
}

func TestMut5C04Bug1FastRecoveryAfterCrashBeforeFinalRow(t *testing.T) {
	dir := t.TempDir()
	metaConf := func() map[string]any {
		return map[string]any{
			"type": "leveldb",
			"file": filepath.Join(dir, "meta.leveldb"),
		}
	}

	const fileSize = 1 << 20
	contents := randBytesSrc(fileSize, 4242)
	wholeRef := blob.RefFromBytes(contents)

	// The logical blobs, for reference.
	logical := new(test.Fetcher)
	if _, err := schema.WriteFileFromReader(ctxbg, logical, "crash.dat", bytes.NewReader(contents)); err != nil {
		t.Fatal(err)
	}

	small, large := new(test.Fetcher), new(test.Fetcher)
	kv, err := sorted.NewKeyValue(jsonconfig.Obj(metaConf()))
	if err != nil {
		t.Fatal(err)
	}
	crashed := false
	sto := &storage{
		small: small,
		large: large,
		meta:  mut5CrashBeforeFinalRow{kv, &crashed},
		log:   test.NewLogger(t, "blobpacked: "),
	}
	sto.init()
	if _, err := schema.WriteFileFromReader(ctxbg, sto, "crash.dat", bytes.NewReader(contents)); err != nil {
		t.Fatal(err)
	}
	if !crashed {
		t.Fatal("the pack didn't reach its final row")
	}
	if large.NumBlobs() != 1 || small.NumBlobs() != 0 {
		t.Fatalf("crash state: %d zips, %d loose blobs; want 1, 0", large.NumBlobs(), small.NumBlobs())
	}
	if _, err := kv.Get(wholeMetaPrefix + wholeRef.String()); !errors.Is(err, sorted.ErrNotFound) {
		t.Fatalf("crash state: final row lookup = %v; want not found", err)
	}
	if err := kv.Close(); err != nil {
		t.Fatal(err)
	}

	restart := func(mode RecoveryMode) *storage {
		SetRecovery(mode)
		defer SetRecovery(NoRecovery)
		ld := test.NewLoader()
		ld.SetStorage("/small/", small)
		ld.SetStorage("/large/", large)
		s, err := newFromConfig(ld, jsonconfig.Obj{
			"smallBlobs": "/small/",
			"largeBlobs": "/large/",
			"metaIndex":  metaConf(),
			"keepGoing":  true,
		})
		if err != nil {
			t.Fatalf("restart in mode %d: %v", mode, err)
		}
		return s.(*storage)
	}

	check := func(name string, s *storage) {
		// All the logical blobs are still there.
		if err := blobserver.EnumerateAll(ctxbg, logical, func(sb blob.SizedRef) error {
			rc, size, err := s.Fetch(ctxbg, sb.Ref)
			if err != nil {
				t.Errorf("%s: fetch %v: %v", name, sb.Ref, err)
				return nil
			}
			defer rc.Close()
			if size != sb.Size {
				t.Errorf("%s: fetch %v size = %d; want %d", name, sb.Ref, size, sb.Size)
			}
			return nil
		}); err != nil {
			t.Fatal(err)
		}
		// And the file is served as a whole from its zip.
		rc, size, err := s.OpenWholeRef(wholeRef, 0)
		if err != nil {
			if errors.Is(err, os.ErrNotExist) {
				t.Errorf("%s: whole file %v is not served although its only zip is there and was recovered", name, wholeRef)
			} else {
				t.Errorf("%s: OpenWholeRef: %v", name, err)
			}
			return
		}
		defer rc.Close()
		got, err := io.ReadAll(rc)
		if err != nil {
			t.Errorf("%s: reading whole file: %v", name, err)
			return
		}
		if size != fileSize || !bytes.Equal(got, contents) {
			t.Errorf("%s: whole file: size %d, %d bytes read, equal=%v", name, size, len(got), bytes.Equal(got, contents))
		}
	}

	fast := restart(FastRecovery)
	check("fast recovery", fast)
	if err := fast.Close(); err != nil {
		t.Fatal(err)
	}

	// For comparison: full recovery from the same state.
	full := restart(FullRecovery)
	check("full recovery", full)
	full.Close()
}
