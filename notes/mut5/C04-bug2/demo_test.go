package blobpacked

// Demonstration for MUT/bug2: a packed file is served as a whole from its
// zips, however many zips it spans (the "w:<wholeref>:<n>" rows come out of
// the index in lexical order: 0, 1, 10, 11, 2, ...).

import (
	"bytes"
	"fmt"
	"io"
	"testing"

	"perkeep.org/pkg/blob"
	"perkeep.org/pkg/schema"
	"perkeep.org/pkg/sorted"
	"perkeep.org/pkg/test"
)

func TestMut5C04Bug2WholeFileOverManyZips(t *testing.T) {
	const chunkSize = 100 << 10
	for _, nZips := range []int{6, 9, 10, 11, 12, 25} {
		t.Run(fmt.Sprintf("zips=%d", nZips), func(t *testing.T) {
			small, large := new(test.Fetcher), new(test.Fetcher)
			sto := &storage{
				small: small,
				large: large,
				meta:  sorted.NewMemoryKeyValue(),
				log: test.NewLogger(t, "blobpacked: ",
					"Packing file ", "Packed file "),
				// Room for exactly one chunk per zip.
				forceMaxZipBlobSize: chunkSize + 8<<10,
			}
			sto.init()

			contents := randBytesSrc(nZips*chunkSize, int64(1000+nZips))
			wholeRef := blob.RefFromBytes(contents)
			var parts []schema.BytesPart
			for i := 0; i < nZips; i++ {
				chunk := contents[i*chunkSize : (i+1)*chunkSize]
				br := blob.RefFromBytes(chunk)
				if _, err := sto.ReceiveBlob(ctxbg, br, bytes.NewReader(chunk)); err != nil {
					t.Fatal(err)
				}
				parts = append(parts, schema.BytesPart{Size: chunkSize, BlobRef: br})
			}
			m := schema.NewFileMap("many-zips.dat")
			if err := m.PopulateParts(int64(len(contents)), parts); err != nil {
				t.Fatal(err)
			}
			fjson, err := m.JSON()
			if err != nil {
				t.Fatal(err)
			}
			fb := &test.Blob{Contents: fjson}
			fb.MustUpload(t, sto)

			if got := large.NumBlobs(); got != nZips {
				t.Fatalf("file packed into %d zips; the test wants %d", got, nZips)
			}
			if got := small.NumBlobs(); got != 0 {
				t.Fatalf("%d loose blobs left after the pack; want 0", got)
			}
			if _, err := sto.meta.Get(wholeMetaPrefix + wholeRef.String()); err != nil {
				t.Fatalf("final whole-file row: %v", err)
			}

			for _, offset := range []int64{0, 1, chunkSize, 3*chunkSize/2, int64(len(contents)) - 7} {
				rc, size, err := sto.OpenWholeRef(wholeRef, offset)
				if err != nil {
					t.Errorf("OpenWholeRef(offset %d) of a completely packed file of %d zips: %v", offset, nZips, err)
					continue
				}
				got, err := io.ReadAll(rc)
				rc.Close()
				if err != nil {
					t.Errorf("OpenWholeRef(offset %d): read: %v", offset, err)
					continue
				}
				if size != int64(len(contents)) {
					t.Errorf("OpenWholeRef(offset %d): size = %d; want %d", offset, size, len(contents))
				}
				if !bytes.Equal(got, contents[offset:]) {
					t.Errorf("OpenWholeRef(offset %d): read %d bytes differing from the file's (want %d bytes)", offset, len(got), len(contents)-int(offset))
				}
			}
		})
	}
}
