package encrypt

import (
	"context"
	"io"
	"strings"
	"testing"

	"perkeep.org/pkg/blob"
	"perkeep.org/pkg/test"
)

// mut5TruncatedMeta is the meta store with one of its blobs truncated to zero
// bytes (the in-memory store refuses to hold a blob that doesn't match its
// name, so the truncation is applied on the way out).
type mut5TruncatedMeta struct {
	*test.Fetcher
	victim blob.Ref
}

func (m *mut5TruncatedMeta) Fetch(ctx context.Context, br blob.Ref) (io.ReadCloser, uint32, error) {
	if br == m.victim {
		return io.NopCloser(strings.NewReader("")), 0, nil
	}
	return m.Fetcher.Fetch(ctx, br)
}

func (m *mut5TruncatedMeta) EnumerateBlobs(ctx context.Context, dest chan<- blob.SizedRef, after string, limit int) error {
	defer close(dest)
	ch := make(chan blob.SizedRef)
	errc := make(chan error, 1)
	go func() { errc <- m.Fetcher.EnumerateBlobs(ctx, ch, after, limit) }()
	for sb := range ch {
		if sb.Ref == m.victim {
			sb.Size = 0
		}
		dest <- sb
	}
	return <-errc
}

// TestMut5C11Bug3MetaTruncatedToZero truncates one stored meta blob to zero
// length and restarts with a wiped meta index. The truncation must be
// detected (the start-up scan fails); it must not silently yield a mapping
// that lacks the blob described by the truncated meta blob.
func TestMut5C11Bug3MetaTruncatedToZero(t *testing.T) {
	ts := newTestStorage()

	contents := []string{"first blob", "second blob", "third blob"}
	var blobs []*test.Blob
	var victimMeta blob.Ref
	for i, c := range contents {
		before := map[string]bool{}
		for _, r := range ts.meta.BlobrefStrings() {
			before[r] = true
		}
		tb := &test.Blob{Contents: c}
		tb.MustUpload(t, ts.sto)
		blobs = append(blobs, tb)
		if i == 1 {
			for _, r := range ts.meta.BlobrefStrings() {
				if !before[r] {
					victimMeta = blob.MustParse(r)
				}
			}
		}
	}
	if !victimMeta.Valid() {
		t.Fatal("meta blob of the second blob not found")
	}

	// Restart with a wiped meta index, on a meta store in which the second
	// blob's meta blob has been truncated to zero bytes.
	ts2 := newTestStorage()
	ts2.meta, ts2.blobs = ts.meta, ts.blobs
	ts2.sto.blobs = ts.blobs
	ts2.sto.meta = &mut5TruncatedMeta{Fetcher: ts.meta, victim: victimMeta}
	if err := ts2.sto.readAllMetaBlobs(); err != nil {
		t.Logf("start-up scan detected the truncated meta blob: %v", err)
		return
	}
	for i, tb := range blobs {
		if got := ts2.fetchOrErrorString(tb.BlobRef()); got != contents[i] {
			t.Errorf("start-up scan reported no error on a meta store with a truncated meta blob, but blob %d (%v) is not recoverable: fetch = %q, want %q", i, tb.BlobRef(), got, contents[i])
		}
	}
}
