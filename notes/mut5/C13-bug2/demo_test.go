package blobpacked

import (
	"bytes"
	"context"
	"errors"
	"io"
	"sync"
	"testing"

	"perkeep.org/pkg/blob"
	"perkeep.org/pkg/blobserver"
	"perkeep.org/pkg/schema"
	"perkeep.org/pkg/sorted"
	"perkeep.org/pkg/test"
)

// mutFlakyLarge is a "large" store whose k-th ReceiveBlob fails (once).
type mutFlakyLarge struct {
	*test.Fetcher
	mu     sync.Mutex
	calls  int
	failAt int
}

var errMutLarge = errors.New("injected transient failure of the large store")

func (f *mutFlakyLarge) ReceiveBlob(ctx context.Context, br blob.Ref, r io.Reader) (blob.SizedRef, error) {
	f.mu.Lock()
	f.calls++
	fail := f.calls == f.failAt
	f.mu.Unlock()
	if fail {
		return blob.SizedRef{}, errMutLarge
	}
	return f.Fetcher.ReceiveBlob(ctx, br, r)
}

// A file that needs two zips is packed; the upload of the second zip to the
// large store fails once. Nothing is lost (the rest of the file stays loose in
// small), and the store must still be rebuildable by its own recovery: reindex
// from the zips, followed by the integrity check that newFromConfig runs (and
// which terminates the server when it fails).
func TestMutRecoveryAfterFailedSecondZip(t *testing.T) {
	const fileSize = 17 << 20 // more than 16 MB, so two zips
	contents := randBytesSrc(fileSize, 4242)

	logical := new(test.Fetcher)
	if _, err := schema.WriteFileFromReader(ctxbg, logical, "foo.dat", bytes.NewReader(contents)); err != nil {
		t.Fatal(err)
	}

	small := new(test.Fetcher)
	large := &mutFlakyLarge{Fetcher: new(test.Fetcher), failAt: 2}
	sto := &storage{
		small: small,
		large: large,
		meta:  sorted.NewMemoryKeyValue(),
		log:   test.NewLogger(t, "blobpacked: "),
	}
	sto.init()

	if _, err := schema.WriteFileFromReader(ctxbg, sto, "foo.dat", bytes.NewReader(contents)); err != nil {
		t.Fatalf("writing the file: %v", err)
	}
	if large.calls != 2 || large.NumBlobs() != 1 {
		t.Fatalf("large store: %d receives, %d zips; want 2 receives (the 2nd failed), 1 zip", large.calls, large.NumBlobs())
	}

	checkAll := func(when string) {
		t.Helper()
		n := 0
		if err := blobserver.EnumerateAll(ctxbg, logical, func(sb blob.SizedRef) error {
			n++
			rc, size, err := sto.Fetch(ctxbg, sb.Ref)
			if err != nil {
				t.Errorf("%s: Fetch(%v) = %v", when, sb.Ref, err)
				return nil
			}
			defer rc.Close()
			h := sb.Ref.Hash()
			if _, err := io.Copy(h, rc); err != nil || size != sb.Size || !sb.Ref.HashMatches(h) {
				t.Errorf("%s: Fetch(%v): bad content (size %d, want %d; err %v)", when, sb.Ref, size, sb.Size, err)
			}
			return nil
		}); err != nil {
			t.Fatal(err)
		}
		if n == 0 {
			t.Fatal("no logical blobs?")
		}
	}
	checkAll("after the failed pack")

	// Recovery, as newFromConfig does it with -recovery=1/2: rebuild the meta
	// index from the zips, then validate it.
	if err := sto.reindex(ctxbg, func() (sorted.KeyValue, error) {
		return sorted.NewMemoryKeyValue(), nil
	}); err != nil {
		t.Fatalf("reindex: %v", err)
	}
	mode, err := sto.checkLargeIntegrity()
	if err != nil || mode != NoRecovery {
		t.Fatalf("after recovery, checkLargeIntegrity = mode %v, err %v; want %v, nil (the server would refuse to start and ask for recovery again)", mode, err, NoRecovery)
	}
	checkAll("after recovery")
}
