package index_test

import (
	"context"
	"errors"
	"strings"
	"testing"
	"time"

	"perkeep.org/pkg/index"
	"perkeep.org/pkg/index/indextest"
	"perkeep.org/pkg/schema"
	"perkeep.org/pkg/sorted"
	"perkeep.org/pkg/types/camtypes"
)

// mut5C06Bug2KV is a sorted.KeyValue whose CommitBatch can be made to fail
// (think "database is locked", disk full, ...), without writing anything.
type mut5C06Bug2KV struct {
	sorted.KeyValue
	failCommit bool
}

func (kv *mut5C06Bug2KV) CommitBatch(b sorted.BatchMutation) error {
	if kv.failCommit {
		return errors.New("injected fault: batch not committed")
	}
	return kv.KeyValue.CommitBatch(b)
}

// TestMut5C06Bug2 checks that after a delete claim could not be committed,
// the running index still gives the deletion status that an index re-opened
// over the same rows gives.
func TestMut5C06Bug2(t *testing.T) {
	ctx := context.Background()
	kv := &mut5C06Bug2KV{KeyValue: sorted.NewMemoryKeyValue()}
	idx, err := index.New(kv)
	if err != nil {
		t.Fatal(err)
	}
	idxd := indextest.NewIndexDeps(idx)
	idxd.Fataler = t

	pn := idxd.NewPlannedPermanode("foo")
	idxd.SetAttribute(pn, "title", "foo")

	// A delete claim for pn, whose batch fails to commit.
	m := schema.NewDeleteClaim(pn)
	m.SetClaimDate(idxd.LastTime().Add(time.Second))
	del := idxd.Sign(m)
	idxd.BlobSource.AddBlob(del)
	kv.failCommit = true
	_, err = idx.ReceiveBlob(ctx, del.BlobRef(), del.Reader())
	kv.failCommit = false
	if err == nil {
		t.Fatal("ReceiveBlob of the delete claim succeeded despite the injected commit fault")
	}
	t.Logf("ReceiveBlob(delete claim) = %v (expected)", err)

	// Nothing of the delete claim was persisted.
	it := kv.Find("", "")
	for it.Next() {
		if strings.Contains(it.Key(), del.BlobRef().String()) {
			t.Errorf("unexpected row for the failed delete claim: %q = %q", it.Key(), it.Value())
		}
	}
	if err := it.Close(); err != nil {
		t.Fatal(err)
	}

	restarted, err := index.New(kv)
	if err != nil {
		t.Fatal(err)
	}
	if live, fresh := idx.IsDeleted(pn), restarted.IsDeleted(pn); live != fresh {
		t.Errorf("IsDeleted(%v): running index says %v, index re-opened over the same rows says %v", pn, live, fresh)
	}
	if live, fresh := idx.IsDeleted(del.BlobRef()), restarted.IsDeleted(del.BlobRef()); live != fresh {
		t.Errorf("IsDeleted(delete claim): running index says %v, re-opened index says %v", live, fresh)
	}

	// The same through a lookup that filters on the deletion status.
	recent := func(ix *index.Index) int {
		ch := make(chan struct{})
		n := 0
		dest := make(chan camtypes.RecentPermanode, 10)
		go func() {
			for range dest {
				n++
			}
			close(ch)
		}()
		if err := ix.GetRecentPermanodes(ctx, dest, idxd.SignerBlobRef, 10, time.Time{}); err != nil {
			t.Fatal(err)
		}
		<-ch
		return n
	}
	if live, fresh := recent(idx), recent(restarted); live != fresh {
		t.Errorf("GetRecentPermanodes: running index returns %d permanodes, re-opened index %d", live, fresh)
	}
}
