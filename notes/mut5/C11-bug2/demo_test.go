package encrypt

import (
	"fmt"
	"io"
	"strings"
	"testing"

	"perkeep.org/pkg/blob"
	"perkeep.org/pkg/test"
)

// TestMut5C11Bug2MetaLookalikeZeroSize substitutes, in the meta store, the
// meta blob of a victim blob by the stored ciphertext of a user blob whose
// plaintext looks like a meta blob claiming that the victim has size 0.
// Both are produced by the encrypting store itself, so the substitute
// authenticates. After a restart (meta index rebuilt from the meta store), a
// fetch of the victim must return the original plaintext or fail.
func TestMut5C11Bug2MetaLookalikeZeroSize(t *testing.T) {
	ts := newTestStorage()

	const victimData = "the victim's precious plaintext"
	victim := &test.Blob{Contents: victimData}
	victim.MustUpload(t, ts.sto)
	_, victimEnc, err := ts.sto.fetchMeta(ctxbg, victim.BlobRef())
	if err != nil {
		t.Fatal(err)
	}
	metaRefs := ts.meta.BlobrefStrings()
	if len(metaRefs) != 1 {
		t.Fatalf("got %d meta blobs, want 1", len(metaRefs))
	}
	victimMeta := blob.MustParse(metaRefs[0])

	// An ordinary user blob that happens to look like a meta blob.
	lookalike := &test.Blob{Contents: fmt.Sprintf("#camlistore/encmeta=2\n%s/0/%s\n", victim.BlobRef(), victimEnc)}
	lookalike.MustUpload(t, ts.sto)
	_, lookalikeEnc, err := ts.sto.fetchMeta(ctxbg, lookalike.BlobRef())
	if err != nil {
		t.Fatal(err)
	}
	ciphertext, ok := ts.blobs.BlobContents(lookalikeEnc)
	if !ok {
		t.Fatal("ciphertext of the lookalike blob not found")
	}

	// Blob-for-blob substitution in the meta store: the victim's meta blob is
	// replaced by the lookalike's ciphertext (copied from the blobs store).
	if err := ts.meta.RemoveBlobs(ctxbg, []blob.Ref{victimMeta}); err != nil {
		t.Fatal(err)
	}
	if _, err := ts.meta.ReceiveBlob(ctxbg, lookalikeEnc, strings.NewReader(ciphertext)); err != nil {
		t.Fatal(err)
	}

	// Restart with a wiped meta index.
	ts2 := newTestStorage()
	ts2.meta, ts2.blobs = ts.meta, ts.blobs
	ts2.sto.meta, ts2.sto.blobs = ts.meta, ts.blobs
	if err := ts2.sto.readAllMetaBlobs(); err != nil {
		t.Logf("start-up scan detected the substitution: %v", err)
		return
	}

	rc, size, err := ts2.sto.Fetch(ctxbg, victim.BlobRef())
	if err != nil {
		t.Logf("fetch detected the substitution: %v", err)
		return
	}
	defer rc.Close()
	got, err := io.ReadAll(rc)
	if err != nil {
		t.Logf("fetch detected the substitution while reading: %v", err)
		return
	}
	if string(got) != victimData || size != uint32(len(victimData)) {
		t.Fatalf("Fetch(%v) succeeded with %q (size %d) after the substitution of its meta blob; want the original %q or an error", victim.BlobRef(), got, size, victimData)
	}
}
