#!/usr/bin/env python3
"""Runs the repository's baseline suite with the verif guard OFF and compares with BASELINE.json's stable_pass list."""
import json, subprocess, sys, os
b = json.load(open('/root/.vp/BASELINE.json'))
env = dict(os.environ, GOFLAGS='-mod=mod', GOPROXY='off')
p = subprocess.run(['go', 'test', '-json', '-vet=off', '-count=1', '-timeout', '25m', './...'], cwd='/repo', env=env, capture_output=True, text=True)
res = {}
for line in p.stdout.splitlines():
    try:
        e = json.loads(line)
    except Exception:
        continue
    if e.get('Test') and e.get('Action') in ('pass', 'fail', 'skip'):
        res[e['Package'] + '::' + e['Test']] = e['Action']
missing = [t for t in b['stable_pass'] if res.get(t) != 'pass']
print('stable_pass:', len(b['stable_pass']), 'now passing:', len(b['stable_pass']) - len(missing))
for t in missing:
    print('NOT PASSING:', t, res.get(t))
sys.exit(1 if missing else 0)
