#!/usr/bin/env python3
"""tools/save_seeded.py <seeded-id> <property> <srcdir> <pkgdir> <run-regex> <mechanism> <needs> <caught-by> [tier]"""
import json, os, shutil, sys
sid, prop, src, pkgdir, rx, mech, needs, caught = sys.argv[1:9]
tier = sys.argv[9] if len(sys.argv) > 9 else "quick"
d = os.path.join('/verif/seeded', sid)
os.makedirs(d, exist_ok=True)
shutil.copy(os.path.join(src, 'patch.diff'), os.path.join(d, 'patch.diff'))
shutil.copy(os.path.join(src, 'demo_test.go'), os.path.join(d, 'demo_test.go.txt'))
if os.path.exists(os.path.join(src, 'README.md')):
    shutil.copy(os.path.join(src, 'README.md'), os.path.join(d, 'AUTHOR_README.md'))
meta = {
    "id": sid, "property": prop, "mechanism": mech, "needs_to_manifest": needs,
    "demonstration": {"file": "demo_test.go.txt", "copy_to": pkgdir + "/zz_seeded_demo_test.go",
                      "command": "go test -vet=off -count=1 -run '%s' ./%s/" % (rx, pkgdir)},
    "confirmed": ["patch applies to /repo HEAD and `go build ./...` succeeds",
                  "existing tests of the touched packages and close dependants pass with the patch",
                  "demonstration passes on the clean tree and fails with the patch (tools/confirm_mut.sh)"],
    "checked_with": "tools/trymut.sh seeded/%s/patch.diff %s %s" % (sid, tier, prop),
    "caught": caught != "MISSED", "caught_by": caught, "tier_needed": tier,
    "origin": "independent sub-agent given only the property text and a scratch worktree",
}
json.dump(meta, open(os.path.join(d, 'meta.json'), 'w'), indent=1)
print('saved', d)
