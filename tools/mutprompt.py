#!/usr/bin/env python3
"""mutprompt.py <ID> <worktree> <n> -- print the prompt handed to a mutation sub-agent.
The prompt contains only the property text (from properties.jsonl), the worktree path and the one-line
mechanisms of changes that earlier agents already produced (so that new ones differ); nothing about
the checks in /verif."""
import json, sys, glob, os
root = os.path.dirname(os.path.dirname(os.path.abspath(__file__)))
pid, wt, n = sys.argv[1], sys.argv[2], int(sys.argv[3])
prop = None
for l in open(os.path.join(root, 'properties.jsonl')):
    d = json.loads(l)
    if d['id'] == pid: prop = d
used = []
for f in sorted(glob.glob(os.path.join(root, 'seeded', '*', 'meta.json'))):
    m = json.load(open(f))
    if m.get('property') == pid:
        used.append('  - ' + (m.get('mechanism') or m.get('summary') or m.get('id')))
print(f"""You are a software engineer helping to evaluate how good a verification suite is at catching regressions. You work ONLY inside the git worktree {wt} (a checkout of the perkeep repository, Go, module perkeep.org; go 1.25 toolchain available offline: always `export GOFLAGS=-mod=mod GOPROXY=off` before go commands; there is no network). Do NOT look at or touch anything under /verif or /repo, and do not search the filesystem for verification tools: your work must be independent of them.

PROPERTY ({pid}: {prop['title']}):
{prop['statement']}
Scope: {prop['quantifier']['text']}

TASK: produce {n} DIFFERENT realistic code changes ("seeded bugs") to the perkeep sources in the worktree, each of which BREAKS the property above while still (a) compiling (`go test -vet=off -count=1 -run '^$' ./...` must compile for the packages you touch and their dependants) and (b) passing the EXISTING unit tests of the packages you touch and of the packages that import them closely (run `go test -vet=off -count=1 ./pkg/<touched>/...` and a few dependants; unrelated failures that also occur without your change — e.g. pkg/fs, pkg/blobserver/s3, diskpacked TestWriteError — do not count). Each bug should look like a plausible mistake or well-intentioned refactoring/optimisation by a maintainer (off-by-one, wrong operator, dropped flush/lock/check, reordered steps, wrong variable, cache not invalidated, early return, error swallowed, condition inverted on a rare branch, …), be SMALL (a few lines), and — importantly — need something SPECIFIC to manifest: a particular interleaving, a crash or fault at a particular point, a multi-step sequence of operations, an unusual input or configuration, or two cooperating sites that each look fine alone. Do NOT produce bugs that ordinary use would expose at once (e.g. breaking every fetch). This is a LATER round: make them SUBTLE — the kind of regression that survives code review and a quick smoke test. Prefer different mechanisms and different files for the different bugs, and code paths that earlier rounds did not touch.

Earlier rounds already produced these changes for this property; do NOT repeat them or close variants of them:
{chr(10).join(used) if used else '  (none)'}

For EACH bug i (1..{n}) deliver, under {wt}/MUT/bug<i>/:
  - patch.diff : `git diff` of ONLY that bug against the clean worktree HEAD (apply-able with `git apply`); make each bug independent (reset the tree between bugs with `git checkout -- . && git clean -fd -e MUT`).
  - a demonstration: a Go test file (place its content in MUT/bug<i>/demo_test.go, and write into MUT/bug<i>/DEMO the package directory (relative to the worktree root) into which it must be copied on the first line and the `-run` regex on the second line) that FAILS with the patch applied and PASSES on the clean tree. It must be an external or internal _test.go file that compiles in that package directory without other new files. You must actually run it both ways and record the outputs in MUT/bug<i>/demo_output.txt.
  - README.md : which property clause it breaks, the mechanism, and exactly what is needed for it to manifest (inputs/sequence/interleaving/fault/config), and the list of test commands you ran with their results (with and without the patch).
Leave the worktree clean (no patch applied) at the end, with only the MUT/ directory added (untracked). Do not commit.

FINAL ANSWER: a short table of the bugs (file, mechanism, what it needs to manifest, demo command), nothing else.""")
