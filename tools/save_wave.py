#!/usr/bin/env python3
"""tools/save_wave.py <wave> [ids...]  -- evaluates the staged wave-3 mutants (notes/mut3/<id>/) against the
current checks (tools/trymut.sh, quick then thorough, then the alternate checks given in ALT) and
stores them as seeded/<PROP>-w3<k>-<slug>/ with meta.json.  Mutants must have been confirmed before
(tools/confirm_mut.sh; done by /tmp/evalmut3.sh during the session)."""
import json, os, re, shutil, subprocess, sys
ROOT = os.path.dirname(os.path.dirname(os.path.abspath(__file__)))
ns = {}
WAVE = sys.argv[1]
exec(open(os.path.join(ROOT, 'notes/mut%s/index.py' % WAVE)).read(), ns)
M = ns['M']
ALT = {"7": {"C05-bug1": ["C06"], "C08-bug1": ["C07"], "C17-bug1": ["C06"], "C20-bug1": ["C14"]},
       "3": {"C13-bug3": ["C11"], "C14-bug2": ["C12", "C01"], "C08-bug1": ["C06", "C09"], "C09-bug1": ["C06", "C08"]},
       "6": {"C05-bug2": ["C06"], "C06-bug2": ["C05"], "C02-bug2": ["C01", "C13"]},
       "5": {"C18-bug2": ["C01", "C04"], "C01-bug1": ["C04"], "C07-bug2": ["C08"], "C09-bug2": ["C06"], "C08-bug2": ["C09"]},
       "4": {"C04-bug3": ["C01"], "C01-bug1": ["C04"], "C17-bug2": ["C07", "C06"], "C19-bug2": ["C12"], "C18-bug1": ["C04", "C01"]}}.get(sys.argv[1], {})
ids = sys.argv[2:] or sorted(M)

def run(patch, tier, chk):
    p = subprocess.run([os.path.join(ROOT, 'tools/trymut.sh'), patch, tier, chk], capture_output=True, text=True)
    out = p.stdout + p.stderr
    m = re.search(r'exit=(\d+)', out)
    rc = int(m.group(1)) if m else -1
    sigs = sorted(set(re.findall(r'signature=(\S+)', out)))
    return rc, sigs, out

for mid in ids:
    slug, mech, needs = M[mid]
    prop, bug = mid.split('-')
    src = os.path.join(ROOT, 'notes/mut' + WAVE, mid)
    patch = os.path.join(src, 'patch.diff')
    demo = open(os.path.join(src, 'DEMO')).read().splitlines()
    pkgdir = demo[0].strip().lstrip('./').rstrip('/')
    rx = re.sub(r"^-run[ =]*", "", demo[1].strip()).strip("'")
    caught, tier_needed, by = False, "quick", ""
    for chk, tier in [(prop, 'quick'), (prop, 'thorough')] + [(a, 'quick') for a in ALT.get(mid, [])]:
        rc, sigs, out = run(patch, tier, chk)
        if rc == 1 and sigs:
            short = [s.split('/', 1)[1] if '/' in s else s for s in sigs]
            by = "%s: %s" % (chk, ", ".join(short[:6])) + (" (+%d more)" % (len(short) - 6) if len(short) > 6 else "")
            caught, tier_needed = True, tier
            break
    sid = "%s-w%s%s-%s" % (prop, WAVE, bug[-1], slug)
    d = os.path.join(ROOT, 'seeded', sid)
    os.makedirs(d, exist_ok=True)
    shutil.copy(patch, os.path.join(d, 'patch.diff'))
    shutil.copy(os.path.join(src, 'demo_test.go'), os.path.join(d, 'demo_test.go.txt'))
    shutil.copy(os.path.join(src, 'README.md'), os.path.join(d, 'AUTHOR_README.md'))
    meta = {"id": sid, "property": prop, "mechanism": mech, "needs_to_manifest": needs,
            "demonstration": {"file": "demo_test.go.txt", "copy_to": pkgdir + "/zz_seeded_demo_test.go",
                              "command": "go test -vet=off -count=1 -run '%s' ./%s/" % (rx, pkgdir)},
            "confirmed": ["patch applies to /repo HEAD and `go build ./...` succeeds",
                          "existing tests of the touched packages pass with the patch",
                          "demonstration passes on the clean tree and fails with the patch (tools/confirm_mut.sh)"],
            "checked_with": "tools/trymut.sh seeded/%s/patch.diff %s %s" % (sid, tier_needed, by.split(':')[0] if by else prop),
            "caught": caught, "caught_by": by if caught else "MISSED", "tier_needed": tier_needed,
            "origin": "independent sub-agent (round " + WAVE + ") given only the property text, the one-line mechanisms of earlier seeded changes and a scratch worktree"}
    json.dump(meta, open(os.path.join(d, 'meta.json'), 'w'), indent=1)
    print(sid, '->', meta['caught_by'][:150], '[%s]' % tier_needed, flush=True)
