#!/usr/bin/env python3
"""tools/recheck_seeded.py [ids...] -- re-runs every seeded change against the check named in its
meta.json (checked_with) and refreshes caught / caught_by signatures.  Prints MISSED for regressions."""
import json, os, re, subprocess, sys, glob
ROOT = os.path.dirname(os.path.dirname(os.path.abspath(__file__)))
ids = sys.argv[1:] or [os.path.basename(os.path.dirname(p)) for p in sorted(glob.glob(os.path.join(ROOT, 'seeded/*/meta.json')))]
for sid in ids:
    d = os.path.join(ROOT, 'seeded', sid)
    meta = json.load(open(os.path.join(d, 'meta.json')))
    m = re.search(r'trymut\.sh \S+ (\w+) (C\d\d)', meta.get('checked_with', ''))
    tier, chk = (m.group(1), m.group(2)) if m else ('quick', meta['property'])
    tried = []
    for t, c in [(tier, chk)] + ([('thorough', chk)] if tier == 'quick' else []):
        p = subprocess.run([os.path.join(ROOT, 'tools/trymut.sh'), os.path.join(d, 'patch.diff'), t, c], capture_output=True, text=True)
        out = p.stdout + p.stderr
        mm = re.search(r'exit=(\d+)', out)
        rc = int(mm.group(1)) if mm else -1
        sigs = sorted(set(re.findall(r'signature=(\S+)', out)))
        tried.append((t, c, rc))
        if rc == 1 and sigs:
            short = [s.split('/', 1)[1] if '/' in s else s for s in sigs]
            note = ''
            mo = re.search(r'\((strengthened[^)]*)\)', meta.get('caught_by', ''))
            if mo: note = ' (' + mo.group(1) + ')'
            meta['caught'] = True
            meta['caught_by'] = "%s: %s" % (c, ", ".join(short[:6])) + (" (+%d more)" % (len(short) - 6) if len(short) > 6 else "") + note
            meta['tier_needed'] = t
            meta['checked_with'] = "tools/trymut.sh seeded/%s/patch.diff %s %s" % (sid, t, c)
            json.dump(meta, open(os.path.join(d, 'meta.json'), 'w'), indent=1)
            print('ok    ', sid, t, c, len(sigs), flush=True)
            break
    else:
        print('MISSED', sid, tried, ('PATCH DOES NOT APPLY' in out and 'noapply') or ('BUILD FAILED' in out and 'buildfail') or '', flush=True)
