#!/bin/bash
# Confirms a seeded change in a scratch worktree of /repo HEAD:
#   tools/confirm_mut.sh <patch.diff> <demo_test.go> <pkgdir> <run-regex> <test-pkgs...>
# 1. demo passes on the clean tree  2. patch applies and everything compiles
# 3. demo fails with the patch      4. the existing tests of <test-pkgs> still pass
set -u
patch="$(readlink -f "$1")"; demo="$(readlink -f "$2")"; pkgdir="$3"; rx="$4"; shift 4
export GOFLAGS=-mod=mod GOPROXY=off
wt="$(mktemp -d /tmp/confirm.XXXXXX)"; rmdir "$wt"
git -C /repo worktree add -q "$wt" HEAD || exit 2
trap 'git -C /repo worktree remove --force "$wt" 2>/dev/null' EXIT
cd "$wt"
cp "$demo" "$pkgdir/zz_seeded_demo_test.go"
if go test ${CONFIRM_FLAGS:-} -vet=off -count=1 -run "$rx" "./$pkgdir/" >/tmp/confirm.$$.clean 2>&1; then echo "clean: demo PASSES"; else echo "clean: demo FAILS (bad demo)"; tail -5 /tmp/confirm.$$.clean; fi
rm "$pkgdir/zz_seeded_demo_test.go"
git apply "$patch" || { echo "patch does not apply"; exit 2; }
if go build ./... >/tmp/confirm.$$.build 2>&1; then echo "patched: builds"; else echo "patched: BUILD FAILS"; tail -5 /tmp/confirm.$$.build; fi
out="$(go test -vet=off -count=1 "$@" 2>&1 | grep -v "^ok\|no test files" | grep -v "TestWriteError\|^20\|diskpacked_test.go\|^FAIL$\|^FAIL.*diskpacked\s" | head -10)"
if [ -z "$out" ]; then echo "patched: existing tests PASS ($*)"; else echo "patched: existing tests output:"; echo "$out"; fi
cp "$demo" "$pkgdir/zz_seeded_demo_test.go"
if go test ${CONFIRM_FLAGS:-} -vet=off -count=1 -run "$rx" "./$pkgdir/" >/tmp/confirm.$$.mut 2>&1; then echo "patched: demo PASSES (mutant not demonstrated)"; else echo "patched: demo FAILS (as intended)"; fi
rm -f /tmp/confirm.$$.*
