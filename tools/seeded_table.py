#!/usr/bin/env python3
"""Regenerates the table of DESIGN.md section 10.5 from seeded/*/meta.json."""
import json, glob, re, os
root = os.path.dirname(os.path.dirname(os.path.abspath(__file__)))
rows = []
for f in sorted(glob.glob(os.path.join(root, 'seeded', '*', 'meta.json'))):
    m = json.load(open(f))
    rows.append('| `%s` | %s | %s | %s |' % (m['id'], m['property'], m['needs_to_manifest'].replace('|', '\\|'), m['caught_by'].replace('|', '\\|')))
p = os.path.join(root, 'DESIGN.md')
s = open(p).read()
a = s.index('### 10.5 Seeded changes')
head_end = s.index('| seeded change |', a) if '| seeded change |' in s[a:] else None
if head_end is None:
    raise SystemExit('table header not found')
# table = header line + separator + rows until the first blank line
b = s.find('\n\n', head_end)
if b < 0:
    b = len(s)
hdr = s[head_end:].split('\n')[:2]
s = s[:head_end] + '\n'.join(hdr + rows) + s[b:]
open(p, 'w').write(s)
print(len(rows), 'rows')
