#!/bin/bash
# Runs checks against a mutated copy of /repo WITHOUT touching /repo:
#   tools/trymut.sh <patch.diff> <quick|thorough> <ID> [ID...]
# A scratch worktree of /repo HEAD gets the patch; each check is built with a modfile whose
# replace directive points at the worktree; evidence/replays go to a private VERIF_ROOT.
set -u
patch="$(readlink -f "$1")"; tier="$2"; shift 2
export GOFLAGS=-mod=mod GOPROXY=off
wt="$(mktemp -d /tmp/trymut.XXXXXX)"; rmdir "$wt"
root="$(mktemp -d /tmp/trymutroot.XXXXXX)"
git -C /repo worktree add -q "$wt" HEAD || exit 2
cleanup() { git -C /repo worktree remove --force "$wt" 2>/dev/null; rm -rf "$root" "$wt.mod" "$wt.sum"; }
trap cleanup EXIT
if ! git -C "$wt" apply "$patch"; then echo "PATCH DOES NOT APPLY"; exit 2; fi
cp /verif/harness/go.mod "$wt.mod"; cp /verif/harness/go.sum "$wt.sum"
sed -i "s#=> /repo#=> $wt#" "$wt.mod"
cp /verif/known_findings.json "$root/"
for ID in "$@"; do
  id="$(echo "$ID" | tr 'A-Z' 'a-z')"
  race=""; [ "$ID" = "C14" ] && race="-race"
  if ! (cd /verif/harness && go build -modfile="$wt.mod" -tags verif $race -o "$root/$id" "./cmd/$id") 2>"$root/build.log"; then
    echo "$ID: BUILD FAILED"; head -5 "$root/build.log"; continue
  fi
  scratch="$(mktemp -d /tmp/trymutscratch.XXXXXX)"
  out="$(VERIF_ROOT="$root" VERIF_REPO="$wt" VERIF_TIER="$tier" VERIF_SCRATCH="$scratch" GORACE="halt_on_error=0 log_path=$scratch/race" "$root/$id" 2>&1)"
  rc=$?
  rm -rf "$scratch"
  echo "$ID: exit=$rc $(echo "$out" | grep -c '^VIOLATION') violation lines"
  echo "$out" | grep "signature=" | sort | uniq -c | sort -rn | head -8
  echo "$out" | grep "^SUMMARY\|^INCONCLUSIVE" | head -3 | cut -c1-200
done
