#!/usr/bin/env python3
"""Regenerates /verif/MANIFEST.json and MANIFEST.hooks from the table below.
A property is claimed iff harness/cmd/<id>/ exists and it is not listed in NOT_READY."""
import json, os, subprocess, sys

ROOT = os.path.dirname(os.path.dirname(os.path.abspath(__file__)))

CHECKS = {
 "C01": ("exploration", "refmodel-diff", "differential testing of every backend and seeded compositions against a reference blob map over generated receive/fetch/subfetch/stat/enumerate/remove/reopen histories, with full audits (all cursors x page sizes); broken-source receives aimed at removed blobs over overlay tombstones",
         "Held on the generated histories only; reference model is a Go map written from the property statement; enumeration cursors and page sizes are a generated family, not all strings."),
 "C02": ("exploration", "refmodel-diff", "hostile (ref, bytes, reader) inputs through blobserver.Receive, PUT and multipart handlers and self-verifying stores, with a no-trace monitor (fetch/stat/enumerate/hub listeners) after every rejected attempt",
         "Inputs are generated mutation families of true blobs; 16 MiB boundary exercised on a subset of backends."),
 "C03": ("fault_enumeration", "crash-materialise", "crash-state materialisation (every VFS-call prefix for files; every append prefix / removal subset for diskpacked) + restart + audit against the acknowledged-ops journal + reindex from packs alone; failing-fsync family (an acknowledged blob is owed intact after the crash)",
         "Power-loss states are a model of what a kernel may persist; process-kill states are real."),
 "C04": ("fault_enumeration", "fault-freeze", "freeze (fail-stop) at every lower-layer call of a pack followed by restart in each recovery mode, with a client-view audit at every intermediate step",
         "Lower layers are harness-owned memory stores/KVs whose durable state survives the simulated crash; files are generated."),
 "C05": ("exploration", "refmodel-diff", "metamorphic: index row dump must be identical over arrival permutations (exhaustive for small sets), concurrent deliveries, duplicates, restarts, and equal to a full reindex",
         "Sampled schedules for larger sets; row dump taken after out-of-order indexing quiesces (hook)."),
 "C06": ("exploration", "refmodel-diff", "differential: live index+corpus vs a fresh index+corpus opened over the same rows, at prefixes of arrival histories, over a grid of lookups",
         "Query grid is finite; sampled histories."),
 "C07": ("exploration", "refmodel-diff", "reference claim-folding model vs corpus (incremental and loaded), index rows, describe and query at a grid of times and signers, incl. one key stored as two key blobs",
         "Dates distinct within a permanode; model written from doc/schema/{permanode,delete}.md."),
 "C08": ("exploration", "refmodel-diff", "reference query evaluator + cross-sort/cross-mode metamorphic check over generated worlds and constraint trees, planner paths observed through a hook; multi-signer worlds",
         "Evaluator covers the fragment listed in DESIGN A.2."),
 "C09": ("exploration", "refmodel-diff", "follow continuation tokens to exhaustion and compare the concatenation with the unlimited result; around-queries must be contiguous windows containing the pivot",
         "Worlds generated with tied / pre-1970 / sub-second times."),
 "C10": ("exploration", "refmodel-diff", "differential testing of each sorted.KeyValue against a byte-ordered map model over generated histories incl. batches, finds, limits, reopen; batch unity under injected failure and concurrent readers (paired-key finds; generation-stamped batches vs successive Gets on memory and buffer)",
         "Implementations available offline: memory, leveldb, kvfile, sqlite, buffer."),
 "C11": ("fault_enumeration", "fault-freeze", "leak scan of everything stored below the encrypt store; exhaustive/seeded tamper enumeration with an exact-or-error oracle; meta-index loss and compaction restarts; start-up scan faults by error kind",
         "Leak scan looks for 12-byte plaintext windows, ref text, hex and raw digests."),
 "C12": ("fault_enumeration", "fault-freeze", "every assignment of {ok,error,wrong-size,lost-ack,slow} to replicas per receive (exhaustive n<=3) with an event monitor counting durable stores at ack time; read overlap patterns",
         "Slow replicas are gated and released in enumerated orders."),
 "C13": ("fault_enumeration", "fault-freeze", "single-fault enumeration: error at the k-th lower-layer call of every operation of a history, then healthy continuation + recovery, judged by a maybe-map oracle; acknowledged-remove probe; gate-leak repetition",
         "Lower layers are harness-owned wrappers; bursts are sampled."),
 "C14": ("exploration", "history-lin+go-race", "porcupine linearizability check of recorded client-boundary histories (partitioned per blobref) under perturbed schedules, built with -race; race reports with perkeep frames are violations",
         "Schedules are sampled, not enumerated; a clean race-detector run is not race freedom."),
 "C15": ("exploration", "refmodel-diff", "round-trip of generated contents/reader shapes through the file writer/reader with structural checks; generated part trees read at every boundary vs a bytes interpreter; static-set splits vs member lists; parallel ReadAt on one reader in a child process",
         "Generated inputs only."),
 "C16": ("exploration", "refmodel-diff", "position-exhaustive single-byte mutation of signed documents with a signed-payload ledger oracle; format-sensitive payloads through every signing path",
         "Two test key rings; mutation alphabet of 4 substitutions per position."),
 "C17": ("exploration", "refmodel-diff", "exhaustive via-chains up to length 3 over generated stores vs a share-reachability model; unauthenticated request table against in-process servers; stepwise tied-date deletion histories",
         "Chains bounded at 3 hops; servers built in-process from high-level configs."),
 "C18": ("exploration", "refmodel-diff", "protocol histories through pkg/client and raw HTTP against in-process servers vs the reference map",
         "Configurations constructible offline."),
 "C19": ("fault_enumeration", "fault-freeze", "event monitor (dequeue only after destination ack) over wrapper logs + bounded-progress delivery check under enumerated faults and handler restarts",
         "Eventuality restated as bounded progress in sync-loop iterations."),
 "C20": ("exploration", "refmodel-diff", "exhaustive enumeration of short strings over a ref-shaped alphabet plus structured and seeded refs, checked against independent text/ordering/hash oracles, sequentially and from parallel goroutines",
         "Exhaustive only up to the stated length bounds; crypto/* trusted as hash definitions."),
}

TEXT = {
 "exploration": "Runtime monitoring: the real code is executed on generated hostile inputs/histories and a deterministic oracle compares every observation; assurance = held on the executions counted in the evidence file.",
 "fault_enumeration": "Runtime monitoring with enumerated fault/crash points: each single fault site of the exercised histories is injected in turn and the recovered system is audited by the oracle; exhaustive per history, sampled over histories.",
}

READY = set(open(os.path.join(ROOT, "tools", "ready.txt")).read().split())

def main():
    hooks_commits = []
    try:
        out = subprocess.run(["git", "-C", "/repo", "log", "--format=%h %s"], capture_output=True, text=True).stdout
        for line in out.splitlines():
            h, _, subj = line.partition(" ")
            if subj.startswith("verif:") or subj.startswith("verif hooks:"):
                hooks_commits.append(h)
    except Exception:
        pass
    baseline = json.load(open("/root/.vp/BASELINE.json"))["cmd"] if os.path.exists("/root/.vp/BASELINE.json") else ""
    checks, na = [], []
    for pid, (level, engine, technique, note) in CHECKS.items():
        d = os.path.join(ROOT, "harness", "cmd", pid.lower())
        if not os.path.isdir(d) or pid not in READY:
            na.append({"property_id": pid, "reason": "check not built yet (work in progress; the design in DESIGN.md section 5 applies)"})
            continue
        checks.append({
            "property_id": pid,
            "quick_cmd": f"./check {pid} quick",
            "thorough_cmd": f"./check {pid} thorough",
            "evidence_file": f"evidence/{pid}.json",
            "replay_cmd_template": "./check replay {path}",
            "engine": engine,
            "level_claimed": {"category": level, "text": TEXT[level], "design_ref": f"DESIGN.md section 5, {pid}"},
            "level_note": note,
            "technique": "runtime monitoring: " + technique,
        })
    m = {
        "version": 1,
        "setup_cmd": "./check --setup",
        "hooks": {
            "guard": "verif",
            "enable": "go build -tags verif (harness module /verif/harness, replace perkeep.org => /repo); hook files are new files starting with //go:build verif",
            "baseline_off_cmd": baseline,
            "source_commits": hooks_commits,
            "add_only": True,
        },
        "engines": [
            {"name": "refmodel-diff", "path": "harness/model", "kind_free_text": "differential runtime monitoring against executable reference models"},
            {"name": "fault-freeze", "path": "harness/inject", "kind_free_text": "k-th lower-layer-call error / fail-stop injection"},
            {"name": "crash-materialise", "path": "harness/inject", "kind_free_text": "on-disk crash states built from real before/after snapshots"},
            {"name": "history-lin+go-race", "path": "harness/cmd/c14", "kind_free_text": "porcupine over client-boundary histories + Go race detector"},
        ],
        "checks": checks,
        "notes": "All checks: ./check <ID> <tier>; they rebuild the harness (and therefore /repo's working tree, -tags verif) on every invocation. Known defects: known_findings.json.",
        "not_applicable": na,
    }
    for e in m["engines"]:
        e["serves_properties"] = [c["property_id"] for c in checks if c["engine"] == e["name"]]
    json.dump(m, open(os.path.join(ROOT, "MANIFEST.json"), "w"), indent=1)
    with open(os.path.join(ROOT, "MANIFEST.hooks"), "w") as f:
        f.write("# build tag: verif. Hook files in /repo (new files only, each starts with //go:build verif):\n")
        for p in ["pkg/index/verif_hooks.go", "pkg/schema/verif_hooks.go", "pkg/server/verif_hooks.go",
                  "pkg/blobserver/blobpacked/verif_hooks.go", "pkg/search/verif_hooks.go"]:
            if os.path.exists("/repo/" + p):
                f.write(p + "\n")
        extra = subprocess.run("git -C /repo ls-files | grep verif_ || true", shell=True, capture_output=True, text=True).stdout.split()
        f.write("# all tracked verif_* files:\n" + "\n".join(extra) + "\n")
        f.write("# commits: " + " ".join(hooks_commits) + "\n")
    print("claimed:", [c["property_id"] for c in checks])

main()
