package sw

import (
	"math/rand"
	"time"

	"go4.org/types"
	"perkeep.org/pkg/blob"
	"perkeep.org/pkg/schema"
	"perkeep.org/pkg/search"
)

type cgen struct {
	rng     *rand.Rand
	w       *sworld
	classic bool // restrict to the fragment implemented without a corpus
	// partial: the world is queried while only partly delivered; a "child" relation through
	// camliContent could then name a blob the index has not seen (perkeep answers such a query
	// with an error, which is not what this generator is after)
	partial bool
}

// edgeType picks an explicit RelationConstraint.EdgeType: the default edge attributes, the custom
// ones of the world (seeAlso, camliContent), and an attribute whose values are never refs.
func (g *cgen) edgeType(relation string) string {
	pool := []string{"camliMember", "camliPath:x", "camliPath:y", "tag"}
	for _, e := range g.w.edgeTypes {
		if e == "camliContent" && relation == "child" && g.partial {
			continue
		}
		pool = append(pool, e, e)
	}
	return pool[g.rng.Intn(len(pool))]
}

func (g *cgen) pick(ss []string) string {
	if len(ss) == 0 {
		return "x"
	}
	return ss[g.rng.Intn(len(ss))]
}

func (g *cgen) ref() blob.Ref { return g.w.allRefs[g.rng.Intn(len(g.w.allRefs))] }

func (g *cgen) refOfType(t string) blob.Ref {
	var c []blob.Ref
	for _, r := range g.w.allRefs {
		if g.w.typ[r] == t {
			c = append(c, r)
		}
	}
	if len(c) == 0 {
		return g.ref()
	}
	return c[g.rng.Intn(len(c))]
}

func (g *cgen) intC(vals ...int64) *search.IntConstraint {
	v := vals[g.rng.Intn(len(vals))]
	switch g.rng.Intn(5) {
	case 0:
		return &search.IntConstraint{Equals: &v}
	case 1:
		if v == 0 {
			return &search.IntConstraint{ZeroMin: true, Max: 3}
		}
		return &search.IntConstraint{Min: v}
	case 2:
		if v == 0 {
			return &search.IntConstraint{ZeroMax: true}
		}
		return &search.IntConstraint{Max: v}
	case 3:
		lo, hi := v, vals[g.rng.Intn(len(vals))]
		if lo > hi {
			lo, hi = hi, lo
		}
		if lo == 0 || hi == 0 {
			return &search.IntConstraint{Max: hi + 1}
		}
		return &search.IntConstraint{Min: lo, Max: hi}
	}
	return &search.IntConstraint{Min: 1}
}

func (g *cgen) strC(pool []string) *search.StringConstraint {
	s := g.pick(pool)
	sc := &search.StringConstraint{}
	if s == "" {
		sc.Empty = true
		return sc
	}
	switch g.rng.Intn(7) {
	case 0:
		sc.Equals = s
	case 1:
		if len(s) > 1 {
			sc.Contains = s[1:]
		} else {
			sc.Contains = s
		}
	case 2:
		if len(s) > 1 {
			sc.HasPrefix = s[:len(s)/2+1]
		} else {
			sc.HasPrefix = s
		}
	case 3:
		if len(s) > 1 {
			sc.HasSuffix = s[len(s)/2:]
		} else {
			sc.HasSuffix = s
		}
	case 4:
		n := int64(len(s))
		sc.ByteLength = &search.IntConstraint{Equals: &n}
	case 5:
		sc.Empty = true
	case 6:
		sc.Equals = s
		sc.HasPrefix = s[:1]
	}
	if g.rng.Intn(3) == 0 && !sc.Empty && sc.ByteLength == nil {
		sc.CaseInsensitive = true
		flip := func(x string) string {
			b := []byte(x)
			for i := range b {
				if b[i] >= 'a' && b[i] <= 'z' {
					b[i] -= 32
				} else if b[i] >= 'A' && b[i] <= 'Z' {
					b[i] += 32
				}
			}
			return string(b)
		}
		sc.Equals, sc.Contains, sc.HasPrefix, sc.HasSuffix = flip(sc.Equals), flip(sc.Contains), flip(sc.HasPrefix), flip(sc.HasSuffix)
	}
	return sc
}

func (g *cgen) timeC() *search.TimeConstraint {
	ds := g.w.dates
	tc := &search.TimeConstraint{}
	if len(ds) == 0 {
		tc.After = types.Time3339(time.Date(1980, 1, 1, 0, 0, 0, 0, time.UTC))
		return tc
	}
	d := ds[g.rng.Intn(len(ds))]
	switch g.rng.Intn(4) {
	case 0:
		tc.After = types.Time3339(d) // inclusive bound exactly at a claim date
	case 1:
		tc.Before = types.Time3339(d) // exclusive bound exactly at a claim date
	case 2:
		tc.After = types.Time3339(d)
		tc.Before = types.Time3339(ds[len(ds)-1].Add(time.Second))
		if time.Time(tc.Before).Year() > 9999 { // (not expressible in RFC 3339)
			tc.Before = types.Time3339(ds[len(ds)-1])
		}
	default:
		tc.Before = types.Time3339(d.Add(time.Minute))
	}
	if time.Time(tc.Before).Year() > 9999 { // (not expressible in RFC 3339)
		tc.Before = types.Time3339(d)
	}
	if b := time.Time(tc.Before); !b.IsZero() && b.Unix() == 0 {
		// not generated: an upper bound within the second 1970-01-01T00:00:00Z (see directedTimes)
		tc.Before = types.Time3339(unixEpoch.Add(time.Second))
	}
	return tc
}

// directedTimes: time / modTime constraints whose bounds lie exactly on special instants — the Unix
// epoch, one nanosecond / one second / half a second next to it, the world's extreme dates — alone,
// negated, and-ed with an attribute test, and as two-sided intervals.  NOT generated: an upper
// bound ("before") within the second 1970-01-01T00:00:00Z, which perkeep deliberately reads as "no
// bound" (types.Time3339.IsAnyZero: JSON clients send the Unix zero time for an unset field); the
// documentation says nothing about it either way.  A lower bound ("after") is documented as ">="
// and is unset only when it is the zero time (null in JSON).
func (g *cgen) directedTimes(instants []time.Time) []*search.Constraint {
	pn := &search.Constraint{CamliType: schema.TypePermanode}
	and := func(a, b *search.Constraint) *search.Constraint {
		return &search.Constraint{Logical: &search.LogicalConstraint{Op: "and", A: a, B: b}}
	}
	not := func(a *search.Constraint) *search.Constraint {
		return &search.Constraint{Logical: &search.LogicalConstraint{Op: "not", A: a}}
	}
	var out []*search.Constraint
	leaf := func(mod bool, tc *search.TimeConstraint) *search.Constraint {
		if b := time.Time(tc.Before); !b.IsZero() && b.Unix() == 0 {
			return nil
		}
		pc := &search.PermanodeConstraint{}
		if mod {
			pc.ModTime = tc
		} else {
			pc.Time = tc
		}
		return &search.Constraint{Permanode: pc}
	}
	add := func(c *search.Constraint) {
		if c != nil {
			out = append(out, c)
		}
	}
	for i, t := range instants {
		for _, mod := range []bool{false, true} {
			after := leaf(mod, &search.TimeConstraint{After: types.Time3339(t)})
			add(after)
			add(leaf(mod, &search.TimeConstraint{Before: types.Time3339(t)}))
			add(and(pn, not(after)))
			if !mod || i%2 == 0 {
				add(and(&search.Constraint{Permanode: &search.PermanodeConstraint{Attr: "tag", NumValue: &search.IntConstraint{Min: 1}}}, leaf(mod, &search.TimeConstraint{After: types.Time3339(t)})))
			}
			// two-sided: [t, some later instant) and [some earlier instant, t)
			if j := (i + 3) % len(instants); instants[j].After(t) {
				add(leaf(mod, &search.TimeConstraint{After: types.Time3339(t), Before: types.Time3339(instants[j])}))
			} else if instants[j].Before(t) {
				add(leaf(mod, &search.TimeConstraint{After: types.Time3339(instants[j]), Before: types.Time3339(t)}))
			}
		}
		// both clocks in one node, and a time test next to an attribute test in the same node
		add(&search.Constraint{Permanode: &search.PermanodeConstraint{Time: &search.TimeConstraint{After: types.Time3339(t)}, ModTime: &search.TimeConstraint{After: types.Time3339(t)}}})
		add(&search.Constraint{Permanode: &search.PermanodeConstraint{Attr: "tag", Value: g.pick(g.w.tags), Time: &search.TimeConstraint{After: types.Time3339(t)}}})
	}
	// no bound at all: every permanode that has a time
	add(leaf(false, &search.TimeConstraint{}))
	add(leaf(true, &search.TimeConstraint{}))
	return out
}

func (g *cgen) at() time.Time {
	if g.classic || len(g.w.dates) == 0 || g.rng.Intn(3) > 0 {
		return time.Time{}
	}
	if len(g.w.atDates) > 0 && g.rng.Intn(3) == 0 {
		return g.w.atDates[g.rng.Intn(len(g.w.atDates))]
	}
	d := g.w.dates[g.rng.Intn(len(g.w.dates))]
	if g.rng.Intn(2) == 0 {
		if d2 := d.Add(30 * time.Minute); d2.Year() <= 9999 { // (year 10000 is not expressible in JSON)
			d = d2
		}
	}
	return d
}

func (g *cgen) pnLeaf1(depth int) *search.Constraint {
	pc := &search.PermanodeConstraint{}
	k := g.rng.Intn(12)
	if g.classic && k >= 7 {
		k = g.rng.Intn(7)
	}
	switch k {
	case 0:
		pc.Attr, pc.Value = "tag", g.pick(g.w.tags)
	case 1:
		pc.Attr, pc.ValueMatches = "title", g.strC(append(g.w.titles, "Title 1"))
	case 2:
		pc.Attr, pc.ValueMatchesInt = []string{"tag", "count"}[g.rng.Intn(2)], g.intC(0, 7, 12, 42, 50)
	case 3:
		pc.Attr, pc.NumValue = []string{"tag", "camliMember", "title"}[g.rng.Intn(3)], g.intC(1, 2, 3)
		if pc.NumValue.ZeroMin {
			pc.NumValue = &search.IntConstraint{Min: 1}
		}
		if pc.NumValue.Min < 0 {
			pc.NumValue.Min = 0
		}
	case 4:
		pc.Attr, pc.ValueMatches, pc.ValueAll = "tag", g.strC(g.w.tags), true
	case 5:
		pc.Attr, pc.Value = "camliNodeType", g.pick(g.w.nodeTypes)
	case 6:
		pc.Attr, pc.Value = "camliContent", g.refOfType("file").String()
	case 7:
		pc.Attr = []string{"camliContent", "camliMember", "camliMember", "camliPath:x"}[g.rng.Intn(4)]
		if g.rng.Intn(2) == 0 {
			pc.ValueInSet = g.pnLogic(1 + g.rng.Intn(2))
		} else {
			pc.ValueInSet = g.tree(depth - 1)
		}
		if g.rng.Intn(4) == 0 {
			pc.ValueAll = true
		}
	case 8:
		pc.ModTime = g.timeC()
	case 9:
		pc.Time = g.timeC()
	case 10:
		rc := &search.RelationConstraint{Relation: []string{"parent", "child"}[g.rng.Intn(2)]}
		if g.rng.Intn(2) == 0 {
			rc.EdgeType = g.edgeType(rc.Relation)
			g.w.features["relation-edge-type/"+rc.Relation+"/"+edgeClass(rc.EdgeType)]++
		}
		sub := g.pnOnlyTree(depth - 1)
		if g.rng.Intn(2) == 0 {
			rc.Any = sub
		} else {
			rc.All = sub
		}
		pc.Relation = rc
	case 11:
		pc.SkipHidden = true
		if g.rng.Intn(2) == 0 {
			pc.Attr, pc.Value = "tag", g.pick(g.w.tags)
		}
	}
	if pc.Attr != "" || pc.Relation != nil || pc.SkipHidden {
		pc.At = g.at()
	}
	return &search.Constraint{Permanode: pc}
}

// edgeClass: evidence class of an explicit edge type.
func edgeClass(e string) string {
	switch {
	case e == "camliMember" || len(e) > 10 && e[:10] == "camliPath:":
		return "default-edge"
	case e == "tag":
		return "non-ref-attribute"
	}
	return "custom:" + e
}

// pnLeaf is pnLeaf1, sometimes with the features of a second one merged in ("a blob matches if it
// matches all non-zero fields' predicates").
func (g *cgen) pnLeaf(depth int) *search.Constraint {
	c := g.pnLeaf1(depth)
	if g.classic || g.rng.Intn(10) >= 3 {
		return c
	}
	a, b := c.Permanode, g.pnLeaf1(depth).Permanode
	if a.Attr == "" && b.Attr != "" {
		a.Attr, a.Value, a.ValueMatches, a.ValueMatchesInt, a.NumValue, a.ValueAll, a.ValueInSet = b.Attr, b.Value, b.ValueMatches, b.ValueMatchesInt, b.NumValue, b.ValueAll, b.ValueInSet
	} else if a.Attr != "" && a.Attr == b.Attr {
		// a second value test on the same attribute
		if a.NumValue == nil {
			a.NumValue = b.NumValue
		}
		if a.ValueMatches == nil {
			a.ValueMatches = b.ValueMatches
		}
		if a.ValueMatchesInt == nil {
			a.ValueMatchesInt = b.ValueMatchesInt
		}
	}
	if a.ModTime == nil {
		a.ModTime = b.ModTime
	}
	if a.Time == nil {
		a.Time = b.Time
	}
	if a.Relation == nil {
		a.Relation = b.Relation
	}
	if b.SkipHidden {
		a.SkipHidden = true
	}
	if a.At.IsZero() {
		a.At = b.At
	}
	g.w.features["multi-field/permanode"]++
	return c
}

// pnLogic: a logical tree over permanode attribute tests, as used inside valueInSet: every
// leaf reads another permanode's attribute values while the outer values are being matched.
func (g *cgen) pnLogic(depth int) *search.Constraint {
	if depth <= 0 {
		switch g.rng.Intn(6) {
		case 0:
			return &search.Constraint{CamliType: schema.TypePermanode}
		case 1:
			return &search.Constraint{Permanode: &search.PermanodeConstraint{Attr: "tag", NumValue: g.intC(1, 2, 3)}}
		case 2:
			return &search.Constraint{Permanode: &search.PermanodeConstraint{Attr: "title", ValueMatches: g.strC(append(g.w.titles, "Title 1"))}}
		case 3:
			return &search.Constraint{Permanode: &search.PermanodeConstraint{Attr: "camliMember", ValueInSet: &search.Constraint{Permanode: &search.PermanodeConstraint{Attr: "tag", Value: g.pick(g.w.tags)}}}}
		}
		return &search.Constraint{Permanode: &search.PermanodeConstraint{Attr: "tag", Value: g.pick(g.w.tags)}}
	}
	op := []string{"and", "or", "xor", "not"}[g.rng.Intn(4)]
	l := &search.LogicalConstraint{Op: op, A: g.pnLogic(depth - 1)}
	if op != "not" {
		l.B = g.pnLogic(depth - 1)
	}
	return &search.Constraint{Logical: l}
}

// pnOnlyTree: a constraint evaluated on related permanodes (relation sub-constraints).
func (g *cgen) pnOnlyTree(depth int) *search.Constraint {
	if depth <= 0 || g.rng.Intn(2) == 0 {
		switch g.rng.Intn(4) {
		case 0:
			return &search.Constraint{Permanode: &search.PermanodeConstraint{Attr: "tag", Value: g.pick(g.w.tags)}}
		case 1:
			return &search.Constraint{CamliType: schema.TypePermanode}
		case 2:
			return &search.Constraint{Permanode: &search.PermanodeConstraint{Attr: "title", ValueMatches: g.strC(append(g.w.titles, "Title 1"))}}
		}
		return &search.Constraint{BlobRefPrefix: g.refOfType("permanode").String()[:9+g.rng.Intn(3)]}
	}
	return g.pnLeaf(depth)
}

func (g *cgen) dirC1(depth int) *search.DirConstraint {
	dc := &search.DirConstraint{}
	switch g.rng.Intn(6) {
	case 0:
		dc.FileName = g.strC(g.w.names)
	case 1:
		dc.TopFileCount = g.intC(0, 1, 2, 3, 4)
	case 2:
		dc.BlobRefPrefix = g.refOfType("directory").String()[:8+g.rng.Intn(5)]
	case 3:
		dc.Contains = g.containsSub(depth)
	case 4:
		dc.RecursiveContains = g.containsSub(depth) // alone: see DESIGN A.2
	case 5:
		if depth > 0 && !g.classic {
			dc.ParentDir = g.dirC(depth - 1)
		} else {
			dc.FileName = g.strC(g.w.names)
		}
	}
	return dc
}

// dirC is dirC1, sometimes with a second field set (recursiveContains stays alone: DESIGN A.2).
func (g *cgen) dirC(depth int) *search.DirConstraint {
	a := g.dirC1(depth)
	if g.rng.Intn(10) >= 3 || a.RecursiveContains != nil {
		return a
	}
	b := g.dirC1(depth)
	if b.RecursiveContains != nil {
		return a
	}
	if a.FileName == nil {
		a.FileName = b.FileName
	}
	if a.TopFileCount == nil {
		a.TopFileCount = b.TopFileCount
	}
	if a.BlobRefPrefix == "" {
		a.BlobRefPrefix = b.BlobRefPrefix
	}
	if a.Contains == nil {
		a.Contains = b.Contains
	}
	if a.ParentDir == nil {
		a.ParentDir = b.ParentDir
	}
	g.w.features["multi-field/dir"]++
	return a
}

func (g *cgen) containsSub(depth int) *search.Constraint {
	switch g.rng.Intn(4) {
	case 0:
		return &search.Constraint{BlobRefPrefix: g.refOfType("file").String()[:9+g.rng.Intn(8)]}
	case 1:
		return &search.Constraint{File: &search.FileConstraint{FileName: g.strC(g.w.names)}}
	case 2:
		if depth > 0 {
			return &search.Constraint{Dir: g.dirC(depth - 1)}
		}
		return &search.Constraint{Dir: &search.DirConstraint{FileName: g.strC(g.w.names)}}
	}
	a := &search.Constraint{File: &search.FileConstraint{FileName: g.strC(g.w.names)}}
	b := &search.Constraint{File: &search.FileConstraint{FileSize: g.intC(10, 100, 300)}}
	return &search.Constraint{Logical: &search.LogicalConstraint{Op: []string{"and", "or"}[g.rng.Intn(2)], A: a, B: b}}
}

func (g *cgen) fileLeaf1(depth int) *search.Constraint {
	fc := &search.FileConstraint{}
	k := g.rng.Intn(6)
	if g.classic && k >= 4 {
		k = g.rng.Intn(4)
	}
	switch k {
	case 0:
		fc.FileName = g.strC(g.w.names)
	case 1:
		fc.FileSize = g.intC(20, 100, 200, 400)
	case 2:
		fc.MIMEType = g.strC(append(g.w.mimes, "image/png", "application/pdf"))
	case 3:
		fc.IsImage = true
	case 4:
		r := g.refOfType("file")
		if f := g.w.files[r]; f != nil {
			fc.WholeRef = f.whole
		}
		if g.rng.Intn(2) == 0 {
			fc.FileName = g.strC(g.w.names)
		}
	case 5:
		fc.ParentDir = g.dirC(depth - 1)
	}
	return &search.Constraint{File: fc}
}

func (g *cgen) fileLeaf(depth int) *search.Constraint {
	c := g.fileLeaf1(depth)
	if g.rng.Intn(10) >= 3 {
		return c
	}
	a, b := c.File, g.fileLeaf1(depth).File
	if a.FileName == nil {
		a.FileName = b.FileName
	}
	if a.FileSize == nil {
		a.FileSize = b.FileSize
	}
	if a.MIMEType == nil {
		a.MIMEType = b.MIMEType
	}
	if b.IsImage {
		a.IsImage = true
	}
	if !a.WholeRef.Valid() {
		a.WholeRef = b.WholeRef
	}
	if a.ParentDir == nil {
		a.ParentDir = b.ParentDir
	}
	g.w.features["multi-field/file"]++
	return c
}

// leaf is leaf1, sometimes with the non-zero fields of a second leaf merged into the same node.
func (g *cgen) leaf(depth int) *search.Constraint {
	a := g.leaf1(depth)
	if g.rng.Intn(10) >= 3 {
		return a
	}
	b := g.leaf1(depth)
	if b.Anything {
		a.Anything = true
	}
	if a.CamliType == "" {
		a.CamliType = b.CamliType
	}
	if b.AnyCamliType {
		a.AnyCamliType = true
	}
	if a.BlobRefPrefix == "" {
		a.BlobRefPrefix = b.BlobRefPrefix
	}
	if a.File == nil {
		a.File = b.File
	}
	if a.Dir == nil {
		a.Dir = b.Dir
	}
	if a.BlobSize == nil {
		a.BlobSize = b.BlobSize
	}
	if a.Permanode == nil {
		a.Permanode = b.Permanode
	}
	g.w.features["multi-field/constraint"]++
	return a
}

func (g *cgen) leaf1(depth int) *search.Constraint {
	switch k := g.rng.Intn(20); {
	case k < 7:
		return g.pnLeaf(depth)
	case k < 10:
		return g.fileLeaf(depth)
	case k < 12:
		return &search.Constraint{Dir: g.dirC(depth)}
	case k == 12:
		return &search.Constraint{Anything: true}
	case k == 13:
		return &search.Constraint{CamliType: schema.CamliType([]string{"permanode", "file", "directory", "claim", "static-set", "nonesuch"}[g.rng.Intn(6)])}
	case k == 14:
		return &search.Constraint{AnyCamliType: true}
	case k == 15 || k == 16:
		s := g.ref().String()
		cut := []int{len(s), 9, 10, 12, 7, len(s) - 1}[g.rng.Intn(6)]
		return &search.Constraint{BlobRefPrefix: s[:cut]}
	case k == 17:
		return &search.Constraint{BlobSize: g.intC(0, 100, 400, 600, 700)}
	default:
		return &search.Constraint{CamliType: schema.TypePermanode}
	}
}

func (g *cgen) tree(depth int) *search.Constraint {
	if depth <= 0 || g.rng.Intn(3) == 0 {
		return g.leaf(depth)
	}
	op := []string{"and", "and", "or", "or", "xor", "not"}[g.rng.Intn(6)]
	l := &search.LogicalConstraint{Op: op, A: g.tree(depth - 1)}
	if op != "not" {
		l.B = g.tree(depth - 1)
	}
	return &search.Constraint{Logical: l}
}

// directed returns constraint shapes aimed at specific planner paths.
func (g *cgen) directed() []*search.Constraint {
	typed := func(t string) *search.Constraint {
		return &search.Constraint{Permanode: &search.PermanodeConstraint{Attr: "camliNodeType", Value: t}}
	}
	tag := func(t string) *search.Constraint {
		return &search.Constraint{Permanode: &search.PermanodeConstraint{Attr: "tag", Value: t}}
	}
	and := func(a, b *search.Constraint) *search.Constraint {
		return &search.Constraint{Logical: &search.LogicalConstraint{Op: "and", A: a, B: b}}
	}
	or := func(a, b *search.Constraint) *search.Constraint {
		return &search.Constraint{Logical: &search.LogicalConstraint{Op: "or", A: a, B: b}}
	}
	not1 := func(a *search.Constraint) *search.Constraint {
		return &search.Constraint{Logical: &search.LogicalConstraint{Op: "not", A: a}}
	}
	pn := &search.Constraint{CamliType: schema.TypePermanode}
	out := []*search.Constraint{
		typed("typeA"),
		and(pn, typed("typeB")),
		and(pn, or(typed("typeA"), typed("typeB"))),
		and(pn, or(typed("typeA"), tag("a"))), // typed OR untyped branch
		and(typed("typeA"), tag("b")),
		pn,
		{BlobRefPrefix: g.refOfType("permanode").String()},
		and(&search.Constraint{BlobRefPrefix: g.refOfType("file").String()}, &search.Constraint{AnyCamliType: true}),
		{CamliType: schema.TypeFile},
		{AnyCamliType: true},
		{Anything: true},
	}
	if r := g.refOfType("file"); g.w.files[r] != nil {
		out = append(out, &search.Constraint{File: &search.FileConstraint{WholeRef: g.w.files[r].whole}})
	}
	// relations to specific permanodes (stale and live edges to the same relative)
	for i := 0; i < 6 && i < len(g.w.pns); i++ {
		t := &search.Constraint{BlobRefPrefix: g.w.pns[(i*5+1)%len(g.w.pns)].String()}
		out = append(out,
			&search.Constraint{Permanode: &search.PermanodeConstraint{Relation: &search.RelationConstraint{Relation: "child", Any: t}}},
			&search.Constraint{Permanode: &search.PermanodeConstraint{Relation: &search.RelationConstraint{Relation: "parent", Any: t}}})
	}
	out = append(out,
		&search.Constraint{Permanode: &search.PermanodeConstraint{Relation: &search.RelationConstraint{Relation: "child", EdgeType: "camliPath:y", Any: pn}}},
		&search.Constraint{Permanode: &search.PermanodeConstraint{Relation: &search.RelationConstraint{Relation: "parent", All: tag("a")}}})
	// relations through edge types other than the default ones, in both directions: the parent's
	// attribute (seeAlso, camliContent naming a permanode) must be followed backwards from the child
	rel := func(relation, edge string, all bool, sub *search.Constraint) *search.Constraint {
		rc := &search.RelationConstraint{Relation: relation, EdgeType: edge}
		if all {
			rc.All = sub
		} else {
			rc.Any = sub
		}
		g.w.features["relation-edge-type/"+relation+"/"+edgeClass(edge)]++
		return &search.Constraint{Permanode: &search.PermanodeConstraint{Relation: rc}}
	}
	for ei, e := range g.w.edgeTypes {
		if e == "camliContent" && g.partial {
			continue // see cgen.partial
		}
		out = append(out,
			rel("parent", e, false, pn),
			rel("parent", e, true, pn),
			rel("child", e, false, pn),
			rel("parent", e, false, &search.Constraint{Permanode: &search.PermanodeConstraint{SkipHidden: true}}),
			rel("parent", e, ei%2 == 0, tag(g.pick(g.w.tags))),
			and(pn, rel("parent", e, false, &search.Constraint{Anything: true})),
			not1(rel("parent", e, false, pn)))
		out = append(out,
			rel("child", e, true, &search.Constraint{AnyCamliType: true}),
			rel("child", e, false, &search.Constraint{CamliType: schema.TypeFile}))
		for i := 0; i < 3 && i < len(g.w.pns); i++ {
			t := &search.Constraint{BlobRefPrefix: g.w.pns[(i*7+ei)%len(g.w.pns)].String()}
			out = append(out, rel("parent", e, false, t), rel("child", e, false, t))
		}
	}
	out = append(out, rel("parent", "tag", false, pn), rel("parent", "camliPath:x", false, pn), rel("parent", "camliMember", true, pn))
	// nested attribute constraints evaluated on each of several member values
	for _, t := range g.w.tags {
		out = append(out, &search.Constraint{Permanode: &search.PermanodeConstraint{Attr: "camliMember", ValueInSet: tag(t)}})
	}
	out = append(out, &search.Constraint{Permanode: &search.PermanodeConstraint{Attr: "camliMember", ValueInSet: typed("typeA")}},
		&search.Constraint{Permanode: &search.PermanodeConstraint{Attr: "camliMember", ValueAll: true, ValueInSet: &search.Constraint{Permanode: &search.PermanodeConstraint{Attr: "tag", NumValue: &search.IntConstraint{Min: 1}}}}})
	// valueInSet whose sub-query is a LOGICAL tree over permanode attribute tests, on candidates
	// with several values (each leaf reads another permanode's values while the outer ones are
	// being matched)
	not := func(a *search.Constraint) *search.Constraint {
		return &search.Constraint{Logical: &search.LogicalConstraint{Op: "not", A: a}}
	}
	inSet := func(attr string, all bool, sub *search.Constraint) *search.Constraint {
		return &search.Constraint{Permanode: &search.PermanodeConstraint{Attr: attr, ValueAll: all, ValueInSet: sub}}
	}
	for i, t := range g.w.tags {
		t2 := g.w.tags[(i+3)%len(g.w.tags)]
		out = append(out,
			inSet("camliMember", false, and(pn, tag(t))),
			inSet("camliMember", i%2 == 0, or(tag(t), tag(t2))),
			inSet("camliMember", i%2 == 1, not(tag(t))),
			inSet("camliMember", false, and(tag(t), not(tag(t2)))))
	}
	out = append(out,
		inSet("camliMember", true, and(pn, &search.Constraint{Permanode: &search.PermanodeConstraint{Attr: "tag", NumValue: &search.IntConstraint{Min: 1}}})),
		inSet("camliPath:x", false, or(tag("a"), typed("typeA"))),
		inSet("camliMember", false, inSet("camliMember", false, and(pn, tag("a")))))
	// attribute tests `at` the instant a repeated value was removed (and a second later)
	for i, ac := range g.w.atCases {
		if i >= 6 {
			break
		}
		for _, at := range []time.Time{ac.del, ac.del.Add(time.Second)} {
			one, two := int64(1), int64(2)
			pcs := []*search.PermanodeConstraint{
				{Attr: ac.attr, Value: ac.value},
				{Attr: ac.attr, NumValue: &search.IntConstraint{Equals: &one}},
				{Attr: ac.attr, NumValue: &search.IntConstraint{Min: two}},
				{Attr: ac.attr, NumValue: &search.IntConstraint{ZeroMax: true}},
				{Attr: ac.attr, ValueAll: true, ValueMatches: &search.StringConstraint{HasPrefix: ac.value[:1]}},
				{Attr: ac.attr, ValueMatches: &search.StringConstraint{Equals: ac.value}},
			}
			if ac.attr == "camliMember" {
				pcs = append(pcs,
					&search.PermanodeConstraint{Attr: ac.attr, ValueInSet: &search.Constraint{BlobRefPrefix: ac.value}},
					&search.PermanodeConstraint{Attr: ac.attr, ValueAll: true, ValueInSet: not(&search.Constraint{BlobRefPrefix: ac.value})})
			}
			for _, pc := range pcs {
				pc.At = at
				out = append(out, &search.Constraint{Permanode: pc})
			}
		}
	}
	return out
}

// directedDangling: "child" relations (sub-constraint under Any only: whether a relative that
// exists nowhere counts against All is not documented) for worlds with dangling edge values.
func (g *cgen) directedDangling() []*search.Constraint {
	pn := &search.Constraint{CamliType: schema.TypePermanode}
	tag := func(t string) *search.Constraint {
		return &search.Constraint{Permanode: &search.PermanodeConstraint{Attr: "tag", Value: t}}
	}
	child := func(edge string, sub *search.Constraint) *search.Constraint {
		return &search.Constraint{Permanode: &search.PermanodeConstraint{Relation: &search.RelationConstraint{Relation: "child", EdgeType: edge, Any: sub}}}
	}
	var out []*search.Constraint
	for _, e := range []string{"", "camliMember", "camliPath:x", "camliPath:y", "seeAlso"} {
		out = append(out,
			child(e, pn),
			child(e, &search.Constraint{Anything: true}),
			child(e, tag(g.pick(g.w.tags))),
			&search.Constraint{Logical: &search.LogicalConstraint{Op: "and", A: pn, B: child(e, pn)}},
			&search.Constraint{Logical: &search.LogicalConstraint{Op: "not", A: child(e, pn)}},
			&search.Constraint{Logical: &search.LogicalConstraint{Op: "or", A: child(e, tag(g.pick(g.w.tags))), B: tag(g.pick(g.w.tags))}})
	}
	// the other direction and value tests on the same attributes
	for _, e := range []string{"", "seeAlso"} {
		out = append(out, &search.Constraint{Permanode: &search.PermanodeConstraint{Relation: &search.RelationConstraint{Relation: "parent", EdgeType: e, Any: pn}}})
	}
	out = append(out,
		&search.Constraint{Permanode: &search.PermanodeConstraint{Attr: "camliMember", ValueInSet: pn}},
		&search.Constraint{Permanode: &search.PermanodeConstraint{Attr: "seeAlso", ValueInSet: &search.Constraint{Anything: true}}},
		&search.Constraint{Permanode: &search.PermanodeConstraint{Attr: "camliMember", NumValue: &search.IntConstraint{Min: 2}}})
	return out
}

// hasChildRelation: some permanode constraint in the tree has a "child" relation.
func hasChildRelation(c *search.Constraint) bool {
	if c == nil {
		return false
	}
	if l := c.Logical; l != nil {
		return hasChildRelation(l.A) || hasChildRelation(l.B)
	}
	if pc := c.Permanode; pc != nil {
		if rc := pc.Relation; rc != nil {
			if rc.Relation == "child" || hasChildRelation(rc.Any) || hasChildRelation(rc.All) {
				return true
			}
		}
		return hasChildRelation(pc.ValueInSet)
	}
	return false
}

// classicTree generates constraints from the fragment the code implements without a corpus.
func (g *cgen) classicTree(depth int) *search.Constraint {
	if depth <= 0 || g.rng.Intn(3) == 0 {
		switch k := g.rng.Intn(12); {
		case k < 3:
			pc := &search.PermanodeConstraint{}
			switch g.rng.Intn(4) {
			case 0:
				pc.Attr, pc.Value = "tag", g.pick(g.w.tags)
			case 1:
				pc.Attr, pc.ValueMatches = "title", g.strC(append(g.w.titles, "Title 1"))
			case 2:
				pc.Attr, pc.NumValue = "tag", &search.IntConstraint{Min: 1 + int64(g.rng.Intn(2))}
			case 3:
				pc.Attr, pc.Value = "camliNodeType", g.pick(g.w.nodeTypes)
			}
			return &search.Constraint{Permanode: pc}
		case k < 5:
			return g.fileLeaf(0)
		case k == 5:
			dc := &search.DirConstraint{}
			if g.rng.Intn(2) == 0 {
				dc.FileName = g.strC(g.w.names)
			} else {
				dc.TopFileCount = g.intC(0, 1, 2, 3)
			}
			return &search.Constraint{Dir: dc}
		case k == 6:
			return &search.Constraint{Anything: true}
		case k == 7:
			return &search.Constraint{CamliType: schema.CamliType([]string{"permanode", "file", "directory", "claim"}[g.rng.Intn(4)])}
		case k == 8:
			return &search.Constraint{AnyCamliType: true}
		case k == 9 || k == 10:
			s := g.ref().String()
			return &search.Constraint{BlobRefPrefix: s[:[]int{len(s), 9, 10, 12}[g.rng.Intn(4)]]}
		default:
			return &search.Constraint{BlobSize: g.intC(0, 100, 400, 600, 700)}
		}
	}
	op := []string{"and", "or", "xor", "not"}[g.rng.Intn(4)]
	l := &search.LogicalConstraint{Op: op, A: g.classicTree(depth - 1)}
	if op != "not" {
		l.B = g.classicTree(depth - 1)
	}
	return &search.Constraint{Logical: l}
}
