package sw

import (
	"fmt"
	"math/rand"
	"sort"
	"strings"
	"time"

	"perkeep.org/pkg/blob"

	"verif.local/harness/hw"
	"verif.local/harness/sto"
)

// sworld is the search ground truth: every fact the reference evaluator uses comes from
// what the harness generated, not from the index.
type sworld struct {
	blobs  []sto.Blob // in dependency order
	typ    map[blob.Ref]string
	size   map[blob.Ref]int
	owner  *hw.Signer
	pns    []blob.Ref
	claims []hw.ClaimInfo
	del    map[blob.Ref]bool // deleted permanodes
	files  map[blob.Ref]*sfile
	dirs   map[blob.Ref]*sdir
	parent map[blob.Ref][]blob.Ref // child -> parent dirs
	w      *hw.World               // for Values()
	// pools for constraint generation
	names, mimes, tags, titles, nodeTypes []string
	// dangling: refs named by edge attributes that exist nowhere (genSearchWorldOpt)
	dangling []blob.Ref
	// edgeTypes: attributes other than camliMember / camliPath:* through which permanodes point at
	// other permanodes (relation constraints with an explicit EdgeType)
	edgeTypes []string
	dates     []time.Time
	allRefs   []blob.Ref
	// atDates: instants worth using as PermanodeConstraint.At: right at / after a del-attribute of a
	// value that had been added more than once, with a newer claim on the same permanode after it
	atDates []time.Time
	atCases []atCase
	// distinctCount: evaluate numValue on the distinct values (set while judging the corpus-less mode)
	distinctCount bool
	// per-(permanode, attribute) claim index for valuesList, and its self-check against hw
	byPNAttr           map[pnAttr][]hw.ClaimInfo
	indexedClaims      int
	valueCalls         int
	memoMod, memoAny   map[blob.Ref]timeOK
	memoClaims         int
	memoFiles          int
	valueModelMismatch string
	// chunkOf: file schema blob -> its single content chunk (a file is indexed only once both arrived)
	chunkOf  map[blob.Ref]blob.Ref
	features map[string]int // what the generator actually produced (evidence)
	// epochSeqMid: see worldOpts.epochSeq
	epochSeqMid int
	// deep: the deep directory chain of a deep-tree world (c08_deep.go)
	deep *deepTree
	// farFrac: see worldOpts.farFrac
	farFrac bool
}

// atCase: permanode pn had `value` more than once under attr, then a del-attribute of that value
// dated `del`, then a newer claim.
type atCase struct {
	pn          blob.Ref
	attr, value string
	del         time.Time
}

type sfile struct {
	name, mime string
	size       int
	whole      blob.Ref
	mtime      time.Time
}

type sdir struct {
	name     string
	children []blob.Ref
}

var magics = []struct {
	mime string
	head []byte
}{
	{"image/png", []byte("\x89PNG\r\n\x1a\n\x00\x00\x00\rIHDR")},
	{"application/pdf", []byte("%PDF-1.4\n")},
	{"image/gif", []byte("GIF89a\x01\x00\x01\x00")},
	{"", nil}, // unknown / no sniffable type: filled below
}

func (w *sworld) add(b sto.Blob, typ string) {
	if _, dup := w.typ[b.Ref]; dup {
		return
	}
	w.blobs = append(w.blobs, b)
	w.typ[b.Ref] = typ
	w.size[b.Ref] = len(b.Data)
	w.allRefs = append(w.allRefs, b.Ref)
}

// genSearchWorld builds a world of n permanodes plus files, directories and plain blobs.
// tiedTimes draws claim dates from a small set (massive ties) for the paging check.
func genSearchWorld(rng *rand.Rand, label string, nPN int, tiedTimes bool, exotic bool) *sworld {
	return genSearchWorldOpt(rng, label, nPN, tiedTimes, exotic, false)
}

// genSearchWorldOpt: with dangling, some permanodes additionally have edge attributes (camliMember,
// camliPath:x, seeAlso) whose value names a blob that exists nowhere, next to edges to real
// permanodes (a member that was never uploaded / lives on another server).
func genSearchWorldOpt(rng *rand.Rand, label string, nPN int, tiedTimes bool, exotic bool, dangling bool) *sworld {
	return genSearchWorldX(rng, label, nPN, tiedTimes, exotic, worldOpts{dangling: dangling})
}

// worldOpts: optional world families.  None of them draws from rng unless it is switched on, so
// the worlds of the other families are what they were before the option existed.
type worldOpts struct {
	// dangling: see genSearchWorldOpt
	dangling bool
	// epoch: the claim dates straddle 1970-01-01T00:00:00Z (claims one second before and after it;
	// a claim dated within the epoch second itself is not a valid claim for perkeep), and some
	// permanodes' creation time is EXACTLY the Unix epoch (date attributes in several zone notations,
	// a camliContent file whose modtime is the epoch) or 1 ns / 1 s / 999 ms next to it.
	epoch bool
	// far: explicit date attributes (ordinary attribute values: any RFC 3339 instant) before 1678 and
	// after 2262, i.e. outside what fits in an int64 of nanoseconds since 1970, incl. the instants
	// right at both ends of that range, year 1 and year 9999, two of them tied across zone notations.
	far bool
	// epochSeq (with epoch, distinct dates): the ordinal of the claim that is dated one second before
	// the epoch; 0 = unknown yet (a first generation pass measures sworld.epochSeqMid, the ordinal
	// reached in the middle of genEpochFeatures, see genEpochWorld)
	epochSeq int
	// farFrac (with far): the far dates are farFracDateValues (sub-second parts, tied and nearly tied
	// groups) and nearly every permanode carries one
	farFrac bool
	// deep: number of directory levels of one static directory chain whose lowest directory alone holds
	// the "needle" file and directory (c08_deep.go); 0 = none
	deep int
}

// genEpochWorld generates an epoch world twice from the same random stream: the first pass measures
// where in the sequence of claims the epoch features are written, the second one places the epoch
// there, so that modification times (the date of a permanode's latest claim) fall on both sides too.
func genEpochWorld(mk func() *rand.Rand, label string, nPN int, tied bool) *sworld {
	o := worldOpts{epoch: true}
	if !tied {
		o.epochSeq = genSearchWorldX(mk(), label, nPN, tied, false, o).epochSeqMid
	}
	return genSearchWorldX(mk(), label, nPN, tied, false, o)
}

// unixEpoch is 1970-01-01T00:00:00Z.
var unixEpoch = time.Unix(0, 0).UTC()

// farDateValues: date attribute values outside (and right at the ends of) the years 1678..2262.
var farDateValues = []string{
	"1455-02-23T00:00:00Z",
	"2500-01-01T00:00:00Z",
	"0001-06-15T12:00:00Z",
	"9999-12-31T23:59:59.999999999Z",
	"1455-02-23T02:00:00+02:00",      // the same instant as the first one
	"1677-09-21T00:12:43Z",           // 145 ms before the smallest instant an int64 of nanoseconds holds
	"1677-09-21T00:12:44Z",           // just inside
	"2262-04-11T23:47:16.854775807Z", // the largest such instant
	"2262-04-11T23:47:16.854775808Z", // 1 ns after it
	"1215-06-15T00:00:00Z",
	"2500-01-01T00:00:00-08:00",
	"2262-04-11T23:47:16Z",
	"9999-12-31T23:59:59+14:00",
	"1601-01-01T00:00:00Z",
}

// farFracDateValues: instants before 1678 / after 2262 WITH a sub-second part (.75, .5, 1 ns, 999999999 ns),
// in groups that are tied (several permanodes on one instant, also across zone notations) or lie
// within a few nanoseconds / a second or two of each other, next to whole-second neighbours.
var farFracDateValues = []string{
	// 1455: six on .75, then .5, .25, the second before (.5 and whole), two seconds before
	"1455-03-01T12:00:00.75Z", "1455-03-01T14:00:00.75+02:00", "1455-03-01T12:00:00.75Z", "1455-03-01T06:30:00.75-05:30", "1455-03-01T12:00:00.75Z", "1455-03-01T12:00:00.75Z",
	"1455-03-01T12:00:00.5Z", "1455-03-01T12:00:00.25Z", "1455-03-01T11:59:59.5Z", "1455-03-01T11:59:59Z", "1455-03-01T11:59:58.25Z", "1455-03-01T12:00:00Z",
	// 1215: three on 1 ns past the second, the second itself (twice), 1 ns and 2 ns before it
	"1215-06-15T00:00:00.000000001Z", "1215-06-15T00:00:00.000000001Z", "1215-06-15T02:00:00.000000001+02:00", "1215-06-15T00:00:00Z", "1215-06-15T00:00:00Z",
	"1215-06-14T23:59:59.999999999Z", "1215-06-14T23:59:59.999999998Z",
	// year 1: three on 999999999 ns, half a second and nearly two seconds before
	"0001-06-15T12:00:00.999999999Z", "0001-06-15T12:00:00.999999999Z", "0001-06-15T12:00:00.999999999Z", "0001-06-15T12:00:00.5Z", "0001-06-15T11:59:59.000000002Z", "0001-06-15T11:59:59Z",
	// right before the smallest instant an int64 of nanoseconds holds (…12:43.145224192Z)
	"1677-09-21T00:12:43.145224191Z", "1677-09-21T00:12:43.145224191Z", "1677-09-21T00:12:43.1Z", "1677-09-21T00:12:42.9Z",
	// after 2262: the same shapes with positive seconds
	"2500-01-01T00:00:00.75Z", "2500-01-01T00:00:00.75Z", "2499-12-31T16:00:00.75-08:00", "2500-01-01T00:00:00.25Z", "2499-12-31T23:59:59.5Z",
	"2300-07-04T08:00:00.000000001Z", "2300-07-04T08:00:00.000000001Z", "2300-07-04T08:00:00Z", "2300-07-04T07:59:59.999999999Z",
	"9999-12-31T23:59:59.999999999Z", "9999-12-31T23:59:59.999999999Z", "2262-04-11T23:47:16.854775808Z", "2262-04-11T23:47:16.854775808Z",
}

func genSearchWorldX(rng *rand.Rand, label string, nPN int, tiedTimes bool, exotic bool, o worldOpts) *sworld {
	dangling := o.dangling
	w := &sworld{typ: map[blob.Ref]string{}, size: map[blob.Ref]int{}, del: map[blob.Ref]bool{}, files: map[blob.Ref]*sfile{}, dirs: map[blob.Ref]*sdir{}, parent: map[blob.Ref][]blob.Ref{}, chunkOf: map[blob.Ref]blob.Ref{}, features: map[string]int{}}
	w.owner = hw.NewSigner(1)
	w.w = &hw.World{Kind: map[blob.Ref]string{}, Deps: map[blob.Ref][]blob.Ref{}, Signers: []*hw.Signer{w.owner}}
	w.add(w.owner.Pub, "")

	// files
	namePool := []string{"a.txt", "B.TXT", "photo.jpg", "notes 1.md", "a.txt", "Report.PDF", "x", "archive.tar.gz"}
	nFiles := 3 + rng.Intn(4)
	var fileRefs []blob.Ref
	for i := 0; i < nFiles; i++ {
		mg := magics[rng.Intn(len(magics))]
		body := make([]byte, 20+rng.Intn(400))
		rng.Read(body)
		content := append(append([]byte{}, mg.head...), body...)
		mime := mg.mime
		if mg.head == nil {
			// plain ASCII text has no magic; the sniffer reports nothing for it
			content = []byte(fmt.Sprintf("plain text file %s %d\n%s", label, i, strings.Repeat("lorem ipsum ", rng.Intn(20))))
		}
		name := namePool[rng.Intn(len(namePool))]
		var mt time.Time
		if rng.Intn(3) > 0 {
			mt = time.Date(1985+rng.Intn(30), time.Month(1+rng.Intn(12)), 1+rng.Intn(27), rng.Intn(24), rng.Intn(60), rng.Intn(60), 0, time.UTC)
		}
		fb, chunk := hw.FileOf(name, content, mt)
		w.add(chunk, "")
		w.add(fb, "file")
		w.files[fb.Ref] = &sfile{name: name, mime: mime, size: len(content), whole: chunk.Ref, mtime: mt}
		w.chunkOf[fb.Ref] = chunk.Ref
		fileRefs = append(fileRefs, fb.Ref)
		w.names = append(w.names, name)
		w.mimes = append(w.mimes, mime)
		// the same content under another name / time: one wholeRef, two files
		if i == 0 && rng.Intn(2) == 0 {
			name2 := namePool[rng.Intn(len(namePool))]
			mt2 := time.Date(1986+rng.Intn(20), time.Month(1+rng.Intn(12)), 1+rng.Intn(27), 1, 2, 3, 0, time.UTC)
			fb2, _ := hw.FileOf(name2, content, mt2)
			if _, dup := w.typ[fb2.Ref]; !dup {
				w.add(fb2, "file")
				w.files[fb2.Ref] = &sfile{name: name2, mime: mime, size: len(content), whole: chunk.Ref, mtime: mt2}
				w.chunkOf[fb2.Ref] = chunk.Ref
				fileRefs = append(fileRefs, fb2.Ref)
				w.names = append(w.names, name2)
				w.features["shared-wholeref"]++
			}
		}
	}
	// directories: d0 has some files, d1 has d0 and files, d2 (sometimes) has d1
	nDirs := 2 + rng.Intn(2)
	var dirRefs []blob.Ref
	for i := 0; i < nDirs; i++ {
		var kids []blob.Ref
		for _, f := range fileRefs {
			if rng.Intn(2) == 0 {
				kids = append(kids, f)
			}
		}
		if i > 0 {
			kids = append(kids, dirRefs[i-1])
			if i > 1 && rng.Intn(2) == 0 {
				kids = append(kids, dirRefs[0])
			}
		}
		name := []string{"docs", "Pictures", "docs", "tmp dir"}[rng.Intn(4)]
		db, ss := hw.DirOf(name, kids, time.Time{})
		w.add(ss, "static-set")
		w.add(db, "directory")
		w.dirs[db.Ref] = &sdir{name: name, children: kids}
		for _, k := range kids {
			w.parent[k] = append(w.parent[k], db.Ref)
		}
		dirRefs = append(dirRefs, db.Ref)
		w.names = append(w.names, name)
	}
	if o.deep > 0 {
		dirRefs = append(dirRefs, w.genDeepTree(label, o.deep)...)
	}
	// plain blobs
	var plain []blob.Ref
	for i := 0; i < 2+rng.Intn(2); i++ {
		b := make([]byte, 10+rng.Intn(300))
		rng.Read(b)
		pb := sto.FromBytes(b)
		w.add(pb, "")
		plain = append(plain, pb.Ref)
	}
	// permanodes
	for i := 0; i < nPN; i++ {
		pn := w.owner.Permanode(fmt.Sprintf("%s-pn%d", label, i))
		w.add(pn, "permanode")
		w.pns = append(w.pns, pn.Ref)
	}
	// dates: distinct unless tiedTimes
	base := time.Date(1990+rng.Intn(20), time.Month(1+rng.Intn(12)), 1+rng.Intn(27), 12, 0, 0, 0, time.UTC)
	if exotic {
		base = time.Date(1930+rng.Intn(30), 3, 1, 0, 0, 0, 0, time.UTC) // pre-1970
	}
	if o.epoch {
		// distinct dates: base + k*3701 s reaches epoch-1s at k = 3*nPN, epoch+3700s right after
		k := o.epochSeq
		if k == 0 {
			k = 3 * nPN
		}
		base = unixEpoch.Add(-time.Second - time.Duration(k)*3701*time.Second)
	}
	seq := 0
	tiedPool := []time.Time{base, base.Add(time.Hour), base.Add(time.Hour + 500*time.Millisecond), base.Add(48 * time.Hour)}
	if o.epoch {
		tiedPool = []time.Time{unixEpoch.Add(-time.Hour), unixEpoch.Add(-time.Second), unixEpoch.Add(time.Second), unixEpoch.Add(48 * time.Hour)}
	}
	// dates are tied ACROSS permanodes only: within one permanode all claim dates are distinct
	// (the docs say nothing about ties within a permanode)
	usedByPN := map[string]bool{}
	curPN := ""
	nextDate := func() time.Time {
		seq++
		if tiedTimes {
			d := tiedPool[rng.Intn(len(tiedPool))]
			for usedByPN[curPN+d.String()] || d.Unix() == 0 { // (a claim dated within the epoch second is invalid)
				d = d.Add(time.Second)
			}
			usedByPN[curPN+d.String()] = true
			return d
		}
		d := base.Add(time.Duration(seq) * 3701 * time.Second)
		if rng.Intn(3) == 0 {
			d = d.Add(time.Duration(1+rng.Intn(999)) * time.Millisecond)
		}
		return d
	}
	claim := func(kind string, pn blob.Ref, attr, val string) time.Time {
		curPN = pn.String()
		d := nextDate()
		cb := w.owner.Claim(kind, pn, attr, val, d)
		if _, dup := w.typ[cb.Ref]; dup {
			return d
		}
		w.add(cb, "claim")
		ci := hw.ClaimInfo{Ref: cb.Ref, Kind: kind, PN: pn, Attr: attr, Value: val, Date: d, Signer: 1}
		w.claims = append(w.claims, ci)
		w.w.Claims = append(w.w.Claims, ci)
		w.dates = append(w.dates, d)
		return d
	}
	tagPool := []string{"a", "b", "Foo", "foo bar", "42", "7", "-3", "x|y"}
	w.tags = tagPool
	w.nodeTypes = []string{"typeA", "typeB"}
	for i, pn := range w.pns {
		if i%7 == 6 {
			continue // a permanode without any claim (no time at all)
		}
		used := map[string]bool{}
		nc := 1 + rng.Intn(6)
		if tiedTimes {
			nc = 1 + rng.Intn(2)
		}
		for c := 0; c < nc; c++ {
			switch k := rng.Intn(14); {
			case k < 4:
				t := tagPool[rng.Intn(len(tagPool))]
				if !used["tag"+t] {
					used["tag"+t] = true
					claim(hw.Add, pn, "tag", t)
				}
			case k < 6:
				t := fmt.Sprintf("Title %d", rng.Intn(5))
				w.titles = append(w.titles, t)
				claim(hw.Set, pn, "title", t)
			case k == 6:
				// node types are given by set- and by add-attribute claims
				nt := w.nodeTypes[rng.Intn(2)]
				if rng.Intn(2) == 0 {
					claim(hw.Set, pn, "camliNodeType", nt)
				} else if !used["nt"+nt] {
					used["nt"+nt] = true
					claim(hw.Add, pn, "camliNodeType", nt)
				}
			case k == 7:
				if rng.Intn(2) == 0 {
					claim(hw.Set, pn, "camliDefVis", "hide")
				} else {
					claim(hw.Set, pn, "count", fmt.Sprint(rng.Intn(50)))
				}
			case k == 8 || k == 9:
				if k4 := rng.Intn(8); k4 == 0 {
					claim(hw.Set, pn, "camliContent", dirRefs[rng.Intn(len(dirRefs))].String())
					w.features["content-is-directory"]++
				} else if k4 < 3 {
					claim(hw.Set, pn, "camliContent", plain[rng.Intn(len(plain))].String())
				} else {
					claim(hw.Set, pn, "camliContent", fileRefs[rng.Intn(len(fileRefs))].String())
				}
			case k == 10 || k == 11:
				o := w.pns[rng.Intn(len(w.pns))]
				if !used["m"+o.String()] {
					used["m"+o.String()] = true
					claim(hw.Add, pn, "camliMember", o.String())
				}
			case k == 12:
				claim(hw.Set, pn, "camliPath:"+[]string{"x", "y"}[rng.Intn(2)], w.pns[rng.Intn(len(w.pns))].String())
			default:
				// deletions of values
				if rng.Intn(2) == 0 {
					claim(hw.Del, pn, "tag", tagPool[rng.Intn(len(tagPool))])
				} else {
					claim(hw.Del, pn, []string{"tag", "title", "camliMember"}[rng.Intn(3)], "")
				}
			}
		}
	}
	// relation stress: the same pair of permanodes linked by two different edge attributes, the
	// older edge superseded or removed
	for i, pn := range w.pns {
		if i%7 == 6 || len(w.pns) < 3 {
			continue
		}
		c := w.pns[(i+1)%len(w.pns)]
		d := w.pns[(i+2)%len(w.pns)]
		switch i % 6 {
		case 1:
			claim(hw.Set, pn, "camliPath:x", c.String())
			claim(hw.Set, pn, "camliPath:x", d.String())
			claim(hw.Set, pn, "camliPath:y", c.String())
		case 3:
			claim(hw.Add, pn, "camliMember", c.String())
			claim(hw.Del, pn, "camliMember", c.String())
			claim(hw.Set, pn, "camliPath:y", c.String())
		}
	}
	// repeated values: one value added more than once, then removed by a del-attribute naming it,
	// then a newer claim, so that a query `at` the del (or shortly after) is answered from the
	// claims up to that instant and not from the present-time attribute cache
	for i, pn := range w.pns {
		if i%7 == 6 || len(w.pns) < 6 {
			continue
		}
		switch i % 8 {
		case 2:
			x, y := tagPool[rng.Intn(len(tagPool))], tagPool[rng.Intn(len(tagPool))]
			claim(hw.Add, pn, "tag", x)
			claim(hw.Add, pn, "tag", y)
			claim(hw.Add, pn, "tag", x)
			if rng.Intn(3) == 0 {
				claim(hw.Add, pn, "tag", x)
			}
			d := claim(hw.Del, pn, "tag", x)
			w.atDates = append(w.atDates, d, d.Add(time.Second))
			w.atCases = append(w.atCases, atCase{pn, "tag", x, d})
			claim(hw.Set, pn, "title", "Title 9")
			w.titles = append(w.titles, "Title 9")
			w.features["repeated-value-then-del/tag"]++
		case 5:
			m, m2 := w.pns[(i+3)%len(w.pns)], w.pns[(i+4)%len(w.pns)]
			claim(hw.Add, pn, "camliMember", m.String())
			claim(hw.Add, pn, "camliMember", m2.String())
			claim(hw.Add, pn, "camliMember", m.String())
			d := claim(hw.Del, pn, "camliMember", m.String())
			w.atDates = append(w.atDates, d, d.Add(time.Second))
			w.atCases = append(w.atCases, atCase{pn, "camliMember", m.String(), d})
			claim(hw.Add, pn, "tag", tagPool[rng.Intn(len(tagPool))])
			w.features["repeated-value-then-del/camliMember"]++
		}
	}
	// sets with several members whose members carry several tags (nested attribute tests on each
	// of several values)
	for i, pn := range w.pns {
		if i%7 == 6 || i%6 != 0 || len(w.pns) < 6 {
			continue
		}
		k := 2 + rng.Intn(3)
		for j := 0; j < k; j++ {
			mi := rng.Intn(len(w.pns))
			if mi%7 != 6 && rng.Intn(5) < 3 {
				for t := 0; t < 2+rng.Intn(2); t++ {
					claim(hw.Add, w.pns[mi], "tag", tagPool[rng.Intn(len(tagPool))])
				}
			}
			claim(hw.Add, pn, "camliMember", w.pns[mi].String())
		}
		w.features["multi-member-set"]++
	}
	// custom edge types: permanodes that point at other permanodes through attributes other than
	// camliMember / camliPath:* — a made-up "seeAlso" attribute (single- and multi-valued, with
	// superseded and removed edges) and camliContent naming a permanode — so that relation
	// constraints with an explicit EdgeType have something to find in both directions
	w.edgeTypes = []string{"seeAlso", "camliContent"}
	for i, pn := range w.pns {
		if i%7 == 6 || len(w.pns) < 4 {
			continue
		}
		other := func(k int) blob.Ref { return w.pns[(i+k)%len(w.pns)] }
		switch i % 5 {
		case 0:
			claim(hw.Set, pn, "seeAlso", other(1+rng.Intn(3)).String())
			w.features["custom-edge/seeAlso"]++
		case 2:
			c, d := other(1), other(2+rng.Intn(2))
			claim(hw.Add, pn, "seeAlso", c.String())
			claim(hw.Add, pn, "seeAlso", d.String())
			if rng.Intn(2) == 0 {
				claim(hw.Del, pn, "seeAlso", c.String()) // a stale edge
				w.features["custom-edge/seeAlso-removed"]++
			}
			w.features["custom-edge/seeAlso"]++
		case 3:
			if rng.Intn(3) > 0 {
				claim(hw.Set, pn, "camliContent", other(1+rng.Intn(4)).String())
				w.features["custom-edge/camliContent-names-permanode"]++
			}
		case 4:
			// superseded single-valued edge
			claim(hw.Set, pn, "seeAlso", other(1).String())
			claim(hw.Set, pn, "seeAlso", other(2).String())
			w.features["custom-edge/seeAlso-superseded"]++
		}
	}
	// a batch of typed permanodes (tied worlds): many permanodes of one camliNodeType whose
	// creation times coincide (one import run)
	if tiedTimes {
		for i, pn := range w.pns {
			if i%7 == 6 || rng.Intn(2) == 0 {
				continue
			}
			claim(hw.Set, pn, "camliNodeType", w.nodeTypes[rng.Intn(3)%2])
			w.features["typed-batch-member"]++
		}
	}
	// explicit date attributes (pkg/index PermanodeTime: paymentDueDate, startDate, dateCreated come
	// before the content file's time, datePublished and dateModified after it, all before the
	// camliContent claim date and the modtime).  The values are RFC 3339 strings in various zone
	// notations of instants that OTHER permanodes also have as their time (through another notation,
	// a claim date or a file time): equal instants, written differently.
	{
		var instants []time.Time
		if tiedTimes {
			instants = append(instants, tiedPool[0], tiedPool[1], tiedPool[2])
		} else {
			instants = append(instants, base.Add(-90*time.Minute), base.Add(100*time.Hour+250*time.Millisecond))
		}
		for _, f := range fileRefs {
			if mt := w.files[f].mtime; !mt.IsZero() {
				instants = append(instants, mt)
				break
			}
		}
		dOff, dk := rng.Intn(7*6*9), 0
		for i, pn := range w.pns {
			if i%7 == 6 {
				continue
			}
			if tiedTimes && rng.Intn(5) < 3 || !tiedTimes && rng.Intn(4) > 0 {
				continue
			}
			var inst time.Time
			switch k := rng.Intn(6); {
			case k == 0 && i > 0:
				// the time some other permanode has right now
				if t, ok := w.anyTime(w.pns[rng.Intn(i)]); ok {
					inst = t
					break
				}
				fallthrough
			default:
				inst = instants[rng.Intn(len(instants))]
			}
			// attribute and notation cycle from a per-world offset (every class turns up within a few worlds)
			dk++
			attr := []string{"dateCreated", "startDate", "dateCreated", "paymentDueDate", "datePublished", "dateCreated", "dateModified"}[(dOff+dk)%7]
			val, note := zoneNotation(inst, (dOff/7+dk)%6)
			if (dOff+dk)%9 == 4 {
				val, note = []string{"not a date", "2001-02-03", "12:00:00Z"}[rng.Intn(3)], "unparsable"
			}
			claim(hw.Set, pn, attr, val)
			w.dates = append(w.dates, inst) // time constraints get bounds exactly at these instants
			w.features["date-attr/"+attr]++
			w.features["date-attr/notation/"+note]++
			if rng.Intn(6) == 0 {
				// a second date attribute of another priority class on the same permanode
				attr2 := []string{"dateCreated", "startDate", "datePublished", "dateModified"}[rng.Intn(4)]
				if attr2 != attr {
					v2, _ := zoneNotation(instants[rng.Intn(len(instants))], rng.Intn(6))
					claim(hw.Set, pn, attr2, v2)
					w.features["date-attr/two-on-one-permanode"]++
				}
			}
		}
	}
	if o.epoch {
		from := seq
		w.genEpochFeatures(rng, label, claim)
		w.epochSeqMid = (from + seq) / 2
	}
	if o.far {
		w.farFrac = o.farFrac
		w.genFarDates(rng, claim)
	}
	if o.deep > 0 {
		w.linkDeepTree(claim)
	}
	if dangling {
		for i, pn := range w.pns {
			if i%3 != 1 || len(w.pns) < 4 {
				continue
			}
			ghost := blob.RefFromString(fmt.Sprintf("%s: a blob that exists nowhere %d", label, i))
			w.dangling = append(w.dangling, ghost)
			real := w.pns[(i+2)%len(w.pns)]
			switch i % 9 {
			case 1:
				claim(hw.Add, pn, "camliMember", ghost.String())
				claim(hw.Add, pn, "camliMember", real.String())
				w.features["dangling-edge/camliMember"]++
			case 4:
				claim(hw.Set, pn, "camliPath:x", ghost.String())
				claim(hw.Set, pn, "camliPath:y", real.String())
				w.features["dangling-edge/camliPath"]++
			default:
				claim(hw.Add, pn, "seeAlso", ghost.String())
				claim(hw.Add, pn, "seeAlso", real.String())
				w.features["dangling-edge/seeAlso"]++
			}
		}
	}
	// deleted permanodes (delete claims on permanodes only; claim deletions are C07's subject)
	for i, pn := range w.pns {
		if i%5 == 4 {
			curPN = pn.String()
			d := nextDate()
			db := w.owner.Delete(pn, d)
			w.add(db, "claim")
			w.del[pn] = true
			w.w.Claims = append(w.w.Claims, hw.ClaimInfo{Ref: db.Ref, Kind: "delete", Target: pn, Date: d, Signer: 1})
		}
	}
	if o.epoch || o.far {
		w.noteSpecialTimes()
	}
	sort.Slice(w.dates, func(i, j int) bool { return w.dates[i].Before(w.dates[j]) })
	return w
}

var dateAttrCycle = []string{"dateCreated", "startDate", "paymentDueDate", "dateCreated", "datePublished", "dateModified"}

// genEpochFeatures (worldOpts.epoch): every other permanode gets a date attribute whose instant is
// the Unix epoch or right next to it, written in the usual zone notations; two permanodes without a
// higher-priority date attribute get a camliContent file whose modtime is exactly the epoch.
func (w *sworld) genEpochFeatures(rng *rand.Rand, label string, claim func(kind string, pn blob.Ref, attr, val string) time.Time) {
	specials := []time.Time{unixEpoch, unixEpoch.Add(1), unixEpoch.Add(-time.Second), unixEpoch.Add(time.Second), unixEpoch,
		unixEpoch.Add(-1), unixEpoch.Add(999 * time.Millisecond), unixEpoch, unixEpoch.Add(-999 * time.Millisecond), unixEpoch}
	off, k := rng.Intn(60), 0
	for i, pn := range w.pns {
		if !specialTimeCarrier(i) {
			continue
		}
		inst := specials[k%len(specials)]
		attr := dateAttrCycle[(off/2+k)%len(dateAttrCycle)]
		val, note := zoneNotation(inst, (off/3+k)%6)
		k++
		claim(hw.Set, pn, attr, val)
		if t, _ := w.anyTime(pn); !t.Equal(inst) {
			// shadowed by a date of higher priority: use the attribute of the highest one
			attr = dateAttrsBeforeFile[0]
			claim(hw.Set, pn, attr, val)
		}
		w.dates = append(w.dates, inst)
		w.features["date-attr/"+attr]++
		w.features["date-attr/notation/"+note]++
		w.features["epoch/date-attr-at-or-next-to-unix-epoch"]++
	}
	body := []byte("a file whose modification time is the Unix epoch: " + label)
	fb, chunk := hw.FileOf("epoch.bin", body, unixEpoch)
	w.add(chunk, "")
	w.add(fb, "file")
	w.files[fb.Ref] = &sfile{name: "epoch.bin", size: len(body), whole: chunk.Ref, mtime: unixEpoch}
	w.chunkOf[fb.Ref] = chunk.Ref
	w.names = append(w.names, "epoch.bin")
	n := 0
	for i, pn := range w.pns {
		if i%7 == 6 || i%5 == 4 || i%4 != 1 || n >= 2 {
			continue
		}
		for _, a := range dateAttrsBeforeFile {
			if _, ok := w.attrTime(pn, a); ok {
				claim(hw.Del, pn, a, "") // (a date of higher priority than the file's)
			}
		}
		claim(hw.Set, pn, "camliContent", fb.Ref.String())
		w.features["epoch/camliContent-file-with-modtime-0"]++
		n++
	}
	w.dates = append(w.dates, unixEpoch, unixEpoch.Add(time.Second), unixEpoch.Add(-time.Second), unixEpoch.Add(1), unixEpoch.Add(-1), unixEpoch.Add(500*time.Millisecond))
}

// specialTimeCarrier: the permanodes (by ordinal) that carry the special dates of the epoch / far
// worlds: about half of those that have claims and are not deleted later on.
func specialTimeCarrier(i int) bool { return i%7 != 6 && i%5 != 4 && i%4 != 1 }

// genFarDates (worldOpts.far): date attributes outside the years 1678..2262 on about half of the permanodes.
func (w *sworld) genFarDates(rng *rand.Rand, claim func(kind string, pn blob.Ref, attr, val string) time.Time) {
	off, k := rng.Intn(len(dateAttrCycle)*6), 0
	values := farDateValues
	if w.farFrac {
		// a rotation of the list that depends on the seed: which of the values are left out when there
		// are fewer carriers than values differs from seed to seed
		rot := rng.Intn(len(farFracDateValues))
		values = append(append([]string{}, farFracDateValues[rot:]...), farFracDateValues[:rot]...)
	}
	for i, pn := range w.pns {
		if !specialTimeCarrier(i) && !(w.farFrac && i%7 != 6 && i%5 != 4) {
			continue
		}
		val := values[k%len(values)]
		attr := dateAttrCycle[(off+k)%len(dateAttrCycle)]
		k++
		inst, err := time.Parse(time.RFC3339, val)
		if err != nil {
			panic(err)
		}
		claim(hw.Set, pn, attr, val)
		if t, _ := w.anyTime(pn); !t.Equal(inst) {
			attr = dateAttrsBeforeFile[0]
			claim(hw.Set, pn, attr, val)
		}
		w.dates = append(w.dates, inst)
		w.features["date-attr/"+attr]++
		w.features["date-attr/notation/"+zoneOf(val)]++
		w.features["far/date-attr-outside-1678-2262"]++
		if inst.Nanosecond() != 0 {
			w.features["far/date-attr-outside-1678-2262-with-sub-second-part"]++
		}
	}
}

// fitsInt64Nanos: the instant is representable as an int64 of nanoseconds since the Unix epoch.
func fitsInt64Nanos(t time.Time) bool {
	return !t.Before(time.Unix(0, -1<<63)) && !t.After(time.Unix(0, 1<<63-1))
}

// noteSpecialTimes records (evidence) which special creation / modification times the finished
// world really has, after all priorities have been applied.
func (w *sworld) noteSpecialTimes() {
	for i, pn := range w.pns {
		if w.del[pn] || i%5 == 4 {
			continue
		}
		if t, ok := w.anyTime(pn); ok {
			switch {
			case t.Equal(unixEpoch):
				w.features["created-time/exactly-unix-epoch"]++
				if w.anyZone(pn) != "Z" {
					w.features["created-time/exactly-unix-epoch-in-non-UTC-notation"]++
				}
			case t.Unix() == 0:
				w.features["created-time/within-the-epoch-second"]++
			case !fitsInt64Nanos(t) && t.Before(unixEpoch):
				w.features["created-time/before-1678"]++
			case !fitsInt64Nanos(t):
				w.features["created-time/after-2262"]++
			case t.Before(unixEpoch):
				w.features["created-time/pre-1970"]++
			default:
				w.features["created-time/post-1970"]++
			}
			if t.Year() == 1 || t.Year() == 9999 {
				w.features["created-time/year-1-or-9999"]++
			}
		}
		if t, ok := w.modtime(pn); ok {
			if t.Before(unixEpoch) {
				w.features["mod-time/pre-1970"]++
			} else {
				w.features["mod-time/post-1970"]++
			}
			if d := t.Sub(unixEpoch); d >= -time.Second && d <= time.Second+time.Millisecond*999 {
				w.features["mod-time/one-second-off-the-unix-epoch"]++
			}
		}
	}
}

// zoneNotation writes the instant t as an RFC 3339 string in one of several zone notations.
func zoneNotation(t time.Time, k int) (val, note string) {
	switch k {
	case 0:
		return t.UTC().Format(time.RFC3339Nano), "Z"
	case 1:
		return t.UTC().Format("2006-01-02T15:04:05.999999999-07:00"), "+00:00"
	case 2:
		return t.In(time.FixedZone("", 2*3600)).Format(time.RFC3339Nano), "+02:00"
	case 3:
		return t.In(time.FixedZone("", -(5*3600 + 1800))).Format(time.RFC3339Nano), "-05:30"
	case 4:
		return t.In(time.FixedZone("", 14*3600)).Format(time.RFC3339Nano), "+14:00"
	}
	return t.In(time.FixedZone("", -8*3600)).Format(time.RFC3339Nano), "-08:00"
}

// zoneOf returns the zone designator an RFC 3339 string ends in ("Z", "+02:00", ...).
func zoneOf(v string) string {
	if strings.HasSuffix(v, "Z") || strings.HasSuffix(v, "z") {
		return "Z"
	}
	if len(v) >= 6 {
		return v[len(v)-6:]
	}
	return "?"
}

// ---- facts derived from the generated claims (the documented semantics)

func (w *sworld) values(pn blob.Ref, attr string, at time.Time) []string {
	return hw.Canon(w.valuesList(pn, attr, at))
}

type pnAttr struct {
	pn   blob.Ref
	attr string
}

// valuesList: the uncanonicalised value list (repeated add-attribute claims of one value count
// twice): what numValue counts.  Same fold as hw.World.ValuesList(pn, attr, at, owner, true) —
// the worlds of this package contain no deleted claims — over a per-(permanode, attribute) index
// of the claims (the hw function scans every claim of the world on every call); the two are
// compared on a sample of calls (selfCheckValues).
func (w *sworld) valuesList(pn blob.Ref, attr string, at time.Time) []string {
	if w.byPNAttr == nil || w.indexedClaims != len(w.claims) {
		w.byPNAttr = map[pnAttr][]hw.ClaimInfo{}
		for _, c := range w.claims {
			k := pnAttr{c.PN, c.Attr}
			w.byPNAttr[k] = append(w.byPNAttr[k], c)
		}
		for k := range w.byPNAttr {
			cs := w.byPNAttr[k]
			sort.SliceStable(cs, func(i, j int) bool { return cs[i].Date.Before(cs[j].Date) })
		}
		w.indexedClaims = len(w.claims)
	}
	var v []string
	for _, c := range w.byPNAttr[pnAttr{pn, attr}] {
		if !at.IsZero() && c.Date.After(at) {
			continue
		}
		switch c.Kind {
		case hw.Set:
			v = []string{c.Value}
		case hw.Add:
			v = append(v, c.Value)
		case hw.Del:
			if c.Value == "" {
				v = nil
			} else {
				var nv []string
				for _, x := range v {
					if x != c.Value {
						nv = append(nv, x)
					}
				}
				v = nv
			}
		}
	}
	w.valueCalls++
	if w.valueCalls%997 == 1 {
		ref := w.w.ValuesList(pn, attr, at, 1, true)
		if fmt.Sprint(ref) != fmt.Sprint(v) {
			w.valueModelMismatch = fmt.Sprintf("valuesList(%v, %q, %v): fast fold %q, hw.World.ValuesList %q", pn, attr, at, v, ref)
		}
	}
	return v
}

// modtime: latest date among the permanode's (non-deleted) attribute claims.
func (w *sworld) modtime(pn blob.Ref) (time.Time, bool) {
	w.memoCheck()
	if m, ok := w.memoMod[pn]; ok {
		return m.t, m.ok
	}
	t, ok := w.modtime1(pn)
	w.memoMod[pn] = timeOK{t, ok, "Z"}
	return t, ok
}

type timeOK struct {
	t  time.Time
	ok bool
	z  string // zone notation the instant was written in ("Z" for claim dates and file times)
}

// memoCheck drops the memoised times when the world's facts changed (claims added during
// generation, MIME/mtime facts never change afterwards).
func (w *sworld) memoCheck() {
	if w.memoMod == nil || w.memoClaims != len(w.claims) || w.memoFiles != len(w.files) {
		w.memoMod, w.memoAny = map[blob.Ref]timeOK{}, map[blob.Ref]timeOK{}
		w.memoClaims, w.memoFiles = len(w.claims), len(w.files)
	}
}

func (w *sworld) modtime1(pn blob.Ref) (time.Time, bool) {
	var t time.Time
	for _, c := range w.claims {
		if c.PN == pn && c.Date.After(t) {
			t = c.Date
		}
	}
	return t, !t.IsZero()
}

// anyTime: the time "that best qualifies the permanode" in the order of pkg/index
// Corpus.PermanodeTime / PermanodeAnyTime: the paymentDueDate, startDate, dateCreated attribute
// (first value, if it parses as RFC 3339); the time of the camliContent file; the datePublished,
// dateModified attribute; the date of the claim that set the current camliContent; the modtime.
// (Generated files carry a modtime only, which the index records as the file's time.)  The instant
// is returned in UTC; anyZone tells the notation it was written in.
func (w *sworld) anyTime(pn blob.Ref) (time.Time, bool) {
	m := w.anyTimeZ(pn)
	return m.t, m.ok
}

// anyZone: the zone designator of the string the permanode's time was read from.
func (w *sworld) anyZone(pn blob.Ref) string { return w.anyTimeZ(pn).z }

func (w *sworld) anyTimeZ(pn blob.Ref) timeOK {
	w.memoCheck()
	if m, ok := w.memoAny[pn]; ok {
		return m
	}
	m := w.anyTime1(pn)
	m.t = m.t.UTC()
	w.memoAny[pn] = m
	return m
}

// dateAttrsBeforeFile / dateAttrsAfterFile: the explicit date attributes, in priority order.
var (
	dateAttrsBeforeFile = []string{"paymentDueDate", "startDate", "dateCreated"}
	dateAttrsAfterFile  = []string{"datePublished", "dateModified"}
)

func (w *sworld) attrTime(pn blob.Ref, attr string) (timeOK, bool) {
	vs := w.valuesList(pn, attr, time.Time{})
	if len(vs) == 0 || vs[0] == "" {
		return timeOK{}, false
	}
	t, err := time.Parse(time.RFC3339, vs[0])
	if err != nil {
		return timeOK{}, false
	}
	return timeOK{t, true, zoneOf(vs[0])}, true
}

func (w *sworld) anyTime1(pn blob.Ref) timeOK {
	for _, a := range dateAttrsBeforeFile {
		if m, ok := w.attrTime(pn, a); ok {
			return m
		}
	}
	var cc blob.Ref
	var ccTime time.Time
	var cs []hw.ClaimInfo
	for _, c := range w.claims {
		if c.PN == pn && c.Attr == "camliContent" {
			cs = append(cs, c)
		}
	}
	sort.SliceStable(cs, func(i, j int) bool { return cs[i].Date.Before(cs[j].Date) })
	for _, c := range cs {
		switch c.Kind {
		case hw.Del:
			cc, ccTime = blob.Ref{}, time.Time{}
		case hw.Set:
			cc, _ = blob.Parse(c.Value)
			ccTime = c.Date
		}
	}
	if cc.Valid() {
		if f := w.files[cc]; f != nil && !f.mtime.IsZero() {
			return timeOK{f.mtime, true, "Z"}
		}
	}
	for _, a := range dateAttrsAfterFile {
		if m, ok := w.attrTime(pn, a); ok {
			return m
		}
	}
	if cc.Valid() {
		return timeOK{ccTime, true, "Z"}
	}
	t, ok := w.modtime(pn)
	return timeOK{t, ok, "Z"}
}

// restrict returns the world as an index sees it after exactly the blobs in `have` have arrived:
// the ground truth of a partially delivered world.  A file counts as indexed once its schema blob
// and its content chunk are both there, a directory once its static set is, a claim once the
// signer's key is (perkeep postpones indexing a blob until what it needs to read has arrived).
// Generation pools are shared with the full world.
func (w *sworld) restrict(have map[blob.Ref]bool) *sworld {
	p := &sworld{typ: map[blob.Ref]string{}, size: map[blob.Ref]int{}, del: map[blob.Ref]bool{}, files: map[blob.Ref]*sfile{}, dirs: map[blob.Ref]*sdir{}, parent: map[blob.Ref][]blob.Ref{}, chunkOf: w.chunkOf, features: w.features}
	p.owner = w.owner
	p.names, p.mimes, p.tags, p.titles, p.nodeTypes, p.dates, p.atDates, p.atCases = w.names, w.mimes, w.tags, w.titles, w.nodeTypes, w.dates, w.atDates, w.atCases
	p.w = &hw.World{Kind: w.w.Kind, Deps: w.w.Deps, Signers: w.w.Signers}
	keyThere := have[w.owner.PubRef]
	for _, b := range w.blobs {
		if !have[b.Ref] {
			continue
		}
		switch w.typ[b.Ref] {
		case "file":
			if ch, ok := w.chunkOf[b.Ref]; ok && !have[ch] {
				continue
			}
		case "claim":
			if !keyThere {
				continue
			}
		}
		p.add(b, w.typ[b.Ref])
	}
	for _, pn := range w.pns {
		if _, ok := p.typ[pn]; ok {
			p.pns = append(p.pns, pn)
		}
	}
	for _, c := range w.claims {
		if _, ok := p.typ[c.Ref]; ok {
			p.claims = append(p.claims, c)
		}
	}
	for _, c := range w.w.Claims {
		if _, ok := p.typ[c.Ref]; ok {
			p.w.Claims = append(p.w.Claims, c)
			if c.Kind == "delete" {
				p.del[c.Target] = true
			}
		}
	}
	for ref, f := range w.files {
		if _, ok := p.typ[ref]; ok {
			p.files[ref] = f
		}
	}
	for _, b := range p.blobs { // deterministic order for parent lists
		if d := w.dirs[b.Ref]; d != nil {
			p.dirs[b.Ref] = d
			for _, k := range d.children {
				p.parent[k] = append(p.parent[k], b.Ref)
			}
		}
	}
	return p
}
