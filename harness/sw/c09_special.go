package sw

import (
	"encoding/json"
	"fmt"
	"math/rand"
	"strconv"
	"strings"
	"time"

	"go4.org/types"
	"perkeep.org/pkg/blob"
	"perkeep.org/pkg/schema"
	"perkeep.org/pkg/search"

	"verif.local/harness/ev"
)

// Round-5 families of C09.
//
// Cancelled caller contexts ("cancelled-context/"): one query of a scroll (or an around query) is
// issued with a context that is already cancelled, whose deadline has passed, or that is cancelled
// inside Handler.Query right after the candidate source was chosen.  Whatever the server does with
// such a context, a response it reports as a SUCCESS is a page like any other: the scroll it belongs
// to must still deliver the full ordered result exactly once (a page cut short has to carry a
// continue token), and a successful around response must be a window around the pivot.  An error is
// accepted (the client then repeats that request with a live context).  Termination is decided by
// the page bound, never by time; the contexts end at logical points, no clock is involved.
//
// Epoch worlds ("world-epoch<k>;"): permanodes created EXACTLY at 1970-01-01T00:00:00Z (date
// attributes in several zone notations, a camliContent file with modtime 0), 1 ns / 1 s next to it,
// claims dated one second before and after it: the continue token of a page that ends on such a
// permanode carries the time 0.

// checkCancelled: scrolls and around queries one of whose requests has a caller context that ends.
func (p *pager) checkCancelled(st search.SortType, full []blob.Ref) {
	n := len(full)
	if n < 2 {
		return
	}
	kinds := []string{ctxPreCancelled, ctxCancelledAtPlan, ctxDeadlinePassed}
	for ki, kind := range kinds {
		cp := *p
		cp.fam, cp.cancelKind = "cancelled-context/", kind
		// limit and page rotate with the kind, the result size and the sort; the cancelled page is
		// never beyond the last one
		lim := 1 + (ki+n+int(st))%3
		npages := (n + lim - 1) / lim
		cp.cancelPage = 1 + (ki+n)%npages
		cp.checkContinue(st, lim, full)
		if cp.cancelPage > 1 {
			cp.cancelPage = 1
			cp.checkContinue(st, lim, full)
		}
	}
	cp := *p
	cp.fam, cp.cancelKind = "cancelled-context/", kinds[(n+int(st))%len(kinds)]
	cp.checkAround(st, 3, full[n/2], full)
	cp.checkAround(st, 2, full[n-1], full)
	p.r.Note("paging", "scroll-with-a-cancelled-caller-context")
}

// noteToken: evidence about the time a continue token carries.
func noteToken(r *ev.Run, tok string) {
	if !strings.HasPrefix(tok, "pn:") {
		return
	}
	rest := tok[len("pn:"):]
	col := strings.IndexByte(rest, ':')
	if col < 0 {
		return
	}
	nano, err := strconv.ParseInt(rest[:col], 10, 64)
	if dot := strings.IndexByte(rest[:col], '.'); err != nil && dot > 0 {
		// the form for times an int64 of nanoseconds cannot hold: <seconds>.<nanoseconds>
		sec, err1 := strconv.ParseInt(rest[:dot], 10, 64)
		ns, err2 := strconv.ParseInt(rest[dot+1:col], 10, 64)
		if err1 == nil && err2 == nil {
			sign, frac := "positive", "whole-second"
			if sec < 0 {
				sign = "negative"
			}
			if ns != 0 {
				frac = "with-sub-second-part"
			}
			r.Note("tokens", "seconds.nanoseconds-form/"+sign+"-seconds/"+frac)
		}
	}
	switch {
	case err != nil:
	case nano == 0:
		r.Note("tokens", "time-exactly-unix-epoch")
	case nano > 0 && nano < 1e9:
		r.Note("tokens", "time-within-the-epoch-second")
	case nano < 0:
		r.Note("tokens", "time-pre-1970")
	default:
		r.Note("tokens", "time-post-1970")
	}
}

func runEpochWorldsC09(r *ev.Run) {
	n := r.Pick(2, 8)
	for k := 0; k < n; k++ {
		wid := fmt.Sprintf("world-epoch%d;", k)
		if !r.Only(wid) {
			continue
		}
		label := fmt.Sprintf("pe%d", k)
		tied := k%2 == 0
		w := genEpochWorld(func() *rand.Rand { return r.Rand("epoch-world/" + label) }, label, 26+5*k, tied)
		modes, err := buildModes(w)
		if err != nil {
			r.Inconclusive("cannot index world: " + err.Error())
			continue
		}
		r.Note("time_features", "unix-epoch")
		g := &cgen{rng: r.Rand("constraints/" + label), w: w}
		pn := &search.Constraint{CamliType: schema.TypePermanode}
		and := func(a, b *search.Constraint) *search.Constraint {
			return &search.Constraint{Logical: &search.LogicalConstraint{Op: "and", A: a, B: b}}
		}
		cons := []*search.Constraint{
			pn,
			{Permanode: &search.PermanodeConstraint{SkipHidden: true}},
			{Permanode: &search.PermanodeConstraint{Attr: "tag", NumValue: &search.IntConstraint{Min: 1}}},
			// everything from one hour before the epoch on / up to one second after it
			{Permanode: &search.PermanodeConstraint{Time: &search.TimeConstraint{After: types.Time3339(unixEpoch.Add(-time.Hour))}}},
			and(pn, &search.Constraint{Permanode: &search.PermanodeConstraint{Time: &search.TimeConstraint{Before: types.Time3339(unixEpoch.Add(time.Second + 1))}}}),
			and(pn, &search.Constraint{Logical: &search.LogicalConstraint{Op: "not", A: &search.Constraint{Permanode: &search.PermanodeConstraint{Attr: "tag", Value: g.pick(w.tags)}}}}),
		}
		for ci, c := range cons {
			checkPaging(r, w, wid, c, modes[(ci+k)%2])
		}
		if k == 0 {
			cj, _ := json.Marshal(cons[0])
			r.Sample(map[string]any{"world": wid, "constraint": json.RawMessage(cj), "created_times": w.timesOf(w.pns, search.CreatedDesc)})
		}
		r.Count("worlds", 1)
		r.Count("epoch_worlds", 1)
		for k, n := range w.features {
			r.Count("feature:"+k, n)
			r.Note("world_features", k)
		}
	}
	// far worlds: creation times outside 1678..2262 (date attributes), scrolled and pivoted around
	for k := 0; k < r.Pick(1, 3); k++ {
		wid := fmt.Sprintf("world-far%d;", k)
		if !r.Only(wid) {
			continue
		}
		label := fmt.Sprintf("pf%d", k)
		w := genSearchWorldX(r.Rand("far-world/"+label), label, 36+6*k, false, false, worldOpts{far: true})
		modes, err := buildModes(w)
		if err != nil {
			r.Inconclusive("cannot index world: " + err.Error())
			continue
		}
		r.Note("time_features", "outside-1678-2262")
		cons := []*search.Constraint{
			{CamliType: schema.TypePermanode},
			{Permanode: &search.PermanodeConstraint{SkipHidden: true}},
			{Permanode: &search.PermanodeConstraint{Time: &search.TimeConstraint{Before: types.Time3339(time.Date(1700, 1, 1, 0, 0, 0, 0, time.UTC))}}},
		}
		for ci, c := range cons {
			cj, _ := json.Marshal(c)
			(&pager{r: r, w: w, wid: wid, c: c, cj: cj, m: modes[(ci+k)%2]}).checkAll(false)
		}
		r.Count("worlds", 1)
		r.Count("far_worlds", 1)
		for k, n := range w.features {
			r.Count("feature:"+k, n)
			r.Note("world_features", k)
		}
	}
	// far worlds whose far dates have sub-second parts, tied and nearly tied (within twice the
	// fraction, within a few nanoseconds) so that page ends fall on, and right next to, such instants
	for k := 0; k < r.Pick(1, 3); k++ {
		wid := fmt.Sprintf("world-farfrac%d;", k)
		if !r.Only(wid) {
			continue
		}
		label := fmt.Sprintf("pq%d", k)
		w := genSearchWorldX(r.Rand("farfrac-world/"+label), label, 64+6*k, false, false, worldOpts{far: true, farFrac: true})
		modes, err := buildModes(w)
		if err != nil {
			r.Inconclusive("cannot index world: " + err.Error())
			continue
		}
		r.Note("time_features", "outside-1678-2262-with-sub-second-part")
		cons := []*search.Constraint{
			{CamliType: schema.TypePermanode},
			{Permanode: &search.PermanodeConstraint{Time: &search.TimeConstraint{Before: types.Time3339(time.Date(1700, 1, 1, 0, 0, 0, 0, time.UTC))}}},
			{Permanode: &search.PermanodeConstraint{Time: &search.TimeConstraint{After: types.Time3339(time.Date(2262, 1, 1, 0, 0, 0, 0, time.UTC))}}},
			{Permanode: &search.PermanodeConstraint{SkipHidden: true, Time: &search.TimeConstraint{After: types.Time3339(time.Date(1215, 6, 14, 0, 0, 0, 0, time.UTC)), Before: types.Time3339(time.Date(1455, 3, 1, 12, 0, 0, 600000000, time.UTC))}}},
		}
		for ci, c := range cons {
			cj, _ := json.Marshal(c)
			p := &pager{r: r, w: w, wid: wid, c: c, cj: cj, m: modes[(ci+k)%2]}
			p.light = ci > 0 && r.Pick(1, 0) == 1
			p.checkAll(false)
		}
		r.Count("worlds", 1)
		r.Count("far_worlds", 1)
		for k, n := range w.features {
			r.Count("feature:"+k, n)
			r.Note("world_features", k)
		}
	}
	r.Require("time_features", "unix-epoch", "outside-1678-2262", "outside-1678-2262-with-sub-second-part")
	r.Require("world_features", "far/date-attr-outside-1678-2262-with-sub-second-part")
	r.Require("tokens", "seconds.nanoseconds-form/negative-seconds/with-sub-second-part", "seconds.nanoseconds-form/negative-seconds/whole-second",
		"seconds.nanoseconds-form/positive-seconds/with-sub-second-part", "seconds.nanoseconds-form/positive-seconds/whole-second")
	r.Require("paging", "page-end-outside-1678-2262-with-sub-second-part/before-1678/next-result-tied", "page-end-outside-1678-2262-with-sub-second-part/before-1678/next-result-within-twice-the-fraction",
		"page-end-outside-1678-2262-with-sub-second-part/after-2262/next-result-tied", "page-end-outside-1678-2262-with-sub-second-part/after-2262/next-result-within-twice-the-fraction")
	r.Require("world_features", "far/date-attr-outside-1678-2262", "created-time/before-1678", "created-time/after-2262", "created-time/year-1-or-9999")
	r.Require("world_features", "epoch/date-attr-at-or-next-to-unix-epoch", "epoch/camliContent-file-with-modtime-0", "created-time/exactly-unix-epoch",
		"created-time/exactly-unix-epoch-in-non-UTC-notation", "created-time/within-the-epoch-second", "created-time/pre-1970", "created-time/post-1970",
		"mod-time/pre-1970", "mod-time/post-1970")
	r.Require("tokens", "time-exactly-unix-epoch", "time-within-the-epoch-second", "time-pre-1970", "time-post-1970")
}
