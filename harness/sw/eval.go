package sw

import (
	"strconv"
	"strings"
	"time"

	"perkeep.org/pkg/blob"
	"perkeep.org/pkg/search"
)

// The reference evaluator: the documented meaning of a constraint (struct comments of
// pkg/search/query.go, DESIGN A.2) over the harness's own world facts.

func intMatches(c *search.IntConstraint, v int64) bool {
	if c.Equals != nil {
		return v == *c.Equals
	}
	if (c.Min != 0 || c.ZeroMin) && v < c.Min {
		return false
	}
	if (c.Max != 0 || c.ZeroMax) && v > c.Max {
		return false
	}
	return true
}

func stringMatches(c *search.StringConstraint, s string) bool {
	if c.Empty && len(s) > 0 {
		return false
	}
	if c.ByteLength != nil && !intMatches(c.ByteLength, int64(len(s))) {
		return false
	}
	a := s
	eq, cont, pre, suf := c.Equals, c.Contains, c.HasPrefix, c.HasSuffix
	if c.CaseInsensitive {
		// worlds use ASCII names/values only, for which lower-casing is the folding
		a, eq, cont, pre, suf = strings.ToLower(a), strings.ToLower(eq), strings.ToLower(cont), strings.ToLower(pre), strings.ToLower(suf)
	}
	if eq != "" && a != eq {
		return false
	}
	if cont != "" && !strings.Contains(a, cont) {
		return false
	}
	if pre != "" && !strings.HasPrefix(a, pre) {
		return false
	}
	if suf != "" && !strings.HasSuffix(a, suf) {
		return false
	}
	return true
}

func timeMatches(c *search.TimeConstraint, t time.Time) bool {
	if t.IsZero() {
		return false
	}
	if b := time.Time(c.Before); !b.IsZero() && !t.Before(b) {
		return false
	}
	if a := time.Time(c.After); !a.IsZero() && t.Before(a) {
		return false
	}
	return true
}

func refHasPrefix(ref blob.Ref, pfx string) bool {
	s := ref.String()
	dash := strings.IndexByte(s, '-')
	return strings.HasPrefix(s, pfx) && len(pfx) >= dash+2
}

func (w *sworld) eval(c *search.Constraint, b blob.Ref) bool {
	if c == nil {
		return false
	}
	if l := c.Logical; l != nil {
		switch l.Op {
		case "not":
			return !w.eval(l.A, b)
		case "and":
			return w.eval(l.A, b) && w.eval(l.B, b)
		case "or":
			return w.eval(l.A, b) || w.eval(l.B, b)
		case "xor":
			return w.eval(l.A, b) != w.eval(l.B, b)
		}
		return false
	}
	n := 0
	ok := true
	use := func(v bool) { n++; ok = ok && v }
	if c.Anything {
		use(true)
	}
	if c.CamliType != "" {
		use(w.typ[b] == string(c.CamliType))
	}
	if c.AnyCamliType {
		use(w.typ[b] != "")
	}
	if c.Permanode != nil {
		use(w.evalPN(c.Permanode, b))
	}
	if c.File != nil {
		use(w.evalFile(c.File, b))
	}
	if c.Dir != nil {
		use(w.evalDir(c.Dir, b))
	}
	if c.BlobSize != nil {
		use(intMatches(c.BlobSize, int64(w.size[b])))
	}
	if c.BlobRefPrefix != "" {
		use(refHasPrefix(b, c.BlobRefPrefix))
	}
	return n > 0 && ok
}

func (w *sworld) valMatches(pc *search.PermanodeConstraint, val string) bool {
	if pc.Value != "" && pc.Value != val {
		return false
	}
	if pc.ValueMatches != nil && !stringMatches(pc.ValueMatches, val) {
		return false
	}
	if pc.ValueMatchesInt != nil {
		i, err := strconv.ParseInt(val, 10, 64)
		if err != nil || !intMatches(pc.ValueMatchesInt, i) {
			return false
		}
	}
	if pc.ValueInSet != nil {
		br, ok := blob.Parse(val)
		if !ok {
			return false
		}
		if _, indexed := w.typ[br]; !indexed {
			return false
		}
		return w.eval(pc.ValueInSet, br)
	}
	return true
}

func hasValueConstraint(pc *search.PermanodeConstraint) bool {
	return pc.Value != "" || pc.ValueMatches != nil || pc.ValueMatchesInt != nil || pc.ValueMatchesFloat != nil || pc.ValueInSet != nil
}

func (w *sworld) evalPN(pc *search.PermanodeConstraint, b blob.Ref) bool {
	if w.typ[b] != "permanode" {
		return false
	}
	if pc.Attr != "" {
		vals := w.values(b, pc.Attr, pc.At)
		if pc.NumValue != nil {
			// The docs do not say whether a value that was added twice counts twice.  perkeep's two
			// implementations differ: the corpus counts the value list, the corpus-less path
			// (Describe) the distinct values.  Each is accepted in its own mode (DESIGN 10.4).
			n := len(w.valuesList(b, pc.Attr, pc.At))
			if w.distinctCount {
				if n != len(vals) {
					w.features["numValue-list-vs-set-differs(classic)"]++
				}
				n = len(vals)
			}
			if !intMatches(pc.NumValue, int64(n)) {
				return false
			}
		}
		if hasValueConstraint(pc) {
			n := 0
			for _, v := range vals {
				if w.valMatches(pc, v) {
					n++
				}
			}
			if n == 0 {
				return false
			}
			if pc.ValueAll && n != len(vals) {
				return false
			}
		}
	}
	if pc.SkipHidden {
		if v := w.values(b, "camliDefVis", pc.At); len(v) > 0 && v[0] == "hide" {
			return false
		}
	}
	if pc.ModTime != nil {
		t, ok := w.modtime(b)
		if !ok || !timeMatches(pc.ModTime, t) {
			return false
		}
	}
	if pc.Time != nil {
		t, ok := w.anyTime(b)
		if !ok || !timeMatches(pc.Time, t) {
			return false
		}
	}
	if rc := pc.Relation; rc != nil {
		if !w.evalRelation(rc, b, pc.At) {
			return false
		}
	}
	return true
}

func edgeAttr(rc *search.RelationConstraint, attr string) bool {
	if rc.EdgeType != "" {
		return attr == rc.EdgeType
	}
	return attr == "camliMember" || strings.HasPrefix(attr, "camliPath:")
}

// related returns the permanodes related to pn through edges that currently (at `at`) hold.
func (w *sworld) related(rc *search.RelationConstraint, pn blob.Ref, at time.Time) []blob.Ref {
	var out []blob.Ref
	seen := map[blob.Ref]bool{}
	attrsOf := func(p blob.Ref) []string {
		m := map[string]bool{}
		var as []string
		for _, c := range w.claims {
			if c.PN == p && edgeAttr(rc, c.Attr) && !m[c.Attr] {
				m[c.Attr] = true
				as = append(as, c.Attr)
			}
		}
		return as
	}
	switch rc.Relation {
	case "child":
		for _, a := range attrsOf(pn) {
			for _, v := range w.values(pn, a, at) {
				if br, ok := blob.Parse(v); ok && !seen[br] {
					seen[br] = true
					out = append(out, br)
				}
			}
		}
	case "parent":
		for _, p := range w.pns {
			for _, a := range attrsOf(p) {
				for _, v := range w.values(p, a, at) {
					if v == pn.String() && !seen[p] {
						seen[p] = true
						out = append(out, p)
					}
				}
			}
		}
	}
	return out
}

func (w *sworld) evalRelation(rc *search.RelationConstraint, pn blob.Ref, at time.Time) bool {
	rel := w.related(rc, pn, at)
	sub := rc.Any
	if sub == nil {
		sub = rc.All
	}
	good, bad := 0, 0
	for _, r := range rel {
		if _, indexed := w.typ[r]; !indexed {
			// a relative the index has never seen satisfies no constraint (as for valueInSet)
			bad++
			continue
		}
		if w.eval(sub, r) {
			good++
		} else {
			bad++
		}
	}
	if rc.All != nil {
		return good > 0 && bad == 0
	}
	return good > 0
}

func (w *sworld) evalFile(fc *search.FileConstraint, b blob.Ref) bool {
	f := w.files[b]
	if f == nil {
		return false
	}
	if fc.FileSize != nil && !intMatches(fc.FileSize, int64(f.size)) {
		return false
	}
	if fc.FileName != nil && !stringMatches(fc.FileName, f.name) {
		return false
	}
	if fc.MIMEType != nil && !stringMatches(fc.MIMEType, f.mime) {
		return false
	}
	if fc.IsImage && !strings.HasPrefix(f.mime, "image/") {
		return false
	}
	if fc.WholeRef.Valid() && fc.WholeRef != f.whole {
		return false
	}
	if fc.ParentDir != nil {
		ok := false
		for _, p := range w.parent[b] {
			if w.evalDir(fc.ParentDir, p) {
				ok = true
			}
		}
		if !ok {
			return false
		}
	}
	return true
}

// childMatches: the documented forms of a [recursive]contains sub-constraint.
func (w *sworld) childMatches(cc *search.Constraint, child blob.Ref) bool {
	if cc.BlobRefPrefix != "" {
		return refHasPrefix(child, cc.BlobRefPrefix)
	}
	return w.eval(cc, child)
}

func (w *sworld) evalDir(dc *search.DirConstraint, b blob.Ref) bool {
	d := w.dirs[b]
	if d == nil {
		return false
	}
	if dc.BlobRefPrefix != "" && !refHasPrefix(b, dc.BlobRefPrefix) {
		return false
	}
	if dc.FileName != nil && !stringMatches(dc.FileName, d.name) {
		return false
	}
	if dc.ParentDir != nil {
		ok := false
		for _, p := range w.parent[b] {
			if w.evalDir(dc.ParentDir, p) {
				ok = true
			}
		}
		if !ok {
			return false
		}
	}
	distinct := map[blob.Ref]bool{}
	for _, k := range d.children {
		distinct[k] = true
	}
	if dc.TopFileCount != nil && !intMatches(dc.TopFileCount, int64(len(distinct))) {
		return false
	}
	if cc := dc.Contains; cc != nil {
		ok := false
		for k := range distinct {
			if w.childMatches(cc, k) {
				ok = true
			}
		}
		if !ok {
			return false
		}
	}
	if cc := dc.RecursiveContains; cc != nil {
		if !w.anyDescendant(b, cc, map[blob.Ref]bool{}) {
			return false
		}
	}
	return true
}

func (w *sworld) anyDescendant(dir blob.Ref, cc *search.Constraint, seen map[blob.Ref]bool) bool {
	if seen[dir] {
		return false
	}
	seen[dir] = true
	d := w.dirs[dir]
	if d == nil {
		return false
	}
	for _, k := range d.children {
		if w.childMatches(cc, k) {
			return true
		}
	}
	for _, k := range d.children {
		if w.dirs[k] != nil && w.anyDescendant(k, cc, seen) {
			return true
		}
	}
	return false
}

// permanodeOnly is the planner rule "the query is about permanodes only" in its documented,
// syntactic form: a permanode constraint, camliType=permanode, or an "and" with such a side.
func permanodeOnly(c *search.Constraint) bool {
	if c == nil {
		return false
	}
	if c.Permanode != nil || c.CamliType == "permanode" {
		return true
	}
	if l := c.Logical; l != nil && l.Op == "and" {
		return permanodeOnly(l.A) || permanodeOnly(l.B)
	}
	return false
}
