package sw

import (
	"fmt"
	"math/rand"

	"perkeep.org/pkg/blob"
	"perkeep.org/pkg/index"
	"perkeep.org/pkg/schema"
	"perkeep.org/pkg/search"

	"verif.local/harness/ev"
	"verif.local/harness/hw"
	"verif.local/harness/sto"
)

// Staged worlds: ONE index with an in-memory corpus receives a world in several stages, and the
// same queries are asked after every stage, each time judged against the reference evaluation of
// the world delivered so far (sworld.restrict).  Whatever the corpus caches between two queries
// (sorted permanode lists, attribute values, ...) has to follow the arrivals in between.
//
// Stage plan: even stages carry claims (and, stage 0, the key, all permanodes, plain blobs and
// the "early" files); odd stages carry ONLY non-claim blobs: "late" file schema blobs and/or their
// content chunks, and the directories that were waiting for them.  A camliContent claim is thus
// often indexed before the file it names, and a file's time changes the permanode's creation
// time while no claim arrives.  Every permanode is delivered in stage 0, so attribute values
// never name a permanode that the index has not seen.

type stagePlan struct {
	stages    [][]sto.Blob
	filesOnly []bool
	late      int // files whose schema blob arrives in an odd stage
	postponed int // files whose schema blob arrives before its chunk (indexing postponed)
	early     int // camliContent claims delivered in an earlier stage than the file they name
}

func planStages(rng *rand.Rand, w *sworld, nStages int) *stagePlan {
	p := &stagePlan{stages: make([][]sto.Blob, nStages), filesOnly: make([]bool, nStages)}
	for i := range p.filesOnly {
		p.filesOnly[i] = i%2 == 1
	}
	odd := func() int { return 1 + 2*rng.Intn(nStages/2) }
	even := func() int { return 2 * rng.Intn((nStages+1)/2) }
	stage := map[blob.Ref]int{} // delivery stage of each blob (default 0)
	chunkWant := map[blob.Ref]int{}
	isChunk := map[blob.Ref]bool{}
	for _, ch := range w.chunkOf {
		isChunk[ch] = true
		chunkWant[ch] = -1
	}
	eff := map[blob.Ref]int{} // stage after which a file / directory is indexed
	for _, b := range w.blobs {
		if w.typ[b.Ref] != "file" {
			continue
		}
		ch := w.chunkOf[b.Ref]
		s, want := 0, 0
		if rng.Intn(2) == 0 {
			s = odd()
			want = s
			p.late++
			if rng.Intn(4) == 0 {
				// the schema blob arrives first; indexing waits for the chunk
				s = 0
				p.postponed++
			}
		}
		stage[b.Ref] = s
		if cur := chunkWant[ch]; cur < 0 || want < cur {
			chunkWant[ch] = want
		}
	}
	for ch, s := range chunkWant {
		stage[ch] = s
	}
	for _, b := range w.blobs {
		if w.typ[b.Ref] == "file" {
			eff[b.Ref] = max(stage[b.Ref], stage[w.chunkOf[b.Ref]])
		}
	}
	// directories (and the static set right before each) once all their children are there
	var pendingSS []blob.Ref
	for _, b := range w.blobs {
		switch w.typ[b.Ref] {
		case "static-set":
			pendingSS = append(pendingSS, b.Ref)
		case "directory":
			s := 0
			for _, k := range w.dirs[b.Ref].children {
				s = max(s, eff[k])
			}
			stage[b.Ref], eff[b.Ref] = s, s
			for _, ss := range pendingSS {
				stage[ss] = s
			}
			pendingSS = nil
		}
	}
	// claims: even stages; a camliContent claim naming a late file mostly right before the file
	for _, b := range w.blobs {
		if w.typ[b.Ref] != "claim" {
			continue
		}
		stage[b.Ref] = even()
	}
	for _, c := range w.claims {
		if c.Attr != "camliContent" || c.Kind != hw.Set {
			continue
		}
		f, ok := blob.Parse(c.Value)
		if !ok || w.files[f] == nil {
			continue
		}
		if fs := eff[f]; fs%2 == 1 && rng.Intn(10) < 7 {
			stage[c.Ref] = fs - 1
		}
		if stage[c.Ref] < eff[f] {
			p.early++
		}
	}
	for _, b := range w.blobs { // dependency order within a stage
		p.stages[stage[b.Ref]] = append(p.stages[stage[b.Ref]], b)
	}
	return p
}

// stagedIndex delivers a plan stage by stage.
type stagedIndex struct {
	w    *sworld
	plan *stagePlan
	idx  *hw.Idx
	m    mode
	have map[blob.Ref]bool
	cur  *sworld
	next int
}

func newStagedIndex(rng *rand.Rand, w *sworld, nStages int) (*stagedIndex, error) {
	live, err := hw.NewIdx(nil, nil, true)
	if err != nil {
		return nil, err
	}
	sh := search.NewHandler(live.Index, index.NewOwner(w.owner.KeyID, w.owner.PubRef))
	sh.SetCorpus(live.Corpus)
	return &stagedIndex{w: w, plan: planStages(rng, w, nStages), idx: live, have: map[blob.Ref]bool{},
		m: mode{"corpus-staged", sh, live.Index, live.Corpus}}, nil
}

// advance delivers the next stage and returns the ground truth of what has arrived so far;
// changed reports whether a files-only stage changed some permanode's creation time (the situation
// in which a time-sorted list cached before the stage is stale after it).
func (s *stagedIndex) advance(r *ev.Run) (wk *sworld, changed bool, err error) {
	si := s.next
	s.next++
	for _, b := range s.plan.stages[si] {
		if err := s.idx.Deliver(b); err != nil {
			return nil, false, fmt.Errorf("stage %d: delivering %v: %v", si, b.Ref, err)
		}
		s.have[b.Ref] = true
	}
	s.idx.Quiesce()
	wk = s.w.restrict(s.have)
	s.m.name = fmt.Sprintf("corpus-staged@%d", si)
	if s.plan.filesOnly[si] && s.cur != nil && len(s.plan.stages[si]) > 0 {
		r.Note("staged", "stage-without-claims")
		for _, pn := range wk.pns {
			t0, ok0 := s.cur.anyTime(pn)
			t1, ok1 := wk.anyTime(pn)
			if ok0 && ok1 && !t0.Equal(t1) {
				changed = true
			}
		}
		if changed {
			r.Note("staged", "late-file-changes-created-time")
		}
	}
	s.cur = wk
	return wk, changed, nil
}

func (s *stagedIndex) noteEvidence(r *ev.Run) {
	r.Count("staged_worlds", 1)
	r.Count("staged_late_files", s.plan.late)
	r.Count("staged_files_postponed_on_chunk", s.plan.postponed)
	r.Count("staged_content_claims_before_their_file", s.plan.early)
	if s.plan.postponed > 0 {
		r.Note("staged", "file-indexing-postponed-on-chunk")
	}
	if s.plan.early > 0 {
		r.Note("staged", "content-claim-before-file")
	}
}

const nStagesC08 = 5

// runStagedC08: the same constraints after every stage, all sorts and limits, against the live
// (incrementally built) corpus.
func runStagedC08(r *ev.Run, w *sworld, wid, label string, nCons int) {
	st, err := newStagedIndex(r.Rand("staged-plan/"+label), w, nStagesC08)
	if err != nil {
		r.Inconclusive("cannot create the staged index: " + err.Error())
		return
	}
	g := &cgen{rng: r.Rand("staged-constraints/" + label), w: w, partial: true}
	pn := &search.Constraint{CamliType: schema.TypePermanode}
	and := func(a, b *search.Constraint) *search.Constraint {
		return &search.Constraint{Logical: &search.LogicalConstraint{Op: "and", A: a, B: b}}
	}
	cons := []*search.Constraint{
		pn,
		{Permanode: &search.PermanodeConstraint{SkipHidden: true}},
		{Permanode: &search.PermanodeConstraint{Attr: "camliContent", ValueInSet: &search.Constraint{CamliType: schema.TypeFile}}},
		{Permanode: &search.PermanodeConstraint{Attr: "camliContent", NumValue: &search.IntConstraint{Min: 1}}},
		{Permanode: &search.PermanodeConstraint{Time: g.timeC()}},
		{CamliType: schema.TypeFile},
		{Anything: true},
		{Dir: &search.DirConstraint{TopFileCount: &search.IntConstraint{Min: 1}}},
	}
	for len(cons) < nCons {
		if g.rng.Intn(2) == 0 {
			cons = append(cons, and(pn, g.pnLeaf(2)))
		} else {
			cons = append(cons, g.tree(1+g.rng.Intn(3)))
		}
	}
	for si := 0; si < nStagesC08; si++ {
		wk, _, err := st.advance(r)
		if err != nil {
			r.Inconclusive(wid + " " + err.Error())
			return
		}
		for ci, c := range cons {
			checkConstraint(r, wk, wid, 1000+ci, c, []mode{st.m}, g)
		}
	}
	st.noteEvidence(r)
}
