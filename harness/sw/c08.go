// Package sw holds the search-world generator, the reference query evaluator and the C08/C09 checks.
//
// C08 — a search returns exactly the matching blobs, however it is planned.
package sw

import (
	"context"
	"encoding/json"
	"errors"
	"fmt"
	"io"
	"log"
	"os"
	"sort"
	"strings"
	"sync"
	"time"

	"perkeep.org/pkg/blob"
	"perkeep.org/pkg/index"
	"perkeep.org/pkg/search"

	"verif.local/harness/ev"
	"verif.local/harness/hw"
)

type mode struct {
	name   string
	sh     *search.Handler
	ix     *index.Index
	corpus *index.Corpus
}

// noteName is the mode's category in the evidence ("corpus-staged@3" -> "corpus-staged").
func (m mode) noteName() string {
	if i := strings.IndexByte(m.name, '@'); i >= 0 {
		return m.name[:i]
	}
	return m.name
}

type caseRec struct {
	CaseID     string          `json:"case_id"`
	World      string          `json:"world"`
	Constraint json.RawMessage `json:"constraint"`
	Sort       string          `json:"sort"`
	Limit      int             `json:"limit"`
	Mode       string          `json:"mode"`
	Planner    string          `json:"planner_path"`
	Want       []string        `json:"reference_matches"`
	Got        []string        `json:"result"`
}

var sortNames = map[search.SortType]string{
	search.UnspecifiedSort: "unspecified", search.Unsorted: "unsorted", search.LastModifiedDesc: "-mod", search.MapSort: "map",
	search.LastModifiedAsc: "mod", search.CreatedDesc: "-created", search.CreatedAsc: "created", search.BlobRefAsc: "blobref",
}

var (
	plannerMu   sync.Mutex
	lastPlanner = map[int64]string{} // goroutine-keyed is overkill: queries are issued under qmu
	qmu         sync.Mutex
	curPlanner  string
)

// MainC08 is the entry point of the C08 check.
func MainC08() {
	ev.Main("C08", "exploration",
		"generated worlds (permanodes with tag/title/camliNodeType/camliDefVis/camliContent/camliMember/camliPath/numeric attributes, custom edge attributes (seeAlso, camliContent naming a permanode; superseded and removed edges) for relation constraints with an explicit edge type in both directions, explicit date attributes (dateCreated, startDate, paymentDueDate, datePublished, dateModified) holding instants shared with other permanodes in several RFC 3339 zone notations, values added repeatedly and then removed, sets with several multi-tagged members, deleted and claim-less permanodes, files with names/sizes/mtimes/wholeRefs incl. two files of one content, nested directories with shared children, plain blobs) x generated constraint trees (depth<=4, nodes with one or several fields set, valueInSet over logical sub-trees, `at` instants at value removals) over the supported fragment x every sort (incl. map) x limits {-1,1,3,0,|M|,|M|-1,|M|+1} x index modes {classic, corpus scanned, corpus incremental, corpus staged = the world delivered in 5 stages with the same queries after every stage, claims often before the file they name and stages without any claim}; each result is compared with a reference evaluator over what has been delivered (set equality at limit -1, order by the documented key, valid first-N) ; special-time worlds: claim dates straddling 1970-01-01T00:00:00Z with permanodes created EXACTLY at the Unix epoch (date attributes in several zone notations, a camliContent file with modtime 0) or 1 ns / 1 s / 999 ms next to it, and worlds with date attributes before 1678 / after 2262 (years 1, 1215, 1455, 2500, 9999, the ends of the int64-nanosecond range, ties across notations), each with directed time/modTime constraints whose bounds lie exactly on those instants (alone, negated, and-ed, two-sided) plus the directed and random constraint lists, under every sort and limit; deep-tree worlds: one static directory chain of 4-6 levels whose lowest directory alone holds the needle file and needle directory (decoy files and side directories at every level), permanodes naming every level through camliContent and a made-up folder attribute: dir recursiveContains in every documented sub-constraint form (blobref prefix, file, dir, and/or), alone, negated, under file/dir parentDir, dir contains, permanode valueInSet, and parentDir chains of the full depth, in both corpus modes and (plain dir constraints) without a corpus; distinct = (world, constraint, sort, limit, mode[@stage]); non-trivial = the reference match set is neither empty nor everything",
		run)
}

func run(r *ev.Run) {
	log.SetOutput(io.Discard)
	index.SetVerboseCorpusLogging(false)
	r.Assume("file MIME types are read back from the index (MIME sniffing is not this property's subject); every other fact comes from what the harness generated")
	r.Assume("worlds contain no deleted attribute claims (C07's subject); string data is ASCII; a permanode's time follows pkg/index Corpus.PermanodeTime/PermanodeAnyTime: paymentDueDate, startDate, dateCreated attribute (first value, RFC 3339, any zone notation), time of the camliContent file, datePublished, dateModified, date of the camliContent claim, modtime")
	r.Assume("explicit date attributes are ordinary attribute values and may hold any RFC 3339 instant (years 0001..9999), generated claim dates and file times stay within 1900..2020; not generated: a time constraint whose upper bound (before) lies within the second 1970-01-01T00:00:00Z, which perkeep reads as 'no bound' (types.Time3339.IsAnyZero) and the documentation does not mention; a lower bound (after, documented as >=) is unset only when it is the zero time")
	r.Assume("documented refusals are accepted as errors: sort by mod; sort by created/-created/-mod on constraints that are not syntactically permanode-only; created-ascending when a matched permanode has no time; classic mode (no corpus) is only given the fragment implemented without a corpus and the sorts unsorted/blobref")
	search.VerifSetCandSourceHook(func(name string) { curPlanner = name })

	nWorlds := r.Pick(14, 56)
	nCons := r.Pick(400, 850)
	wrng := r.Rand("worlds")
	for wi := 0; wi < nWorlds; wi++ {
		label := fmt.Sprintf("w%d", wi)
		nPN := 10 + wrng.Intn(r.Pick(20, 50))
		if wi == 0 {
			nPN = 48 // one world with well over 200 blobs: the default limit (200) cuts `anything`
		}
		w := genSearchWorld(wrng, label, nPN, false, false)
		wid := fmt.Sprintf("world%d;", wi)
		if !r.Only(wid) {
			continue
		}
		modes, err := buildModes(w)
		if err != nil {
			r.Inconclusive("cannot index world: " + err.Error())
			continue
		}
		// facts read back from the index: MIME
		for _, b := range w.blobs { // in generation order: the pools below feed the constraint generator
			ref, f := b.Ref, w.files[b.Ref]
			if f == nil {
				continue
			}
			fi, err := modes[1].ix.GetFileInfo(context.Background(), ref)
			if err != nil {
				r.Inconclusive(fmt.Sprintf("file %v not indexed: %v", ref, err))
				continue
			}
			f.mime = fi.MIMEType
			w.mimes = append(w.mimes, fi.MIMEType)
		}
		if os.Getenv("VERIF_DEBUG") != "" {
			for _, pn := range w.pns {
				mt, ok := w.modtime(pn)
				at, ok2 := w.anyTime(pn)
				modes[0].ix.RLock()
				cmt, cok := modes[0].corpus.PermanodeModtime(pn)
				cat, cok2 := modes[0].corpus.PermanodeAnyTime(pn)
				modes[0].ix.RUnlock()
				if !mt.Equal(cmt) || ok != cok || !at.Equal(cat) || ok2 != cok2 {
					fmt.Printf("NOTE DEBUG %s del=%v model mod=%v/%v any=%v/%v corpus mod=%v/%v any=%v/%v\n", pn.String()[:14], w.del[pn], mt, ok, at, ok2, cmt, cok, cat, cok2)
					for _, c := range w.claims {
						if c.PN == pn {
							fmt.Printf("NOTE DEBUG    %s %s=%s @%v\n", c.Kind, c.Attr, c.Value, c.Date)
						}
					}
				}
			}
		}
		if pfx := os.Getenv("VERIF_DEBUG_PN"); pfx != "" {
			for _, pn := range w.pns {
				if !strings.HasPrefix(pn.String(), pfx) {
					continue
				}
				fmt.Printf("NOTE DEBUG %s del=%v\n", pn, w.del[pn])
				for _, c := range w.claims {
					if c.PN == pn {
						fmt.Printf("NOTE DEBUG    %s %s=%s @%v signer=%v ref=%s\n", c.Kind, c.Attr, c.Value, c.Date.UTC(), c.Signer, c.Ref)
					}
				}
			}
		}
		g := &cgen{rng: r.Rand("constraints/" + label), w: w}
		var cons []*search.Constraint
		cons = append(cons, g.directed()...)
		for len(cons) < nCons {
			cons = append(cons, g.tree(1+g.rng.Intn(4)))
		}
		gc := &cgen{rng: r.Rand("classic-constraints/" + label), w: w, classic: true}
		for ci, c := range cons {
			checkConstraint(r, w, wid, ci, c, modes[:2], g)
		}
		// classic mode: restricted fragment, fewer constraints (Describe per candidate is slow)
		for ci := 0; ci < nCons/6; ci++ {
			c := gc.classicTree(1 + gc.rng.Intn(3))
			checkClassic(r, w, wid, ci, c, modes[2])
		}
		// the same world delivered in stages to one live corpus, queries interleaved with indexing
		runStagedC08(r, w, wid, label, r.Pick(40, 60))
		r.Count("worlds", 1)
		r.Count("world_blobs", len(w.blobs))
		for k, n := range w.features {
			r.Count("feature:"+k, n)
			r.Note("world_features", k)
		}
	}
	// one world with dangling edge values: directed relation constraints only
	{
		w := genSearchWorldOpt(r.Rand("dangling-world"), "dg", 14, false, false, true)
		wid := "world-dangling;"
		if r.Only(wid) {
			if modes, err := buildModes(w); err != nil {
				r.Inconclusive("cannot index world: " + err.Error())
			} else {
				g := &cgen{rng: r.Rand("constraints/dangling"), w: w}
				for ci, c := range g.directedDangling() {
					checkConstraint(r, w, wid, ci, c, modes[:2], g)
				}
				r.Count("worlds", 1)
				for k, n := range w.features {
					r.Count("feature:"+k, n)
					r.Note("world_features", k)
				}
			}
		}
	}
	runSpecialWorldsC08(r)
	runDeepWorldsC08(r)
	r.Require("world_features", "dangling-edge/camliMember", "dangling-edge/camliPath", "dangling-edge/seeAlso")
	r.Require("world_features", "custom-edge/seeAlso", "custom-edge/seeAlso-removed", "custom-edge/seeAlso-superseded", "custom-edge/camliContent-names-permanode",
		"relation-edge-type/parent/custom:seeAlso", "relation-edge-type/parent/custom:camliContent", "relation-edge-type/child/custom:seeAlso", "relation-edge-type/child/custom:camliContent", "relation-edge-type/parent/default-edge", "relation-edge-type/parent/non-ref-attribute",
		"date-attr/dateCreated", "date-attr/startDate", "date-attr/paymentDueDate", "date-attr/datePublished", "date-attr/dateModified", "date-attr/notation/Z", "date-attr/notation/+00:00", "date-attr/notation/+02:00", "date-attr/notation/-05:30", "date-attr/notation/unparsable", "date-attr/two-on-one-permanode")
	r.Require("world_features", "repeated-value-then-del/tag", "repeated-value-then-del/camliMember", "multi-member-set", "shared-wholeref", "multi-field/constraint", "multi-field/permanode", "multi-field/file", "multi-field/dir")
	r.Require("staged", "stage-without-claims", "late-file-changes-created-time", "content-claim-before-file", "file-indexing-postponed-on-chunk")
	r.Require("limits", "unlimited", "cuts", "default", "default-200-cuts", "equals-matches", "matches-minus-1", "beyond-matches")
	r.Require("planner_paths", "corpus_permanode_created", "corpus_permanode_lastmod", "corpus_permanode_types", "one_blob", "corpus_file_meta", "corpus_blob_meta", "index_blob_meta")
	r.Require("modes", "corpus-incremental", "corpus-scanned", "classic", "corpus-staged")
	r.Require("outcomes", "exact-set", "ordered", "first-n", "refusal", "refusal-timeless-match", "map-sort", "empty-match", "nonempty-match",
		"relation/parent/custom:seeAlso/matches", "relation/parent/custom:camliContent/matches", "relation/child/custom:seeAlso/matches", "relation/child/custom:camliContent/matches", "created-order-tie-across-zone-notations")
}

func buildModes(w *sworld) ([]mode, error) {
	live, err := hw.NewIdx(nil, nil, true)
	if err != nil {
		return nil, err
	}
	for _, b := range w.blobs {
		if err := live.Deliver(b); err != nil {
			return nil, err
		}
	}
	live.Quiesce()
	owner := index.NewOwner(w.owner.KeyID, w.owner.PubRef)
	cp, _ := hw.CopyKV(live.KV)
	scanned, err := hw.NewIdx(cp, live.Src, true)
	if err != nil {
		return nil, err
	}
	cp2, _ := hw.CopyKV(live.KV)
	classic, err := hw.NewIdx(cp2, live.Src, false)
	if err != nil {
		return nil, err
	}
	ms := []mode{
		{"corpus-incremental", search.NewHandler(live.Index, owner), live.Index, live.Corpus},
		{"corpus-scanned", search.NewHandler(scanned.Index, owner), scanned.Index, scanned.Corpus},
		{"classic", search.NewHandler(classic.Index, owner), classic.Index, nil},
	}
	ms[0].sh.SetCorpus(live.Corpus)
	ms[1].sh.SetCorpus(scanned.Corpus)
	return ms, nil
}

func refStrings(rs []blob.Ref) []string {
	out := make([]string, len(rs))
	for i, r := range rs {
		out[i] = r.String()
	}
	return out
}

// query runs one search and returns the refs, the planner path, and the error.
func query(m mode, c *search.Constraint, st search.SortType, limit int) (got []blob.Ref, planner string, err error, panicked any) {
	// the constraint caches its matcher: use a fresh deep copy per query
	var cc search.Constraint
	b, _ := json.Marshal(c)
	json.Unmarshal(b, &cc)
	restoreAt(c, &cc)
	qmu.Lock()
	defer qmu.Unlock()
	curPlanner = ""
	func() {
		defer func() { panicked = recover() }()
		var res *search.SearchResult
		res, err = m.sh.Query(context.Background(), &search.SearchQuery{Constraint: &cc, Sort: st, Limit: limit})
		if err == nil {
			for _, b := range res.Blobs {
				got = append(got, b.Blob)
			}
		}
	}()
	return got, curPlanner, err, panicked
}

// restoreAt copies fields that do not survive the JSON round trip (none today besides zero
// times, which encode as the zero time and decode back to it).
func restoreAt(src, dst *search.Constraint) {}

type timeKey func(blob.Ref) (time.Time, bool)

func checkConstraint(r *ev.Run, w *sworld, wid string, ci int, c *search.Constraint, modes []mode, g *cgen) {
	cj, jerr := json.Marshal(c)
	if jerr == nil {
		var back search.Constraint
		jerr = json.Unmarshal(cj, &back)
	}
	if jerr != nil {
		// harness self-check: every generated constraint must survive the JSON round trip it is sent through
		r.Inconclusive(fmt.Sprintf("%s: generated constraint #%d is not expressible in JSON: %v", wid, ci, jerr))
		return
	}
	// reference match set
	var M []blob.Ref
	for _, b := range w.allRefs {
		if w.eval(c, b) {
			M = append(M, b)
		}
	}
	inM := map[blob.Ref]bool{}
	for _, b := range M {
		inM[b] = true
	}
	if len(M) == 0 {
		r.Note("outcomes", "empty-match")
	} else {
		r.Note("outcomes", "nonempty-match")
		if pc := c.Permanode; pc != nil && pc.Relation != nil && pc.Relation.EdgeType != "" && len(M) < len(w.pns) {
			// a relation through an explicit edge type that some permanodes satisfy and others do not
			r.Note("outcomes", "relation/"+pc.Relation.Relation+"/"+edgeClass(pc.Relation.EdgeType)+"/matches")
		}
	}
	pnOnly := permanodeOnly(c)
	sorts := []search.SortType{search.UnspecifiedSort, search.Unsorted, search.LastModifiedDesc, search.CreatedDesc, search.CreatedAsc, search.BlobRefAsc}
	if ci%10 == 0 {
		sorts = append(sorts, search.LastModifiedAsc)
	}
	if ci%5 == 1 {
		sorts = append(sorts, search.MapSort)
	}
	for _, m := range modes {
		for _, st := range sorts {
			// limits: always unlimited; for half of the (constraint, sort) combinations also 1, 3 and
			// one of the boundary limits {0 (= the documented default of 200), |M|, |M|-1, |M|+1}
			limits := []int{-1}
			if (ci+int(st))%2 == 0 {
				limits = append(limits, 1, 3)
				if x := []int{0, len(M), len(M) - 1, len(M) + 1}[(ci/2+int(st))%4]; x >= 0 && x != 1 && x != 3 {
					limits = append(limits, x)
				}
			}
			for _, lim := range limits {
				r.Eval(1)
				r.Note("modes", m.noteName())
				noteLimit(r, lim, len(M))
				got, planner, err, pan := query(m, c, st, lim)
				rec := caseRec{CaseID: wid, World: wid, Constraint: cj, Sort: sortNames[st], Limit: lim, Mode: m.name, Planner: planner, Want: refStrings(M), Got: refStrings(got)}
				if planner != "" {
					r.Note("planner_paths", planner)
				}
				if len(M) > 0 && len(M) < len(w.allRefs) {
					r.Distinct(fmt.Sprintf("%s/%s/%d/%d/%s", wid, cj, st, lim, m.name))
				}
				if pan != nil {
					r.Violation("panic/query", fmt.Sprintf("%s: query panicked: %v (constraint %s sort %s)", wid, pan, cj, sortNames[st]), rec)
					continue
				}
				judge(r, w, wid, c, cj, st, lim, m.name, planner, pnOnly, M, inM, got, err, rec)
			}
		}
	}
	if ci < 3 {
		r.Sample(map[string]any{"world": wid, "constraint": json.RawMessage(cj), "reference_matches": len(M), "blobs_in_world": len(w.allRefs)})
	}
	if w.valueModelMismatch != "" {
		r.Inconclusive("harness self-check failed, the two attribute folds of the reference model disagree: " + w.valueModelMismatch)
		w.valueModelMismatch = ""
	}
}

func judge(r *ev.Run, w *sworld, wid string, c *search.Constraint, cj []byte, st search.SortType, lim int, modeName, planner string, pnOnly bool, M []blob.Ref, inM map[blob.Ref]bool, got []blob.Ref, err error, rec caseRec) {
	eff := st // effective sort
	if st == search.UnspecifiedSort && pnOnly {
		eff = search.CreatedDesc // documented default for permanode-only queries
	}
	shape := shapeOf(c)
	if lim == 0 {
		lim = 200 // "If unspecified, a default (of 200) will be used"
	}
	if err != nil {
		ok := false
		switch {
		case st == search.LastModifiedAsc:
			ok = true
		case (eff == search.CreatedDesc || eff == search.CreatedAsc || eff == search.LastModifiedDesc) && !pnOnly:
			ok = true
		case eff == search.CreatedAsc && strings.Contains(err.Error(), "no ctime or modtime"):
			// justified only if some matched permanode has no time at all
			for _, b := range M {
				if _, has := w.anyTime(b); !has {
					ok = true
					break
				}
			}
			if !ok {
				r.Violation("unjustified-refusal/created/"+shape, fmt.Sprintf("%s [%s]: sort=created is refused with %q although every one of the %d matches has a time (constraint %s)", wid, modeName, err, len(M), cj), rec)
				return
			}
			r.Note("outcomes", "refusal-timeless-match")
		case strings.Contains(err.Error(), "[Recursive]Contains constraint should have"):
			ok = false
		case len(w.dangling) > 0 && hasChildRelation(c) && errors.Is(err, os.ErrNotExist):
			// one edge value naming a blob the index has never seen makes the whole query fail
			r.Violation("dangling-relative-fails-query/child", fmt.Sprintf("%s [%s]: the query fails with %q because some permanode's edge attribute names a blob that is not indexed; the reference has %d matches (constraint %s, sort %s, limit %d)", wid, modeName, err, len(M), cj, sortNames[st], lim), rec)
			return
		}
		if ok {
			r.Note("outcomes", "refusal")
			return
		}
		r.Violation("unexpected-error/"+sortNames[eff]+"/"+shape, fmt.Sprintf("%s [%s]: query failed: %v (constraint %s, sort %s, limit %d)", wid, modeName, err, cj, sortNames[st], lim), rec)
		return
	}
	if st == search.LastModifiedAsc {
		// the implementation documents this sort as unsupported; a successful answer is only
		// possible for sorted sources, which do not exist for it
		r.Violation("unsupported-sort-answered", fmt.Sprintf("%s: sort=mod returned %d results instead of a refusal", wid, len(got)), rec)
		return
	}
	if st == search.MapSort {
		r.Note("outcomes", "map-sort")
	}
	// no duplicates, subset of M
	seen := map[blob.Ref]bool{}
	for _, b := range got {
		if seen[b] {
			r.Violation("duplicate/"+planner+"/"+shape, fmt.Sprintf("%s [%s]: %v returned twice (constraint %s, sort %s)", wid, modeName, b, cj, sortNames[st]), rec)
			return
		}
		seen[b] = true
		if !inM[b] {
			r.Violation("extra/"+planner+"/"+shape, fmt.Sprintf("%s [%s]: %v (%s) is returned but does not satisfy the constraint %s (sort %s, limit %d)", wid, modeName, b, w.typ[b], cj, sortNames[st], lim), rec)
			return
		}
	}
	// expected full ordered list for this sort
	var key timeKey
	switch eff {
	case search.CreatedDesc, search.CreatedAsc:
		key = w.anyTime
	case search.LastModifiedDesc:
		key = w.modtime
	}
	full := append([]blob.Ref(nil), M...)
	// Known finding 13: the time-sorted corpus sources omit deleted permanodes and permanodes
	// without a time.  The reference keeps them in M; the reduced list is tolerated only for
	// these sources and reported under its own signature.
	var reduced []blob.Ref
	omitted := map[string]bool{}
	sortedSource := pnOnly && (eff == search.CreatedDesc || eff == search.LastModifiedDesc)
	if sortedSource {
		for _, b := range M {
			_, has := key(b)
			switch {
			case w.del[b]:
				omitted["deleted"] = true
			case !has:
				omitted["timeless"] = true
			default:
				reduced = append(reduced, b)
			}
		}
	}
	order := func(list []blob.Ref) {
		switch eff {
		case search.BlobRefAsc:
			sort.Slice(list, func(i, j int) bool { return list[i].String() < list[j].String() })
		case search.CreatedDesc, search.LastModifiedDesc:
			sort.Slice(list, func(i, j int) bool {
				ti, _ := key(list[i])
				tj, _ := key(list[j])
				if !ti.Equal(tj) {
					return ti.After(tj)
				}
				return list[i].String() > list[j].String()
			})
		}
	}
	order(full)
	order(reduced)
	if sortedSource && eff == search.CreatedDesc && lim == -1 {
		// equal instants that were written in different zone notations: ordered by blobref all the same
		for i := 1; i < len(reduced); i++ {
			ta, _ := key(reduced[i-1])
			tb, _ := key(reduced[i])
			if ta.Equal(tb) && w.anyZone(reduced[i-1]) != w.anyZone(reduced[i]) {
				r.Note("outcomes", "created-order-tie-across-zone-notations")
				break
			}
		}
	}
	matchesList := func(want []blob.Ref) (bool, string) {
		n := len(want)
		if lim > 0 && lim < n {
			n = lim
			if st == search.MapSort {
				// a limited map result is "optimized for rendering on a map": which matches are kept
				// is not pinned down by the docs; subset-of-M and no-duplicates were judged above
				return true, ""
			}
		}
		if len(got) != n {
			return false, fmt.Sprintf("returned %d results, want %d", len(got), n)
		}
		switch eff {
		case search.BlobRefAsc, search.CreatedDesc, search.LastModifiedDesc:
			if sortedSource || eff == search.BlobRefAsc {
				for i := 0; i < n; i++ {
					if got[i] != want[i] {
						return false, fmt.Sprintf("position %d is %v, want %v (order by %s)", i, got[i], want[i], sortNames[eff])
					}
				}
				return true, ""
			}
		case search.CreatedAsc:
			// ascending by time, ties free; with a limit: a valid first-N
			for i := 1; i < len(got); i++ {
				ti, _ := key(got[i-1])
				tj, _ := key(got[i])
				if tj.Before(ti) {
					return false, fmt.Sprintf("position %d (%v) is older than position %d", i, got[i], i-1)
				}
			}
			if len(got) > 0 && n < len(want) {
				last, _ := key(got[len(got)-1])
				for _, b := range want {
					if !seen[b] {
						if t, _ := key(b); t.Before(last) {
							return false, fmt.Sprintf("omitted match %v is older than the last returned result", b)
						}
					}
				}
			}
		}
		// unsorted kinds: any n-subset without duplicates (already checked subset of M)
		for _, b := range got {
			found := false
			for _, x := range want {
				if x == b {
					found = true
					break
				}
			}
			if !found {
				return false, fmt.Sprintf("%v is not in the expected list", b)
			}
		}
		return true, ""
	}
	okFull, why := matchesList(full)
	if okFull {
		noteOutcome(r, eff, lim)
		if sortedSource && len(w.features) > 0 && (w.features["far/date-attr-outside-1678-2262"] > 0 || w.features["created-time/exactly-unix-epoch"] > 0) {
			for _, b := range full {
				t, has := key(b)
				if has && !fitsInt64Nanos(t) {
					r.Note("special_times", "sorted-source/result-has-time-outside-1678-2262")
					if lim > 0 && lim < len(full) {
						r.Note("special_times", "sorted-source/limit-cuts-result-with-time-outside-1678-2262")
					}
				}
				if has && eff == search.CreatedDesc && t.Equal(unixEpoch) {
					r.Note("special_times", "sorted-source/result-has-time-exactly-unix-epoch")
				}
			}
		}
		return
	}
	if sortedSource && len(omitted) > 0 {
		if ok, _ := matchesList(reduced); ok {
			for k := range omitted {
				r.Violation("sorted-source-omits/"+k, fmt.Sprintf("%s [%s]: under sort %s the result omits %s permanodes that the same constraint returns under blobref/unsorted sorts (constraint %s)", wid, modeName, sortNames[eff], k, cj), rec)
			}
			noteOutcome(r, eff, lim)
			return
		}
	}
	class := "missed-match"
	if len(got) >= len(full) || (lim > 0 && len(got) == lim) {
		class = "order"
	}
	r.Violation(class+"/"+planner+"/"+shape, fmt.Sprintf("%s [%s]: %s (constraint %s, sort %s→%s, limit %d, planner %s; reference has %d matches)", wid, modeName, why, cj, sortNames[st], sortNames[eff], lim, planner, len(M)), rec)
}

func noteLimit(r *ev.Run, lim, n int) {
	switch {
	case lim == -1:
		r.Note("limits", "unlimited")
	case lim == 0 && n > 200:
		r.Note("limits", "default-200-cuts")
	case lim == 0:
		r.Note("limits", "default")
	case lim == n:
		r.Note("limits", "equals-matches")
	case lim == n-1:
		r.Note("limits", "matches-minus-1")
	case lim > n:
		r.Note("limits", "beyond-matches")
	default:
		r.Note("limits", "cuts")
	}
}

func noteOutcome(r *ev.Run, eff search.SortType, lim int) {
	if lim == -1 {
		r.Note("outcomes", "exact-set")
	} else {
		r.Note("outcomes", "first-n")
	}
	if eff == search.BlobRefAsc || eff == search.CreatedDesc || eff == search.LastModifiedDesc || eff == search.CreatedAsc {
		r.Note("outcomes", "ordered")
	}
}

// shapeOf gives a coarse structural class of a constraint for signatures.
func shapeOf(c *search.Constraint) string {
	if c == nil {
		return "nil"
	}
	if l := c.Logical; l != nil {
		if l.Op == "not" {
			return "not(" + leafKind(l.A) + ")"
		}
		return l.Op + "(" + leafKind(l.A) + "," + leafKind(l.B) + ")"
	}
	return leafKind(c)
}

func leafKind(c *search.Constraint) string {
	switch {
	case c == nil:
		return "nil"
	case c.Logical != nil:
		return c.Logical.Op
	case c.Permanode != nil:
		pc := c.Permanode
		switch {
		case pc.Relation != nil:
			return "pn-relation"
		case pc.ValueInSet != nil:
			return "pn-valueInSet"
		case pc.Time != nil:
			return "pn-time"
		case pc.ModTime != nil:
			return "pn-modTime"
		case pc.SkipHidden:
			return "pn-skipHidden"
		case pc.Attr == "camliNodeType":
			return "pn-nodeType"
		case pc.NumValue != nil:
			return "pn-numValue"
		}
		return "pn-attr"
	case c.File != nil:
		return "file"
	case c.Dir != nil:
		return "dir"
	case c.BlobRefPrefix != "":
		return "blobRefPrefix"
	case c.CamliType != "":
		return "camliType"
	case c.AnyCamliType:
		return "anyCamliType"
	case c.BlobSize != nil:
		return "blobSize"
	case c.Anything:
		return "anything"
	}
	return "zero"
}

func checkClassic(r *ev.Run, w *sworld, wid string, ci int, c *search.Constraint, m mode) {
	cj, _ := json.Marshal(c)
	var M []blob.Ref
	inM := map[blob.Ref]bool{}
	w.distinctCount = true
	defer func() { w.distinctCount = false }()
	for _, b := range w.allRefs {
		if w.eval(c, b) {
			M = append(M, b)
			inM[b] = true
		}
	}
	for _, st := range []search.SortType{search.Unsorted, search.BlobRefAsc} {
		for _, lim := range []int{-1, 3} {
			r.Eval(1)
			r.Note("modes", m.name)
			got, planner, err, pan := query(m, c, st, lim)
			rec := caseRec{CaseID: wid, World: wid, Constraint: cj, Sort: sortNames[st], Limit: lim, Mode: m.name, Planner: planner, Want: refStrings(M), Got: refStrings(got)}
			if planner != "" {
				r.Note("planner_paths", planner)
			}
			if len(M) > 0 && len(M) < len(w.allRefs) {
				r.Distinct(fmt.Sprintf("%s/%s/%d/%d/%s", wid, cj, st, lim, m.name))
			}
			if pan != nil {
				r.Violation("panic/query-classic", fmt.Sprintf("%s: query panicked: %v (constraint %s)", wid, pan, cj), rec)
				continue
			}
			judge(r, w, wid, c, cj, st, lim, m.name, planner, false, M, inM, got, err, rec)
		}
	}
}
