package sw

import (
	"context"
	"encoding/json"
	"fmt"
	"math/rand"
	"strings"
	"time"

	"perkeep.org/pkg/blob"
	"perkeep.org/pkg/search"

	"verif.local/harness/ev"
	"verif.local/harness/hw"
)

// Multi-signer worlds of C08 (round 7).
//
// world-signers<k>: an ordinary generated world plus "ms" permanodes with this history, in date order
// (= delivery order):
//
//  1. the OWNER gives one attribute (tag; on every second permanode also camliMember) 3-5 values by
//     add-attribute claims,
//  2. a SECOND signer (key ring 2, its public key is a blob of the world, so its claims are indexed)
//     makes its first claim on that permanode (an attribute of its own, or one more value of the same
//     attribute),
//  3. a del-attribute claim NAMING ONE VALUE of that attribute, by the owner or by the second signer,
//     removing a non-last value (sometimes the last one),
//  4. later claims of the owner: a new value, the removed value again, and always a closing set title
//     (so the permanode's modification time is the date of a claim of the owner).
//
// The search handler answers for its owner (search.NewHandler(index, owner): every attribute test of a
// PermanodeConstraint reads the values as claimed by the owner), so the reference evaluator folds the
// owner's claims only: sworld.claims holds those, the second signer's claims are blobs of the world
// (typ "claim") and rows of hw.World.Claims with Signer 2.  The second signer never claims a date
// attribute, camliContent or an edge and never has the latest claim of a permanode, so times, sorts
// and relations are what the owner's claims say.
//
// Judged like every other world: both corpus modes x every sort x limits, directed constraints on the
// ms attributes (attr+value, valueMatches, numValue, valueAll, valueInSet, relations; each at zero,
// `at` the removal, `at` one second before it and `at` the last claim) + the directed and random lists.

// MainC08R7 is MainC08 plus the multi-signer worlds.
func MainC08R7() {
	ev.Main("C08", "exploration",
		"generated worlds (permanodes with tag/title/camliNodeType/camliDefVis/camliContent/camliMember/camliPath/numeric attributes, custom edge attributes (seeAlso, camliContent naming a permanode; superseded and removed edges) for relation constraints with an explicit edge type in both directions, explicit date attributes (dateCreated, startDate, paymentDueDate, datePublished, dateModified) holding instants shared with other permanodes in several RFC 3339 zone notations, values added repeatedly and then removed, sets with several multi-tagged members, deleted and claim-less permanodes, files with names/sizes/mtimes/wholeRefs incl. two files of one content, nested directories with shared children, plain blobs) x generated constraint trees (depth<=4, nodes with one or several fields set, valueInSet over logical sub-trees, `at` instants at value removals) over the supported fragment x every sort (incl. map) x limits {-1,1,3,0,|M|,|M|-1,|M|+1} x index modes {classic, corpus scanned, corpus incremental, corpus staged = the world delivered in 5 stages with the same queries after every stage, claims often before the file they name and stages without any claim}; each result is compared with a reference evaluator over what has been delivered (set equality at limit -1, order by the documented key, valid first-N) ; special-time worlds: claim dates straddling 1970-01-01T00:00:00Z with permanodes created EXACTLY at the Unix epoch (date attributes in several zone notations, a camliContent file with modtime 0) or 1 ns / 1 s / 999 ms next to it, and worlds with date attributes before 1678 / after 2262 (years 1, 1215, 1455, 2500, 9999, the ends of the int64-nanosecond range, ties across notations), each with directed time/modTime constraints whose bounds lie exactly on those instants (alone, negated, and-ed, two-sided) plus the directed and random constraint lists, under every sort and limit; deep-tree worlds: one static directory chain of 4-6 levels whose lowest directory alone holds the needle file and needle directory (decoy files and side directories at every level), permanodes naming every level through camliContent and a made-up folder attribute: dir recursiveContains in every documented sub-constraint form (blobref prefix, file, dir, and/or), alone, negated, under file/dir parentDir, dir contains, permanode valueInSet, and parentDir chains of the full depth, in both corpus modes and (plain dir constraints) without a corpus; distinct = (world, constraint, sort, limit, mode[@stage]); non-trivial = the reference match set is neither empty nor everything; multi-signer worlds: permanodes whose owner gave an attribute (tag, camliMember) 3-5 add-attribute values BEFORE the first claim of a second signer (whose public key is in the world, so its claims are indexed) on the same permanode, followed by a del-attribute naming one value (a non-last one, or the last one) by the owner or by the second signer, with later re-adds / new values; the search handler answers for the owner, so the reference folds the owner's claims only: directed attr+value / valueMatches / numValue / valueAll / valueInSet / relation constraints, each also `at` the removal and `at` the last claim, plus the directed and random lists, in both corpus modes under every sort and limit",
		func(r *ev.Run) {
			run(r)
			runSignerWorldsC08(r)
		})
}

// msHist: what was generated for one ms permanode and attribute.
type msHist struct {
	pn        blob.Ref
	attr      string
	vals      []string // the owner's values, in add order
	removed   string
	byOwner   bool
	lastValue bool
	del, last time.Time
	extra     []string // values added by the owner after the removal
}

var msTagPool = []string{"a", "b", "Foo", "42", "kkkk", "kkkkk", "kkkkkk"}

// addSignerHistories appends the ms permanodes and their claims to w (after everything else, later
// dates than every other claim).
func (w *sworld) addSignerHistories(rng *rand.Rand, label string, n int) []msHist {
	second := hw.NewSigner(2)
	w.w.Signers = append(w.w.Signers, second)
	w.add(second.Pub, "")
	d := time.Time{}
	for _, x := range w.dates {
		if x.After(d) {
			d = x
		}
	}
	if d.IsZero() {
		d = time.Date(2001, 2, 3, 4, 5, 6, 0, time.UTC)
	}
	next := func() time.Time {
		d = d.Add(3701 * time.Second)
		if rng.Intn(3) == 0 {
			d = d.Add(time.Duration(1+rng.Intn(999)) * time.Millisecond)
		}
		return d
	}
	claim := func(s int, kind string, pn blob.Ref, attr, val string) time.Time {
		at := next()
		signer := w.owner
		if s == 2 {
			signer = second
		}
		cb := signer.Claim(kind, pn, attr, val, at)
		w.add(cb, "claim")
		ci := hw.ClaimInfo{Ref: cb.Ref, Kind: kind, PN: pn, Attr: attr, Value: val, Date: at, Signer: s}
		w.w.Claims = append(w.w.Claims, ci)
		if s == 1 {
			w.claims = append(w.claims, ci)
			w.dates = append(w.dates, at)
		}
		return at
	}
	base := append([]blob.Ref{}, w.pns...)
	var out []msHist
	for j := 0; j < n; j++ {
		pb := w.owner.Permanode(fmt.Sprintf("%s-ms%d", label, j))
		w.add(pb, "permanode")
		w.pns = append(w.pns, pb.Ref)
		pn := pb.Ref
		var hs []*msHist
		// 1. the owner's multi-valued attributes
		nv := 3 + (j+rng.Intn(2))%3
		th := &msHist{pn: pn, attr: "tag"}
		for _, i := range rng.Perm(len(msTagPool))[:nv] {
			th.vals = append(th.vals, msTagPool[i])
		}
		hs = append(hs, th)
		if j%2 == 1 && len(base) >= 5 {
			mh := &msHist{pn: pn, attr: "camliMember"}
			for _, i := range rng.Perm(len(base))[:3+rng.Intn(3)] {
				mh.vals = append(mh.vals, base[i].String())
			}
			hs = append(hs, mh)
		}
		if rng.Intn(2) == 0 {
			claim(1, hw.Set, pn, "title", fmt.Sprintf("Title %d", rng.Intn(5)))
		}
		for _, h := range hs {
			for _, v := range h.vals {
				claim(1, hw.Add, pn, h.attr, v)
			}
			w.features[fmt.Sprintf("second-signer/owner-%s-with-%d-values-before-first-claim-of-second-signer", h.attr, len(h.vals))]++
		}
		// 2. the second signer's first claim on this permanode
		switch j % 3 {
		case 0:
			claim(2, hw.Set, pn, "noteOfSecondSigner", "seen")
			w.features["second-signer/first-claim/own-attribute"]++
		case 1:
			claim(2, hw.Set, pn, "title", "Title of the second signer")
			w.features["second-signer/first-claim/sets-attribute-the-owner-set-too"]++
		default:
			claim(2, hw.Add, pn, "tag", "tag of the second signer")
			w.features["second-signer/first-claim/adds-value-to-the-multi-valued-attribute"]++
		}
		// 3. removal of one named value
		for hi, h := range hs {
			k := rng.Intn(len(h.vals) - 1) // a non-last value
			if j%5 == 4 && hi == 0 {
				k, h.lastValue = len(h.vals)-1, true
			}
			h.removed = h.vals[k]
			// (an edge attribute is only ever touched by the owner: relation constraints follow the edges of
			// every signer's claims, attribute tests the owner's, and which of the two a second signer's
			// removal of the owner's member should affect is not documented)
			h.byOwner = j%2 == 0 || hi == 1
			who, s := "second-signer", 2
			if h.byOwner {
				who, s = "owner", 1
			}
			h.del = claim(s, hw.Del, pn, h.attr, h.removed)
			pos := "non-last"
			if h.lastValue {
				pos = "last"
			}
			w.features[fmt.Sprintf("second-signer/del-%s-value-of-%s-by-%s", pos, h.attr, who)]++
			w.atDates = append(w.atDates, h.del, h.del.Add(-time.Second))
		}
		// 4. later claims of the owner
		for _, h := range hs {
			if h.attr != "tag" {
				continue
			}
			switch rng.Intn(4) {
			case 0:
				h.extra = append(h.extra, "later")
				claim(1, hw.Add, pn, "tag", "later")
				w.features["second-signer/owner-adds-new-value-after-removal"]++
			case 1:
				h.extra = append(h.extra, h.removed)
				claim(1, hw.Add, pn, "tag", h.removed)
				w.features["second-signer/owner-adds-removed-value-again"]++
			case 2:
				claim(2, hw.Add, pn, "tag", "later")
				w.features["second-signer/second-signer-adds-value-after-removal"]++
			}
		}
		last := claim(1, hw.Set, pn, "title", fmt.Sprintf("Title %d", rng.Intn(5)))
		for _, h := range hs {
			h.last = last
			out = append(out, *h)
		}
	}
	for _, t := range append(append([]string{}, msTagPool...), "later", "tag of the second signer") {
		if !containsStr(w.tags, t) {
			w.tags = append(w.tags, t)
		}
	}
	return out
}

func containsStr(ss []string, s string) bool {
	for _, x := range ss {
		if x == s {
			return true
		}
	}
	return false
}

type msCons struct {
	kind string
	c    *search.Constraint
}

// directedSigners: attribute tests on the ms attributes.
func directedSigners(hists []msHist) []msCons {
	var out []msCons
	seen := map[string]bool{}
	add := func(kind string, pc *search.PermanodeConstraint, ats ...time.Time) {
		for _, at := range append([]time.Time{{}}, ats...) {
			p := *pc
			p.At = at
			kj, _ := json.Marshal(&p)
			key := string(kj)
			if seen[key] {
				continue
			}
			seen[key] = true
			k := kind
			if !at.IsZero() {
				k += "@at"
			}
			out = append(out, msCons{k, &search.Constraint{Permanode: &p}})
		}
	}
	not := func(a *search.Constraint) *search.Constraint {
		return &search.Constraint{Logical: &search.LogicalConstraint{Op: "not", A: a}}
	}
	for _, h := range hists {
		ats := []time.Time{h.del, h.del.Add(-time.Second), h.last}
		probe := append(append([]string{}, h.vals...), h.extra...)
		for _, v := range probe {
			if h.attr == "tag" {
				add("attr-value", &search.PermanodeConstraint{Attr: h.attr, Value: v}, ats...)
				add("valueMatches", &search.PermanodeConstraint{Attr: h.attr, ValueMatches: &search.StringConstraint{Equals: v}}, ats...)
				add("valueAll-valueMatches", &search.PermanodeConstraint{Attr: h.attr, ValueAll: true, ValueMatches: &search.StringConstraint{ByteLength: &search.IntConstraint{Min: int64(len(v) + 1)}}}, ats...)
			} else {
				add("valueInSet", &search.PermanodeConstraint{Attr: h.attr, ValueInSet: &search.Constraint{BlobRefPrefix: v}}, ats...)
				add("valueAll-valueInSet", &search.PermanodeConstraint{Attr: h.attr, ValueAll: true, ValueInSet: not(&search.Constraint{BlobRefPrefix: v})}, ats...)
				add("relation-child", &search.PermanodeConstraint{Relation: &search.RelationConstraint{Relation: "child", Any: &search.Constraint{BlobRefPrefix: v}}})
				add("relation-parent", &search.PermanodeConstraint{Relation: &search.RelationConstraint{Relation: "parent", Any: &search.Constraint{BlobRefPrefix: h.pn.String()}}})
			}
		}
		for n := int64(len(h.vals)) - 2; n <= int64(len(h.vals))+2; n++ {
			if n < 1 {
				continue
			}
			eq := n
			add("numValue", &search.PermanodeConstraint{Attr: h.attr, NumValue: &search.IntConstraint{Min: n}}, ats...)
			add("numValue", &search.PermanodeConstraint{Attr: h.attr, NumValue: &search.IntConstraint{Max: n}}, ats...)
			add("numValue", &search.PermanodeConstraint{Attr: h.attr, NumValue: &search.IntConstraint{Equals: &eq}}, ats...)
		}
	}
	return out
}

func runSignerWorldsC08(r *ev.Run) {
	for k := 0; k < r.Pick(4, 10); k++ {
		wid, label := fmt.Sprintf("world-signers%d;", k), fmt.Sprintf("sg%d", k)
		if !r.Only(wid) {
			continue
		}
		w := genSearchWorldX(r.Rand("signer-world/"+label), label, 10+k, false, false, worldOpts{})
		hists := w.addSignerHistories(r.Rand("signer-histories/"+label), label, 5+k%3)
		modes, err := buildModes(w)
		if err != nil {
			r.Inconclusive("cannot index world: " + err.Error())
			continue
		}
		for _, b := range w.blobs {
			ref, f := b.Ref, w.files[b.Ref]
			if f == nil {
				continue
			}
			fi, err := modes[1].ix.GetFileInfo(context.Background(), ref)
			if err != nil {
				r.Inconclusive(fmt.Sprintf("file %v not indexed: %v", ref, err))
				continue
			}
			f.mime = fi.MIMEType
			w.mimes = append(w.mimes, fi.MIMEType)
		}
		// harness self-check: the second signer's claims are really indexed (its key is in the world)
		for _, h := range hists {
			modes[0].ix.RLock()
			var all []string
			for _, a := range []string{"noteOfSecondSigner", "title", "tag"} {
				all = append(all, modes[0].corpus.AppendPermanodeAttrValues(nil, h.pn, a, time.Time{}, hw.NewSigner(2).KeyID)...)
			}
			modes[0].ix.RUnlock()
			if len(all) == 0 {
				r.Inconclusive(fmt.Sprintf("%s: the second signer's claims on %v are not in the corpus", wid, h.pn))
			} else {
				r.Note("signer_worlds", "claims-of-second-signer-indexed")
			}
		}
		isMS := map[blob.Ref]bool{}
		for _, h := range hists {
			isMS[h.pn] = true
		}
		g := &cgen{rng: r.Rand("constraints/" + label), w: w}
		ci := 0
		for _, mc := range directedSigners(hists) {
			in, outside := 0, 0
			for pn := range isMS {
				if w.eval(mc.c, pn) {
					in++
				} else {
					outside++
				}
			}
			if in > 0 && outside > 0 {
				r.Note("signer_worlds", "directed/"+mc.kind+"/separates-multi-signer-permanodes")
			}
			r.Count("signer_world_directed_constraints", 1)
			checkConstraint(r, w, wid, ci, mc.c, modes[:2], g)
			ci++
		}
		cons := g.directed()
		for n := len(cons) + r.Pick(60, 250); len(cons) < n; {
			if g.rng.Intn(2) == 0 {
				cons = append(cons, g.pnOnlyTree(1+g.rng.Intn(3)))
			} else {
				cons = append(cons, g.tree(1+g.rng.Intn(4)))
			}
		}
		for _, c := range cons {
			checkConstraint(r, w, wid, ci, c, modes[:2], g)
			ci++
		}
		r.Count("worlds", 1)
		r.Count("multi_signer_worlds", 1)
		r.Count("multi_signer_permanodes", len(isMS))
		r.Count("world_blobs", len(w.blobs))
		for k, n := range w.features {
			r.Count("feature:"+k, n)
			r.Note("world_features", k)
			if strings.HasPrefix(k, "second-signer/") {
				r.Note("signer_worlds", k)
			}
		}
	}
	r.Require("signer_worlds", "claims-of-second-signer-indexed",
		"second-signer/del-non-last-value-of-tag-by-owner", "second-signer/del-non-last-value-of-tag-by-second-signer",
		"second-signer/del-non-last-value-of-camliMember-by-owner",
		"second-signer/del-last-value-of-tag-by-owner",
		"second-signer/first-claim/own-attribute", "second-signer/first-claim/sets-attribute-the-owner-set-too", "second-signer/first-claim/adds-value-to-the-multi-valued-attribute",
		"second-signer/owner-adds-new-value-after-removal", "second-signer/owner-adds-removed-value-again",
		"directed/attr-value/separates-multi-signer-permanodes", "directed/valueMatches/separates-multi-signer-permanodes",
		"directed/valueAll-valueMatches/separates-multi-signer-permanodes", "directed/numValue/separates-multi-signer-permanodes",
		"directed/valueInSet/separates-multi-signer-permanodes", "directed/valueAll-valueInSet/separates-multi-signer-permanodes",
		"directed/relation-child/separates-multi-signer-permanodes", "directed/attr-value@at/separates-multi-signer-permanodes", "directed/numValue@at/separates-multi-signer-permanodes")
}
