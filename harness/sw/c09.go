package sw

import (
	"context"
	"encoding/json"
	"fmt"
	"io"
	"log"
	"sort"
	"time"

	"perkeep.org/pkg/blob"
	"perkeep.org/pkg/index"
	"perkeep.org/pkg/schema"
	"perkeep.org/pkg/search"

	"verif.local/harness/ev"
)

// C09 — paging through search results neither skips nor repeats anything.

type pageRec struct {
	CaseID     string          `json:"case_id"`
	Constraint json.RawMessage `json:"constraint"`
	Sort       string          `json:"sort"`
	Limit      int             `json:"limit"`
	Mode       string          `json:"mode"`
	Around     string          `json:"around,omitempty"`
	Full       []string        `json:"full_ordered_result"`
	Pages      [][]string      `json:"pages,omitempty"`
	Tokens     []string        `json:"continue_tokens,omitempty"`
	Window     []string        `json:"around_window,omitempty"`
	Times      map[string]string `json:"times_of_results,omitempty"`
}

// MainC09 is the entry point of the C09 check.
func MainC09() {
	ev.Main("C09", "exploration",
		"worlds of 5-80 permanodes whose creation/modification times are drawn from a small set (massive ties), incl. pre-1970 and sub-second instants; for each permanode constraint x continuable sort {-created,-mod} x limit {1,2,3,5,n-1,n,n+1}: continuation tokens are followed until exhaustion (bounded by ceil(n/limit)+2 pages) and the concatenation must equal the unlimited ordered result as a sequence; for every pivot x limit x sort {-created,-mod,blobref}: an around-query is empty iff the pivot is not in the full result, else a contiguous window of it containing the pivot; distinct = (world, constraint, sort, limit[, pivot], mode); non-trivial = the full result has more entries than the limit",
		runC09)
}

func runC09(r *ev.Run) {
	log.SetOutput(io.Discard)
	index.SetVerboseCorpusLogging(false)
	r.Assume("the full ordered result is the limit -1 answer of the same handler (its correctness is C08's subject); C09 additionally checks that it is ordered by (time desc, blobref desc) according to the harness's own time facts")
	r.Assume("termination is decided by a page-count bound, never by time")
	nWorlds := r.Pick(30, 200)
	wrng := r.Rand("worlds")
	for wi := 0; wi < nWorlds; wi++ {
		label := fmt.Sprintf("p%d", wi)
		nPN := 5 + wrng.Intn(r.Pick(40, 76))
		tied := wi%4 != 3
		exotic := wi%3 == 1 // pre-1970
		w := genSearchWorld(wrng, label, nPN, tied, exotic)
		wid := fmt.Sprintf("world%d;", wi)
		if !r.Only(wid) {
			continue
		}
		modes, err := buildModes(w)
		if err != nil {
			r.Inconclusive("cannot index world: " + err.Error())
			continue
		}
		if tied {
			r.Note("time_features", "tied")
		} else {
			r.Note("time_features", "distinct")
		}
		if exotic {
			r.Note("time_features", "pre-1970")
		}
		for _, d := range w.dates {
			if d.Nanosecond() != 0 {
				r.Note("time_features", "subsecond")
				break
			}
		}
		g := &cgen{rng: r.Rand("constraints/" + label), w: w}
		pn := &search.Constraint{CamliType: schema.TypePermanode}
		and := func(a, b *search.Constraint) *search.Constraint {
			return &search.Constraint{Logical: &search.LogicalConstraint{Op: "and", A: a, B: b}}
		}
		cons := []*search.Constraint{
			pn,
			{Permanode: &search.PermanodeConstraint{Attr: "tag", NumValue: &search.IntConstraint{Min: 1}}},
			{Permanode: &search.PermanodeConstraint{Attr: "tag", Value: g.pick(w.tags)}},
			and(pn, &search.Constraint{Logical: &search.LogicalConstraint{Op: "not", A: &search.Constraint{Permanode: &search.PermanodeConstraint{Attr: "tag", Value: g.pick(w.tags)}}}}),
			{Permanode: &search.PermanodeConstraint{SkipHidden: true}},
		}
		for i := 0; i < r.Pick(2, 5); i++ {
			cons = append(cons, and(pn, g.pnLeaf(2)))
		}
		for ci, c := range cons {
			for _, m := range modes[:2] {
				if (ci+wi)%2 == 1 && m.name == "corpus-scanned" {
					continue
				}
				checkPaging(r, w, wid, c, m)
			}
		}
		r.Count("worlds", 1)
	}
	r.Require("time_features", "tied", "distinct", "pre-1970", "subsecond")
	r.Require("sorts", "-created", "-mod", "blobref")
	r.Require("paging", "multi-page", "exact-multiple", "single-page", "limit-beyond-end")
	r.Require("around", "pivot-matches", "pivot-does-not-match", "window-cut-both-sides")
}

func (w *sworld) timesOf(refs []blob.Ref, st search.SortType) map[string]string {
	out := map[string]string{}
	for _, b := range refs {
		var t time.Time
		if st == search.LastModifiedDesc {
			t, _ = w.modtime(b)
		} else {
			t, _ = w.anyTime(b)
		}
		out[b.String()] = t.UTC().Format(time.RFC3339Nano)
	}
	return out
}

func runQuery(m mode, q *search.SearchQuery) (refs []blob.Ref, cont string, err error, pan any) {
	qmu.Lock()
	defer qmu.Unlock()
	func() {
		defer func() { pan = recover() }()
		var res *search.SearchResult
		res, err = m.sh.Query(context.Background(), q)
		if err == nil {
			for _, b := range res.Blobs {
				refs = append(refs, b.Blob)
			}
			cont = res.Continue
		}
	}()
	return
}

func cloneC(c *search.Constraint) *search.Constraint {
	var cc search.Constraint
	b, _ := json.Marshal(c)
	json.Unmarshal(b, &cc)
	return &cc
}

func checkPaging(r *ev.Run, w *sworld, wid string, c *search.Constraint, m mode) {
	cj, _ := json.Marshal(c)
	for _, st := range []search.SortType{search.CreatedDesc, search.LastModifiedDesc, search.BlobRefAsc} {
		r.Note("sorts", sortNames[st])
		full, _, err, pan := runQuery(m, &search.SearchQuery{Constraint: cloneC(c), Sort: st, Limit: -1})
		rec := pageRec{CaseID: wid, Constraint: cj, Sort: sortNames[st], Limit: -1, Mode: m.name, Full: refStrings(full)}
		if pan != nil || err != nil {
			r.Violation("full-query-fails/"+sortNames[st], fmt.Sprintf("%s [%s]: unlimited query failed: %v %v (constraint %s)", wid, m.name, err, pan, cj), rec)
			continue
		}
		r.Eval(1)
		// the full list must be totally ordered by (time desc, ref desc) / ref asc
		if st != search.BlobRefAsc {
			key := w.anyTime
			if st == search.LastModifiedDesc {
				key = w.modtime
			}
			for i := 1; i < len(full); i++ {
				ta, _ := key(full[i-1])
				tb, _ := key(full[i])
				if tb.After(ta) || (tb.Equal(ta) && !(full[i].String() < full[i-1].String())) {
					rec.Times = w.timesOf(full, st)
					r.Violation("full-order/"+sortNames[st], fmt.Sprintf("%s [%s]: the unlimited %s result is not ordered by (time desc, blobref desc) at position %d (constraint %s)", wid, m.name, sortNames[st], i, cj), rec)
					break
				}
			}
		}
		n := len(full)
		if st != search.BlobRefAsc {
			limits := map[int]bool{1: true, 2: true, 3: true, 5: true, n - 1: true, n: true, n + 1: true}
			var ls []int
			for l := range limits {
				if l >= 1 {
					ls = append(ls, l)
				}
			}
			sort.Ints(ls)
			for _, lim := range ls {
				checkContinue(r, w, wid, c, cj, m, st, lim, full)
			}
		}
		// around
		pivots := append([]blob.Ref(nil), w.pns...)
		pivots = append(pivots, w.allRefs[0], blob.RefFromString("verif: no such blob"))
		if len(pivots) > 24 {
			// all matching-boundary pivots plus a sample
			keep := pivots[:0]
			for i, p := range pivots {
				if i%3 == 0 || i >= len(pivots)-2 {
					keep = append(keep, p)
				}
			}
			pivots = keep
		}
		for _, lim := range []int{1, 2, 3, 4, 7} {
			for _, pv := range pivots {
				checkAround(r, w, wid, c, cj, m, st, lim, pv, full)
			}
		}
	}
}

func checkContinue(r *ev.Run, w *sworld, wid string, c *search.Constraint, cj []byte, m mode, st search.SortType, lim int, full []blob.Ref) {
	n := len(full)
	maxPages := (n+lim-1)/lim + 2
	var got []blob.Ref
	rec := pageRec{CaseID: wid, Constraint: cj, Sort: sortNames[st], Limit: lim, Mode: m.name, Full: refStrings(full)}
	cont := ""
	pages := 0
	terminated := false
	for pages < maxPages {
		refs, next, err, pan := runQuery(m, &search.SearchQuery{Constraint: cloneC(c), Sort: st, Limit: lim, Continue: cont})
		pages++
		r.Eval(1)
		if err != nil || pan != nil {
			r.Violation("page-query-fails/"+sortNames[st], fmt.Sprintf("%s [%s]: page %d failed: %v %v", wid, m.name, pages, err, pan), rec)
			return
		}
		rec.Pages = append(rec.Pages, refStrings(refs))
		rec.Tokens = append(rec.Tokens, next)
		got = append(got, refs...)
		if len(refs) > lim {
			r.Violation("page-over-limit/"+sortNames[st], fmt.Sprintf("%s [%s]: page %d has %d entries for limit %d", wid, m.name, pages, len(refs), lim), rec)
			return
		}
		if next == "" {
			terminated = true
			break
		}
		cont = next
	}
	r.Distinct(fmt.Sprintf("%s/%s/%d/%d/%s", wid, cj, st, lim, m.name))
	switch {
	case n > lim && n%lim == 0:
		r.Note("paging", "exact-multiple")
		r.Note("paging", "multi-page")
	case n > lim:
		r.Note("paging", "multi-page")
	case lim > n:
		r.Note("paging", "limit-beyond-end")
		r.Note("paging", "single-page")
	default:
		r.Note("paging", "single-page")
	}
	feature := timeFeature(w, full, st)
	rec.Times = w.timesOf(full, st)
	if n > lim && lim > 1 && pages > 2 {
		r.Sample(map[string]any{"world": wid, "constraint": json.RawMessage(cj), "sort": sortNames[st], "limit": lim, "mode": m.name, "pages": rec.Pages, "continue_tokens": rec.Tokens, "time_feature": feature})
	}
	if !terminated {
		r.Violation("no-termination/"+sortNames[st]+"/"+feature, fmt.Sprintf("%s [%s]: after %d pages (bound for %d results at limit %d) the server still returns a continue token; %d results collected (constraint %s)", wid, m.name, pages, n, lim, len(got), cj), rec)
		return
	}
	// exactly-once, in order
	if len(got) != len(full) {
		seen := map[blob.Ref]int{}
		for _, b := range got {
			seen[b]++
		}
		class := "skip"
		for _, k := range seen {
			if k > 1 {
				class = "repeat"
			}
		}
		r.Violation(class+"/"+sortNames[st]+"/"+feature, fmt.Sprintf("%s [%s]: following continue tokens at limit %d yields %d results in %d pages, the unlimited result has %d (constraint %s)", wid, m.name, lim, len(got), pages, n, cj), rec)
		return
	}
	for i := range got {
		if got[i] != full[i] {
			r.Violation("page-order/"+sortNames[st]+"/"+feature, fmt.Sprintf("%s [%s]: paged result differs from the unlimited one at position %d (limit %d, constraint %s)", wid, m.name, i, lim, cj), rec)
			return
		}
	}
}

// timeFeature classifies the times of the result list for signatures.
func timeFeature(w *sworld, full []blob.Ref, st search.SortType) string {
	key := w.anyTime
	if st == search.LastModifiedDesc {
		key = w.modtime
	}
	pre, tie := false, false
	seen := map[int64]bool{}
	for _, b := range full {
		t, _ := key(b)
		if t.Year() < 1970 {
			pre = true
		}
		if seen[t.UnixNano()] {
			tie = true
		}
		seen[t.UnixNano()] = true
	}
	switch {
	case pre:
		return "pre1970"
	case tie:
		return "tie"
	}
	return "distinct"
}

func checkAround(r *ev.Run, w *sworld, wid string, c *search.Constraint, cj []byte, m mode, st search.SortType, lim int, pivot blob.Ref, full []blob.Ref) {
	refs, _, err, pan := runQuery(m, &search.SearchQuery{Constraint: cloneC(c), Sort: st, Limit: lim, Around: pivot})
	r.Eval(1)
	rec := pageRec{CaseID: wid, Constraint: cj, Sort: sortNames[st], Limit: lim, Mode: m.name, Around: pivot.String(), Full: refStrings(full), Window: refStrings(refs)}
	if err != nil || pan != nil {
		r.Violation("around-query-fails/"+sortNames[st], fmt.Sprintf("%s [%s]: around query failed: %v %v (pivot %v, limit %d, constraint %s)", wid, m.name, err, pan, pivot, lim, cj), rec)
		return
	}
	pos := -1
	for i, b := range full {
		if b == pivot {
			pos = i
		}
	}
	r.Distinct(fmt.Sprintf("%s/%s/%d/%d/%s/%s", wid, cj, st, lim, m.name, pivot))
	if pos < 0 {
		r.Note("around", "pivot-does-not-match")
		if len(refs) != 0 {
			r.Violation("around-nonmatching-pivot/"+sortNames[st], fmt.Sprintf("%s [%s]: pivot %v is not in the full result but the around query returned %d results (limit %d, constraint %s)", wid, m.name, pivot, len(refs), lim, cj), rec)
		}
		return
	}
	r.Note("around", "pivot-matches")
	if len(refs) == 0 {
		r.Violation("around-empty/"+sortNames[st], fmt.Sprintf("%s [%s]: pivot %v is at position %d of the full result but the around query is empty (limit %d, constraint %s)", wid, m.name, pivot, pos, lim, cj), rec)
		return
	}
	if len(refs) > lim {
		r.Violation("around-over-limit/"+sortNames[st], fmt.Sprintf("%s [%s]: around query returned %d results for limit %d", wid, m.name, len(refs), lim), rec)
		return
	}
	// contiguous window of full containing the pivot
	start := -1
	for i, b := range full {
		if b == refs[0] {
			start = i
			break
		}
	}
	ok := start >= 0 && start+len(refs) <= len(full)
	if ok {
		for i := range refs {
			if full[start+i] != refs[i] {
				ok = false
				break
			}
		}
	}
	if !ok {
		r.Violation("around-not-contiguous/"+sortNames[st], fmt.Sprintf("%s [%s]: the around window (pivot %v, limit %d) is not a contiguous run of the full ordered result (constraint %s)", wid, m.name, pivot, lim, cj), rec)
		return
	}
	if pos < start || pos >= start+len(refs) {
		r.Violation("around-misses-pivot/"+sortNames[st], fmt.Sprintf("%s [%s]: the around window [%d,%d) does not contain the pivot at position %d (limit %d, constraint %s)", wid, m.name, start, start+len(refs), pos, lim, cj), rec)
		return
	}
	if start > 0 && start+len(refs) < len(full) {
		r.Note("around", "window-cut-both-sides")
	}
	// a window shorter than the limit is only justified at the ends of the list
	if len(refs) < lim && len(refs) < len(full) && start > 0 && start+len(refs) < len(full) {
		r.Violation("around-short-window/"+sortNames[st], fmt.Sprintf("%s [%s]: the around window has %d entries although limit is %d and results exist on both sides (pivot at %d of %d)", wid, m.name, len(refs), lim, pos, len(full)), rec)
	}
}
