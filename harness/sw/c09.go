package sw

import (
	"context"
	"encoding/json"
	"fmt"
	"io"
	"log"
	"reflect"
	"sort"
	"time"

	"perkeep.org/pkg/blob"
	"perkeep.org/pkg/index"
	"perkeep.org/pkg/schema"
	"perkeep.org/pkg/search"

	"verif.local/harness/ev"
)

// C09 — paging through search results neither skips nor repeats anything.

type pageRec struct {
	CaseID     string            `json:"case_id"`
	Constraint json.RawMessage   `json:"constraint"`
	Sort       string            `json:"sort"`
	Limit      int               `json:"limit"`
	Mode       string            `json:"mode"`
	Around     string            `json:"around,omitempty"`
	Full       []string          `json:"full_ordered_result"`
	Pages      [][]string        `json:"pages,omitempty"`
	Tokens     []string          `json:"continue_tokens,omitempty"`
	Window     []string          `json:"around_window,omitempty"`
	Times      map[string]string `json:"times_of_results,omitempty"`
	Cancelled  string            `json:"cancelled,omitempty"`
}

// MainC09 is the entry point of the C09 check.
func MainC09() {
	ev.Main("C09", "exploration",
		"worlds of 5-80 permanodes whose creation/modification times are drawn from a small set (massive ties), incl. pre-1970 and sub-second instants, equal instants written in different RFC 3339 zone notations (dateCreated/startDate/paymentDueDate/datePublished/dateModified attributes tied with each other, with claim dates and with file times), batches of typed (camliNodeType) permanodes with coinciding times; constraints incl. ones that pin a camliNodeType; for each permanode constraint x continuable sort {-created,-mod, unspecified = the default} x limit {1,2,3,5,n-1,n,n+1}: continuation tokens are followed until exhaustion (bounded by ceil(n/limit)+2 pages) and the concatenation must equal the unlimited ordered result as a sequence; sorts without continuation {blobref, created}: no token and a correct first page, or an exact chain; for every pivot x limit {1,2,3,4,7,n,n+1} x sort {-created,-mod,unspecified,blobref}: an around-query is empty iff the pivot is not in the full result, else a contiguous window of it containing the pivot; families: fresh request per call / ONE constraint value reused across scrolls and around queries / the query as an expression / the world delivered in 5 stages to one live corpus (claims before the file they name, stages without claims) with paging after every stage; every request is compared before/after Handler.Query; epoch worlds (permanodes created EXACTLY at 1970-01-01T00:00:00Z through date attributes in several notations and a camliContent file with modtime 0, 1 ns / 1 s next to it, claims one second before/after it: continue tokens carrying the time 0) and far worlds (date attributes before 1678 / after 2262, years 1 and 9999) incl. worlds whose far dates have sub-second parts (.75, .5, 1 ns, 999999999 ns) in tied groups (also across zone notations) and near-ties within twice the fraction / a few nanoseconds, so that pages end on and next to such instants (continue tokens of the seconds.nanoseconds form with negative and positive seconds); cancelled-context family: one request of a scroll / an around request is issued with a caller context that is already cancelled, past its deadline, or cancelled inside Handler.Query when the candidate source is chosen: an error is accepted (the request is repeated), a success is a page like any other (the scroll must still be exactly-once, a window must hold the pivot); distinct = (family, world, constraint, sort, limit[, pivot], mode[@stage]); non-trivial = the full result has more entries than the limit",
		runC09)
}

func runC09(r *ev.Run) {
	log.SetOutput(io.Discard)
	index.SetVerboseCorpusLogging(false)
	r.Assume("the full ordered result is the limit -1 answer of the same handler (its correctness is C08's subject); C09 additionally checks that it is ordered by (time desc, blobref desc) according to the harness's own time facts")
	r.Assume("termination is decided by a page-count bound, never by time")
	r.Assume("a request whose caller context has ended may be answered with an error or with a success; only what is reported as a success is judged; the contexts end at logical points (before the call, at the planner hook, a deadline in 1970), no clock is involved")
	search.VerifSetCandSourceHook(candSourceHook)
	nWorlds := r.Pick(30, 200)
	wrng := r.Rand("worlds")
	for wi := 0; wi < nWorlds; wi++ {
		label := fmt.Sprintf("p%d", wi)
		nPN := 5 + wrng.Intn(r.Pick(40, 76))
		tied := wi%4 != 3
		exotic := wi%3 == 1 // pre-1970
		w := genSearchWorld(wrng, label, nPN, tied, exotic)
		wid := fmt.Sprintf("world%d;", wi)
		if !r.Only(wid) {
			continue
		}
		modes, err := buildModes(w)
		if err != nil {
			r.Inconclusive("cannot index world: " + err.Error())
			continue
		}
		if tied {
			r.Note("time_features", "tied")
		} else {
			r.Note("time_features", "distinct")
		}
		if exotic {
			r.Note("time_features", "pre-1970")
		}
		for _, d := range w.dates {
			if d.Nanosecond() != 0 {
				r.Note("time_features", "subsecond")
				break
			}
		}
		g := &cgen{rng: r.Rand("constraints/" + label), w: w}
		pn := &search.Constraint{CamliType: schema.TypePermanode}
		and := func(a, b *search.Constraint) *search.Constraint {
			return &search.Constraint{Logical: &search.LogicalConstraint{Op: "and", A: a, B: b}}
		}
		cons := []*search.Constraint{
			pn,
			{Permanode: &search.PermanodeConstraint{Attr: "tag", NumValue: &search.IntConstraint{Min: 1}}},
			{Permanode: &search.PermanodeConstraint{Attr: "tag", Value: g.pick(w.tags)}},
			and(pn, &search.Constraint{Logical: &search.LogicalConstraint{Op: "not", A: &search.Constraint{Permanode: &search.PermanodeConstraint{Attr: "tag", Value: g.pick(w.tags)}}}}),
			{Permanode: &search.PermanodeConstraint{SkipHidden: true}},
		}
		for i := 0; i < r.Pick(2, 5); i++ {
			cons = append(cons, and(pn, g.pnLeaf(2)))
		}
		// constraints that pin a camliNodeType (the planner has a per-type candidate source), alone
		// and and-ed with others; tied worlds hold a batch of typed permanodes with coinciding times
		typed := func(t string) *search.Constraint {
			return &search.Constraint{Permanode: &search.PermanodeConstraint{Attr: "camliNodeType", Value: t}}
		}
		ta, tb := w.nodeTypes[wi%2], w.nodeTypes[(wi+1)%2]
		cons = append(cons, typed(ta), and(pn, typed(tb)))
		if wi%2 == 0 {
			cons = append(cons, and(typed(ta), &search.Constraint{Permanode: &search.PermanodeConstraint{SkipHidden: true}}))
		}
		for ci, c := range cons {
			for _, m := range modes[:2] {
				if (ci+wi)%2 == 1 && m.name == "corpus-scanned" {
					continue
				}
				checkPaging(r, w, wid, c, m)
			}
		}
		// the query given as an expression (its constraint, sort and limit come out of the parser)
		for _, expr := range []string{"tag:" + []string{"a", "b", "Foo", "42"}[wi%4]} {
			ej, _ := json.Marshal(map[string]string{"expression": expr})
			(&pager{r: r, w: w, wid: wid, cj: ej, m: modes[wi%2], expr: expr, fam: "expression/", light: true}).checkAll(false)
			r.Note("paging", "expression-query")
		}
		// the same world delivered in stages to one live corpus, paging interleaved with indexing
		if wi%2 == 0 {
			runStagedC09(r, w, wid, label)
		}
		r.Count("worlds", 1)
		for k, n := range w.features {
			r.Count("feature:"+k, n)
			r.Note("world_features", k)
		}
	}
	runEpochWorldsC09(r)
	r.Require("time_features", "tied", "distinct", "pre-1970", "subsecond")
	r.Require("paging", "scroll-with-a-cancelled-caller-context")
	for _, k := range []string{ctxPreCancelled, ctxCancelledAtPlan, ctxDeadlinePassed} {
		// (what the server answers is its choice; that the requests were made is required)
		if r.Noted("cancelled_context", k+"/scroll/answered")+r.Noted("cancelled_context", k+"/scroll/error-then-retried") == 0 {
			r.Require("cancelled_context", k+"/scroll/answered")
		}
		if r.Noted("cancelled_context", k+"/around/answered")+r.Noted("cancelled_context", k+"/around/error") == 0 {
			r.Require("cancelled_context", k+"/around/answered")
		}
	}
	r.Require("sorts", "-created", "-mod", "blobref", "unspecified", "created", "unsorted")
	r.Require("paging", "boundary-inside-tied-run", "boundary-inside-tied-run-across-zone-notations", "nodetype-constraint/-created/boundary-inside-tied-run", "nodetype-constraint/unspecified/boundary-inside-tied-run")
	r.Require("world_features", "typed-batch-member", "date-attr/dateCreated", "date-attr/startDate", "date-attr/paymentDueDate", "date-attr/datePublished", "date-attr/dateModified", "date-attr/notation/Z", "date-attr/notation/+00:00", "date-attr/notation/+02:00", "date-attr/notation/-05:30")
	r.Require("paging", "multi-page", "exact-multiple", "single-page", "limit-beyond-end", "default-sort", "constraint-value-reused-across-scrolls", "expression-query", "no-token-for-blobref")
	r.Require("around", "pivot-matches", "pivot-does-not-match", "window-cut-both-sides", "limit-covers-everything", "created-asc-window", "unsorted-window")
	r.Require("staged", "stage-without-claims", "late-file-changes-created-time", "content-claim-before-file")
}

// runStagedC09: paging and around queries after every stage of a world that is delivered in
// stages to one live corpus (see staged.go): whatever order the corpus cached for the previous
// stage's queries has to follow the arrivals.
func runStagedC09(r *ev.Run, w *sworld, wid, label string) {
	st, err := newStagedIndex(r.Rand("staged-plan/"+label), w, nStagesC08)
	if err != nil {
		r.Inconclusive("cannot create the staged index: " + err.Error())
		return
	}
	cons := []*search.Constraint{
		{CamliType: schema.TypePermanode},
		{Permanode: &search.PermanodeConstraint{SkipHidden: true}},
	}
	for si := 0; si < nStagesC08; si++ {
		wk, _, err := st.advance(r)
		if err != nil {
			r.Inconclusive(wid + " " + err.Error())
			return
		}
		for ci, c := range cons {
			if (ci+si)%2 == 1 && !st.plan.filesOnly[si] {
				continue
			}
			cj, _ := json.Marshal(c)
			(&pager{r: r, w: wk, wid: wid, c: c, cj: cj, m: st.m, fam: "staged/", light: true}).checkAll(false)
		}
	}
	st.noteEvidence(r)
}

func (w *sworld) timesOf(refs []blob.Ref, st search.SortType) map[string]string {
	out := map[string]string{}
	for _, b := range refs {
		var t time.Time
		if st == search.LastModifiedDesc {
			t, _ = w.modtime(b)
		} else {
			t, _ = w.anyTime(b)
		}
		out[b.String()] = t.UTC().Format(time.RFC3339Nano)
	}
	return out
}

// lastMutation is set by runQuery: the first exported field of the request that differs after the
// call from what the harness passed in ("" = unchanged, "?" = not comparable).
var lastMutation string

func runQuery(m mode, q *search.SearchQuery) (refs []blob.Ref, cont string, err error, pan any) {
	return runQueryCtx(m, q, "")
}

// Caller contexts that end while (or before) Handler.Query runs; see c09_special.go.
const (
	ctxPreCancelled    = "cancelled-before-the-call"
	ctxCancelledAtPlan = "cancelled-when-the-candidate-source-is-chosen"
	ctxDeadlinePassed  = "deadline-already-passed"
)

// atCandSource, if set, runs once inside the next Handler.Query, right after the planner chose the
// candidate source and before any candidate is looked at (search.VerifSetCandSourceHook).
var atCandSource func()

func candSourceHook(name string) {
	curPlanner = name
	if f := atCandSource; f != nil {
		atCandSource = nil
		f()
	}
}

// runQueryCtx is runQuery with the caller's context ending as `kind` says ("" = never).
func runQueryCtx(m mode, q *search.SearchQuery, kind string) (refs []blob.Ref, cont string, err error, pan any) {
	qmu.Lock()
	defer qmu.Unlock()
	ctx, cancel := context.WithCancel(context.Background())
	defer cancel()
	switch kind {
	case ctxPreCancelled:
		cancel()
	case ctxCancelledAtPlan:
		atCandSource = cancel
		defer func() { atCandSource = nil }()
	case ctxDeadlinePassed:
		var c2 context.CancelFunc
		ctx, c2 = context.WithDeadline(ctx, time.Unix(1, 0)) // a deadline in 1970: no clock involved
		defer c2()
	}
	before, comparable := snapshotQuery(q)
	defer func() {
		lastMutation = "?"
		if comparable {
			lastMutation = exportedDiff(reflect.ValueOf(before), reflect.ValueOf(q), "query")
		}
	}()
	func() {
		defer func() { pan = recover() }()
		var res *search.SearchResult
		res, err = m.sh.Query(ctx, q)
		if err == nil {
			for _, b := range res.Blobs {
				refs = append(refs, b.Blob)
			}
			cont = res.Continue
		}
	}()
	return
}

func cloneC(c *search.Constraint) *search.Constraint {
	var cc search.Constraint
	b, _ := json.Marshal(c)
	json.Unmarshal(b, &cc)
	return &cc
}

// pager carries what one family of paging/around queries has in common.
type pager struct {
	r   *ev.Run
	w   *sworld
	wid string
	c   *search.Constraint
	cj  []byte
	m   mode
	// shared, if non-nil, is the ONE constraint value every query of the family is built around
	// (an in-process caller paging with one query value); otherwise every query gets a fresh copy.
	shared *search.Constraint
	// expr, if non-empty, is sent as SearchQuery.Expression instead of the constraint
	expr string
	// fam prefixes the signatures of a family: "", "reused-constraint/", "expression/", "staged/"
	fam string
	// light: fewer limits and pivots (staged and expression families)
	light bool
	// cancelKind / cancelPage (family "cancelled-context/"): the caller's context of the
	// cancelPage-th query of a scroll (of the around query) ends as cancelKind says
	cancelKind string
	cancelPage int
}

func (p *pager) query(st search.SortType, lim int, cont string, around blob.Ref) *search.SearchQuery {
	q := &search.SearchQuery{Sort: st, Limit: lim, Continue: cont, Around: around}
	switch {
	case p.expr != "":
		q.Expression = p.expr
	case p.shared != nil:
		q.Constraint = p.shared
	default:
		q.Constraint = cloneC(p.c)
	}
	return q
}

// run executes q; a request that comes back changed is reported (once per query).
func (p *pager) run(q *search.SearchQuery, rec *pageRec) (refs []blob.Ref, cont string, err error, pan any) {
	return p.runKind(q, rec, "")
}

func (p *pager) runKind(q *search.SearchQuery, rec *pageRec, kind string) (refs []blob.Ref, cont string, err error, pan any) {
	refs, cont, err, pan = runQueryCtx(p.m, q, kind)
	p.r.Eval(1)
	switch lastMutation {
	case "":
		p.r.Count("requests_compared_before_after", 1)
	case "?":
		p.r.Count("requests_not_comparable", 1)
	default:
		p.r.Violation(p.fam+"request-mutated/"+lastMutation, fmt.Sprintf("%s [%s]: Handler.Query changed the caller's request: %s differs after the call (constraint %s, sort %s, limit %d, continue %q); the next query built around the same value asks something else", p.wid, p.m.name, lastMutation, p.cj, sortNames[q.Sort], q.Limit, q.Continue), rec)
	}
	return
}

func effSort(st search.SortType) search.SortType {
	if st == search.UnspecifiedSort {
		return search.CreatedDesc // documented default of permanode-only queries (all C09 queries are)
	}
	return st
}

func checkPaging(r *ev.Run, w *sworld, wid string, c *search.Constraint, m mode) {
	cj, _ := json.Marshal(c)
	(&pager{r: r, w: w, wid: wid, c: c, cj: cj, m: m}).checkAll(true)
}

// checkAll runs every paging and around judgement of one (constraint, mode); with families also
// the reused-constraint family.
func (p *pager) checkAll(families bool) {
	r, w, wid, m, cj := p.r, p.w, p.wid, p.m, p.cj
	sorts := []search.SortType{search.CreatedDesc, search.LastModifiedDesc, search.BlobRefAsc, search.UnspecifiedSort, search.CreatedAsc, search.Unsorted}
	for _, st := range sorts {
		eff := effSort(st)
		if p.light && (st == search.CreatedAsc || st == search.BlobRefAsc || st == search.Unsorted) {
			continue
		}
		r.Note("sorts", sortNames[st])
		rec := pageRec{CaseID: wid, Constraint: cj, Sort: sortNames[st], Limit: -1, Mode: m.name}
		full, _, err, pan := p.run(p.query(st, -1, "", blob.Ref{}), &rec)
		rec.Full = refStrings(full)
		if st == search.CreatedAsc && err != nil && pan == nil {
			r.Note("paging", "created-asc-refused") // refusals are C08's subject
			continue
		}
		if pan != nil || err != nil {
			r.Violation(p.fam+"full-query-fails/"+sortNames[st], fmt.Sprintf("%s [%s]: unlimited query failed: %v %v (constraint %s)", wid, m.name, err, pan, cj), rec)
			continue
		}
		// the full list must be totally ordered by (time desc, ref desc) / ref asc
		if eff == search.CreatedDesc || eff == search.LastModifiedDesc {
			key := w.anyTime
			if eff == search.LastModifiedDesc {
				key = w.modtime
			}
			for i := 1; i < len(full); i++ {
				ta, _ := key(full[i-1])
				tb, _ := key(full[i])
				if tb.After(ta) || (tb.Equal(ta) && !(full[i].String() < full[i-1].String())) {
					rec.Times = w.timesOf(full, eff)
					r.Violation(p.fam+"full-order/"+sortNames[st], fmt.Sprintf("%s [%s]: the unlimited %s result is not ordered by (time desc, blobref desc) at position %d (constraint %s)", wid, m.name, sortNames[st], i, cj), rec)
					break
				}
			}
		}
		n := len(full)
		limits := map[int]bool{1: true, 2: true, 3: true, 5: true, n - 1: true, n: true, n + 1: true}
		if p.light {
			limits = map[int]bool{1: true, 2: true, n - 1: true}
		}
		var ls []int
		for l := range limits {
			if l >= 1 {
				ls = append(ls, l)
			}
		}
		sort.Ints(ls)
		switch eff {
		case search.CreatedDesc, search.LastModifiedDesc:
			if st == search.UnspecifiedSort {
				r.Note("paging", "default-sort")
			}
			for _, lim := range ls {
				p.checkContinue(st, lim, full)
			}
			if families && n >= 2 && p.expr == "" {
				// one constraint value for: a scroll, a second scroll with another page size, around
				// queries, a third scroll
				sp := *p
				sp.shared, sp.fam = cloneC(p.c), "reused-constraint/"
				sp.checkContinue(st, 2, full)
				sp.checkContinue(st, 3, full)
				sp.checkAround(st, 3, full[0], full)
				sp.checkAround(st, 2, full[n/2], full)
				sp.checkContinue(st, 1, full)
				r.Note("paging", "constraint-value-reused-across-scrolls")
				p.checkCancelled(st, full)
			}
		default:
			// sorts without continuation: no token, or a token chain that is exact all the same
			for _, lim := range []int{1, 2, n} {
				if lim >= 1 {
					p.checkContinue(st, lim, full)
				}
			}
		}
		// around
		pivots := append([]blob.Ref(nil), w.pns...)
		pivots = append(pivots, w.allRefs[0], blob.RefFromString("verif: no such blob"))
		step := 3
		if p.light || st == search.UnspecifiedSort {
			step = 7
		}
		if len(pivots) > 24 || step > 3 {
			// all matching-boundary pivots plus a sample
			keep := pivots[:0]
			for i, pv := range pivots {
				if i%step == 0 || i >= len(pivots)-2 {
					keep = append(keep, pv)
				}
			}
			pivots = keep
		}
		alims := []int{1, 2, 3, 4, 7}
		if p.light {
			alims = []int{1, 3}
		}
		for _, lim := range alims {
			for _, pv := range pivots {
				p.checkAround(st, lim, pv, full)
			}
		}
		// limit >= the number of results: the window is everything
		for i, pv := range pivots {
			if i < 4 && n >= 1 {
				p.checkAround(st, n, pv, full)
				p.checkAround(st, n+1, pv, full)
			}
		}
	}
}

func (p *pager) checkContinue(st search.SortType, lim int, full []blob.Ref) {
	r, w, wid, m, cj := p.r, p.w, p.wid, p.m, p.cj
	eff := effSort(st)
	continuable := eff == search.CreatedDesc || eff == search.LastModifiedDesc
	n := len(full)
	maxPages := (n+lim-1)/lim + 2
	if p.cancelKind != "" {
		maxPages += 2 // a page cut short by the cancellation may carry a token all the same
	}
	var got []blob.Ref
	rec := pageRec{CaseID: wid, Constraint: cj, Sort: sortNames[st], Limit: lim, Mode: m.name, Full: refStrings(full)}
	cont := ""
	pages := 0
	terminated := false
	for pages < maxPages {
		kind := ""
		if p.cancelKind != "" && pages+1 == p.cancelPage {
			kind = p.cancelKind
			rec.Cancelled = fmt.Sprintf("page %d: caller context %s", pages+1, kind)
		}
		refs, next, err, pan := p.runKind(p.query(st, lim, cont, blob.Ref{}), &rec, kind)
		if kind != "" && pan == nil {
			if err != nil {
				// an error is a fine answer to a caller whose context ended; the client asks again
				r.Note("cancelled_context", kind+"/scroll/error-then-retried")
				refs, next, err, pan = p.run(p.query(st, lim, cont, blob.Ref{}), &rec)
			} else {
				r.Note("cancelled_context", kind+"/scroll/answered")
				if n > lim*(pages+1) {
					r.Note("cancelled_context", kind+"/scroll/answered-with-more-results-to-come")
				}
			}
		}
		pages++
		noteToken(r, next)
		if err != nil || pan != nil {
			r.Violation(p.fam+"page-query-fails/"+sortNames[st], fmt.Sprintf("%s [%s]: page %d failed: %v %v", wid, m.name, pages, err, pan), rec)
			return
		}
		rec.Pages = append(rec.Pages, refStrings(refs))
		rec.Tokens = append(rec.Tokens, next)
		got = append(got, refs...)
		if len(refs) > lim {
			r.Violation(p.fam+"page-over-limit/"+sortNames[st], fmt.Sprintf("%s [%s]: page %d has %d entries for limit %d", wid, m.name, pages, len(refs), lim), rec)
			return
		}
		if next == "" {
			terminated = true
			break
		}
		cont = next
	}
	r.Distinct(fmt.Sprintf("%s%s/%s/%d/%d/%s", p.fam, wid, cj, st, lim, m.name))
	if !continuable {
		// A sort without continuation: either no token is issued (then page 1 must be a correct
		// first page), or the chain it starts is judged like any other.
		if pages == 1 && terminated {
			r.Note("paging", "no-token-for-"+sortNames[st])
			if want := min(n, lim); len(got) != want {
				r.Violation(p.fam+"first-page-size/"+sortNames[st], fmt.Sprintf("%s [%s]: the only page has %d results, want %d (limit %d, %d results in all, constraint %s)", wid, m.name, len(got), want, lim, n, cj), rec)
				return
			}
			if st == search.BlobRefAsc {
				for i := range got {
					if got[i] != full[i] {
						r.Violation(p.fam+"page-order/"+sortNames[st], fmt.Sprintf("%s [%s]: page 1 differs from the unlimited result at position %d (limit %d, constraint %s)", wid, m.name, i, lim, cj), rec)
						return
					}
				}
			}
			return
		}
		r.Note("paging", "token-for-"+sortNames[st])
	}
	switch {
	case n > lim && n%lim == 0:
		r.Note("paging", "exact-multiple")
		r.Note("paging", "multi-page")
	case n > lim:
		r.Note("paging", "multi-page")
	case lim > n:
		r.Note("paging", "limit-beyond-end")
		r.Note("paging", "single-page")
	default:
		r.Note("paging", "single-page")
	}
	feature := timeFeature(w, full, eff)
	rec.Times = w.timesOf(full, eff)
	if continuable && pages > 1 {
		// which kinds of tied runs did a page boundary fall into?
		key := w.anyTime
		if eff == search.LastModifiedDesc {
			key = w.modtime
		}
		typedC := p.c != nil && impliesNodeType(p.c)
		for b := lim; b < n; b += lim {
			ta, _ := key(full[b-1])
			tb, _ := key(full[b])
			if !fitsInt64Nanos(ta) && ta.Nanosecond() != 0 {
				// a page ends on an instant outside 1678..2262 that has a sub-second part
				side := "after-2262"
				if ta.Before(unixEpoch) {
					side = "before-1678"
				}
				switch d := ta.Sub(tb); {
				case d == 0:
					r.Note("paging", "page-end-outside-1678-2262-with-sub-second-part/"+side+"/next-result-tied")
				case d <= 2*time.Duration(ta.Nanosecond()):
					r.Note("paging", "page-end-outside-1678-2262-with-sub-second-part/"+side+"/next-result-within-twice-the-fraction")
				}
			}
			if !ta.Equal(tb) {
				continue
			}
			r.Note("paging", "boundary-inside-tied-run")
			if eff == search.CreatedDesc {
				// the whole run of this instant: was it written in more than one zone notation?
				zones := map[string]bool{}
				for i := b; i < n; i++ {
					if t, _ := key(full[i]); !t.Equal(ta) {
						break
					}
					zones[w.anyZone(full[i])] = true
				}
				for i := b - 1; i >= 0; i-- {
					if t, _ := key(full[i]); !t.Equal(ta) {
						break
					}
					zones[w.anyZone(full[i])] = true
				}
				if len(zones) > 1 {
					r.Note("paging", "boundary-inside-tied-run-across-zone-notations")
				}
				if typedC {
					r.Note("paging", "nodetype-constraint/"+sortNames[st]+"/boundary-inside-tied-run")
				}
			}
		}
	}
	if n > lim && lim > 1 && pages > 2 && p.fam == "" {
		r.Sample(map[string]any{"world": wid, "constraint": json.RawMessage(cj), "sort": sortNames[st], "limit": lim, "mode": m.name, "pages": rec.Pages, "continue_tokens": rec.Tokens, "time_feature": feature})
	}
	// results whose time lies outside 1678..2262 get a signature class of their own, up front
	sig := func(class string) string {
		if feature == farFeature {
			return "continue-token-time-outside-1678-2262/" + p.fam + class + "/" + sortNames[st]
		}
		return p.fam + class + "/" + sortNames[st] + "/" + feature
	}
	if !terminated {
		r.Violation(sig("no-termination"), fmt.Sprintf("%s [%s]: after %d pages (bound for %d results at limit %d) the server still returns a continue token; %d results collected (constraint %s)", wid, m.name, pages, n, lim, len(got), cj), rec)
		return
	}
	// exactly-once, in order
	feature = divergenceFeature(w, full, got, eff, feature)
	if len(got) != len(full) {
		seen := map[blob.Ref]int{}
		for _, b := range got {
			seen[b]++
		}
		class := "skip"
		for _, k := range seen {
			if k > 1 {
				class = "repeat"
			}
		}
		r.Violation(sig(class), fmt.Sprintf("%s [%s]: following continue tokens at limit %d yields %d results in %d pages, the unlimited result has %d (constraint %s)", wid, m.name, lim, len(got), pages, n, cj), rec)
		return
	}
	if st == search.CreatedAsc {
		// ties are free in this order: exactly-once as a set
		seen := map[blob.Ref]bool{}
		for _, b := range got {
			seen[b] = true
		}
		for _, b := range full {
			if !seen[b] {
				r.Violation(sig("skip"), fmt.Sprintf("%s [%s]: %v is never returned while paging at limit %d (constraint %s)", wid, m.name, b, lim, cj), rec)
				return
			}
		}
		return
	}
	for i := range got {
		if got[i] != full[i] {
			r.Violation(sig("page-order"), fmt.Sprintf("%s [%s]: paged result differs from the unlimited one at position %d (limit %d, constraint %s)", wid, m.name, i, lim, cj), rec)
			return
		}
	}
}

// impliesNodeType: the constraint pins a camliNodeType value (syntactically: such a permanode
// constraint, or an "and" with such a side) — evidence only.
func impliesNodeType(c *search.Constraint) bool {
	if c == nil {
		return false
	}
	if pc := c.Permanode; pc != nil && pc.Attr == "camliNodeType" && pc.Value != "" {
		return true
	}
	if l := c.Logical; l != nil && l.Op == "and" {
		return impliesNodeType(l.A) || impliesNodeType(l.B)
	}
	return false
}

// divergenceFeature refines timeFeature for a paged sequence that differs from the full list: if the
// first difference lies in a run of results with equal creation instants that were written in more
// than one zone notation, the class is "tie-across-zone-notations".
func divergenceFeature(w *sworld, full, got []blob.Ref, st search.SortType, whole string) string {
	if st != search.CreatedDesc || whole == "pre1970" || whole == farFeature {
		return whole
	}
	i := 0
	for i < len(full) && i < len(got) && full[i] == got[i] {
		i++
	}
	if i >= len(full) {
		i = len(full) - 1
	}
	if i < 0 {
		return whole
	}
	ti, _ := w.anyTime(full[i])
	zones := map[string]bool{}
	for j := i; j < len(full); j++ {
		if t, _ := w.anyTime(full[j]); !t.Equal(ti) {
			break
		}
		zones[w.anyZone(full[j])] = true
	}
	for j := i - 1; j >= 0; j-- {
		if t, _ := w.anyTime(full[j]); !t.Equal(ti) {
			break
		}
		zones[w.anyZone(full[j])] = true
	}
	if len(zones) > 1 {
		return "tie-across-zone-notations"
	}
	return whole
}

// farFeature: some result's time is not representable as an int64 of nanoseconds since 1970.
const farFeature = "outside-1678-2262"

// timeFeature classifies the times of the result list for signatures.
func timeFeature(w *sworld, full []blob.Ref, st search.SortType) string {
	key := w.anyTime
	if st == search.LastModifiedDesc {
		key = w.modtime
	}
	pre, tie := false, false
	seen := map[int64]bool{}
	for _, b := range full {
		t, _ := key(b)
		if !fitsInt64Nanos(t) {
			return farFeature
		}
		if t.UTC().Year() < 1970 {
			pre = true
		}
		if seen[t.UnixNano()] {
			tie = true
		}
		seen[t.UnixNano()] = true
	}
	switch {
	case pre:
		return "pre1970"
	case tie:
		return "tie"
	}
	return "distinct"
}

func (p *pager) checkAround(st search.SortType, lim int, pivot blob.Ref, full []blob.Ref) {
	r, wid, m, cj := p.r, p.wid, p.m, p.cj
	rec := pageRec{CaseID: wid, Constraint: cj, Sort: sortNames[st], Limit: lim, Mode: m.name, Around: pivot.String(), Full: refStrings(full)}
	if p.cancelKind != "" {
		rec.Cancelled = "caller context " + p.cancelKind
	}
	refs, _, err, pan := p.runKind(p.query(st, lim, "", pivot), &rec, p.cancelKind)
	rec.Window = refStrings(refs)
	if p.cancelKind != "" && pan == nil {
		if err != nil {
			r.Note("cancelled_context", p.cancelKind+"/around/error")
			return
		}
		r.Note("cancelled_context", p.cancelKind+"/around/answered")
	}
	if pan != nil {
		r.Violation(p.fam+"around-query-panics/"+sortNames[st], fmt.Sprintf("%s [%s]: around query panicked: %v (pivot %v, limit %d, %d results in all, constraint %s)", wid, m.name, pan, pivot, lim, len(full), cj), rec)
		return
	}
	if err != nil {
		r.Violation(p.fam+"around-query-fails/"+sortNames[st], fmt.Sprintf("%s [%s]: around query failed: %v (pivot %v, limit %d, constraint %s)", wid, m.name, err, pivot, lim, cj), rec)
		return
	}
	pos := -1
	for i, b := range full {
		if b == pivot {
			pos = i
		}
	}
	r.Distinct(fmt.Sprintf("%s%s/%s/%d/%d/%s/%s", p.fam, wid, cj, st, lim, m.name, pivot))
	if pos < 0 {
		r.Note("around", "pivot-does-not-match")
		if len(refs) != 0 {
			r.Violation(p.fam+"around-nonmatching-pivot/"+sortNames[st], fmt.Sprintf("%s [%s]: pivot %v is not in the full result but the around query returned %d results (limit %d, constraint %s)", wid, m.name, pivot, len(refs), lim, cj), rec)
		}
		return
	}
	r.Note("around", "pivot-matches")
	if len(refs) == 0 {
		r.Violation(p.fam+"around-empty/"+sortNames[st], fmt.Sprintf("%s [%s]: pivot %v is at position %d of the full result but the around query is empty (limit %d, constraint %s)", wid, m.name, pivot, pos, lim, cj), rec)
		return
	}
	if len(refs) > lim {
		r.Violation(p.fam+"around-over-limit/"+sortNames[st], fmt.Sprintf("%s [%s]: around query returned %d results for limit %d", wid, m.name, len(refs), lim), rec)
		return
	}
	if st == search.CreatedAsc {
		// ascending by time with ties in free order: the window is judged by time, not by position
		p.judgeAroundByTime(rec, lim, pivot, pos, refs, full)
		return
	}
	if st == search.Unsorted {
		// no order at all: distinct members of the full result, the pivot among them
		r.Note("around", "unsorted-window")
		seen := map[blob.Ref]bool{}
		inFull := map[blob.Ref]bool{}
		for _, b := range full {
			inFull[b] = true
		}
		for _, b := range refs {
			if seen[b] || !inFull[b] {
				r.Violation(p.fam+"around-not-contiguous/unsorted", fmt.Sprintf("%s [%s]: the around window (pivot %v, limit %d) has an entry that is repeated or not in the full result: %v (constraint %s)", wid, m.name, pivot, lim, b, cj), rec)
				return
			}
			seen[b] = true
		}
		if !seen[pivot] {
			r.Violation(p.fam+"around-misses-pivot/unsorted", fmt.Sprintf("%s [%s]: the around window does not contain the pivot %v (limit %d, constraint %s)", wid, m.name, pivot, lim, cj), rec)
		}
		return
	}
	// contiguous window of full containing the pivot
	start := -1
	for i, b := range full {
		if b == refs[0] {
			start = i
			break
		}
	}
	ok := start >= 0 && start+len(refs) <= len(full)
	if ok {
		for i := range refs {
			if full[start+i] != refs[i] {
				ok = false
				break
			}
		}
	}
	if !ok {
		r.Violation(p.fam+"around-not-contiguous/"+sortNames[st], fmt.Sprintf("%s [%s]: the around window (pivot %v, limit %d) is not a contiguous run of the full ordered result (constraint %s)", wid, m.name, pivot, lim, cj), rec)
		return
	}
	if pos < start || pos >= start+len(refs) {
		r.Violation(p.fam+"around-misses-pivot/"+sortNames[st], fmt.Sprintf("%s [%s]: the around window [%d,%d) does not contain the pivot at position %d (limit %d, constraint %s)", wid, m.name, start, start+len(refs), pos, lim, cj), rec)
		return
	}
	if start > 0 && start+len(refs) < len(full) {
		r.Note("around", "window-cut-both-sides")
	}
	if lim >= len(full) {
		r.Note("around", "limit-covers-everything")
	}
	// a window shorter than the limit is only justified at the ends of the list
	if len(refs) < lim && len(refs) < len(full) && start > 0 && start+len(refs) < len(full) {
		r.Violation(p.fam+"around-short-window/"+sortNames[st], fmt.Sprintf("%s [%s]: the around window has %d entries although limit is %d and results exist on both sides (pivot at %d of %d)", wid, m.name, len(refs), lim, pos, len(full)), rec)
	}
}

// judgeAroundByTime: the around window under a sort whose ties are in free order (created
// ascending): distinct members of the full result, ascending by time, containing the pivot, and no
// result that lies strictly between the window's oldest and newest time is left out.
func (p *pager) judgeAroundByTime(rec pageRec, lim int, pivot blob.Ref, pos int, refs, full []blob.Ref) {
	r, w, wid, m, cj := p.r, p.w, p.wid, p.m, p.cj
	r.Note("around", "created-asc-window")
	inFull := map[blob.Ref]bool{}
	for _, b := range full {
		inFull[b] = true
	}
	inWin := map[blob.Ref]bool{}
	var tmin, tmax time.Time
	for i, b := range refs {
		t, _ := w.anyTime(b)
		if !inFull[b] || inWin[b] {
			r.Violation(p.fam+"around-not-contiguous/created", fmt.Sprintf("%s [%s]: the around window (pivot %v, limit %d) has an entry that is repeated or not in the full result: %v (constraint %s)", wid, m.name, pivot, lim, b, cj), rec)
			return
		}
		inWin[b] = true
		if i > 0 && t.Before(tmax) {
			r.Violation(p.fam+"around-not-contiguous/created", fmt.Sprintf("%s [%s]: the around window (pivot %v, limit %d) is not ascending by time at position %d (constraint %s)", wid, m.name, pivot, lim, i, cj), rec)
			return
		}
		if i == 0 {
			tmin = t
		}
		tmax = t
	}
	if !inWin[pivot] {
		r.Violation(p.fam+"around-misses-pivot/created", fmt.Sprintf("%s [%s]: the around window does not contain the pivot %v (limit %d, constraint %s)", wid, m.name, pivot, lim, cj), rec)
		return
	}
	for _, b := range full {
		if t, _ := w.anyTime(b); !inWin[b] && t.After(tmin) && t.Before(tmax) {
			r.Violation(p.fam+"around-not-contiguous/created", fmt.Sprintf("%s [%s]: the around window (pivot %v, limit %d) leaves out %v whose time lies strictly inside the window (constraint %s)", wid, m.name, pivot, lim, b, cj), rec)
			return
		}
	}
}
