package sw

import (
	"encoding/json"
	"fmt"
	"reflect"
	"time"

	"perkeep.org/pkg/blob"
	"perkeep.org/pkg/search"
)

// The caller's request must come back from Handler.Query as it went in: a caller that pages with
// one query value (changing only Limit/Continue/Around between calls, as the docs of
// SearchQuery.Continue prescribe: "only valid for the same query") would otherwise ask a
// different question on the next call.  Compared are the exported fields, recursively (also those
// that are not part of the JSON form); unexported fields are caches and are ignored.

var (
	timeType = reflect.TypeOf(time.Time{})
	refType  = reflect.TypeOf(blob.Ref{})
)

// snapshotQuery returns a deep copy of q (through its JSON form) and whether that copy is
// faithful, i.e. equal to q on all exported fields.
func snapshotQuery(q *search.SearchQuery) (*search.SearchQuery, bool) {
	b, err := json.Marshal(q)
	if err != nil {
		return nil, false
	}
	cp := new(search.SearchQuery)
	if err := json.Unmarshal(b, cp); err != nil {
		return nil, false
	}
	return cp, exportedDiff(reflect.ValueOf(cp), reflect.ValueOf(q), "query") == ""
}

// exportedDiff returns the path of the first exported field on which a and b differ, or "".
func exportedDiff(a, b reflect.Value, path string) string {
	if a.IsValid() != b.IsValid() {
		return path
	}
	if !a.IsValid() {
		return ""
	}
	if a.Type() != b.Type() {
		return path
	}
	t := a.Type()
	switch {
	case t == refType:
		if a.Interface().(blob.Ref) != b.Interface().(blob.Ref) {
			return path
		}
		return ""
	case t.ConvertibleTo(timeType) && t.Kind() == reflect.Struct:
		ta, tb := a.Convert(timeType).Interface().(time.Time), b.Convert(timeType).Interface().(time.Time)
		if !ta.Equal(tb) {
			return path
		}
		return ""
	}
	switch a.Kind() {
	case reflect.Ptr, reflect.Interface:
		if a.IsNil() != b.IsNil() {
			return path
		}
		if a.IsNil() {
			return ""
		}
		return exportedDiff(a.Elem(), b.Elem(), path)
	case reflect.Struct:
		for i := 0; i < t.NumField(); i++ {
			f := t.Field(i)
			if f.PkgPath != "" {
				continue // unexported: a cache
			}
			if d := exportedDiff(a.Field(i), b.Field(i), path+"."+f.Name); d != "" {
				return d
			}
		}
		return ""
	case reflect.Slice, reflect.Array:
		if a.Len() != b.Len() {
			return path
		}
		for i := 0; i < a.Len(); i++ {
			if d := exportedDiff(a.Index(i), b.Index(i), fmt.Sprintf("%s[%d]", path, i)); d != "" {
				return d
			}
		}
		return ""
	case reflect.Map:
		if a.Len() != b.Len() {
			return path
		}
		for _, k := range a.MapKeys() {
			if d := exportedDiff(a.MapIndex(k), b.MapIndex(k), fmt.Sprintf("%s[%v]", path, k)); d != "" {
				return d
			}
		}
		return ""
	case reflect.Func, reflect.Chan, reflect.UnsafePointer:
		return ""
	}
	if a.CanInterface() && b.CanInterface() && a.Type().Comparable() {
		if a.Interface() != b.Interface() {
			return path
		}
	}
	return ""
}
