package sw

import (
	"context"
	"fmt"
	"math/rand"
	"time"

	"perkeep.org/pkg/search"

	"verif.local/harness/ev"
)

// Special-time worlds of C08 (round 5).
//
// world-epoch<k>: the claim dates straddle 1970-01-01T00:00:00Z and some permanodes were created
// EXACTLY at the Unix epoch (or 1 ns / 1 s / 999 ms next to it): time and modTime constraints whose
// bounds fall exactly on those instants have candidates on both sides.
//
// world-far<k>: date attributes before 1678 and after 2262 (years 1, 1215, 1455, 2500, 9999 and the
// instants right at the ends of what an int64 of nanoseconds since 1970 can hold): the permanode's
// time is documented as that attribute's RFC 3339 instant, so every sort and every limit has to
// treat it as the instant it is.
//
// Both get the directed constraint list, the directed time constraints with bounds on the special
// instants, and random constraint trees (whose time constraints draw their bounds from the world's
// instants, the special ones included); every constraint is judged like in the ordinary worlds:
// both corpus modes x every sort x limits.

func runSpecialWorldsC08(r *ev.Run) {
	for k := 0; k < r.Pick(2, 6); k++ {
		runSpecialWorldC08(r, fmt.Sprintf("world-epoch%d;", k), fmt.Sprintf("ep%d", k), worldOpts{epoch: true}, 26+3*k, k%2 == 0)
	}
	for k := 0; k < r.Pick(1, 4); k++ {
		runSpecialWorldC08(r, fmt.Sprintf("world-far%d;", k), fmt.Sprintf("fd%d", k), worldOpts{far: true}, 36+4*k, false)
	}
	r.Require("world_features", "epoch/date-attr-at-or-next-to-unix-epoch", "epoch/camliContent-file-with-modtime-0",
		"created-time/exactly-unix-epoch", "created-time/exactly-unix-epoch-in-non-UTC-notation", "created-time/within-the-epoch-second",
		"created-time/pre-1970", "created-time/post-1970", "mod-time/pre-1970", "mod-time/post-1970",
		"far/date-attr-outside-1678-2262", "created-time/before-1678", "created-time/after-2262", "created-time/year-1-or-9999")
	r.Require("special_times", "time-constraint/after=unix-epoch/some-candidates-older", "time-constraint/after-within-epoch-second/some-candidates-older",
		"time-constraint/bound-outside-1678-2262", "sorted-source/result-has-time-outside-1678-2262", "sorted-source/limit-cuts-result-with-time-outside-1678-2262",
		"sorted-source/result-has-time-exactly-unix-epoch")
}

func runSpecialWorldC08(r *ev.Run, wid, label string, o worldOpts, nPN int, tied bool) {
	if !r.Only(wid) {
		return
	}
	var w *sworld
	if o.epoch {
		w = genEpochWorld(func() *rand.Rand { return r.Rand("special-world/" + label) }, label, nPN, tied)
	} else {
		w = genSearchWorldX(r.Rand("special-world/"+label), label, nPN, tied, false, o)
	}
	modes, err := buildModes(w)
	if err != nil {
		r.Inconclusive("cannot index world: " + err.Error())
		return
	}
	for _, b := range w.blobs {
		ref, f := b.Ref, w.files[b.Ref]
		if f == nil {
			continue
		}
		fi, err := modes[1].ix.GetFileInfo(context.Background(), ref)
		if err != nil {
			r.Inconclusive(fmt.Sprintf("file %v not indexed: %v", ref, err))
			continue
		}
		f.mime = fi.MIMEType
		w.mimes = append(w.mimes, fi.MIMEType)
	}
	g := &cgen{rng: r.Rand("constraints/" + label), w: w}
	var instants []time.Time
	if o.epoch {
		instants = []time.Time{unixEpoch, unixEpoch.Add(-time.Second), unixEpoch.Add(time.Second), unixEpoch.Add(1), unixEpoch.Add(-1),
			unixEpoch.Add(500 * time.Millisecond), unixEpoch.Add(999999999), unixEpoch.Add(-time.Hour), unixEpoch.Add(3700 * time.Second)}
	}
	if o.far {
		for _, v := range farDateValues {
			t, _ := time.Parse(time.RFC3339, v)
			instants = append(instants, t.UTC())
		}
		instants = append(instants, time.Date(1678, 1, 1, 0, 0, 0, 0, time.UTC), time.Date(2262, 1, 1, 0, 0, 0, 0, time.UTC), time.Date(2000, 1, 1, 0, 0, 0, 0, time.UTC))
	}
	cons := g.directedTimes(instants)
	cons = append(cons, g.directed()...)
	for n := len(cons) + r.Pick(150, 400); len(cons) < n; {
		cons = append(cons, g.tree(1+g.rng.Intn(4)))
	}
	for ci, c := range cons {
		noteSpecialTimeConstraint(r, w, c)
		checkConstraint(r, w, wid, ci, c, modes[:2], g)
	}
	r.Count("worlds", 1)
	r.Count("special_time_worlds", 1)
	r.Count("world_blobs", len(w.blobs))
	for k, n := range w.features {
		r.Count("feature:"+k, n)
		r.Note("world_features", k)
	}
}

// noteSpecialTimeConstraint: evidence about top-level permanode time constraints with special bounds.
func noteSpecialTimeConstraint(r *ev.Run, w *sworld, c *search.Constraint) {
	pc := c.Permanode
	if pc == nil {
		return
	}
	for _, x := range []struct {
		tc  *search.TimeConstraint
		key timeKey
	}{{pc.Time, w.anyTime}, {pc.ModTime, w.modtime}} {
		if x.tc == nil {
			continue
		}
		a, b := time.Time(x.tc.After), time.Time(x.tc.Before)
		older := false
		for _, pn := range w.pns {
			if t, ok := x.key(pn); ok && !a.IsZero() && t.Before(a) {
				older = true
			}
		}
		switch {
		case a.Equal(unixEpoch) && older:
			r.Note("special_times", "time-constraint/after=unix-epoch/some-candidates-older")
		case !a.IsZero() && a.Unix() == 0 && older:
			r.Note("special_times", "time-constraint/after-within-epoch-second/some-candidates-older")
		}
		if !a.IsZero() && !fitsInt64Nanos(a) || !b.IsZero() && !fitsInt64Nanos(b) {
			r.Note("special_times", "time-constraint/bound-outside-1678-2262")
		}
	}
}
