package sw

import (
	"context"
	"fmt"
	"time"

	"perkeep.org/pkg/blob"
	"perkeep.org/pkg/schema"
	"perkeep.org/pkg/search"

	"verif.local/harness/ev"
	"verif.local/harness/hw"
)

// Deep-tree worlds of C08 (round 6).
//
// world-deep<k>: next to the usual (shallow, randomly filled) directories the world holds one static
// directory CHAIN root/…/low of 4 to 6 directory levels.  The only "needle" file and the only
// "needle" directory of the world sit in the lowest directory; every level above it additionally
// holds a decoy file and a decoy side directory (with its own decoy file) that do NOT lead to the
// needle.  `dir recursiveContains X` is documented as "X matches at any depth below the directory":
// every level of the chain matches, none of the side directories does, however many levels lie in
// between.  Permanodes point at every level (camliContent, and a made-up "folder" attribute), so the
// same question is also asked through valueInSet, and through file/dir parentDir and dir contains.
// recursiveContains stays alone in its DirConstraint (DESIGN A.2); everything around it is free.

// deepTree: what genDeepTree built (chain[0] = lowest directory, chain[len-1] = root).
type deepTree struct {
	chain, sides         []blob.Ref
	needleFile           blob.Ref
	needleName, needleDN string
	sideFiles            []blob.Ref
}

// genDeepTree adds the chain to the world (no random draws: the tree is a function of label and levels).
func (w *sworld) genDeepTree(label string, levels int) []blob.Ref {
	dt := &deepTree{needleName: "needle-" + label + ".dat", needleDN: "needle-dir-" + label}
	file := func(name, body string) blob.Ref {
		fb, chunk := hw.FileOf(name, []byte(body), time.Time{})
		w.add(chunk, "")
		w.add(fb, "file")
		w.files[fb.Ref] = &sfile{name: name, size: len(body), whole: chunk.Ref}
		w.chunkOf[fb.Ref] = chunk.Ref
		w.names = append(w.names, name)
		return fb.Ref
	}
	dir := func(name string, kids ...blob.Ref) blob.Ref {
		db, ss := hw.DirOf(name, kids, time.Time{})
		w.add(ss, "static-set")
		w.add(db, "directory")
		w.dirs[db.Ref] = &sdir{name: name, children: kids}
		for _, k := range kids {
			w.parent[k] = append(w.parent[k], db.Ref)
		}
		w.names = append(w.names, name)
		return db.Ref
	}
	dt.needleFile = file(dt.needleName, "the needle of "+label)
	needleDir := dir(dt.needleDN, file("in-needle-dir.txt", "inside the needle directory of "+label))
	cur := dir("low-"+label, dt.needleFile, needleDir)
	dt.chain = append(dt.chain, cur)
	for lv := 1; lv < levels; lv++ {
		sf := file(fmt.Sprintf("side%d.txt", lv), fmt.Sprintf("decoy in the side directory of level %d of %s", lv, label))
		side := dir(fmt.Sprintf("side%d-%s", lv, label), sf)
		df := file(fmt.Sprintf("decoy%d.txt", lv), fmt.Sprintf("decoy at level %d of %s", lv, label))
		// the sub-directory that leads to the needle is neither the first nor always the last child
		kids := []blob.Ref{df, cur, side}
		if lv%2 == 0 {
			kids = []blob.Ref{side, df, cur}
		}
		cur = dir(fmt.Sprintf("level%d-%s", lv, label), kids...)
		dt.chain = append(dt.chain, cur)
		dt.sides = append(dt.sides, side)
		dt.sideFiles = append(dt.sideFiles, sf, df)
	}
	w.deep = dt
	w.features[fmt.Sprintf("deep-tree/%d-directory-levels-above-the-needle", levels)]++
	return append(append([]blob.Ref{}, dt.chain...), dt.sides...)
}

// linkDeepTree: permanodes whose camliContent / "folder" attribute names a level of the chain or a side directory.
func (w *sworld) linkDeepTree(claim func(kind string, pn blob.Ref, attr, val string) time.Time) {
	dt := w.deep
	targets := append(append([]blob.Ref{}, dt.chain...), dt.sides...)
	k := 0
	for i, pn := range w.pns {
		if i%7 == 6 || i%5 == 4 || k >= 2*len(targets) {
			continue
		}
		t := targets[k%len(targets)]
		if k < len(targets) {
			claim(hw.Set, pn, "camliContent", t.String())
			w.features["deep-tree/camliContent-names-a-level"]++
		} else {
			claim(hw.Add, pn, "folder", t.String())
			if k%3 == 0 {
				claim(hw.Add, pn, "folder", dt.sides[k%len(dt.sides)].String()) // a second value that does not lead to the needle
			}
			w.features["deep-tree/folder-attribute-names-a-level"]++
		}
		k++
	}
}

// directedDeep: the needle asked for in every documented form of a [recursive]contains sub-constraint
// (blobref prefix, file constraint, dir constraint, logical combination), directly and through the
// constraints that embed a DirConstraint.
func (g *cgen) directedDeep() []*search.Constraint {
	dt := g.w.deep
	eq := func(s string) *search.StringConstraint { return &search.StringConstraint{Equals: s} }
	fileNamed := func(n string) *search.Constraint {
		return &search.Constraint{File: &search.FileConstraint{FileName: eq(n)}}
	}
	dirNamed := func(n string) *search.Constraint {
		return &search.Constraint{Dir: &search.DirConstraint{FileName: eq(n)}}
	}
	and := func(a, b *search.Constraint) *search.Constraint {
		return &search.Constraint{Logical: &search.LogicalConstraint{Op: "and", A: a, B: b}}
	}
	or := func(a, b *search.Constraint) *search.Constraint {
		return &search.Constraint{Logical: &search.LogicalConstraint{Op: "or", A: a, B: b}}
	}
	not := func(a *search.Constraint) *search.Constraint {
		return &search.Constraint{Logical: &search.LogicalConstraint{Op: "not", A: a}}
	}
	rc := func(sub *search.Constraint) *search.DirConstraint { return &search.DirConstraint{RecursiveContains: sub} }
	nref := dt.needleFile.String()
	needles := []*search.Constraint{
		fileNamed(dt.needleName),
		{BlobRefPrefix: nref},
		{BlobRefPrefix: nref[:len("sha224-")+10]},
		dirNamed(dt.needleDN),
		{File: &search.FileConstraint{FileName: &search.StringConstraint{HasPrefix: "needle-"}, FileSize: &search.IntConstraint{Min: 1}}},
		and(fileNamed(dt.needleName), &search.Constraint{File: &search.FileConstraint{FileSize: &search.IntConstraint{Min: 1}}}),
		or(fileNamed(dt.needleName), fileNamed("no such file")),
		or(dirNamed(dt.needleDN), fileNamed("no such file")),
		// a directory that itself holds the needle directly, wanted at any depth
		{Dir: &search.DirConstraint{Contains: fileNamed(dt.needleName)}},
		{Dir: &search.DirConstraint{Contains: &search.Constraint{BlobRefPrefix: nref}}},
		// the file next to the needle directory's own content: one level further down still
		fileNamed("in-needle-dir.txt"),
		// decoys: present at every level but the lowest / in the side directories only
		fileNamed("side1.txt"),
		fileNamed(fmt.Sprintf("decoy%d.txt", len(dt.chain)-1)),
		dirNamed(g.w.dirs[dt.chain[1]].name),
	}
	var out []*search.Constraint
	for i, n := range needles {
		d := rc(n)
		out = append(out, &search.Constraint{Dir: d})
		// the files / directories that live in a directory below which the needle lies
		out = append(out,
			&search.Constraint{File: &search.FileConstraint{ParentDir: rc(n)}},
			&search.Constraint{Dir: &search.DirConstraint{ParentDir: rc(n)}},
			// the directories one of whose direct sub-directories has the needle somewhere below
			&search.Constraint{Dir: &search.DirConstraint{Contains: &search.Constraint{Dir: rc(n)}}},
			// the permanodes whose content / folder is a directory with the needle somewhere below
			&search.Constraint{Permanode: &search.PermanodeConstraint{Attr: "camliContent", ValueInSet: &search.Constraint{Dir: rc(n)}}},
			&search.Constraint{Permanode: &search.PermanodeConstraint{Attr: "folder", ValueInSet: &search.Constraint{Dir: rc(n)}}},
			&search.Constraint{Permanode: &search.PermanodeConstraint{Attr: "folder", ValueAll: true, ValueInSet: &search.Constraint{Dir: rc(n)}}})
		if i < 4 {
			out = append(out,
				not(&search.Constraint{Dir: rc(n)}),
				and(&search.Constraint{CamliType: schema.TypeDirectory}, not(&search.Constraint{Dir: rc(n)})),
				and(&search.Constraint{Dir: &search.DirConstraint{FileName: &search.StringConstraint{HasPrefix: "level"}}}, &search.Constraint{Dir: rc(n)}),
				or(&search.Constraint{Dir: rc(n)}, &search.Constraint{File: &search.FileConstraint{ParentDir: rc(n)}}),
				&search.Constraint{Dir: &search.DirConstraint{RecursiveContains: &search.Constraint{Dir: rc(n)}}},
				&search.Constraint{Permanode: &search.PermanodeConstraint{Attr: "camliContent", ValueInSet: &search.Constraint{Dir: &search.DirConstraint{ParentDir: rc(n)}}}},
				&search.Constraint{Permanode: &search.PermanodeConstraint{Attr: "camliContent", ValueInSet: &search.Constraint{Dir: &search.DirConstraint{ParentDir: &search.DirConstraint{ParentDir: rc(n)}}}}})
		}
	}
	// parentDir chains walking UP from the needle: the directory whose child's child's child is "low"
	up := &search.DirConstraint{FileName: eq(g.w.dirs[dt.chain[len(dt.chain)-1]].name)}
	for range dt.chain[1:] {
		out = append(out, &search.Constraint{Dir: &search.DirConstraint{ParentDir: up}}, &search.Constraint{File: &search.FileConstraint{ParentDir: up}})
		up = &search.DirConstraint{ParentDir: up}
	}
	return out
}

// noteDeep: evidence about how far below the candidate the nearest match of a top-level
// `dir recursiveContains` lies (over all directories of the world that match).
func noteDeep(r *ev.Run, w *sworld, c *search.Constraint) {
	if c.Dir == nil || c.Dir.RecursiveContains == nil {
		return
	}
	cc := c.Dir.RecursiveContains
	var depth func(d blob.Ref, lim int) int
	depth = func(d blob.Ref, lim int) int {
		if lim == 0 || w.dirs[d] == nil {
			return -1
		}
		for _, k := range w.dirs[d].children {
			if w.childMatches(cc, k) {
				return 1
			}
		}
		best := -1
		for _, k := range w.dirs[d].children {
			if x := depth(k, lim-1); x > 0 && (best < 0 || x+1 < best) {
				best = x + 1
			}
		}
		return best
	}
	for d := range w.dirs {
		if x := depth(d, 12); x >= 3 {
			r.Note("deep_trees", fmt.Sprintf("recursiveContains/nearest-match-%d-levels-below-the-candidate", min(x, 6)))
			r.Count("deep_recursive_candidates", 1)
		}
	}
}

func runDeepWorldsC08(r *ev.Run) {
	for k := 0; k < r.Pick(3, 6); k++ {
		wid, label := fmt.Sprintf("world-deep%d;", k), fmt.Sprintf("dp%d", k)
		if !r.Only(wid) {
			continue
		}
		levels := 4 + k%3 // 4, 5, 6 directory levels: the needle lies 4..6 levels below the root
		w := genSearchWorldX(r.Rand("deep-world/"+label), label, 14+2*k, false, false, worldOpts{deep: levels})
		modes, err := buildModes(w)
		if err != nil {
			r.Inconclusive("cannot index world: " + err.Error())
			continue
		}
		for _, b := range w.blobs {
			ref, f := b.Ref, w.files[b.Ref]
			if f == nil {
				continue
			}
			fi, err := modes[1].ix.GetFileInfo(context.Background(), ref)
			if err != nil {
				r.Inconclusive(fmt.Sprintf("file %v not indexed: %v", ref, err))
				continue
			}
			f.mime = fi.MIMEType
			w.mimes = append(w.mimes, fi.MIMEType)
		}
		g := &cgen{rng: r.Rand("constraints/" + label), w: w}
		cons := g.directedDeep()
		nDirected := len(cons)
		for n := len(cons) + r.Pick(60, 250); len(cons) < n; {
			// random trees, dir / file leaves preferred (their names and refs include the chain's)
			switch g.rng.Intn(3) {
			case 0:
				cons = append(cons, &search.Constraint{Dir: g.dirC(2)})
			case 1:
				cons = append(cons, g.fileLeaf(2))
			default:
				cons = append(cons, g.tree(1+g.rng.Intn(4)))
			}
		}
		for ci, c := range cons {
			noteDeep(r, w, c)
			checkConstraint(r, w, wid, ci, c, modes[:2], g)
			if ci < nDirected && c.Dir != nil && c.Dir.RecursiveContains != nil && c.Dir.ParentDir == nil {
				// the corpus-less implementation answers plain dir constraints too
				checkClassic(r, w, wid, ci, c, modes[2])
			}
		}
		r.Count("worlds", 1)
		r.Count("deep_tree_worlds", 1)
		r.Count("world_blobs", len(w.blobs))
		for k, n := range w.features {
			r.Count("feature:"+k, n)
			r.Note("world_features", k)
		}
	}
	r.Require("world_features", "deep-tree/4-directory-levels-above-the-needle", "deep-tree/5-directory-levels-above-the-needle", "deep-tree/6-directory-levels-above-the-needle",
		"deep-tree/camliContent-names-a-level", "deep-tree/folder-attribute-names-a-level")
	r.Require("deep_trees", "recursiveContains/nearest-match-3-levels-below-the-candidate", "recursiveContains/nearest-match-4-levels-below-the-candidate", "recursiveContains/nearest-match-5-levels-below-the-candidate")
}
