// Package inject provides fault-injecting, call-counting wrappers around the
// real perkeep interfaces (blobserver.Storage, sorted.KeyValue) that the
// checks place *below* the code under observation.
package inject

import (
	"context"
	"errors"
	"fmt"
	"io"
	"runtime"
	"sync"
	"time"

	"go4.org/jsonconfig"
	"perkeep.org/pkg/blob"
	"perkeep.org/pkg/blobserver"
	"perkeep.org/pkg/sorted"
)

// Mode is what happens to one lower-layer call.
type Mode int

const (
	Pass             Mode = iota
	Error                 // return an error, no effect
	ErrorAfterEffect      // perform the call, then report an error (lost ack)
	Freeze                // fail-stop: this and every later call fails with no effect
	Misreport             // (ReceiveBlob) perform, but return a wrong size
	Gate                  // block until Plan.Release(index) / ReleaseAll
	// Truncate is a failure that arrives after the call took effect in part:
	//   EnumerateBlobs: half of the entries are delivered, the channel is closed, then the error is returned;
	//   KV.Find: the iterator yields half of the rows, then stops and Close reports the error;
	//   Fetch / SubFetch: the call succeeds, the body fails after half of its bytes;
	//   StatBlobs: half of the refs are reported, then the error is returned;
	//   RemoveBlobs: half of the refs are removed, then the error is returned;
	//   every other call: as Error.
	Truncate
)

func (m Mode) String() string {
	names := [...]string{"pass", "error", "error-after-effect", "freeze", "misreport", "gate", "truncate"}
	if m < 0 || int(m) >= len(names) {
		return fmt.Sprintf("mode(%d)", int(m))
	}
	return names[m]
}

// failingBody serves data and then fails with err instead of io.EOF.
type failingBody struct {
	data []byte
	err  error
}

func (f *failingBody) Read(p []byte) (int, error) {
	if len(f.data) == 0 {
		return 0, f.err
	}
	n := copy(p, f.data)
	f.data = f.data[n:]
	return n, nil
}

func (f *failingBody) Close() error { return nil }

// halfBody replaces rc by a body that delivers the first half of rc's bytes and then fails.
func halfBody(rc io.ReadCloser) io.ReadCloser {
	b, err := io.ReadAll(rc)
	rc.Close()
	if err != nil {
		return &failingBody{err: err}
	}
	return &failingBody{data: b[:len(b)/2], err: ErrInjected}
}

// ErrInjected is the error injected calls return.
var ErrInjected = errors.New("verif: injected lower-layer failure")

// ErrFrozen is returned by every call of a frozen (crashed) incarnation.
var ErrFrozen = errors.New("verif: incarnation is frozen (simulated crash)")

// Call describes one lower-layer call.
type Call struct {
	Index int64  `json:"i"`
	Layer string `json:"layer"`
	Op    string `json:"op"`
	Arg   string `json:"arg,omitempty"`
	Write bool   `json:"write,omitempty"`
	Mode  string `json:"mode,omitempty"`
}

// Plan is a fault plan and call log shared by any number of wrappers, so that
// "the k-th lower-layer call" is well defined across layers.
type Plan struct {
	mu      sync.Mutex
	n       int64
	faults  map[int64]Mode
	frozen  bool
	log     []Call
	keepLog bool
	gates   map[int64]chan struct{}
	// Match, if set, restricts which calls are counted (and can be faulted).
	Match func(layer, op string) bool
	// After is called (outside the plan lock) after a write call completed
	// without fault — used for audits at every intermediate step.
	After func(c Call)
	// Yield, if set, is called before every call for schedule perturbation.
	Yield func(c Call)
	// Delivered records which planned faults were actually delivered.
	Delivered []Call
}

// NewPlan returns an empty plan that logs calls.
func NewPlan() *Plan {
	return &Plan{faults: map[int64]Mode{}, gates: map[int64]chan struct{}{}, keepLog: true}
}

// FaultAt plans mode m for call index k (0-based, counted over matching calls).
func (p *Plan) FaultAt(k int64, m Mode) *Plan {
	p.mu.Lock()
	p.faults[k] = m
	if m == Gate {
		p.gates[k] = make(chan struct{})
	}
	p.mu.Unlock()
	return p
}

// ClearFaults removes all planned faults and unfreezes nothing.
func (p *Plan) ClearFaults() {
	p.mu.Lock()
	p.faults = map[int64]Mode{}
	p.mu.Unlock()
}

// Calls returns the number of matching calls so far.
func (p *Plan) Calls() int64 {
	p.mu.Lock()
	defer p.mu.Unlock()
	return p.n
}

// Frozen reports whether the plan is in fail-stop state.
func (p *Plan) Frozen() bool {
	p.mu.Lock()
	defer p.mu.Unlock()
	return p.frozen
}

// FreezeNow puts the plan in fail-stop state.
func (p *Plan) FreezeNow() {
	p.mu.Lock()
	p.frozen = true
	p.mu.Unlock()
}

// Log returns a copy of the call log.
func (p *Plan) Log() []Call {
	p.mu.Lock()
	defer p.mu.Unlock()
	return append([]Call(nil), p.log...)
}

// ResetLog drops the call log (the counter continues).
func (p *Plan) ResetLog() {
	p.mu.Lock()
	p.log = nil
	p.mu.Unlock()
}

// Release opens the gate planned at index k.
func (p *Plan) Release(k int64) {
	p.mu.Lock()
	ch := p.gates[k]
	delete(p.gates, k)
	p.mu.Unlock()
	if ch != nil {
		close(ch)
	}
}

// ReleaseAll opens every gate.
func (p *Plan) ReleaseAll() {
	p.mu.Lock()
	gs := p.gates
	p.gates = map[int64]chan struct{}{}
	p.mu.Unlock()
	for _, ch := range gs {
		close(ch)
	}
}

// enter decides the fate of a call.  It returns the mode and the call record.
func (p *Plan) enter(layer, op, arg string, write bool) (Mode, Call) {
	if p == nil {
		return Pass, Call{}
	}
	p.mu.Lock()
	if p.Match != nil && !p.Match(layer, op) {
		fr := p.frozen
		p.mu.Unlock()
		if fr {
			return Freeze, Call{Index: -1, Layer: layer, Op: op, Arg: arg, Write: write}
		}
		return Pass, Call{Index: -1, Layer: layer, Op: op, Arg: arg, Write: write}
	}
	c := Call{Index: p.n, Layer: layer, Op: op, Arg: arg, Write: write}
	p.n++
	m := Pass
	if p.frozen {
		m = Freeze
	} else if fm, ok := p.faults[c.Index]; ok {
		m = fm
		if m == Freeze {
			p.frozen = true
		}
		c.Mode = m.String()
		p.Delivered = append(p.Delivered, c)
	}
	var gate chan struct{}
	if m == Gate {
		gate = p.gates[c.Index]
	}
	if p.keepLog && len(p.log) < 200000 {
		p.log = append(p.log, c)
	}
	y := p.Yield
	p.mu.Unlock()
	if y != nil {
		y(c)
	}
	if m == Gate {
		if gate != nil {
			<-gate
		}
		m = Pass
	}
	return m, c
}

func (p *Plan) after(c Call) {
	if p == nil || c.Index < 0 {
		return
	}
	if a := p.After; a != nil && c.Write {
		a(c)
	}
}

// ---------------------------------------------------------------- Storage

// Storage wraps a blobserver.Storage.  Stored(ref) events are appended to Events
// when the inner store has durably accepted a blob.
type Storage struct {
	Name  string
	Inner blobserver.Storage
	P     *Plan

	mu     sync.Mutex
	Events []StoreEvent
}

// StoreEvent is emitted when the inner store acknowledged a receive.
type StoreEvent struct {
	Ref  blob.Ref
	Size uint32
	Seq  int64
}

var evSeq struct {
	sync.Mutex
	n int64
}

func nextSeq() int64 {
	evSeq.Lock()
	defer evSeq.Unlock()
	evSeq.n++
	return evSeq.n
}

// Seq returns a fresh value of the global event sequence (for ordering events
// of wrappers against events recorded by a check).
func Seq() int64 { return nextSeq() }

// SubFetchStorage is a Storage whose inner store supports SubFetch.
type SubFetchStorage struct{ *Storage }

// Wrap wraps inner; the result implements blob.SubFetcher iff inner does.
func Wrap(name string, inner blobserver.Storage, p *Plan) blobserver.Storage {
	s := &Storage{Name: name, Inner: inner, P: p}
	if _, ok := inner.(blob.SubFetcher); ok {
		return &SubFetchStorage{s}
	}
	return s
}

// Base returns the *Storage behind a value returned by Wrap.
func Base(s blobserver.Storage) *Storage {
	switch v := s.(type) {
	case *Storage:
		return v
	case *SubFetchStorage:
		return v.Storage
	}
	return nil
}

func (s *SubFetchStorage) SubFetch(ctx context.Context, ref blob.Ref, offset, length int64) (io.ReadCloser, error) {
	m, c := s.P.enter(s.Name, "SubFetch", ref.String(), false)
	switch m {
	case Error:
		return nil, ErrInjected
	case Freeze:
		return nil, ErrFrozen
	}
	rc, err := s.Inner.(blob.SubFetcher).SubFetch(ctx, ref, offset, length)
	if m == Truncate && err == nil {
		return halfBody(rc), nil
	}
	if m == ErrorAfterEffect {
		if rc != nil {
			rc.Close()
		}
		return nil, ErrInjected
	}
	_ = c
	return rc, err
}

func (s *Storage) Fetch(ctx context.Context, ref blob.Ref) (io.ReadCloser, uint32, error) {
	m, _ := s.P.enter(s.Name, "Fetch", ref.String(), false)
	switch m {
	case Error:
		return nil, 0, ErrInjected
	case Freeze:
		return nil, 0, ErrFrozen
	}
	rc, size, err := s.Inner.Fetch(ctx, ref)
	if m == Truncate && err == nil {
		return halfBody(rc), size, nil
	}
	if m == ErrorAfterEffect {
		if rc != nil {
			rc.Close()
		}
		return nil, 0, ErrInjected
	}
	return rc, size, err
}

func (s *Storage) ReceiveBlob(ctx context.Context, br blob.Ref, src io.Reader) (blob.SizedRef, error) {
	m, c := s.P.enter(s.Name, "ReceiveBlob", br.String(), true)
	switch m {
	case Error, Truncate:
		io.Copy(io.Discard, src)
		return blob.SizedRef{}, ErrInjected
	case Freeze:
		return blob.SizedRef{}, ErrFrozen
	}
	sb, err := s.Inner.ReceiveBlob(ctx, br, src)
	if err == nil {
		s.mu.Lock()
		s.Events = append(s.Events, StoreEvent{Ref: sb.Ref, Size: sb.Size, Seq: nextSeq()})
		s.mu.Unlock()
	}
	switch m {
	case ErrorAfterEffect:
		return blob.SizedRef{}, ErrInjected
	case Misreport:
		if err == nil {
			sb.Size += 7
		}
		return sb, err
	}
	if err == nil {
		s.P.after(c)
	}
	return sb, err
}

func (s *Storage) StatBlobs(ctx context.Context, blobs []blob.Ref, fn func(blob.SizedRef) error) error {
	m, _ := s.P.enter(s.Name, "StatBlobs", fmt.Sprintf("%d refs", len(blobs)), false)
	switch m {
	case Error:
		return ErrInjected
	case Freeze:
		return ErrFrozen
	case Truncate:
		if err := s.Inner.StatBlobs(ctx, blobs[:len(blobs)/2], fn); err != nil {
			return err
		}
		return ErrInjected
	}
	err := s.Inner.StatBlobs(ctx, blobs, fn)
	if m == ErrorAfterEffect {
		return ErrInjected
	}
	return err
}

func (s *Storage) EnumerateBlobs(ctx context.Context, dest chan<- blob.SizedRef, after string, limit int) error {
	m, _ := s.P.enter(s.Name, "EnumerateBlobs", fmt.Sprintf("after=%q limit=%d", after, limit), false)
	switch m {
	case Error:
		close(dest)
		return ErrInjected
	case Freeze:
		close(dest)
		return ErrFrozen
	}
	if m == Truncate {
		// a scan that fails half way: part of the entries, close, then the error
		mid := make(chan blob.SizedRef)
		errc := make(chan error, 1)
		go func() { errc <- s.Inner.EnumerateBlobs(ctx, mid, after, limit) }()
		var all []blob.SizedRef
		for sb := range mid {
			all = append(all, sb)
		}
		if err := <-errc; err != nil {
			close(dest)
			return err
		}
		for _, sb := range all[:len(all)/2] {
			select {
			case dest <- sb:
			case <-ctx.Done():
				close(dest)
				return ctx.Err()
			}
		}
		close(dest)
		time.Sleep(2 * time.Millisecond)
		return ErrInjected
	}
	if m == ErrorAfterEffect {
		// deliver everything, close the channel, then report an error late
		err := s.Inner.EnumerateBlobs(ctx, dest, after, limit)
		if err != nil {
			return err
		}
		time.Sleep(2 * time.Millisecond)
		return ErrInjected
	}
	return s.Inner.EnumerateBlobs(ctx, dest, after, limit)
}

func (s *Storage) RemoveBlobs(ctx context.Context, blobs []blob.Ref) error {
	arg := fmt.Sprintf("%d refs", len(blobs))
	if len(blobs) == 1 {
		arg = blobs[0].String()
	}
	m, c := s.P.enter(s.Name, "RemoveBlobs", arg, true)
	switch m {
	case Error:
		return ErrInjected
	case Freeze:
		return ErrFrozen
	case Truncate:
		if err := s.Inner.RemoveBlobs(ctx, blobs[:len(blobs)/2]); err != nil {
			return err
		}
		return ErrInjected
	}
	err := s.Inner.RemoveBlobs(ctx, blobs)
	if m == ErrorAfterEffect {
		return ErrInjected
	}
	if err == nil {
		s.P.after(c)
	}
	return err
}

// StoredEvents returns a copy of the store events so far.
func (s *Storage) StoredEvents() []StoreEvent {
	s.mu.Lock()
	defer s.mu.Unlock()
	return append([]StoreEvent(nil), s.Events...)
}

// ---------------------------------------------------------------- KeyValue

// KV wraps a sorted.KeyValue.
type KV struct {
	Name  string
	Inner sorted.KeyValue
	P     *Plan
}

// WrapKV wraps inner.
func WrapKV(name string, inner sorted.KeyValue, p *Plan) *KV {
	return &KV{Name: name, Inner: inner, P: p}
}

func (k *KV) Get(key string) (string, error) {
	m, _ := k.P.enter(k.Name, "Get", key, false)
	switch m {
	case Error, ErrorAfterEffect, Truncate:
		return "", ErrInjected
	case Freeze:
		return "", ErrFrozen
	}
	return k.Inner.Get(key)
}

func (k *KV) Set(key, value string) error {
	m, c := k.P.enter(k.Name, "Set", key, true)
	switch m {
	case Error, Truncate:
		return ErrInjected
	case Freeze:
		return ErrFrozen
	}
	err := k.Inner.Set(key, value)
	if m == ErrorAfterEffect {
		return ErrInjected
	}
	if err == nil {
		k.P.after(c)
	}
	return err
}

func (k *KV) Delete(key string) error {
	m, c := k.P.enter(k.Name, "Delete", key, true)
	switch m {
	case Error, Truncate:
		return ErrInjected
	case Freeze:
		return ErrFrozen
	}
	err := k.Inner.Delete(key)
	if m == ErrorAfterEffect {
		return ErrInjected
	}
	if err == nil {
		k.P.after(c)
	}
	return err
}

func (k *KV) BeginBatch() sorted.BatchMutation { return k.Inner.BeginBatch() }

func (k *KV) CommitBatch(b sorted.BatchMutation) error {
	arg := ""
	if bm, ok := b.(interface{ Mutations() []sorted.Mutation }); ok {
		arg = fmt.Sprintf("%d mutations", len(bm.Mutations()))
	}
	m, c := k.P.enter(k.Name, "CommitBatch", arg, true)
	switch m {
	case Error, Truncate:
		return ErrInjected
	case Freeze:
		return ErrFrozen
	}
	err := k.Inner.CommitBatch(b)
	if m == ErrorAfterEffect {
		return ErrInjected
	}
	if err == nil {
		k.P.after(c)
	}
	return err
}

type errIter struct{ err error }

func (e errIter) Next() bool         { return false }
func (e errIter) Key() string        { return "" }
func (e errIter) KeyBytes() []byte   { return nil }
func (e errIter) Value() string      { return "" }
func (e errIter) ValueBytes() []byte { return nil }
func (e errIter) Close() error       { return e.err }

// halfIter yields the rows it was given and then fails at Close.
type halfIter struct {
	rows [][2]string
	i    int
}

func (h *halfIter) Next() bool {
	if h.i < len(h.rows) {
		h.i++
		return true
	}
	return false
}
func (h *halfIter) Key() string        { return h.rows[h.i-1][0] }
func (h *halfIter) KeyBytes() []byte   { return []byte(h.rows[h.i-1][0]) }
func (h *halfIter) Value() string      { return h.rows[h.i-1][1] }
func (h *halfIter) ValueBytes() []byte { return []byte(h.rows[h.i-1][1]) }
func (h *halfIter) Close() error       { return ErrInjected }

func (k *KV) Find(start, end string) sorted.Iterator {
	m, _ := k.P.enter(k.Name, "Find", start, false)
	switch m {
	case Error, ErrorAfterEffect:
		return errIter{ErrInjected}
	case Freeze:
		return errIter{ErrFrozen}
	case Truncate:
		// a scan that fails half way (at most the first 4096 rows are looked at)
		it := k.Inner.Find(start, end)
		var rows [][2]string
		for len(rows) < 4096 && it.Next() {
			rows = append(rows, [2]string{it.Key(), it.Value()})
		}
		if err := it.Close(); err != nil {
			return errIter{err}
		}
		return &halfIter{rows: rows[:len(rows)/2]}
	}
	return k.Inner.Find(start, end)
}

func (k *KV) Close() error { return nil } // the harness owns the inner KV's lifetime

// Wipe implements sorted.Wiper when the inner KV does.
func (k *KV) Wipe() error {
	if w, ok := k.Inner.(sorted.Wiper); ok {
		m, _ := k.P.enter(k.Name, "Wipe", "", true)
		switch m {
		case Error, Truncate:
			return ErrInjected
		case Freeze:
			return ErrFrozen
		}
		return w.Wipe()
	}
	return errors.New("verif KV: inner does not implement Wipe")
}

// ------------------------------------------------------ registry of live KVs

var (
	regMu sync.Mutex
	kvs   = map[string]sorted.KeyValue{}
)

// RegisterKV makes kv available to configs as {"type":"verif","name":name}.
func RegisterKV(name string, kv sorted.KeyValue) jsonconfig.Obj {
	regMu.Lock()
	kvs[name] = kv
	regMu.Unlock()
	return jsonconfig.Obj{"type": "verif", "name": name}
}

// UnregisterKV forgets name.
func UnregisterKV(name string) {
	regMu.Lock()
	delete(kvs, name)
	regMu.Unlock()
}

func init() {
	sorted.RegisterKeyValue("verif", func(cfg jsonconfig.Obj) (sorted.KeyValue, error) {
		name := cfg.RequiredString("name")
		if err := cfg.Validate(); err != nil {
			return nil, err
		}
		regMu.Lock()
		kv := kvs[name]
		regMu.Unlock()
		if kv == nil {
			return nil, fmt.Errorf("verif KV %q not registered", name)
		}
		return kv, nil
	})
}

// Jitter returns a Yield function that perturbs the schedule deterministically
// from a seed: mostly Gosched, sometimes a short sleep.
func Jitter(seed int64) func(Call) {
	var mu sync.Mutex
	x := uint64(seed)*2862933555777941757 + 3037000493
	return func(Call) {
		mu.Lock()
		x ^= x << 13
		x ^= x >> 7
		x ^= x << 17
		v := x
		mu.Unlock()
		switch v % 8 {
		case 0, 1, 2:
			runtime.Gosched()
		case 3:
			time.Sleep(time.Duration(v>>8%200) * time.Microsecond)
		}
	}
}
